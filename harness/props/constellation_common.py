"""Shared by c01.py / c15.py / c16.py (constellations).

Python's role here (DESIGN.md section 5, C01/C15/C16):
  * drive the real modulator objects of pyphysim.modulators.fundamental,
  * RECORD what they emit as exact integers / rationals (symbol table: label -> integer lattice
    coordinate or ring index, obtained by undoing scale and phase offset, with an integrality check
    at 1e-9; scale^2 as an exact rational), and the outcome of modulate / demodulate calls,
  * hand the recordings to TLC (spec/modem/Trace_Constellation.tla) which judges them against the
    predicates of spec/modem/ConstellationOps.tla, and translate TLC's verdict lines,
  * run spec/modem/Constellation.tla (the reference machine) and collect the cases it emits.
No expected value is computed here.
"""
import json
import math
import os
import uuid
from concurrent.futures import ThreadPoolExecutor
from fractions import Fraction

import numpy as np

from .. import tlc

OPS = "modem/ConstellationOps.tla"
MODULE = "modem/Constellation.tla"
TRACE = "modem/Trace_Constellation.tla"
TOL = 1e-9
DEVS = ["SetPhaseOffsetDropsGray", "QamGrayIndexInverted", "QamAcceptsOne", "NoNormalisation", "ModulateWraps",
        "DetectRealOnly", "GrayTwice", "BerNotPerBit", "ModulateReusesBuffer", "AbsorbsTinyTerms",
        "BlockwiseRoundsDown", "CopyRebuildsNatural"]
INVARIANTS = ["TypeOK", "Rejects", "TableOK", "RoundTrip", "ModulateLaw", "EarlierResultsUnchanged", "CopyIsEqual", "MLLaw", "Lemmas"]
RADII = [0.5, 1.0, 3.0, 1e-6, 1e6]           # PSK sample radius numbers 1..5 (4, 5 only in grid rows: D = 8, float64 resolves the margin) (ConstellationOps: the radius does not matter)

QAM_ORDERS = [4 ** k for k in range(1, 7)]            # 4 .. 4096
PSK_ORDERS = [2 ** k for k in range(1, 11)]           # 2 .. 1024
PSK_ORDERS_C15 = [2 ** k for k in range(1, 13)]       # 2 .. 4096


def nthreads(default=8):
    """concurrent TLC processes started by this check (VERIF_PROCS caps it while developing)"""
    v = int(os.environ.get("VERIF_PROCS", "0") or 0)
    return max(1, min(default, v)) if v else default


# ------------------------------------------------------------------ real objects
def make(kind, M, phase=0.0):
    """construct the real modulator; raises whatever the constructor raises"""
    from pyphysim.modulators import fundamental as f
    if kind == "QAM":
        return f.QAM(M)
    if kind == "PSK":
        return f.PSK(M, phase) if phase != 0.0 else f.PSK(M)
    if kind == "QPSK":
        return f.QPSK()
    if kind == "BPSK":
        return f.BPSK()
    raise ValueError(kind)


def spec_kind(kind):
    return "PSK" if kind == "QPSK" else kind


def _rational(x, maxden):
    """exact rational within 1e-9 (relative) of the float x, or (closest, False)"""
    if not np.isfinite(x) or x <= 0:
        return [0, 1], False
    fr = Fraction(float(x)).limit_denominator(maxden)
    ok = abs(float(fr) - x) <= TOL * max(1.0, abs(x)) and fr > 0
    return [fr.numerator, fr.denominator], bool(ok)


class Table:
    """the recorded symbol table of a live object (label -> integer coordinate)"""

    def __init__(self, kind, M, symbols, phase):
        self.kind, self.M, self.phase = kind, M, float(phase)
        sym = np.asarray(symbols).astype(complex).ravel()
        self.n = sym.size
        self.unit = 1.0        # amplitude of one lattice unit / radius
        if kind == "PSK":
            r = np.abs(sym)
            r2 = float(np.mean(r ** 2)) if sym.size else float("nan")
            self.unit = math.sqrt(r2) if r2 > 0 and np.isfinite(r2) else float("nan")
            self.scale, sok = _rational(r2, 1000)
            self.scaleok = bool(sok and np.all(np.abs(r ** 2 - r2) <= TOL))
            c = (np.angle(sym) - self.phase) * M / (2 * np.pi)
            ci = np.round(c)
            self.tabok = bool(np.all(np.isfinite(c)) and np.all(np.abs(c - ci) <= TOL * np.maximum(1.0, np.abs(c))))
            self.coords = (ci.astype(np.int64) % M) if self.tabok else None
            self.tab = [int(v) for v in self.coords] if self.tabok else []
        else:
            parts = np.concatenate([np.abs(sym.real), np.abs(sym.imag)])
            big = parts.max() if parts.size and np.all(np.isfinite(parts)) else float("nan")
            pos = parts[parts > 1e-9 * big] if np.isfinite(big) and big > 0 else np.array([])
            self.unit = float(pos.min()) if pos.size else float("nan")
            self.scale, self.scaleok = _rational(self.unit ** 2 if np.isfinite(self.unit) else float("nan"), 100000)
            c = sym / self.unit if np.isfinite(self.unit) else np.full(sym.shape, np.nan + 0j)
            xr, yr = np.round(c.real), np.round(c.imag)
            self.tabok = bool(np.all(np.isfinite(c.real)) and np.all(np.isfinite(c.imag))
                              and np.all(np.abs(c.real - xr) <= TOL * np.maximum(1.0, np.abs(xr)))
                              and np.all(np.abs(c.imag - yr) <= TOL * np.maximum(1.0, np.abs(yr))))
            self.coords = np.stack([xr, yr], axis=1).astype(np.int64) if self.tabok else None
            self.tab = [[int(a), int(b)] for a, b in self.coords] if self.tabok else []
        # coordinate -> label, for looking up "the label the recorded table gives that point"
        self.lookup = {}
        if self.tabok:
            for i, c in enumerate(self.tab):
                self.lookup.setdefault(tuple(c) if isinstance(c, list) else c, i)

    def event(self, op, **extra):
        e = {"op": op, "tab": self.tab, "tabok": self.tabok, "scale": self.scale, "scaleok": self.scaleok}
        e.update(extra)
        return e

    # exact grid sample -> complex float (ConstellationOps.Metric: what the integers mean)
    def sample(self, a, b, d):
        a = np.asarray(a, dtype=float)
        b = np.asarray(b)
        if self.kind == "PSK":
            rad = np.asarray(RADII)[np.asarray(b, dtype=int) - 1] * self.unit
            return rad * np.exp(1j * (self.phase + 2 * np.pi * a / (self.M * d)))
        return self.unit * (a + 1j * np.asarray(b, dtype=float)) / d

    # emitted symbols -> integer coordinates (None when they are not points of the recorded geometry)
    def to_coords(self, out):
        z = np.asarray(out).astype(complex).ravel()
        if self.kind == "PSK":
            c = (np.angle(z) - self.phase) * self.M / (2 * np.pi)
            ci = np.round(c)
            ok = np.all(np.abs(c - ci) <= TOL * np.maximum(1.0, np.abs(c))) and np.all(np.abs(np.abs(z) - self.unit) <= TOL)
            return [int(v) % self.M for v in ci], bool(ok)
        c = z / self.unit
        xr, yr = np.round(c.real), np.round(c.imag)
        ok = np.all(np.abs(c.real - xr) <= TOL * np.maximum(1.0, np.abs(xr))) and \
            np.all(np.abs(c.imag - yr) <= TOL * np.maximum(1.0, np.abs(yr)))
        return [[int(a), int(b)] for a, b in zip(xr, yr)], bool(ok)


def outcome(fn):
    try:
        return "ok", fn()
    except Exception as ex:      # the outcome is data for TLC, not an error of the harness
        return "raised:" + type(ex).__name__, None


def demod_chunked(obj, z, chunk=1 << 15):
    """obj.demodulate on a 1-d array in chunks (the implementation broadcasts M x N)"""
    M = max(1, getattr(obj, "M", 1))
    step = max(16, chunk * 64 // max(64, M))
    return np.concatenate([np.asarray(obj.demodulate(z[i:i + step])).ravel() for i in range(0, len(z), step)]) \
        if len(z) else np.zeros(0, dtype=int)


# ------------------------------------------------------------------ memory layouts
def as_layout(x, how, fill=0):
    """the same logical array in another memory layout (the property speaks about arrays position by
    position; how the caller's array lies in memory must not matter): C, F (Fortran order), T (transposed
    view of a C array), strided (every second row of a larger array), lastaxis (every second element
    along the last axis), reversed (negative stride), 0d (0-d ndarray instead of a scalar)"""
    x = np.asarray(x)
    if x.ndim == 0 or how in ("C", "0d"):
        y = np.array(x, order="C")
    elif how == "F":
        y = np.asfortranarray(x)
    elif how == "T":
        y = np.ascontiguousarray(x.T).T
    elif how == "strided":
        big = np.full((2 * x.shape[0] + 1,) + x.shape[1:], fill, dtype=x.dtype)
        big[1::2] = x
        y = big[1::2]
    elif how == "lastaxis":
        big = np.full(x.shape[:-1] + (2 * x.shape[-1] + 1,), fill, dtype=x.dtype)
        big[..., 1::2] = x
        y = big[..., 1::2]
    elif how == "reversed":
        y = np.ascontiguousarray(x[::-1])[::-1]
    else:
        raise ValueError(how)
    assert y.shape == x.shape and np.array_equal(y, x)
    return y


def logical(out):
    """elements in row-major order of the LOGICAL index (position by position)"""
    return np.asarray(out).reshape(-1) if np.asarray(out).flags.c_contiguous else np.array(out, order="C").reshape(-1)


# ------------------------------------------------------------------ recording a history
# (shape, layout) of the arrays handed to modulate / demodulate
IDX_DTYPES = ["int64", "uint8", "int32", "uint16", "int8", "uint32", "int16", "uint64", "bool"]
SHAPES = [((), "C"), ((1,), "C"), ((7,), "C"), ((2, 3), "C"), ((2, 1, 4), "C"), ((0,), "C"), ((1, 1), "C"), ((3, 2, 2, 1), "F"),
          ((), "0d"), ((7,), "strided"), ((6,), "reversed"), ((3, 5), "F"), ((5, 3), "T"), ((4, 3), "strided"), ((3, 4), "lastaxis"),
          ((2, 3, 4), "F"), ((4, 3, 2), "T"), ((3, 2, 4), "lastaxis"), ((3, 3), "reversed")]


def record_history(spec):
    """Drive one real object through the history described by `spec` and record it as a trace for
    Trace_Constellation.  spec = dict(kind, M, phases=[phase at construction, phase of each later
    setPhaseOffset...], seed, d, nsamp, calls=bool).  Deterministic in spec."""
    kind, M = spec["kind"], spec["M"]
    sk = spec_kind(kind)
    rng = np.random.RandomState(spec.get("seed", 0) * 7919 + abs(M) * 13 + len(kind))
    d = spec.get("d", 8)
    trace = {"kind": sk, "m": M, "d": d, "events": [], "spec": spec}
    phases = spec.get("phases") or [0.0]
    ph0 = math.pi / 4 if kind == "QPSK" else phases[0]
    Mv = getattr(np, spec["mtype"])(M) if spec.get("mtype") else M      # the cardinality as a numpy integer scalar
    if spec.get("mfloat") is not None:
        Mv = spec["mfloat"]                                            # a non-integer cardinality: must be rejected
        trace["frac"] = True
    out, obj = outcome(lambda: make(kind, Mv, phases[0]))
    if out != "ok":
        trace["events"].append({"op": "construct", "out": out, "tab": [], "tabok": False, "scale": [0, 1], "scaleok": False, "kok": False})
        return trace, None
    Mi = int(getattr(obj, "M", 0))
    tb = Table(sk, M, obj.symbols, ph0)
    ev = tb.event("construct", out="ok")
    ev["kok"] = bool(Mi == M and M >= 1 and abs(float(getattr(obj, "K", -1)) - math.log2(M)) <= 1e-12)
    if Mi != M or len(tb.tab) != M:
        ev["tabok"] = False
    trace["events"].append(ev)
    tables = [tb]

    def identical(x, snap):
        return isinstance(x, np.ndarray) and x.shape == snap.shape and x.dtype == snap.dtype and np.array_equal(x, snap)

    def invoke(fn, *args):
        """the call discipline around every public call: arguments are inputs only, a rejected call changes nothing"""
        snaps = [(a_, np.array(a_, copy=True)) for a_ in args if isinstance(a_, np.ndarray)]
        sym = np.array(obj.symbols, copy=True)
        o, res = outcome(lambda: fn(*args))
        argsok = all(identical(a_, sn) for a_, sn in snaps)
        frameok = o == "ok" or identical(np.asarray(obj.symbols), sym)
        return o, res, bool(argsok), bool(frameok)

    def calls(tb):
        if not tb.tabok or not spec.get("calls", True) or M < 1:
            return
        nsamp = spec.get("nsamp", 200)
        held = []          # (event number, result object, "mod" | "lab"): results the caller keeps by reference

        def keep(res, kind):
            if isinstance(res, np.ndarray) and res.size:
                held.append((len(trace["events"]), res, kind))

        def recheck():
            """results stay results: read every held result object again"""
            for k, res, kind in held:
                if kind == "mod":
                    now, okn = tb.to_coords(np.asarray(res).reshape(-1))
                else:
                    now, okn = [int(v) for v in np.asarray(res).reshape(-1)], True
                trace["events"].append({"op": "recheck", "of": k, "now": now, "nowok": bool(okn)})

        def typed(idx, k):
            """the index array stored in the k-th integer type (rotating) that can hold its values"""
            top = int(np.max(idx)) if np.size(idx) else 0
            # (a bool array is an index array only for BPSK's arithmetic mapping; for table look-up numpy reads it as a mask)
            cands = [t_ for t_ in IDX_DTYPES if ((top <= 1 and sk == "BPSK") if t_ == "bool" else top <= np.iinfo(getattr(np, t_)).max)]
            t_ = cands[k % len(cands)]
            return np.asarray(idx).astype(bool if t_ == "bool" else getattr(np, t_)), t_

        def mod_event(idx, lay, arg=None, k=0):
            dt = "pyint"
            if arg is None:
                idx_t, dt = typed(idx, k)
                arg = as_layout(idx_t, lay)
            o, res, argsok, frameok = invoke(obj.modulate, arg)
            shp = np.shape(idx)
            e = {"op": "mod", "idx": [int(v) for v in np.asarray(idx).reshape(-1)], "out": o, "pts": [], "ptsok": False, "shapeok": False,
                 "shape": list(shp), "layout": lay, "argsok": argsok, "frameok": frameok, "ownok": True, "dt": dt}
            if o == "ok":
                e["pts"], e["ptsok"] = tb.to_coords(np.asarray(res).reshape(-1))
                e["shapeok"] = tuple(np.shape(res)) == tuple(shp)
                e["ownok"] = not (isinstance(res, np.ndarray) and np.shares_memory(res, obj.symbols))
            trace["events"].append(e)
            if o == "ok":
                keep(res, "mod")
            return res

        def lab_event(op, fn, arg, n, shp, lay, **fields):
            o, res, argsok, frameok = invoke(fn, arg)
            e = dict({"op": op, "lab": [-2] * n, "shapeok": False, "shape": list(shp), "layout": lay, "argsok": argsok and frameok}, **fields)
            if o == "ok" and np.size(res) == n:
                e["lab"] = [int(v) for v in np.asarray(res).reshape(-1)]
                e["shapeok"] = tuple(np.shape(res)) == tuple(shp)
            trace["events"].append(e)
            if o == "ok" and np.size(res) == n:
                keep(res, "lab")
            return res

        # modulate: index arrays of several shapes AND memory layouts, some reaching M and beyond
        for si, (shp, lay) in enumerate(SHAPES):
            n = int(np.prod(shp))
            idx = np.asarray(rng.randint(0, M, size=shp))
            if si in (2, 4, 11) and n:
                flat = idx.reshape(-1)
                flat[rng.randint(0, n)] = M + (si // 4) * rng.randint(0, 3)     # M, or a little above
            mod_event(idx, lay, arg=int(idx) if shp == () and lay == "C" else None, k=si + spec.get("seed", 0))
        # two same-shape modulate calls, then the FIRST result (held by reference, not copied) is demodulated
        for shp in ((5,), (2, 3)):
            ia, ib = np.asarray(rng.randint(0, M, size=shp)), np.asarray(rng.randint(0, M, size=shp))
            ra = mod_event(ia, "C")
            mod_event(ib, "C")
            if isinstance(ra, np.ndarray) and ra.shape == tuple(shp):
                lab_event("roundtrip", obj.demodulate, ra, int(np.prod(shp)), shp, "C", idx=[int(v) for v in ia.reshape(-1)], dt="int64")
        # demodulate(modulate(idx)) for index arrays of any shape; the modulated array is handed over in
        # the given memory layout (a transposed / Fortran-ordered / strided received array is still the same array)
        for si, (shp, lay) in enumerate(SHAPES[1:]):
            idx = np.asarray(rng.randint(0, M, size=shp))
            idx_t, dt = typed(idx, si + 3 + spec.get("seed", 0))
            o, tx = outcome(lambda: np.asarray(obj.modulate(as_layout(idx_t, lay))).astype(complex))
            rx = as_layout(tx, lay, fill=7 + 7j) if o == "ok" and np.shape(tx) == tuple(shp) else np.zeros(shp, dtype=complex)
            lab_event("roundtrip", obj.demodulate, rx, int(np.prod(shp)), shp, lay, idx=[int(v) for v in idx.reshape(-1)], dt=dt)
        recheck()
        # all labels once (flat)
        allidx = np.arange(M) if M <= 1024 else rng.permutation(M)[:1024]
        o, res = outcome(lambda: demod_chunked(obj, np.asarray(obj.modulate(allidx)).astype(complex)))
        lab = [int(v) for v in res] if o == "ok" and len(res) == len(allidx) else [-2] * len(allidx)
        trace["events"].append({"op": "roundtrip", "idx": [int(v) for v in allidx], "lab": lab, "shapeok": o == "ok", "shape": [len(allidx)],
                                "argsok": True, "dt": "int64"})
        # demodulate noisy samples (python-chosen, on the exact grid): a transmitted point plus
        # Gaussian noise of about half the decision distance, and uniformly random samples
        for shp, lay in (((nsamp,), "C"), ((max(1, nsamp // 8), 2, 2), "C"), ((4, 6), "F"), ((6, 4), "T"), ((2, 3, 4), "F"),
                         ((4, 3, 2), "T"), ((5, 4), "strided"), ((3, 8), "lastaxis"), ((9,), "reversed"), ((), "0d")):
            n = int(np.prod(shp))
            lab_tx = rng.randint(0, M, size=n)
            if sk == "PSK":
                base = d * tb.coords[lab_tx]
                a = (base + np.round(rng.randn(n) * 0.45 * d).astype(np.int64)) % (M * d)
                uni = rng.rand(n) < 0.25
                a[uni] = rng.randint(0, M * d, size=int(uni.sum()))
                b = rng.randint(1, 4, size=n)
            else:
                base = d * tb.coords[lab_tx]
                a = base[:, 0] + np.round(rng.randn(n) * 0.9 * d).astype(np.int64)
                b = base[:, 1] + np.round(rng.randn(n) * 0.9 * d).astype(np.int64)
                if sk == "BPSK":
                    b = np.round(rng.randn(n) * 2 * d).astype(np.int64)
            z = as_layout(np.asarray(tb.sample(a, b, d), dtype=complex).reshape(shp), lay, fill=7 + 7j)
            lab_event("demod", obj.demodulate, z, n, shp, lay, a=[int(v) for v in a], b=[int(v) for v in b])
        recheck()

    def copies(tb, ph):
        """frame law: a pickled / copied / deep-copied object is the same modulator (same table, scale, M, K)"""
        import copy
        import pickle
        made = {}
        for how, fn in (("pickle", lambda: pickle.loads(pickle.dumps(obj))), ("copy.copy", lambda: copy.copy(obj)),
                        ("copy.deepcopy", lambda: copy.deepcopy(obj))):
            o, cp = outcome(fn)
            e = {"op": "copy", "how": how, "out": o, "tab": [], "tabok": False, "scale": [0, 1], "scaleok": False, "mok": False}
            if o == "ok":
                o2, tc = outcome(lambda: Table(sk, M, cp.symbols, ph))
                if o2 == "ok":
                    e.update(tab=tc.tab, tabok=tc.tabok and len(tc.tab) == M, scale=tc.scale, scaleok=tc.scaleok)
                    e["mok"] = bool(outcome(lambda: (cp.M, float(cp.K)) == (obj.M, float(obj.K)))[1])
                    made[how] = cp
            trace["events"].append(e)
        # the copy is used like the original: a round trip through the pickled object
        cp = made.get("pickle")
        if cp is not None and tb.tabok and spec.get("calls", True) and M >= 1:
            idx = np.asarray(rng.randint(0, M, size=(3, 4)))
            o, res = outcome(lambda: cp.demodulate(np.asarray(cp.modulate(idx)).astype(complex)))
            lab = [int(v) for v in np.asarray(res).reshape(-1)] if o == "ok" and np.size(res) == 12 else [-2] * 12
            trace["events"].append({"op": "roundtrip", "idx": [int(v) for v in idx.reshape(-1)], "lab": lab,
                                    "shapeok": o == "ok" and np.shape(res) == (3, 4), "shape": [3, 4], "argsok": True, "dt": "int64"})

    def emitted(tb):
        """what the modulator EMITS for every label, asked in every integer storage type of the index (arrays and
        numpy scalars): the emitted constellation must be the recorded table (the table C16 derives its parameters from)"""
        if not tb.tabok or not spec.get("emit") or M < 1:
            return
        labels = np.arange(M) if M <= 256 else np.concatenate([np.arange(128), rng.permutation(M)[:64], np.arange(M - 64, M)])
        for t_ in IDX_DTYPES:
            if t_ == "bool":
                if sk != "BPSK":
                    continue            # a bool array is a mask for table look-up
                arr = labels.astype(bool)
            elif M - 1 > np.iinfo(getattr(np, t_)).max:
                continue
            else:
                arr = labels.astype(getattr(np, t_))
            for form, arg, idxs in (("array", arr, labels), ("scalar", arr[-1], labels[-1:]), ("0-d array", np.array(arr[1 % len(arr)]), labels[1 % len(arr):1 % len(arr) + 1])):
                o, res, argsok, frameok = invoke(obj.modulate, arg)
                e = {"op": "mod", "idx": [int(v) for v in idxs], "out": o, "pts": [], "ptsok": False, "shapeok": False, "shape": list(np.shape(arg)),
                     "layout": form, "argsok": argsok, "frameok": frameok, "ownok": True, "dt": t_}
                if o == "ok":
                    o2, pc = outcome(lambda: tb.to_coords(np.asarray(res).reshape(-1)))
                    if o2 == "ok":
                        e["pts"], e["ptsok"] = pc
                    e["ptsok"] = bool(e["ptsok"] and len(e["pts"]) == len(e["idx"]))
                    if not e["ptsok"]:
                        e["pts"] = [0] * len(e["idx"]) if sk == "PSK" else [[0, 0]] * len(e["idx"])
                    e["shapeok"] = tuple(np.shape(res)) == tuple(np.shape(arg))
                trace["events"].append(e)

    copies(tb, ph0)
    emitted(tb)
    calls(tb)
    for ph in phases[1:]:
        o, _ = outcome(lambda: obj.setPhaseOffset(ph))
        tb = Table(sk, M, obj.symbols, ph)
        ev = tb.event("setoff", out=o)
        if o != "ok" or len(tb.tab) != M:
            ev["tabok"] = False
        trace["events"].append(ev)
        tables.append(tb)
        copies(tb, ph)
        emitted(tb)
        calls(tb)
    return trace, (obj, tables)


# ------------------------------------------------------------------ TLC: trace validation
def _strip(trace):
    return {"kind": trace["kind"], "m": trace["m"], "d": trace["d"], "frac": bool(trace.get("frac", False)),
            "events": [{k: v for k, v in e.items() if k not in ("shape", "layout")} for e in trace["events"]]}


def _cost(trace):
    m = max(1, trace["m"])
    c = 0
    for e in trace["events"]:
        if e["op"] in ("construct", "setoff"):
            c += 40 * m
        elif e["op"] == "demod":
            c += m * len(e["a"])
        else:
            c += len(e.get("idx", []))
    return c + 1000


def validate(ctx, traces, care, label, nparts=None):
    """Validate recorded traces with TLC.  Returns, per trace, the list of emitted event verdicts
    (dicts with ev, op, checked, mm, params) in event order.  Accounts the TLC runs in ctx."""
    tolerate = sorted(fid for fid, f in ctx.findings.items() if f.get("status") == "open")
    nparts = nparts or nthreads()
    order = sorted(range(len(traces)), key=lambda i: -_cost(traces[i]))
    if not traces:
        return []
    bins = [[] for _ in range(min(nparts, len(traces)))]
    load = [0] * len(bins)
    for i in order:
        j = load.index(min(load))
        bins[j].append(i)
        load[j] += _cost(traces[i])
    os.makedirs(tlc.WORK, exist_ok=True)
    cfg = tlc.cfg_text(constants={"Tolerate": tlc.tla(set(tolerate)), "Care": tlc.tla(set(care))},
                       invariants=["Conforms"], action_constraints=["Emit"])

    def one(ids):
        path = os.path.join(tlc.WORK, f"ctrace-{uuid.uuid4().hex[:10]}.json")
        with open(path, "w") as f:
            json.dump([_strip(traces[i]) for i in ids], f)
        try:
            return tlc.run(TRACE, cfg, env={"TRACE_FILE": path}, continue_=True, timeout=1800)
        finally:
            os.remove(path)

    with ThreadPoolExecutor(len(bins)) as ex:
        runs = list(ex.map(one, [b for b in bins]))
    res = [None] * len(traces)
    for ids, r in zip(bins, runs):
        per = {}
        for e in r.emitted:
            per.setdefault(e["tid"], {})[e["ev"]] = e
        bad = False
        for k, i in enumerate(ids):
            evs = per.get(k + 1, {})
            if len(evs) != len(traces[i]["events"]):
                raise tlc.TlcError(f"{label}: TLC judged {len(evs)} of {len(traces[i]['events'])} events of a trace "
                                   f"({traces[i]['kind']} M={traces[i]['m']})")
            res[i] = [evs[j + 1] for j in range(len(evs))]
            for e in res[i]:
                bad = bad or any(m["what"] in care and m["sig"] not in tolerate for m in e["mm"])
        if bool(r.violated) != bad:
            raise tlc.TlcError(f"{label}: TLC's verdict ({r.violated}) disagrees with the emitted mismatches ({bad})")
        ctx.account(r, TRACE, label, expect_violation=r.violated)
    return res


def report(ctx, trace, verdicts, care, prop_note=""):
    """turn TLC's verdict lines of one trace into ok counts / violations / known findings"""
    nbad = 0
    for e in verdicts:
        for m in e["mm"]:
            if m["what"] not in care:
                continue
            nbad += 1
            ev = trace["events"][e["ev"] - 1]
            what = (f"{trace['spec']['kind']}({trace['m']}) event {e['ev']} {e['op']}: {m['what']} fails "
                    f"(at {m['at']}, expected {m['exp']}, observed {m['got']}) {prop_note}")
            case = {"stage": "T", "spec": trace["spec"], "event": e["ev"], "mismatch": m,
                    "event_summary": {k: (v if not isinstance(v, list) or len(v) <= 16 else v[:16] + ["..."]) for k, v in ev.items()}}
            if m["sig"] != "none":
                ctx.finding(m["sig"], what, case)
            else:
                ctx.violation(what, case)
        ctx.ok(n=int(e["checked"]))
    return nbad


# ------------------------------------------------------------------ TLC: the reference machine
def machine_cfg(kind, cards, d=8, noff=0, smode="grid", nrows=1, rowlen=64, seed=0, dev=(), emit=True, inv=None,
                part=0, nparts=1, workers=1, exps=(0,)):
    dv = {k: (k in dev) for k in DEVS}
    defs = {"Dev": tlc.tla(dv), "Exps": tlc.tla(list(exps))}
    cfg = tlc.cfg_text(constants={"Kind": tlc.tla(kind), "Cards": tlc.tla(set(cards)), "D": str(d), "NOff": str(noff),
                                  "SMode": tlc.tla(smode), "NRows": str(nrows), "RowLen": str(rowlen),
                                  "Seed": str(seed), "Part": str(part), "NParts": str(nparts)},
                       defs=defs, invariants=INVARIANTS if inv is None else inv,
                       action_constraints=["Emit"] if emit else [])
    return cfg, defs


def run_machine(**kw):
    cfg, defs = machine_cfg(**kw)
    return tlc.run(MODULE, cfg, defs=defs, coverage=True, timeout=1800, workers=kw.get("workers", 1))


def run_many(jobs, fn=run_machine):
    """jobs: list of kwargs; several TLC processes at a time"""
    with ThreadPoolExecutor(nthreads()) as ex:
        return list(ex.map(lambda kw: fn(**kw), jobs))


def model_devs(ctx, wanted):
    """every named deviation must be FOUND by TLC on the machine (non-vacuity of the invariants)"""
    table = {
        "SetPhaseOffsetDropsGray": (dict(kind="PSK", cards=[2, 8], noff=2, rowlen=16), "TableOK"),
        "QamGrayIndexInverted": (dict(kind="QAM", cards=[4, 16, 64], smode="seeded", nrows=1, rowlen=4), "TableOK"),
        "QamAcceptsOne": (dict(kind="QAM", cards=[1, 2, 4], smode="seeded", nrows=1, rowlen=1), "Rejects"),
        "NoNormalisation": (dict(kind="QAM", cards=[16], smode="seeded", nrows=1, rowlen=4), "TableOK"),
        "ModulateWraps": (dict(kind="PSK", cards=[4], rowlen=16), "ModulateLaw"),
        "DetectRealOnly": (dict(kind="QAM", cards=[4]), "MLLaw"),
        "GrayTwice": (dict(kind="PSK", cards=[2, 4, 8], rowlen=16), "TableOK"),
        "ModulateReusesBuffer": (dict(kind="PSK", cards=[4], rowlen=16), "EarlierResultsUnchanged"),
        "AbsorbsTinyTerms": (dict(kind="BPSK", cards=[2], smode="scaled", nrows=2, rowlen=24, exps=(-200, -18, -9, 0, 7, 100)), "MLLaw"),
        "BlockwiseRoundsDown": (dict(kind="QAM", cards=[4], smode="seeded", nrows=1, rowlen=9), "MLLaw"),
        "CopyRebuildsNatural": (dict(kind="QAM", cards=[4, 16], smode="seeded", nrows=1, rowlen=2), "CopyIsEqual"),
        "BerNotPerBit": (dict(kind="QAM", cards=[16], smode="seeded", nrows=1, rowlen=2), "Lemmas"),
    }
    jobs = [dict(table[d][0], dev=(d,), emit=False) for d in wanted]
    for d, r in zip(wanted, run_many(jobs)):
        if r.violated != table[d][1]:
            raise tlc.TlcError(f"deviation {d} was expected to violate {table[d][1]} of Constellation.tla, TLC reported {r.violated}")
        ctx.notes.setdefault("deviations_refuted_by_model", {})[d] = r.violated
        ctx.model_runs.append({"module": MODULE, "label": "dev:" + d, "generated": r.generated, "distinct": r.distinct,
                               "depth": r.depth, "violated": r.violated, "wall_s": round(r.wall, 2)})


def rat(q):
    return q[0] / q[1]
