"""C11 - reported SINRs equal first-principles signal over interference-plus-noise.

Stage M: TLC on spec/chan/Sinr.tla.  Every explored case satisfies the laws of the property
(NonNegative, ScaleInvariant, QHermitianPSD, QIsSumOfLinks, DenIsQuadraticForm, BIsQPlusOwn,
CapacityTerms), the model of the code's covariance algebra equals the stream-by-stream definition
(AlgMatches, SolverAlgMatches, SolverZeroForcing, SolverAgrees); for every `Dev` flag (a plausible
regression of one algebra step - no deviation of /repo is known for C11) TLC must find a
counterexample (non-vacuity).
Stage R: every case TLC emitted (exhaustive 1x1 family + seeded families with 2x2 blocks,
external interference, joint processing, 1-2 streams, K = 2 / 3) is executed on the real
MultiUserChannelMatrix / MultiUserChannelMatrixExtInt and on an IASolverBaseClass subclass fed through
set_precoders / set_receive_filters; every returned number is compared with the exact rational TLC
emitted (log2 / log10 evaluated in Python from that exact rational).

Python here only converts exact values to floats, drives pyphysim and compares."""
import math
import os
from concurrent.futures import ThreadPoolExecutor
from fractions import Fraction

import numpy as np

from .. import tlc
from ..core import pool_map

MODULE = "chan/Sinr.tla"
TOL = 1e-9
DEVS = ["OwnStreamNotSubtracted", "NoiseNotFiltered", "ExtIntPowerIgnored", "JpRowsOfOtherUser",
        "PathlossIgnored", "ConjMissing", "SolverScalesByP", "ListPrecodersScaledAlongStreams"]
# the one flag that is an observed deviation of /repo (found by this check); id of the finding
F_LIST = "ListPrecodersScaledAlongStreams"
INVARIANTS = ["TypeOK", "NonNegative", "ScaleInvariant", "QHermitianPSD", "QIsSumOfLinks", "DenIsQuadraticForm",
              "BIsQPlusOwn", "AlgMatches", "SolverZeroForcing", "SolverAgrees", "SolverAlgMatches", "CapacityTerms"]
EXH_COUNT = 3888  # = ExhCount of the specification


def _cfg(K, nr, nt, ns, nte=(), jp=False, amps=2):
    return dict(K=K, nr=list(nr), nt=list(nt), ns=list(ns), nte=list(nte), jp=jp, amps=amps)


# amps = 1: integral amplitude alphabets (wherever the solver's two-stream zero forcing or K = 3
# multiplies magnitudes: TLC integers are 32-bit), amps = 2: alphabets with halves.
CFG_K2 = [
    _cfg(2, [2, 2], [2, 2], [1, 1]),                        # 1 plain, solver, one stream
    _cfg(2, [2, 2], [2, 2], [2, 2], amps=1),                # 2 plain, solver, two streams (zero forcing of own streams)
    _cfg(2, [2, 1], [1, 2], [1, 1]),                        # 3 plain, Nr # Nt
    _cfg(2, [2, 2], [2, 2], [2, 1], amps=1),                # 4 plain, unequal stream counts
    _cfg(2, [2, 2], [2, 2], [2, 1], nte=[1]),               # 5 external interference, one source
    _cfg(2, [1, 2], [2, 1], [1, 1], nte=[1, 2]),            # 6 two external sources with 1 and 2 antennas
    _cfg(2, [2, 2], [2, 2], [2, 1], jp=True),               # 7 joint processing
    _cfg(2, [2, 1], [1, 2], [1, 1], nte=[2], jp=True),      # 8 joint processing + external interference
    _cfg(3, [2, 2, 2], [2, 2, 2], [1, 1, 1], amps=1),       # 9 three users
]
CFG_K3 = [
    _cfg(3, [2, 2, 2], [2, 2, 2], [2, 2, 2], amps=1),                    # 10
    _cfg(3, [2, 2, 1], [1, 2, 2], [1, 2, 1], amps=1),                    # 11
    _cfg(3, [2, 2, 2], [2, 2, 2], [1, 1, 1]),                            # 12 halves, one stream
    _cfg(3, [2, 2, 2], [2, 2, 2], [2, 2, 2], nte=[1], amps=1),           # 13
    _cfg(3, [2, 1, 2], [2, 2, 1], [2, 1, 1], nte=[2, 1], amps=1),        # 14
    _cfg(3, [2, 2, 2], [2, 2, 2], [2, 2, 2], jp=True, amps=1),           # 15
    _cfg(3, [2, 2, 2], [2, 2, 2], [2, 2, 2], nte=[2, 1], jp=True, amps=1),  # 16
    _cfg(3, [1, 2, 2], [2, 1, 2], [1, 2, 1], jp=True, amps=1),           # 17
]
CFGS = CFG_K2 + CFG_K3
QUICK_COUNTS = {1: 48, 2: 48, 3: 40, 4: 36, 5: 48, 6: 40, 7: 44, 8: 40, 9: 24}
THOROUGH_COUNTS = {1: 160, 2: 160, 3: 120, 4: 120, 5: 160, 6: 120, 7: 160, 8: 120, 9: 100,
                   10: 600, 11: 400, 12: 300, 13: 400, 14: 300, 15: 400, 16: 300, 17: 300}
# where each deviation flag is exposed (configuration index range, cases)
DEV_WHERE = {"OwnStreamNotSubtracted": (1, 1), "NoiseNotFiltered": (1, 1), "ExtIntPowerIgnored": (5, 6),
             "JpRowsOfOtherUser": (7, 8), "PathlossIgnored": (1, 3), "ConjMissing": (1, 1), "SolverScalesByP": (1, 2),
             "ListPrecodersScaledAlongStreams": (2, 2)}


def model(clo, chi, lo, hi, seed, dev=(), emit=True):
    defs = {"Cfgs": tlc.tla(CFGS), "Dev": tlc.tla({d: (d in dev) for d in DEVS})}
    cfg = tlc.cfg_text(constants={"CLo": str(clo), "CHi": str(chi), "Lo": str(lo), "Hi": str(hi), "Seed": str(seed)},
                       defs=defs, invariants=INVARIANTS, action_constraints=["Emit"] if emit else [])
    return cfg, defs


# ------------------------------------------------------------------ exact values -> floats
def _rat(t):
    return Fraction(int(t[0]), int(t[1]))


def _g(t):
    return complex(float(Fraction(int(t[0]), int(t[2]))), float(Fraction(int(t[1]), int(t[2]))))


def _mat(m, rows=None, cols=None):
    if not m:
        return np.zeros((rows or 0, cols or 0), dtype=complex)
    return np.array([[_g(x) for x in row] for row in m], dtype=complex)


def _objarr(mats):
    a = np.empty(len(mats), dtype=object)
    for i, m in enumerate(mats):
        a[i] = m
    return a


def _close(x, xhat):
    x = np.asarray(x)
    xhat = np.asarray(xhat)
    if x.shape != xhat.shape:
        return False
    if x.size == 0:
        return True
    if not np.all(np.isfinite(x) == np.isfinite(xhat)):
        return False
    fin = np.isfinite(xhat)
    if np.any(x[~fin] != xhat[~fin]):
        return False
    return bool(np.all(np.abs(x[fin] - xhat[fin]) <= TOL * np.maximum(1.0, np.abs(xhat[fin]))))


def _log2_frac(q):
    """log2 of an exact positive rational"""
    return math.log2(q.numerator) - math.log2(q.denominator)


def _flat(rows):
    return [x for r in rows for x in r]


class _Solver:
    """built lazily: a concrete IASolverBaseClass (the base class only lacks `solve`)"""
    cls = None

    @classmethod
    def get(cls):
        if cls.cls is None:
            from pyphysim.ia.iabase import IASolverBaseClass

            class TinySolver(IASolverBaseClass):
                def solve(self, Ns, P=None):  # pragma: no cover - never called
                    raise NotImplementedError

            cls.cls = TinySolver
        return cls.cls


def build_channel(inp):
    from pyphysim.channels import multiuser
    K = inp["K"]
    nr, nt, nte = inp["nr"], inp["nt"], inp["nte"]
    H = _mat(inp["H"])
    ext = len(nte) > 0
    if ext:
        ch = multiuser.MultiUserChannelMatrixExtInt()
        ch.init_from_channel_matrix(H.copy(), np.array(nr), np.array(nt), K, np.array(nte))
    else:
        ch = multiuser.MultiUserChannelMatrix()
        ch.init_from_channel_matrix(H.copy(), np.array(nr), np.array(nt), K)
    if inp["pl"]:
        power = np.array([[float(_rat(a) ** 2) for a in row] for row in inp["pl"]], dtype=float)
        if ext:
            ch.set_pathloss(power[:, :K].copy(), power[:, K:].copy())
        else:
            ch.set_pathloss(power.copy())
    ch.noise_var = {"none": None, "zero": 0.0, "half": 0.5}[inp["noise"]]
    return ch


def run_case(case):
    """Execute one emitted case on the real classes.
    Returns (comparisons, [violation texts], [texts with the signature of finding F_LIST])."""
    inp, out = case["inp"], case["out"]
    K, ns, nr = inp["K"], inp["ns"], inp["nr"]
    ext = len(inp["nte"]) > 0
    jp = inp["jp"]
    bad = []
    known = []
    n = [0]

    def cmp(what, got, want):
        n[0] += 1
        try:
            ok = _close(got, want)
        except Exception as ex:  # shape/type surprises are mismatches, not harness errors
            ok = False
            what += f" ({type(ex).__name__}: {ex})"
        if not ok:
            bad.append(f"{what}: code {np.asarray(got).tolist()!r:.200} expected {np.asarray(want).tolist()!r:.200}")

    def cmp_rows(what, got, want_rows):
        got = list(got)
        if len(got) != len(want_rows):
            n[0] += 1
            bad.append(f"{what}: {len(got)} users returned, expected {len(want_rows)}")
            return
        for k in range(len(want_rows)):
            cmp(f"{what}[user {k}]", np.asarray(got[k], dtype=float), np.array(want_rows[k], dtype=float))

    def guarded(what, f):
        try:
            return f()
        except Exception as ex:
            n[0] += 1
            bad.append(f"{what} raised {type(ex).__name__}: {ex}")
            return None

    try:
        ch = build_channel(inp)
    except Exception as ex:
        return 1, [f"building the channel object raised {type(ex).__name__}: {ex}"], []

    pa = [float(_rat(a)) for a in inp["pa"]]
    F = [_mat(inp["F"][k]) for k in range(K)]
    U = [_mat(inp["U"][k]) for k in range(K)]
    fullF = _objarr([pa[k] * F[k] for k in range(K)])      # "already taking into account the transmit power"
    Uo = _objarr(U)
    pe = _rat(inp["pe"])
    sc = _g(inp["sc"])
    variant = (inp["id"][0] + inp["id"][1]) % 2
    # external power: the default argument (1.0) is exercised by leaving pe out on every other case
    pekw = {} if (not ext or (pe == 1 and variant == 0)) else {"pe": float(pe)}

    sinr = [[float(_rat(x)) for x in row] for row in out["sinr"]]
    one_plus = [[_rat(x) for x in row] for row in out["onePlus"]]
    Q = [_mat(out["Q"][k]) for k in range(K)]

    # --- the channel object
    calc_sinr = ch.calc_JP_SINR if jp else ch.calc_SINR
    calc_q = ch.calc_JP_Q if jp else ch.calc_Q
    name = ("calc_JP_SINR" if jp else "calc_SINR") + ("(ext)" if ext else "")
    got = guarded(name, lambda: calc_sinr(fullF, Uo, **pekw))
    if got is not None:
        cmp_rows(name, got, sinr)
    got = guarded(name + " with list arguments", lambda: calc_sinr(list(fullF), list(U), **pekw))
    if got is not None:
        cmp_rows(name + " with list arguments", got, sinr)
    # U -> c*U must not change any SINR (the law TLC checked for this c)
    got = guarded(name + " rescaled U", lambda: calc_sinr(fullF, _objarr([sc * u for u in U]), **pekw))
    if got is not None:
        cmp_rows(name + " with U rescaled by %r" % (sc,), got, sinr)
    qname = ("calc_JP_Q" if jp else "calc_Q") + ("(ext)" if ext else "")
    for k in range(K):
        got = guarded(qname, lambda: calc_q(k, fullF, **pekw))
        if got is not None:
            cmp(f"{qname}[user {k}]", got, Q[k])
            g = np.asarray(got)
            n[0] += 1
            if g.shape == Q[k].shape and not np.allclose(g, g.conj().T, rtol=0, atol=TOL):
                bad.append(f"{qname}[user {k}] is not Hermitian")
    # internal: the per-stream covariance the SINR is computed from (anchored mechanism)
    for k in range(K):
        def bkl():
            if ext:
                rek = ch.calc_cov_matrix_extint_plus_noise(float(pe))[k]
            else:
                rek = ch.noise_var if (ch.noise_var is not None or not jp) else 0.0
            return (ch._calc_JP_Bkl_cov_matrix_all_l if jp else ch._calc_Bkl_cov_matrix_all_l)(fullF, k, rek)
        got = guarded("_calc_Bkl_cov_matrix_all_l", bkl)
        if got is not None:
            for l in range(ns[k]):
                cmp(f"(internal) Bkl[user {k}][stream {l}]", got[l], _mat(out["B"][k][l]))
    # sum capacity of exact SINRs through util.misc
    from pyphysim.util.misc import calc_shannon_sum_capacity
    cap = sum(_log2_frac(q) for q in _flat(one_plus))
    got = guarded("calc_shannon_sum_capacity", lambda: calc_shannon_sum_capacity(np.array(_flat(sinr), dtype=float)))
    if got is not None:
        cmp("calc_shannon_sum_capacity", got, cap)

    # --- the IA solver base class (plain interference channel only)
    sol = out["sol"]
    if sol["ok"]:
        ssinr = [[float(_rat(x)) for x in row] for row in sol["sinr"]]
        sq = [[_rat(x) for x in row] for row in sol["sinr"]]
        P = np.array([float(_rat(a) ** 2) for a in inp["pa"]])

        def make(v, Us):
            s = _Solver.get()(ch)
            zeroF = any(not np.any(f) for f in fullF)
            if v == 0 or zeroF:
                s.set_precoders(F=_objarr(F), P=P.copy())
                s.set_receive_filters(W=_objarr(Us))
            else:
                s.set_precoders(full_F=_objarr([f.copy() for f in fullF]))
                s.set_receive_filters(W_H=_objarr([u.conj().T for u in Us]))
            return s

        s = guarded("IASolverBaseClass set_precoders/set_receive_filters", lambda: make(variant, U))
        if s is not None:
            got = guarded("solver.calc_SINR", s.calc_SINR)
            if got is not None:
                cmp_rows("solver.calc_SINR", got, ssinr)
            got = guarded("solver.calc_SINR_in_dB", s.calc_SINR_in_dB)
            if got is not None:
                with np.errstate(divide="ignore"):
                    want = [[(10.0 * (math.log10(q.numerator) - math.log10(q.denominator)) if q > 0 else -np.inf)
                             for q in row] for row in sq]
                cmp_rows("solver.calc_SINR_in_dB", got, want)
            got = guarded("solver.calc_sum_capacity", s.calc_sum_capacity)
            if got is not None:
                cmp("solver.calc_sum_capacity", got, sum(_log2_frac(1 + q) for q in _flat(sq)))
            for k in range(K):
                got = guarded("solver.calc_Q", lambda: s.calc_Q(k))
                if got is not None:
                    cmp(f"solver.calc_Q[user {k}]", got, Q[k])
            # the two implementations agree: the channel object fed with the solver's full filters
            got = guarded("channel.calc_SINR(solver.full_F, solver.full_W)", lambda: ch.calc_SINR(s.full_F, s.full_W))
            if got is not None:
                cmp_rows("channel.calc_SINR(solver.full_F, solver.full_W)", got, ssinr)
            # (rel) remaining interference: smallest Ns eigenvalues of Q over its trace, from exact trace / determinant
            for k in range(K):
                tr, det = _rat(out["qtr"][k]), _rat(out["qdet"][k])
                if tr == 0:
                    continue
                if ns[k] >= nr[k]:
                    want = 1.0
                else:  # Nr = 2, one stream: lambda_min = 2 det / (tr + sqrt(tr^2 - 4 det))
                    t, d = float(tr), float(det)
                    want = (2.0 * d / (t + math.sqrt(max(t * t - 4.0 * d, 0.0)))) / t
                got = guarded("solver.calc_remaining_interference_percentage", lambda: s.calc_remaining_interference_percentage(k))
                if got is not None:
                    cmp(f"(rel) solver.calc_remaining_interference_percentage[user {k}]", got, want)
        # the same solver fed with Python LISTS (documented input type of set_precoders / set_receive_filters).
        # A mismatch here - and only here - has the signature of finding ListPrecodersScaledAlongStreams.
        def with_lists():
            sl = _Solver.get()(ch)
            sl.set_precoders(F=[f.copy() for f in F], P=P.copy())
            sl.set_receive_filters(W=[u.copy() for u in U])
            return sl.calc_SINR()
        mark = len(bad)
        got = guarded("solver.calc_SINR (precoders / filters given as lists)", with_lists)
        if got is not None:
            cmp_rows("solver.calc_SINR (precoders / filters given as lists)", got, ssinr)
        known.extend(bad[mark:])
        del bad[mark:]
        # W -> c*W must not change the solver's SINR either
        s2 = guarded("IASolverBaseClass with rescaled W", lambda: make(1 - variant, [sc * u for u in U]))
        if s2 is not None:
            got = guarded("solver.calc_SINR rescaled W", s2.calc_SINR)
            if got is not None:
                cmp_rows("solver.calc_SINR with W rescaled by %r" % (sc,), got, ssinr)
    return n[0], bad, known


def _run_case_safe(case):
    with np.errstate(all="ignore"):
        return run_case(case)


# ------------------------------------------------------------------------------- the check
def plan(tier):
    """TLC jobs: (label, clo, chi, lo, hi)"""
    jobs = []
    chunk = EXH_COUNT // 8
    for i in range(8):
        jobs.append((f"exhaustive-1x1/{i}", 0, 0, i * chunk, (i + 1) * chunk - 1))
    counts = THOROUGH_COUNTS if tier == "thorough" else QUICK_COUNTS
    step = 100 if tier == "thorough" else 48
    for ci, cnt in counts.items():
        lo = 1
        while lo <= cnt:
            hi = min(cnt, lo + step - 1)
            jobs.append((f"seeded/cfg{ci}/{lo}-{hi}", ci, ci, lo, hi))
            lo = hi + 1
    # longest first
    jobs.sort(key=lambda j: -(j[4] - j[3] + 1) * (1 if j[1] == 0 else 12))
    return jobs


def run(ctx):
    ctx.rule = ("TLC computes the stream-by-stream SINR / covariances exactly (Gaussian rationals) for every case of "
                "the domain and checks the laws on it; each emitted case is executed once on the real classes; "
                "distinct = emitted cases (id = configuration, case number)")
    ctx.assumptions += ["values compared with |x - x^| <= 1e-9 max(1, |x^|); log2 / log10 of the exact rational by Python's math",
                        "cases with a zero SINR denominator (infinite / undefined SINR) are excluded in the specification",
                        "the IA solver is bound on the plain interference channel (no external source, no joint processing): "
                        "its API has no external-interference power",
                        "remaining-interference percentage is evaluated numerically from TLC's exact trace / determinant (rel)"]
    seed = int(ctx.seed)
    jobs = plan(ctx.tier)

    def tlc_job(j):
        label, clo, chi, lo, hi = j
        cfg, defs = model(clo, chi, lo, hi, seed)
        return tlc.run(MODULE, cfg, defs=defs, heap="1g")   # -coverage is prohibitively slow on the recursive matrix operators

    def dev_job(dev):
        clo, chi = DEV_WHERE[dev]
        cfg, defs = model(clo, chi, 1, 12, seed, dev=[dev], emit=False)
        return tlc.run(MODULE, cfg, defs=defs, heap="1g")

    # TLC processes run in threads (each single-worker); VERIF_PROCS throttles them on a shared machine
    nthreads = max(1, min(14, int(os.environ.get("VERIF_PROCS", "0") or 0) or 14))
    with ThreadPoolExecutor(nthreads) as ex:
        futs = [ex.submit(tlc_job, j) for j in jobs]
        dfuts = [(d, ex.submit(dev_job, d)) for d in DEVS]
        runs = [f.result() for f in futs]
        for d, f in dfuts:
            r = f.result()
            if not r.violated:
                raise tlc.TlcError(f"deviation {d} is not detected by the invariants of Sinr.tla")
            ctx.notes.setdefault("deviations_refuted_by_model", {})[d] = r.violated
    cases = []
    per_family = {}
    for j, r in zip(jobs, runs):
        ctx.account(r, MODULE, j[0])
        seen = set()
        for e in r.emitted:
            key = tuple(e["inp"]["id"])
            if key in seen:
                continue
            seen.add(key)
            cases.append(e)
        fam = j[0].rsplit("/", 1)[0]
        per_family[fam] = per_family.get(fam, 0) + len(seen)
        # which action produced a case is visible in its id (configuration 0 = PickExhaustive)
        act = "PickExhaustive" if j[1] == 0 else "PickSeeded"
        ctx.actions[act] = ctx.actions.get(act, 0) + len(seen)
    ctx.require_actions(["PickExhaustive", "PickSeeded"])
    if not cases:
        raise tlc.TlcError("no case emitted")
    res = pool_map(_run_case_safe, cases, chunksize=max(1, len(cases) // 128))
    comparisons = 0
    solver_cases = 0
    for case, (ncmp, bad, known) in zip(cases, res):
        comparisons += ncmp
        if known:
            ctx.finding(F_LIST, f"case {case['inp']['id']}: " + "; ".join(known[:2]), {"case": case, "mismatches": known[:6]})
        solver_cases += 1 if case["out"]["sol"]["ok"] else 0
        ctx.ok(key=f"{seed}:{case['inp']['id'][0]}:{case['inp']['id'][1]}")
        if bad:
            ctx.violation(f"case {case['inp']['id']} (K={case['inp']['K']} Nr={case['inp']['nr']} Nt={case['inp']['nt']} "
                          f"Ns={case['inp']['ns']} ext={case['inp']['nte']} jp={case['inp']['jp']}): " + "; ".join(bad[:3]),
                          {"case": case, "mismatches": bad[:10]})
    ctx.exhaustive = True   # the 1x1 family enumerates all channel matrices over the alphabet x noise settings
    ctx.notes["cases_per_family"] = per_family
    ctx.notes["comparisons"] = comparisons
    ctx.notes["cases_with_solver"] = solver_cases
    ctx.notes["exhaustive_scope"] = ("K=2, 1x1 blocks: all 6^4 channel matrices over {0,1,-1,i,-i,1+i} x noise {None,0,1/2}; "
                                     "other families are seeded samples of the stated domain")
    mid = cases[len(cases) // 2]
    ctx.sample({"id": mid["inp"]["id"], "K": mid["inp"]["K"], "Nr": mid["inp"]["nr"], "Nt": mid["inp"]["nt"],
                "Ns": mid["inp"]["ns"], "noise": mid["inp"]["noise"], "sinr_exact": mid["out"]["sinr"]})
    ctx.sample({"id": cases[-1]["inp"]["id"], "jp": cases[-1]["inp"]["jp"], "ext": cases[-1]["inp"]["nte"],
                "sinr_exact": cases[-1]["out"]["sinr"]})


def replay(ctx, data):
    c = data["case"]
    case = c["case"]
    ncmp, bad, known = _run_case_safe(case)
    ctx.ok(key=str(case["inp"]["id"]))
    ctx.notes["comparisons"] = ncmp
    if known:
        ctx.finding(F_LIST, f"case {case['inp']['id']}: " + "; ".join(known[:2]), {"case": case, "mismatches": known[:6]})
    if bad:
        ctx.violation(f"case {case['inp']['id']}: " + "; ".join(bad[:3]), {"case": case, "mismatches": bad[:10]})
