"""C11 - reported SINRs equal first-principles signal over interference-plus-noise.

Stage M: TLC on spec/chan/Sinr.tla.  Every explored case satisfies the laws of the property
(NonNegative, ScaleInvariant = homogeneity of every power term in the filter scale and the channel
gain, QScales, QHermitianPSD, QIsSumOfLinks, DenIsQuadraticForm, BIsQPlusOwn, CapacityTerms,
CachesFresh), the model of the code's covariance algebra equals the stream-by-stream definition
(AlgMatches, SolverAlgMatches, SolverZeroForcing, SolverAgrees); for every `Dev` flag (a plausible
regression of one algebra step or of one cache invalidation) TLC must find a counterexample.
Stage R: every case TLC emitted is executed on the real MultiUserChannelMatrix /
MultiUserChannelMatrixExtInt and on an IASolverBaseClass subclass; every returned number is compared
with the exact rational TLC emitted (log2 / log10 evaluated in Python from that exact rational).
 * star cases (exhaustive 1x1 family + seeded families): fresh objects per case;
 * chains: the consecutive cases of a chain are served by ONE channel object and ONE solver object
   (re-initialisation with another antenna partition of equal totals while the path loss is kept or
   set anew; powers changed through the solver's P setter with a vector / scalar / None in all
   orders) - after every step every quantity is compared again;
 * the scale law TLC proved term by term is replayed with extreme factors (filters x 1e-9 / 1e+9,
   channel gain and noise x 1e-17 / 1e+17): the exact SINRs do not change, Q scales exactly.

Python here only converts exact values to floats, drives pyphysim and compares."""
import math
import os
from concurrent.futures import ThreadPoolExecutor
from fractions import Fraction

import numpy as np

from .. import tlc
from ..core import pool_map

MODULE = "chan/Sinr.tla"
TOL = 1e-9
DEVS = ["OwnStreamNotSubtracted", "NoiseNotFiltered", "ExtIntPowerIgnored", "JpRowsOfOtherUser",
        "PathlossIgnored", "ConjMissing", "SolverScalesByP", "ListPrecodersScaledAlongStreams",
        "PowerNoneKeepsCaches", "PlExpansionReusedOnEqualShape", "SolverIgnoresExtInt", "FullFKeepsStaleNs"]
# OBSERVED in /repo (audit gap 1): IASolverBaseClass.calc_SINR / _in_dB / calc_sum_capacity leave the external interference
# out although the solver's own calc_Q contains it (pe = 1).  Proposed repair: notes/fixes/C11-solver-sinr-extint.patch
F_SOLVER_EXT = "SolverSinrIgnoresExtInt"
ROUTE_SOLVER_EXT = False    # repaired in /repo ef08995: such mismatches are plain violations again
# id of the finding the list sub-check maps to (fixed in /repo: 15af8cd)
F_LIST = "ListPrecodersScaledAlongStreams"
INVARIANTS = ["TypeOK", "CachesFresh", "NonNegative", "ScaleInvariant", "QHermitianPSD", "QIsSumOfLinks",
              "DenIsQuadraticForm", "BIsQPlusOwn", "AlgMatches", "SolverZeroForcing", "SolverAgrees", "SolverAlgMatches",
              "CapacityTerms", "CapVecWellFormed"]
EXH_COUNT = 3888  # = ExhCount of the specification


def _cfg(K, nr, nt, ns, nte=(), jp=False, amps=2, zf=False):
    return dict(K=K, nr=list(nr), nt=list(nt), ns=list(ns), nte=list(nte), jp=jp, amps=amps, zf=zf)


# amps = 1: integral amplitude alphabets (wherever the solver's two-stream zero forcing or K = 3
# multiplies magnitudes: TLC integers are 32-bit), amps = 2: alphabets with halves.
CFG_K2 = [
    _cfg(2, [2, 2], [2, 2], [1, 1]),                        # 1 plain, solver, one stream
    _cfg(2, [2, 2], [2, 2], [2, 2], amps=1),                # 2 plain, solver, two streams (zero forcing of own streams)
    _cfg(2, [2, 1], [1, 2], [1, 1]),                        # 3 plain, Nr # Nt
    _cfg(2, [2, 2], [2, 2], [2, 1], amps=1),                # 4 plain, unequal stream counts
    _cfg(2, [2, 2], [2, 2], [2, 1], nte=[1], amps=1),       # 5 external interference, one source (solver with two streams)
    _cfg(2, [1, 2], [2, 1], [1, 1], nte=[1, 2]),            # 6 two external sources with 1 and 2 antennas
    _cfg(2, [2, 2], [2, 2], [2, 1], jp=True),               # 7 joint processing
    _cfg(2, [2, 1], [1, 2], [1, 1], nte=[2], jp=True),      # 8 joint processing + external interference
    _cfg(3, [2, 2, 2], [2, 2, 2], [1, 1, 1], amps=1),       # 9 three users
]
CFG_K3 = [
    _cfg(3, [2, 2, 2], [2, 2, 2], [2, 2, 2], amps=1),                    # 10
    _cfg(3, [2, 2, 1], [1, 2, 2], [1, 2, 1], amps=1),                    # 11
    _cfg(3, [2, 2, 2], [2, 2, 2], [1, 1, 1]),                            # 12 halves, one stream
    _cfg(3, [2, 2, 2], [2, 2, 2], [2, 2, 2], nte=[1], amps=1),           # 13
    _cfg(3, [2, 1, 2], [2, 2, 1], [2, 1, 1], nte=[2, 1], amps=1),        # 14
    _cfg(3, [2, 2, 2], [2, 2, 2], [2, 2, 2], jp=True, amps=1),           # 15
    _cfg(3, [2, 2, 2], [2, 2, 2], [2, 2, 2], nte=[2, 1], jp=True, amps=1),  # 16
    _cfg(3, [1, 2, 2], [2, 1, 2], [1, 2, 1], jp=True, amps=1),           # 17
]
# the aligned regime (zf): single-antenna receivers, the precoder of every user is an exact null vector of the channels
# towards the other receivers -> interference exactly zero; SINR = signal / noise (any magnitude) or infinite
CFG_ZF = [
    _cfg(2, [1, 1], [2, 1], [1, 1], jp=True, zf=True),                   # 18 joint processing (block diagonalisation in miniature)
    _cfg(2, [1, 1], [2, 2], [1, 1], zf=True),                            # 19 interference channel + solver
    _cfg(3, [1, 1, 1], [1, 1, 1], [1, 1, 1], jp=True, amps=1, zf=True),  # 20 three users, joint processing
    _cfg(2, [1, 1], [1, 2], [1, 1], nte=[1], jp=True, zf=True),          # 21 joint processing + external source (pe may be 0)
    _cfg(3, [1, 1, 1], [3, 3, 3], [1, 1, 1], amps=1, zf=True),           # 22 three users, interference channel + solver
    _cfg(2, [2, 2], [2, 2], [2, 2], jp=True, amps=3, zf=True),           # 23 two streams each: block-diagonalising precoders + zero-forcing filters
    _cfg(2, [2, 2], [4, 4], [2, 2], amps=3, zf=True),                    # 24 the same on the interference channel (thorough)
]
# other dimensions: one user, four users, three receive antennas / three streams
CFG_DIM = [
    _cfg(1, [2], [2], [2]),                                              # 25 a single user: own streams and noise only
    _cfg(1, [3], [3], [3], nte=[1], amps=1),                             # 26 single user, 3 x 3, three streams, external source
    _cfg(4, [2, 1, 2, 1], [1, 2, 2, 1], [1, 1, 1, 1], amps=1),           # 27 four users
    _cfg(2, [3, 3], [3, 3], [3, 2], amps=1),                             # 28 three antennas, three streams (solver: (rel) only)
    _cfg(2, [3, 2], [2, 2], [3, 1], jp=True, amps=1),                    # 29 joint processing, three streams
    _cfg(4, [1, 2, 1, 2], [1, 1, 2, 1], [1, 2, 1, 1], nte=[1], jp=True, amps=1),   # 30 four users, JP, external source
]
CFGS = CFG_K2 + CFG_K3 + CFG_ZF + CFG_DIM
# (first configuration, last configuration, case numbers 1..n): one TLC process per entry (and per 100 cases)
QUICK_COUNTS = [(1, 4, 38), (5, 9, 32), (18, 23, 22), (25, 30, 10)]
QUICK_CAPVEC = 40           # capacity vectors 1..n
THOROUGH_CAPVEC = 400
THOROUGH_COUNTS = [(1, 1, 160), (2, 2, 160), (3, 3, 120), (4, 4, 120), (5, 5, 160), (6, 6, 120), (7, 7, 160), (8, 8, 120),
                   (9, 9, 100), (10, 10, 600), (11, 11, 400), (12, 12, 300), (13, 13, 400), (14, 14, 300), (15, 15, 400),
                   (16, 16, 300), (17, 17, 300), (18, 19, 200), (20, 22, 150), (23, 23, 300), (24, 24, 150), (25, 27, 150), (28, 30, 150)]

# Chains: one channel object and one solver object serve the consecutive cases.  The partitions of a chain have
# the same number of users / sources and the same antenna TOTALS but different per-user counts (a stale per-antenna
# expansion then has the right shape and silently scales the wrong entries).
_OPS_SOLVER = ["init", "power", "power", "reinit", "power", "reinit"]
_OPS_CHAN = ["init", "reinit", "power", "reinit"]
CHAINS = [
    dict(parts=[_cfg(2, [1, 2], [2, 1], [1, 1]), _cfg(2, [2, 1], [1, 2], [1, 1])], ops=_OPS_SOLVER),             # 1 plain + solver
    dict(parts=[_cfg(2, [1, 2], [2, 1], [1, 1], nte=[2]), _cfg(2, [2, 1], [1, 2], [1, 1], nte=[2])], ops=_OPS_CHAN),  # 2 ext
    dict(parts=[_cfg(2, [1, 2], [2, 1], [1, 1], jp=True), _cfg(2, [2, 1], [1, 2], [1, 2], jp=True)], ops=_OPS_CHAN),  # 3 JP
    dict(parts=[_cfg(2, [2, 1], [1, 2], [1, 1], nte=[1], jp=True), _cfg(2, [1, 2], [2, 1], [1, 1], nte=[1], jp=True)],
         ops=_OPS_CHAN),                                                                                       # 4 JP + ext
    dict(parts=[_cfg(2, [2, 2], [2, 2], [2, 2], amps=1), _cfg(2, [2, 2], [2, 2], [2, 1], amps=1)], ops=_OPS_SOLVER),  # 5 two streams
    dict(parts=[_cfg(3, [1, 2, 2], [2, 2, 1], [1, 1, 1], amps=1), _cfg(3, [2, 1, 2], [1, 2, 2], [1, 1, 1], amps=1),
                _cfg(3, [2, 2, 1], [2, 1, 2], [1, 1, 1], amps=1)], ops=_OPS_SOLVER),                            # 6 K = 3 + solver
    dict(parts=[_cfg(3, [1, 2, 2], [2, 2, 1], [1, 2, 1], nte=[1], jp=True, amps=1),
                _cfg(3, [2, 2, 1], [1, 2, 2], [2, 1, 1], nte=[1], jp=True, amps=1)], ops=_OPS_CHAN),            # 7 K = 3 JP + ext
]
# (first chain configuration, last, chain numbers 0..n-1)
QUICK_CHAINS = [(1, 5, 7)]
THOROUGH_CHAINS = [(1, 1, 54), (2, 2, 30), (3, 3, 30), (4, 4, 30), (5, 5, 54), (6, 6, 54), (7, 7, 30)]

# where each deviation flag is exposed: ("star", clo, chi) or ("chain", hlo, hhi)
# where each deviation flag is exposed: ("star", first cfg, last cfg, cases 1..n) or ("chain", first, last, chains 0..n)
DEV_WHERE = {"OwnStreamNotSubtracted": ("star", 1, 1, 6), "NoiseNotFiltered": ("star", 1, 1, 10), "ExtIntPowerIgnored": ("star", 5, 6, 8),
             "JpRowsOfOtherUser": ("star", 7, 8, 6), "PathlossIgnored": ("star", 1, 1, 8), "ConjMissing": ("star", 1, 1, 8),
             "SolverScalesByP": ("star", 1, 1, 10), "ListPrecodersScaledAlongStreams": ("star", 2, 2, 16),
             "SolverIgnoresExtInt": ("star", 6, 6, 10), "FullFKeepsStaleNs": ("star", 2, 2, 10),
             "PowerNoneKeepsCaches": ("chain", 1, 1, 5), "PlExpansionReusedOnEqualShape": ("chain", 1, 1, 5)}
# deviations refuted together in one TLC run (-continue), one initial state per deviation
DEV_GROUPS = [["OwnStreamNotSubtracted", "NoiseNotFiltered", "ExtIntPowerIgnored", "JpRowsOfOtherUser", "PathlossIgnored"],
              ["ConjMissing", "SolverScalesByP", "ListPrecodersScaledAlongStreams", "SolverIgnoresExtInt", "FullFKeepsStaleNs"],
              ["PowerNoneKeepsCaches", "PlExpansionReusedOnEqualShape"]]


def model(clo, chi, lo, hi, seed, dev=(), emit=True, hlo=1, hhi=0, vlo=1, vhi=0):
    # DevTry: the deviations tried by this run (each in its own initial state), with the configurations they are tried on
    tries = []
    for d in dev:
        kind, a, b, cnt = DEV_WHERE[d]
        cfgs = "{" + ", ".join(str(i) for i in range(a, b + 1)) + "}" if kind == "star" else "{}"
        chains = "{" + ", ".join(str(i) for i in range(a, b + 1)) + "}" if kind == "chain" else "{}"
        tries.append(f'[name |-> "{d}", cfgs |-> {cfgs}, chains |-> {chains}, hi |-> {cnt}]')
    defs = {"Cfgs": tlc.tla(CFGS), "Chains": tlc.tla(CHAINS), "DevTry": "{" + ", ".join(tries) + "}"}
    cfg = tlc.cfg_text(constants={"CLo": str(clo), "CHi": str(chi), "HLo": str(hlo), "HHi": str(hhi), "VLo": str(vlo), "VHi": str(vhi),
                                  "Lo": str(lo), "Hi": str(hi), "Seed": str(seed)},
                       defs=defs, invariants=INVARIANTS, action_constraints=["Emit"] if emit else [])
    return cfg, defs


# ------------------------------------------------------------------ exact values -> floats
def _rat(t):
    return Fraction(int(t[0]), int(t[1]))


def _g(t):
    return complex(float(Fraction(int(t[0]), int(t[2]))), float(Fraction(int(t[1]), int(t[2]))))


def _mat(m, rows=None, cols=None):
    if not m:
        return np.zeros((rows or 0, cols or 0), dtype=complex)
    return np.array([[_g(x) for x in row] for row in m], dtype=complex)


def _objarr(mats):
    a = np.empty(len(mats), dtype=object)
    for i, m in enumerate(mats):
        a[i] = m
    return a


HUGE = 1e9   # an infinite SINR may be reported as +inf or as a huge positive number (denominator = rounding noise)


def _close(x, xhat, huge=HUGE):
    """|x - x^| <= TOL max(1, |x^|); where x^ is +inf: x must be +inf or >= huge (never negative, never NaN)"""
    x = np.asarray(x)
    xhat = np.asarray(xhat)
    if x.shape == xhat.shape and x.size and np.issubdtype(xhat.dtype, np.floating) and np.any(np.isposinf(xhat)):
        pinf = np.isposinf(xhat)
        xr = np.real(x)
        if not np.all((xr[pinf] >= huge) & ~np.isnan(xr[pinf])):
            return False
        x = np.where(pinf, 0.0, x)
        xhat = np.where(pinf, 0.0, xhat)
    if x.shape != xhat.shape:
        return False
    if x.size == 0:
        return True
    if not np.all(np.isfinite(x) == np.isfinite(xhat)):
        return False
    fin = np.isfinite(xhat)
    if np.any(x[~fin] != xhat[~fin]):
        return False
    return bool(np.all(np.abs(x[fin] - xhat[fin]) <= TOL * np.maximum(1.0, np.abs(xhat[fin]))))


def _log2_frac(q):
    """log2 of an exact positive rational (or +inf)"""
    if q == math.inf:
        return math.inf
    return math.log2(q.numerator) - math.log2(q.denominator)


def _ratinf(t):
    """exact rational, <<1, 0>> = +infinity"""
    return math.inf if int(t[1]) == 0 else Fraction(int(t[0]), int(t[1]))


def _cap_want(one_plus_terms):
    """(expected sum capacity, threshold when it is infinite) from exact terms 1 + SINR (Fractions or inf)"""
    fin = sum(_log2_frac(q) for q in one_plus_terms if q != math.inf)
    ninf = sum(1 for q in one_plus_terms if q == math.inf)
    return (math.inf, fin + ninf * math.log2(HUGE)) if ninf else (fin, HUGE)


# MultiUserChannelMatrix._calc_SINR_k / _calc_JP_SINR_k_impl divide Python complex numbers: an EXACTLY zero denominator
# raises ZeroDivisionError where the IA solver reports inf (repaired there in /repo df97db4).  Proposed repair:
# notes/fixes/C11-channel-sinr-zero-denominator.patch.  Until it is applied the exception is tolerated (and counted)
# for streams whose exact SINR is infinite; set to False afterwards.
TOLERATE_ZERO_DIVISION = False
_TOLERATED = [0]


def _flat(rows):
    return [x for r in rows for x in r]


class _Solver:
    """built lazily: a concrete IASolverBaseClass (the base class only lacks `solve`)"""
    cls = None

    @classmethod
    def get(cls):
        if cls.cls is None:
            from pyphysim.ia.iabase import IASolverBaseClass

            class TinySolver(IASolverBaseClass):
                def solve(self, Ns, P=None):  # pragma: no cover - never called
                    raise NotImplementedError

            cls.cls = TinySolver
        return cls.cls


# ------------------------------------------------------------------ representations of one number / one array
NOISE_VALUE = {"none": None, "zero": Fraction(0), "half": Fraction(1, 2), "one": Fraction(1), "two": Fraction(2)}
IMPLEMENTED_LAWS = {"ArgumentsUnchanged", "EarlierResultsUnchanged", "ResultsAreCopies", "QueryIsPure",
                    "RepresentationIrrelevant", "BystanderUnaffected", "RejectedChangesNothing", "AliasCoherent",
                    "CapacityPermutationInvariant", "CapacityAdditive", "SolveSelfConsistent", "RandomizeThenQueryCoherent", "SolverHistoryIrrelevant"}
# (set_receive_filters used to clear the filters before rejecting bad arguments; repaired in /repo 4cafe15)
CHECK_REJECTED_RECEIVE_FILTERS = True


def scalar_as(q, rot):
    """the number q (a Fraction, or None) in one of the representations the API accepts; the value is exact in all"""
    if q is None:
        return None
    if q.denominator == 1:
        v = int(q)
        reps = [float(v), v, np.int64(v), np.float32(v), np.float64(v), np.int32(v)]
        if v == 0:
            reps.append(-0.0)
        return reps[rot % len(reps)]
    f = float(q)
    reps = [f, np.float64(f)] + ([np.float32(f)] if float(np.float32(f)) == f else [])
    return reps[rot % len(reps)]


def array_as(a, rot):
    """the same numbers in another memory layout / dtype: C, Fortran, strided view, read-only, integer dtype"""
    a = np.asarray(a)
    r = rot % 5
    if r == 1:
        return np.asfortranarray(a.copy())
    if r == 2 and a.ndim == 2:
        wide = np.zeros((a.shape[0], 2 * a.shape[1]), dtype=a.dtype)
        wide[:, ::2] = a
        return wide[:, ::2]
    if r == 3:
        b = a.copy()
        b.setflags(write=False)
        return b
    if r == 4 and not np.iscomplexobj(a) and np.all(a == np.round(a)):
        return a.astype(np.int64)
    return a.copy()


def _snapshot(x):
    if isinstance(x, np.ndarray):
        if x.dtype == object:
            return ("obj", [_snapshot(e) for e in x])
        return ("arr", x.dtype, x.shape, x.copy())
    if isinstance(x, (list, tuple)):
        return ("seq", [_snapshot(e) for e in x])
    if isinstance(x, dict):
        return ("dict", {k: _snapshot(v) for k, v in x.items()})
    return ("val", x)


def _same(snap, x):
    kind = snap[0]
    if kind == "obj":
        return isinstance(x, np.ndarray) and x.dtype == object and len(x) == len(snap[1]) and \
            all(_same(s, e) for s, e in zip(snap[1], x))
    if kind == "arr":
        return isinstance(x, np.ndarray) and x.dtype == snap[1] and x.shape == snap[2] and \
            bool(np.all((x == snap[3]) | ((x != x) & (snap[3] != snap[3]))))
    if kind == "seq":
        return len(x) == len(snap[1]) and all(_same(s, e) for s, e in zip(snap[1], x))
    if kind == "dict":
        return set(x) == set(snap[1]) and all(_same(s, x[k]) for k, s in snap[1].items())
    a, b = snap[1], x
    return (a is b) or bool(a == b)


def _scribble(x):
    """write into a returned value in place (ResultsAreCopies); returns True when something was written"""
    done = False
    if isinstance(x, np.ndarray):
        if x.dtype == object:
            for e in x:
                done = _scribble(e) or done
        elif x.flags.writeable and x.size:
            x[...] = -7
            done = True
    elif isinstance(x, list):
        for e in x:
            done = _scribble(e) or done
    return done


def _pl_power(inp, gain=1.0):
    """path-loss POWER matrix K x (K + Ke) of the case (None: no path loss), optionally x gain"""
    K, ke = inp["K"], len(inp["nte"])
    if inp["pl"]:
        return np.array([[float(_rat(a) ** 2) for a in row] for row in inp["pl"]], dtype=float) * gain
    if gain == 1.0:
        return None
    return np.ones((K, K + ke)) * gain


def _set_pathloss(ch, inp, gain=1.0, rot=0):
    """returns the arrays that were handed over (the object keeps references to them)"""
    K = inp["K"]
    ext = len(inp["nte"]) > 0
    power = _pl_power(inp, gain)
    if power is None:
        ch.set_pathloss(None, None) if ext else ch.set_pathloss(None)
        return None
    if rot % 2 == 1 and np.all(power == np.round(power)) and np.max(power) < 2 ** 53:
        power = power.astype(np.int64)          # integral path losses as integers
    if ext:
        args = [power[:, :K].copy(), power[:, K:].copy()]
    else:
        args = [power.copy()]
    snap = _snapshot(args)
    ch.set_pathloss(*args)
    if not _same(snap, args):
        raise AssertionError("ArgumentsUnchanged: set_pathloss altered the matrix it was given")
    return args


def _init_channel(ch, inp):
    """returns the channel matrix that was handed over (the object keeps a reference to it)"""
    K = inp["K"]
    H = _mat(inp["H"])
    snap = H.copy()
    if len(inp["nte"]) > 0:
        ch.init_from_channel_matrix(H, np.array(inp["nr"]), np.array(inp["nt"]), K, np.array(inp["nte"]))
    else:
        ch.init_from_channel_matrix(H, np.array(inp["nr"]), np.array(inp["nt"]), K)
    if not np.array_equal(snap, H):
        raise AssertionError("ArgumentsUnchanged: init_from_channel_matrix altered the matrix it was given")
    return H


def _rot(inp):
    return inp["id"][0] * 7 + inp["id"][1]


def build_channel(inp, gain=1.0, keep=None, noise_factor=1.0):
    """a fresh channel object for the case; gain multiplies every path-loss power and the noise variance.
    keep (a Session) receives the arrays handed over."""
    from pyphysim.channels import multiuser
    ch = multiuser.MultiUserChannelMatrixExtInt() if len(inp["nte"]) > 0 else multiuser.MultiUserChannelMatrix()
    H = _init_channel(ch, inp)
    pl = None
    if inp["pl"] or gain != 1.0:
        pl = _set_pathloss(ch, inp, gain, _rot(inp))
    nv = NOISE_VALUE[inp["noise"]]
    if gain != 1.0 or noise_factor != 1.0:
        ch.noise_var = None if nv is None else float(nv) * gain * noise_factor
    else:
        ch.noise_var = scalar_as(nv, _rot(inp))       # RepresentationIrrelevant: int / numpy integer / float32 / ...
    if keep is not None:
        keep.H_arg, keep.pl_args = H, pl
    return ch


def solver_applies(inp):
    return not inp["jp"]


def _expect_raise(what, f, bad):
    """RejectedChangesNothing, first half: the call must be refused (the behavioural probe follows in compare)"""
    try:
        f()
    except Exception:
        return
    bad.append(f"{what} was accepted (no exception)")


class Session:
    """the real objects that serve a star case (fresh) or the consecutive cases of a chain (persistent)"""

    def __init__(self):
        self.ch = None
        self.solver = None
        self.H_arg = None          # arrays handed to the channel object (it keeps references)
        self.pl_args = None
        self.F_arg = None          # arrays handed to the solver
        self.U_arg = None
        self.held = []             # (what, returned object, snapshot) of earlier results
        self.bystander = None      # (channel, solver or None, call, snapshot of its answers)
        self.pre = []              # violations found while applying (rejected calls that were accepted)
        self.route = "ctor"        # how the current precoders reached the solver

    def apply(self, case):
        """bring the objects to the case the way its `op` says"""
        inp = case["inp"]
        op = inp["op"]
        K = inp["K"]
        kind = op["kind"]
        rot = _rot(inp)
        F = [array_as(_mat(inp["F"][k]), rot + k) for k in range(K)]
        U = [array_as(_mat(inp["U"][k]), rot + k + 2) for k in range(K)]
        Pq = [_rat(a) ** 2 for a in inp["pa"]]
        P = np.array([float(q) for q in Pq])
        if rot % 3 == 1 and all(q.denominator == 1 for q in Pq):
            P = P.astype(np.int64)                    # integral powers as integers
        if kind in ("fresh", "init"):
            self.ch = build_channel(inp, keep=self)
            if solver_applies(inp):
                self.solver = _Solver.get()(self.ch)
                # SolverHistoryIrrelevant: what the solver did before the judged precoders / filters arrive
                pre = inp["pre"]
                if pre["kind"] != "none":
                    rs = np.random.RandomState(rot)
                    Pq0 = np.arange(1, K + 1, dtype=float)
                    if pre["kind"] == "randomizeF":
                        self.solver.randomizeF(list(pre["ns"]), P=Pq0)
                    else:
                        self.solver.set_precoders(F=_objarr([rs.randn(inp["nt"][k], pre["ns"][k]) + 1j * rs.randn(inp["nt"][k], pre["ns"][k])
                                                             for k in range(K)]), P=Pq0)
                        self.solver.set_receive_filters(W=_objarr([rs.randn(inp["nr"][k], pre["ns"][k]) + 0j for k in range(K)]))
                    try:
                        self.solver.full_F           # (fills the caches of the earlier configuration)
                        self.solver.calc_Q(0)
                    except Exception:
                        pass
        elif kind == "reinit":
            self.H_arg = _init_channel(self.ch, inp)  # same object, other antenna partition
            if op["pl"] == "set":
                self.pl_args = _set_pathloss(self.ch, inp, rot=rot)
            self.ch.noise_var = scalar_as(NOISE_VALUE[inp["noise"]], rot)
        if kind in ("fresh", "init", "reinit") and self.solver is not None:
            fullF = [math.sqrt(float(P[k])) * F[k] for k in range(K)]
            self.route = "fullF" if (op["pw"] == "fullF" and all(np.any(f) for f in fullF)) else "ctor"
            if self.route == "ctor":
                args = dict(F=_objarr(F), P=P.copy())
                fargs = dict(W=_objarr(U))
            else:
                args = dict(full_F=_objarr([f.copy() for f in fullF]))
                fargs = dict(W_H=_objarr([u.conj().T for u in U]))
            snap = _snapshot([args, fargs])
            self.solver.set_precoders(**args)
            self.solver.set_receive_filters(**fargs)
            if not _same(snap, [args, fargs]):
                raise AssertionError("ArgumentsUnchanged: set_precoders / set_receive_filters altered their arguments")
            self.F_arg, self.U_arg = args, fargs
        if kind == "power" and self.solver is not None:
            if op["pw"] == "vec":
                arg = P.copy() if rot % 2 else [scalar_as(q, rot + i) for i, q in enumerate(Pq)]   # array or list
                snap = _snapshot(arg)
                self.solver.P = arg
                if not _same(snap, arg):
                    raise AssertionError("ArgumentsUnchanged: the P setter altered the sequence it was given")
            elif op["pw"] == "scalar":
                self.solver.P = scalar_as(Pq[0], rot)
            else:
                self.solver.P = None
        # RejectedChangesNothing: calls that must be refused; compare() then finds the object unchanged
        if inp["chain"] and kind != "scribble":
            ch, s = self.ch, self.solver
            tag = f"[chain step {inp['step']}] rejected call "
            _expect_raise(tag + "init_from_channel_matrix(wrong shape)",
                          lambda: ch.init_from_channel_matrix(np.ones((1, 1), dtype=complex), np.array(inp["nr"]),
                                                              np.array(inp["nt"]), K, *([np.array(inp["nte"])] if inp["nte"] else [])),
                          self.pre)
            _expect_raise(tag + "init_from_channel_matrix(K inconsistent with Nr)",
                          lambda: ch.init_from_channel_matrix(_mat(inp["H"]), np.array(inp["nr"]), np.array(inp["nt"]), K + 1,
                                                              *([np.array(inp["nte"])] if inp["nte"] else [])), self.pre)
            _expect_raise(tag + "noise_var = -1", lambda: setattr(ch, "noise_var", -1.0), self.pre)
            if s is not None:
                _expect_raise(tag + "solver.P = -1", lambda: setattr(s, "P", -1.0), self.pre)
                _expect_raise(tag + "solver.P = 0", lambda: setattr(s, "P", 0), self.pre)
                _expect_raise(tag + "solver.P = sequence of length K + 1", lambda: setattr(s, "P", [1.0] * (K + 1)), self.pre)
                _expect_raise(tag + "solver.P = [1, -2, ...]", lambda: setattr(s, "P", [1.0, -2.0] + [1.0] * (K - 2)), self.pre)
                _expect_raise(tag + "solver.set_precoders()", lambda: s.set_precoders(), self.pre)
                if CHECK_REJECTED_RECEIVE_FILTERS:
                    _expect_raise(tag + "solver.set_receive_filters()", lambda: s.set_receive_filters(), self.pre)
                    _expect_raise(tag + "solver.set_receive_filters(W, W_H)",
                                  lambda: s.set_receive_filters(W=self.U_arg.get("W"), W_H=self.U_arg.get("W")), self.pre)


def compare(sess, case, light=False):
    """Compare everything the objects of the session report with the exact values of the case.
    light: only the channel's SINR / Q and the solver's SINR / Q (used by the aliasing probes).
    Returns (comparisons, [violation texts], [texts with the signature of finding F_LIST])."""
    inp, out = case["inp"], case["out"]
    K, ns, nr = inp["K"], inp["ns"], inp["nr"]
    ext = len(inp["nte"]) > 0
    jp = inp["jp"]
    ch = sess.ch
    bad = list(sess.pre)
    del sess.pre[:]
    known = []
    n = [len(bad)]
    rot = _rot(inp)
    tag = "" if inp["op"]["kind"] == "fresh" else f"[chain step {inp['step']} {inp['op']['kind']}/{inp['op']['pl']}/{inp['op']['pw']}] "
    mine = []     # results returned during this comparison: (what, object, snapshot)
    zde_ok = [False]
    # the exhaustive 1x1 family is large: two of three of its cases skip the secondary call variants (list arguments,
    # internal Bkl, noise-only scaling, list-fed and rescaled solver); every case keeps SINR / Q / scale law / solver / frame laws
    lean = inp["id"][0] == 0 and inp["id"][1] % 3 != 0

    def cmp(what, got, want, huge=HUGE):
        n[0] += 1
        try:
            ok = _close(got, want, huge)
        except Exception as ex:  # shape/type surprises are mismatches, not harness errors
            ok = False
            what += f" ({type(ex).__name__}: {ex})"
        if not ok:
            bad.append(f"{tag}{what}: code {np.asarray(got).tolist()!r:.200} expected {np.asarray(want).tolist()!r:.200}")

    def cmp_rows(what, got, want_rows, huge=HUGE):
        got = list(got)
        if len(got) != len(want_rows):
            n[0] += 1
            bad.append(f"{tag}{what}: {len(got)} users returned, expected {len(want_rows)}")
            return
        for k in range(len(want_rows)):
            cmp(f"{what}[user {k}]", np.asarray(got[k], dtype=float), np.array(want_rows[k], dtype=float), huge)

    def guarded(what, f, *args, **kw):
        """one public call: exceptions are mismatches; ArgumentsUnchanged; the result is remembered"""
        snap = _snapshot([args, kw]) if (args or kw) else None
        try:
            res = f(*args, **kw)
        except Exception as ex:
            n[0] += 1
            if isinstance(ex, ZeroDivisionError) and zde_ok[0] and TOLERATE_ZERO_DIVISION:
                _TOLERATED[0] += 1            # exactly zero denominator of an infinite SINR (see TOLERATE_ZERO_DIVISION)
                return None
            bad.append(f"{tag}{what} raised {type(ex).__name__}: {ex}")
            return None
        if snap is not None:
            n[0] += 1
            if not _same(snap, [args, kw]):
                bad.append(f"{tag}ArgumentsUnchanged: {what} altered an argument")
        if isinstance(res, np.ndarray):
            mine.append((what, res, _snapshot(res)))
        return res

    pa = [float(_rat(a)) for a in inp["pa"]]
    F = [_mat(inp["F"][k]) for k in range(K)]
    U = [_mat(inp["U"][k]) for k in range(K)]
    # "already taking into account the transmit power"; memory layout rotates with the case
    fullF = _objarr([array_as(pa[k] * F[k], rot + k + 1) for k in range(K)])
    Uo = _objarr([array_as(U[k], rot + k + 3) for k in range(K)])
    pe = _rat(inp["pe"])
    sc = _g(inp["sc"])
    variant = (inp["id"][0] + inp["id"][1]) % 2
    # external power: the default argument (1.0) is exercised by leaving pe out on every other case
    pekw = {} if (not ext or (pe == 1 and variant == 0)) else {"pe": scalar_as(pe, rot)}

    sinr = [[float(_ratinf(x)) for x in row] for row in out["sinr"]]
    one_plus = [[_ratinf(x) for x in row] for row in out["onePlus"]]
    zde_ok[0] = any(x == math.inf for x in _flat(sinr)) or (out["sol"]["ok"] and any(int(x[1]) == 0 for x in _flat(out["sol"]["sinr"])))
    Q = [_mat(out["Q"][k]) for k in range(K)]

    # --- the channel object
    jname = "calc_JP_SINR" if jp else "calc_SINR"
    qmeth = "calc_JP_Q" if jp else "calc_Q"
    name = jname + ("(ext)" if ext else "")
    qname = qmeth + ("(ext)" if ext else "")
    got = guarded(name, getattr(ch, jname), fullF, Uo, **pekw)
    if got is not None:
        cmp_rows(name, got, sinr)
    if variant == 1 and not light and not lean:
        got = guarded(name + " with list arguments", getattr(ch, jname), list(fullF), list(U), **pekw)
        if got is not None:
            cmp_rows(name + " with list arguments", got, sinr)
    for k in range(K):
        got = guarded(qname, getattr(ch, qmeth), k, fullF, **pekw)
        if got is not None:
            cmp(f"{qname}[user {k}]", got, Q[k])
            g = np.asarray(got)
            n[0] += 1
            if g.shape == Q[k].shape and not np.allclose(g, g.conj().T, rtol=0, atol=TOL):
                bad.append(f"{tag}{qname}[user {k}] is not Hermitian")
    if ext and not light:
        got = guarded("calc_cov_matrix_extint_without_noise", ch.calc_cov_matrix_extint_without_noise, float(pe))
        if got is not None:
            for k in range(K):
                cmp(f"calc_cov_matrix_extint_without_noise[user {k}]", got[k], _mat(out["xcov"][k]))
    # internal: the per-stream covariance the SINR is computed from (anchored mechanism)
    for k in range(K if not (light or lean) else 0):
        def bkl():
            if ext:
                rek = ch.calc_cov_matrix_extint_plus_noise(float(pe))[k]
            else:
                rek = ch.noise_var if (ch.noise_var is not None or not jp) else 0.0
            return (ch._calc_JP_Bkl_cov_matrix_all_l if jp else ch._calc_Bkl_cov_matrix_all_l)(fullF, k, rek)
        got = guarded("_calc_Bkl_cov_matrix_all_l", bkl)
        if got is not None:
            for l in range(ns[k]):
                cmp(f"(internal) Bkl[user {k}][stream {l}]", got[l], _mat(out["B"][k][l]))

    # --- the scale law with ordinary and with extreme factors.  TLC proved for this case that every power term is
    # homogeneous in the filter scale c and in the channel gain (amplitude a, noise x a^2); the exact SINRs are
    # therefore unchanged for any magnitude and Q is multiplied by a^2.  One of four extreme settings per case.
    ga2 = float(_rat(inp["ga"]) ** 2)
    ex_i = (inp["id"][0] + inp["id"][1]) % 4
    if zde_ok[0] and ex_i < 2:
        ex_i += 2          # infinite SINRs: take a gain factor (irrational amplitudes: the denominator becomes rounding noise)
    ex_c, ex_gain = [(1e-9, 1.0), (1e9, 1.0), (1.0, 1e-17 * ga2), (1.0, 1e17 * ga2)][ex_i]
    # one factor PER STREAM (column l of U_k x scs[k][l]); in the extreme setting alternately x ex_c and x 1 / ex_c
    scs = [[_g(x) for x in row] for row in inp["scs"]]
    for label, xc, gain in ((("", 1.0, 1.0), (" (extreme)", ex_c, ex_gain)) if not light else ()):
        ch2 = ch if gain == 1.0 else guarded("channel with gain %g" % gain, lambda: build_channel(inp, gain))
        if ch2 is None:
            continue
        cols = [[scs[k][l] * (xc if (k + l) % 2 == 0 else 1.0 / xc) for l in range(ns[k])] for k in range(K)]
        what = f"{name} with the columns of U x {cols!r:.120}, gain x {gain:g}{label}"
        got = guarded(what, getattr(ch2, jname), fullF, _objarr([U[k] * np.array(cols[k])[None, :] for k in range(K)]), **pekw)
        if got is not None:
            cmp_rows(what, got, sinr)
        if gain != 1.0:
            for k in range(K):
                got = guarded(qname + " gain", getattr(ch2, qmeth), k, fullF, **pekw)
                if got is not None:
                    cmp(f"{qname}[user {k}] / gain with gain x {gain:g}", np.asarray(got) / gain, Q[k])

    # --- the noise variance alone x 1e-5 / 1e-3 / 1e+3: only the noise term of TLC's exact power table scales, the
    # SINR is sig / (intf + ext + t nse) (second half of ScaleInvariant) - tiny noise gives large finite SINRs.
    # (The code forms the denominator as total - own stream: its relative error grows like eps (1 + SINR); the
    # tolerance of this comparison is max(1e-9, 1e-13 (1 + SINR)).)
    from pyphysim.util.misc import calc_shannon_sum_capacity
    nv = NOISE_VALUE[inp["noise"]]
    if not light and not lean and nv:
        e10 = [-5, -3, 3][rot % 3]
        t = Fraction(10) ** e10
        want = []
        for row in out["pow"]:
            want.append([])
            for p in row:
                den = _rat(p["intf"]) + _rat(p["ext"]) + t * _rat(p["nse"])
                want[-1].append(float(_rat(p["sig"]) / den) if den else math.inf)
        chn = guarded("channel with noise x 1e%d" % e10, lambda: build_channel(inp, 1.0, noise_factor=float(t)))
        if chn is not None:
            what = f"{name} with the noise variance x 1e{e10}"
            got = guarded(what, getattr(chn, jname), fullF, Uo, **pekw)
            if got is not None:
                n[0] += 1
                try:
                    g = np.hstack([np.asarray(x, dtype=float) for x in got])
                    w = np.array(_flat(want), dtype=float)
                    okn = g.shape == w.shape and bool(np.all(np.abs(g - w) <= np.maximum(TOL, 1e-13 * (1 + w)) * np.maximum(1.0, w)))
                except Exception:
                    okn = False
                if not okn:
                    bad.append(f"{tag}{what}: code {[np.asarray(x).tolist() for x in got]!r:.200} expected {want!r:.200}")
            terms = [1 + _rat(p["sig"]) / (_rat(p["intf"]) + _rat(p["ext"]) + t * _rat(p["nse"])) for row in out["pow"] for p in row]
            cw, ch_huge = _cap_want(terms)
            got = guarded("calc_shannon_sum_capacity (noise x 1e%d)" % e10, calc_shannon_sum_capacity, np.array(_flat(want), dtype=float))
            if got is not None:
                cmp("calc_shannon_sum_capacity of the SINRs with the noise variance x 1e%d" % e10, got, cw, ch_huge)

    # sum capacity of exact SINRs through util.misc
    if not light:
        cap, cap_huge = _cap_want(_flat(one_plus))
        got = guarded("calc_shannon_sum_capacity", calc_shannon_sum_capacity, np.array(_flat(sinr), dtype=float))
        if got is not None:
            cmp("calc_shannon_sum_capacity", got, cap, cap_huge)

    # --- the IA solver base class.  On a channel with external sources the solver's SINR must contain them with
    # pe = 1 (the power its own calc_Q uses); mismatches of the solver's SINR / dB / capacity THERE have the signature
    # of finding SolverSinrIgnoresExtInt.
    sol = out["sol"]
    s = sess.solver
    solQ = [_mat(sol["q1"][k]) for k in range(K)] if (sol["ok"] and sol["q1"]) else Q

    def to_finding(mark):
        if ext and ROUTE_SOLVER_EXT:
            known.extend((F_SOLVER_EXT, b) for b in bad[mark:])
            del bad[mark:]

    if (not sol["ok"]) and sol["inv"] and s is not None and not light:
        # (rel) the compensated filter exists but the exact value is not modelled (three streams): the two
        # implementations must still agree and the capacity must be the sum of log2(1 + SINR)
        mark = len(bad)
        a = guarded("solver.calc_SINR", s.calc_SINR)
        b = guarded("channel.calc_SINR(solver.full_F, solver.full_W)", lambda: s._multiUserChannel.calc_SINR(s.full_F, s.full_W))
        if a is not None and b is not None:
            cmp_rows("(rel) solver.calc_SINR vs channel.calc_SINR(solver.full_F, solver.full_W)", a, [list(np.asarray(x, dtype=float)) for x in b])
            c2 = guarded("solver.calc_sum_capacity", s.calc_sum_capacity)
            if c2 is not None:
                cmp("(rel) solver.calc_sum_capacity vs sum log2(1 + SINR)", c2, float(np.sum(np.log2(1.0 + np.hstack(list(b))))))
        to_finding(mark)
    if sol["ok"] and s is not None:
        ssinr = [[float(_ratinf(x)) for x in row] for row in sol["sinr"]]
        sq = [[_ratinf(x) for x in row] for row in sol["sinr"]]
        P = np.array([float(_rat(a) ** 2) for a in inp["pa"]])
        if sess.route == "ctor" and inp["op"]["kind"] != "scribble":   # (set_precoders(full_F=...) alone leaves P as it was)
            n[0] += 1
            if not _close(np.asarray(s.P, dtype=float), P):
                bad.append(f"{tag}solver.P reports {np.asarray(s.P).tolist()} expected {P.tolist()}")

        def solver_checks(s, label, gain=1.0, light=False):
            mark = len(bad)
            got = guarded("solver.calc_SINR" + label, s.calc_SINR)
            if got is not None:
                cmp_rows("solver.calc_SINR" + label, got, ssinr)
            to_finding(mark)
            for k in range(K):
                got = guarded("solver.calc_Q" + label, s.calc_Q, k)
                if got is not None:
                    cmp(f"solver.calc_Q[user {k}]{label}", np.asarray(got) / gain, solQ[k])
            if light:
                return
            mark = len(bad)
            got = guarded("solver.calc_SINR_in_dB" + label, s.calc_SINR_in_dB)
            if got is not None:
                want = [[(math.inf if q == math.inf else 10.0 * (math.log10(q.numerator) - math.log10(q.denominator)) if q > 0
                          else -np.inf) for q in row] for row in sq]
                cmp_rows("solver.calc_SINR_in_dB" + label, got, want, 10.0 * math.log10(HUGE))
            got = guarded("solver.calc_sum_capacity" + label, s.calc_sum_capacity)
            if got is not None:
                scap, scap_huge = _cap_want([1 + q for q in _flat(sq)])
                cmp("solver.calc_sum_capacity" + label, got, scap, scap_huge)
            to_finding(mark)
            # the two implementations agree: the channel object fed with the solver's full filters
            got = guarded("channel.calc_SINR(solver.full_F, solver.full_W)" + label,
                          lambda: s._multiUserChannel.calc_SINR(s.full_F, s.full_W))
            if got is not None:
                cmp_rows("channel.calc_SINR(solver.full_F, solver.full_W)" + label, got, ssinr)
            # (rel) remaining interference: smallest Ns eigenvalues of Q over its trace, from exact trace / determinant
            for k in range(K):
                tr, det = _rat(out["qtr"][k]), _rat(out["qdet"][k])
                if tr == 0 or (ext and pe != 1) or (nr[k] > 2 and ns[k] < nr[k]):
                    continue
                if ns[k] >= nr[k]:
                    want = 1.0
                else:  # Nr = 2, one stream: lambda_min = 2 det / (tr + sqrt(tr^2 - 4 det))
                    t, d = float(tr), float(det)
                    want = (2.0 * d / (t + math.sqrt(max(t * t - 4.0 * d, 0.0)))) / t
                got = guarded("solver.calc_remaining_interference_percentage" + label,
                              s.calc_remaining_interference_percentage, k)
                if got is not None:
                    cmp(f"(rel) solver.calc_remaining_interference_percentage[user {k}]{label}", got, want)

        solver_checks(s, "", light=light)

        def make(chx, Fs, Us, lists=False):
            s2 = _Solver.get()(chx)
            if lists:
                s2.set_precoders(F=[f.copy() for f in Fs], P=P.copy())
                s2.set_receive_filters(W=[u.copy() for u in Us])
            else:
                s2.set_precoders(F=_objarr(Fs), P=P.copy())
                s2.set_receive_filters(W_H=_objarr([u.conj().T for u in Us]))
            return s2

        if not light and not lean:
            # the same solver fed with Python LISTS (documented input type of set_precoders / set_receive_filters).
            # A mismatch here - and only here - has the signature of finding ListPrecodersScaledAlongStreams.
            mark = len(bad)
            got = guarded("solver.calc_SINR (precoders / filters given as lists)", lambda: make(ch, F, U, lists=True).calc_SINR())
            if got is not None:
                cmp_rows("solver.calc_SINR (precoders / filters given as lists)", got, ssinr)
            known.extend((F_SOLVER_EXT if (ext and ROUTE_SOLVER_EXT) else F_LIST, b) for b in bad[mark:])
            del bad[mark:]
            # W -> c*W (ordinary and extreme c) and the channel gain must not change the solver's SINR either
            chg = ch if ex_gain == 1.0 else guarded("channel with gain", lambda: build_channel(inp, ex_gain))
            if chg is not None:
                s2 = guarded("IASolverBaseClass with rescaled W", lambda: make(chg, F, [sc * ex_c * u for u in U]))
                if s2 is not None:
                    solver_checks(s2, f" with W x {sc * ex_c!r}, gain x {ex_gain:g} (extreme)", ex_gain)

    if light:
        return n[0], bad, known
    # --- frame conditions (notes/CALL_DISCIPLINE.md)
    # EarlierResultsUnchanged: what was returned before (earlier steps of the chain, earlier calls of this step) is intact
    for what, obj, snap in sess.held + mine:
        n[0] += 1
        if not _same(snap, obj):
            bad.append(f"{tag}EarlierResultsUnchanged: the value returned earlier by {what} was altered by later calls")
    # BystanderUnaffected: a second object in the same process still answers what it answered
    if sess.bystander is not None:
        bch, bcall, bsnap = sess.bystander
        again = guarded("bystander", bcall)
        n[0] += 1
        if again is not None and not _same(bsnap, again):
            bad.append(f"{tag}BystanderUnaffected: another channel object in the process changed its answers")
    # ResultsAreCopies + QueryIsPure: write into everything that was returned, then ask again
    sess.held = mine[:1]                       # the first SINR result stays untouched for the next step of the chain
    wrote = False
    for what, obj, snap in mine[1:]:
        wrote = _scribble(obj) or wrote
    got = guarded(name + " (asked again after writing into returned values)", getattr(ch, jname), fullF, Uo, **pekw)
    if got is not None:
        cmp_rows(name + " (asked again after writing into returned values)", got, sinr)
    got = guarded(qname + " (asked again)", getattr(ch, qmeth), 0, fullF, **pekw)
    if got is not None:
        cmp(f"{qname}[user 0] (asked again after writing into returned values)", got, Q[0])
    if sol["ok"] and s is not None:
        mark = len(bad)
        got = guarded("solver.calc_SINR (asked again)", s.calc_SINR)
        if got is not None:
            cmp_rows("solver.calc_SINR (asked again after writing into returned values)", got,
                     [[float(_ratinf(x)) for x in row] for row in sol["sinr"]])
        to_finding(mark)
    # --- SolveSelfConsistent (rel): a REAL solver class on this channel
    if out.get("cf") and inp["op"]["kind"] == "fresh" and nv:
        from pyphysim.ia.algorithms import ClosedFormIASolver
        try:
            cfs = ClosedFormIASolver(ch)
            cfs.solve(1, np.array([float(_rat(a) ** 2) for a in inp["pa"]]))
            a = cfs.calc_SINR()
            b = ch.calc_SINR(cfs.full_F, cfs.full_W)
            c2 = cfs.calc_sum_capacity()
        except np.linalg.LinAlgError:
            a = None              # (degenerate eigen-structure of this integer channel: the closed form does not exist)
        except Exception as ex:
            a = None
            n[0] += 1
            bad.append(f"{tag}ClosedFormIASolver.solve / calc_SINR raised {type(ex).__name__}: {ex}")
        if a is not None and np.all(np.isfinite(np.hstack(list(b)))):
            cmp_rows("(rel) ClosedFormIASolver.calc_SINR vs channel.calc_SINR(its full_F, full_W)", a, [list(np.asarray(x, dtype=float)) for x in b])
            cmp("(rel) ClosedFormIASolver.calc_sum_capacity vs sum log2(1 + SINR)", c2, float(np.sum(np.log2(1.0 + np.hstack(list(b))))))
    return n[0], bad, known


def _amp_big(inp, power):
    """per-antenna amplitude matrix for a K x (K+Ke) path-loss POWER matrix (None: ones)"""
    rows = sum(inp["nr"])
    counts = list(inp["nt"]) + list(inp["nte"])
    cols = sum(counts)
    if power is None:
        return np.ones((rows, cols))
    return np.sqrt(np.repeat(np.repeat(np.asarray(power, dtype=float), inp["nr"], axis=0), counts, axis=1))


def alias_probe(sess, step_case, leaf):
    """AliasCoherent: the caller writes one entry of an array it handed over earlier.  Refused -> nothing may have
    changed; accepted -> the object must behave as if set up with the modified array, or - when it reports the old
    values (it had made a copy) - as before.  Returns (comparisons, bad, known)."""
    inp, new = step_case["inp"], leaf["inp"]
    K = inp["K"]
    ch = sess.ch
    target = new["op"]["pl"]
    i, j = new["scr"][0] - 1, new["scr"][1] - 1
    tag = f"[alias probe after step {inp['step']}: write into the {'path-loss' if target == 'pl' else 'channel'} matrix handed over] "
    if target == "pl":
        if not sess.pl_args:
            return 0, [], []
        arr, jj = (sess.pl_args[0], j) if j < K else (sess.pl_args[1], j - K)
        val = float(_rat(new["pl"][i][j]) ** 2)
    else:
        arr, jj = sess.H_arg, j
        val = _g(new["H"][i][j])
    if arr.dtype.kind in "iu" and val != int(val):
        return 0, [], []          # (an integer array cannot hold the new value)
    old = arr[i, jj]
    try:
        arr[i, jj] = val
        accepted = True
    except ValueError:
        accepted = False
    if not accepted:
        n, bad, known = compare(sess, step_case, light=True)     # refused: nothing may have changed
        return n, [tag + "(write refused) " + b for b in bad], known
    # accepted: which array does the object report?
    p_new, p_old = _pl_power(new), _pl_power(inp)
    rep = ch.pathloss
    rep = None if rep is None else np.asarray(rep, dtype=float)
    which = None
    for name, pw, raw in (("new", p_new, new["H"]), ("old", p_old, inp["H"])):
        same_pl = (rep is None and pw is None) or (rep is not None and pw is not None and rep.shape == pw.shape and np.allclose(rep, pw, rtol=0, atol=1e-12))
        big = _mat(raw) * _amp_big(inp, pw)
        if same_pl and np.allclose(np.asarray(ch.big_H), big, rtol=0, atol=1e-9):
            which = name
            break
    if which is None:
        res = (1, [tag + "(write accepted) pathloss / big_H report neither the old nor the modified array coherently"], [])
    else:
        n, bad, known = compare(sess, leaf if which == "new" else step_case, light=True)
        res = (n, [tag + f"(write accepted, object reports the {which} array) " + b for b in bad], known)
    arr[i, jj] = old          # undo, the chain continues from the step itself
    n2, bad2, known2 = compare(sess, step_case, light=True)
    return res[0] + n2, res[1] + [tag + "(after undoing the write) " + b for b in bad2], res[2] + known2


def solver_alias_probe(sess, step_case):
    """(rel) the precoders / filters handed to the solver are kept by reference too: after an in-place write the
    solver's SINR must still be the SINR of the full precoders / filters the solver itself reports."""
    s = sess.solver
    if s is None or not step_case["out"]["sol"]["ok"] or sess.F_arg is None:
        return 0, [], []
    bad = []
    arrs = [a for a in (sess.F_arg.get("F"), sess.F_arg.get("full_F"), sess.U_arg.get("W"), sess.U_arg.get("W_H")) if a is not None]
    for a in arrs:
        m = a[0]
        if not m.flags.writeable:
            continue
        old = m[0, 0]
        m[0, 0] = old + 1.0
        try:
            mine = np.hstack(list(s.calc_SINR()))
            ref = np.hstack(list(s._multiUserChannel.calc_SINR(s.full_F, s.full_W)))
            if not (_close(mine, ref) or (np.all(np.isfinite(mine) == np.isfinite(ref)) and _close(mine[np.isfinite(mine)], ref[np.isfinite(ref)]))):
                bad.append(f"[alias probe after step {step_case['inp']['step']}: write into a matrix handed to the solver] (rel) "
                           f"solver.calc_SINR {mine.tolist()} is not the SINR of the solver's own full_F / full_W {ref.tolist()}")
        except ZeroDivisionError as ex:
            if TOLERATE_ZERO_DIVISION:
                _TOLERATED[0] += 1
            else:
                bad.append(f"[alias probe: write into a matrix handed to the solver] raised {type(ex).__name__}: {ex}")
        except Exception as ex:
            bad.append(f"[alias probe: write into a matrix handed to the solver] raised {type(ex).__name__}: {ex}")
        m[0, 0] = old
    n, bad2, known = compare(sess, step_case, light=True)
    if len(step_case["inp"]["nte"]) > 0 and ROUTE_SOLVER_EXT:         # on a channel with external sources this relation fails for the reason of the finding
        known = known + [(F_SOLVER_EXT, b) for b in bad]
        bad = []
    return n + len(arrs), bad + ["[after undoing the write into the solver's matrices] " + b for b in bad2], known


def randomize_probe(sess, case):
    """RandomizeThenQueryCoherent (rel): randomize() on the same channel object (path loss and noise kept), then every
    SINR / Q must be the first-principles value for the matrix the object reports (big_H, path loss included).
    The first-principles sums are formed here, stream by stream, from that matrix."""
    inp = case["inp"]
    K, nr, nt, nte, ns, jp = inp["K"], inp["nr"], inp["nt"], inp["nte"], inp["ns"], inp["jp"]
    ch = sess.ch
    ext = len(nte) > 0
    bad = []
    try:
        if ext:
            ch.randomize(np.array(nr), np.array(nt), K, np.array(nte))
        else:
            ch.randomize(np.array(nr), np.array(nt), K)
        big = np.array(ch.big_H, dtype=complex)
        pa = [float(_rat(a)) for a in inp["pa"]]
        F = [pa[k] * _mat(inp["F"][k]) for k in range(K)]
        U = [_mat(inp["U"][k]) for k in range(K)]
        pe = float(_rat(inp["pe"]))
        nv = ch.noise_var or 0.0
        cr = np.cumsum([0] + list(nr))
        ct = np.cumsum([0] + list(nt))
        T = int(ct[-1])
        want, wantQ = [], []
        for k in range(K):
            Hk = big[cr[k]:cr[k + 1], :]
            rx = [[(Hk[:, :T] if jp else Hk[:, ct[j]:ct[j + 1]]) @ F[j][:, d] for d in range(ns[j])] for j in range(K)]
            extc = [Hk[:, T + e] for e in range(Hk.shape[1] - T)]
            Qk = sum((np.outer(g, g.conj()) for j in range(K) if j != k for g in rx[j]), np.zeros((nr[k], nr[k]), dtype=complex))
            Qk = Qk + pe * sum((np.outer(h, h.conj()) for h in extc), np.zeros((nr[k], nr[k]), dtype=complex))
            if ch.noise_var is not None:
                Qk = Qk + nv * np.eye(nr[k])
            wantQ.append(Qk)
            row = []
            for l in range(ns[k]):
                u = U[k][:, l]
                sig = abs(np.vdot(u, rx[k][l])) ** 2
                den = sum(abs(np.vdot(u, rx[j][d])) ** 2 for j in range(K) for d in range(ns[j]) if (j, d) != (k, l))
                den += pe * sum(abs(np.vdot(u, h)) ** 2 for h in extc) + nv * np.vdot(u, u).real
                row.append(sig / den if den > 0 else math.inf)
            want.append(row)
        kw = {"pe": pe} if ext else {}
        got = (ch.calc_JP_SINR if jp else ch.calc_SINR)(_objarr(F), _objarr(U), **kw)
        for k in range(K):
            g = np.asarray(got[k], dtype=float)
            w = np.array(want[k], dtype=float)
            fin = np.isfinite(w)
            okr = g.shape == w.shape and np.all(g[~fin] >= HUGE) and \
                np.all(np.abs(g[fin] - w[fin]) <= np.maximum(1e-7, 1e-12 * (1 + w[fin])) * np.maximum(1.0, w[fin]))
            if not okr:
                bad.append(f"[after randomize() on the same object] (rel) {'calc_JP_SINR' if jp else 'calc_SINR'}[user {k}] {g.tolist()} "
                           f"is not the first-principles value {w.tolist()} for the matrix big_H reports")
            q = (ch.calc_JP_Q if jp else ch.calc_Q)(k, _objarr(F), **kw)
            if not np.allclose(q, wantQ[k], rtol=1e-9, atol=1e-9):
                bad.append(f"[after randomize() on the same object] (rel) {'calc_JP_Q' if jp else 'calc_Q'}[user {k}] differs from the "
                           f"sum of the links' covariances for the matrix big_H reports")
    except Exception as ex:
        bad.append(f"[after randomize() on the same object] raised {type(ex).__name__}: {ex}")
    return 2 * K, bad, []


def run_capvec(case):
    """A capacity vector: calc_shannon_sum_capacity and IASolverBaseClass.calc_sum_capacity (through a subclass whose
    calc_SINR reports exactly these SINRs) against sum log2(1 + SINR) of the exact numbers; order and split laws."""
    from pyphysim.util.misc import calc_shannon_sum_capacity
    from pyphysim.channels import multiuser
    inp = case["inp"]
    vals = [Fraction(int(m), int(d)) * Fraction(10) ** int(e) for m, d, e in inp["cv"]]
    want = sum(_log2_frac(1 + v) for v in vals)
    cut = inp["cut"]
    w1 = sum(_log2_frac(1 + v) for v in vals[:cut])
    rot = _rot(inp)
    x = np.array([float(v) for v in vals], dtype=float)
    if rot % 3 == 1 and all(v.denominator == 1 and v < 2 ** 62 for v in vals):
        x = x.astype(np.int64)                 # integral SINRs as integers
    bad = []
    n = [0]

    def call(what, f, arg):
        n[0] += 1
        snap = _snapshot(arg)
        try:
            r = f(arg)
        except Exception as ex:
            bad.append(f"{what} raised {type(ex).__name__}: {ex}")
            return None
        if not _same(snap, arg):
            bad.append(f"ArgumentsUnchanged: {what} altered its argument")
        return r

    def chk(what, got, w):
        if got is None:
            return
        n[0] += 1
        if not _close(got, w):
            bad.append(f"{what} ({len(vals)} streams, SINRs {min(x):.3g} .. {max(x):.3g}): code {got!r} expected {w!r}")

    chk("calc_shannon_sum_capacity", call("calc_shannon_sum_capacity", calc_shannon_sum_capacity, x), want)
    chk("calc_shannon_sum_capacity of the reversed vector (CapacityPermutationInvariant)",
        call("calc_shannon_sum_capacity", calc_shannon_sum_capacity, x[::-1]), want)
    if 0 < cut < len(vals):
        a = call("calc_shannon_sum_capacity", calc_shannon_sum_capacity, x[:cut])
        b = call("calc_shannon_sum_capacity", calc_shannon_sum_capacity, x[cut:].copy())
        if a is not None and b is not None:
            chk(f"calc_shannon_sum_capacity(first {cut}) + calc_shannon_sum_capacity(rest) (CapacityAdditive)", a + b, want)
            chk(f"calc_shannon_sum_capacity(first {cut})", a, w1)
    if len(vals) == 1:
        chk("calc_shannon_sum_capacity of a Python scalar", call("calc_shannon_sum_capacity", calc_shannon_sum_capacity, float(x[0])), want)
    # the solver's sum capacity for the same SINRs: a solver whose calc_SINR reports them, spread over three users
    ch = multiuser.MultiUserChannelMatrix()
    ch.init_from_channel_matrix(np.eye(3, dtype=complex), np.array([1, 1, 1]), np.array([1, 1, 1]), 3)
    parts = np.empty(3, dtype=object)
    xf = np.asarray(x, dtype=float)
    for i in range(3):
        parts[i] = xf[i::3].copy()

    class Reporting(_Solver.get()):
        def calc_SINR(self):
            return parts
    n[0] += 1
    try:
        chk("IASolverBaseClass.calc_sum_capacity for the same SINRs", Reporting(ch).calc_sum_capacity(), want)
    except Exception as ex:
        bad.append(f"IASolverBaseClass.calc_sum_capacity raised {type(ex).__name__}: {ex}")
    return n[0], bad, []


def run_unit(unit):
    """unit = list of cases: one star case, or the consecutive cases of a chain (sorted by step) followed by its
    aliasing leaves.  Returns a list of (comparisons, bad, known), one per case."""
    if unit[0]["inp"]["op"]["kind"] == "capvec":
        with np.errstate(all="ignore"):
            return [run_capvec(unit[0])]
    tol0 = _TOLERATED[0]
    steps = [c for c in unit if c["inp"]["op"]["kind"] != "scribble"]
    leaves = {c["inp"]["step"]: c for c in unit if c["inp"]["op"]["kind"] == "scribble"}
    res = {}
    sess = Session()
    with np.errstate(all="ignore"):
        for case in steps:
            inp = case["inp"]
            try:
                sess.apply(case)
                if inp["chain"] and sess.bystander is None:
                    # BystanderUnaffected: a second, independent channel object answers the same question after every step
                    bch = build_channel(inp)
                    pa = [float(_rat(a)) for a in inp["pa"]]
                    bF = _objarr([pa[k] * _mat(inp["F"][k]) for k in range(inp["K"])])
                    bU = _objarr([_mat(inp["U"][k]) for k in range(inp["K"])])
                    bcall = (lambda b=bch, f=bF, u=bU, jp=inp["jp"]: (b.calc_JP_SINR if jp else b.calc_SINR)(f, u))
                    try:
                        sess.bystander = (bch, bcall, _snapshot(bcall()))
                    except ZeroDivisionError:
                        if not TOLERATE_ZERO_DIVISION:
                            raise
                        _TOLERATED[0] += 1
            except Exception as ex:
                res[id(case)] = (1, [f"step {inp['step']} ({inp['op']}) raised {type(ex).__name__}: {ex}"], [])
                break
            res[id(case)] = compare(sess, case)
            leaf = leaves.get(inp["step"])
            if leaf is not None and inp["chain"]:
                try:
                    r1 = alias_probe(sess, case, leaf)
                    r2 = solver_alias_probe(sess, case)
                    res[id(leaf)] = (r1[0] + r2[0], r1[1] + r2[1], r1[2] + r2[2])
                except Exception as ex:
                    res[id(leaf)] = (1, [f"alias probe after step {inp['step']} raised {type(ex).__name__}: {ex}"], [])
    # RandomizeThenQueryCoherent: the chain ends with a randomize() on the same channel object
    if steps and steps[-1]["inp"]["chain"] and id(steps[-1]) in res and len(res[id(steps[-1])]) == 3:
        with np.errstate(all="ignore"):
            r = randomize_probe(sess, steps[-1])
        last = res[id(steps[-1])]
        res[id(steps[-1])] = (last[0] + r[0], last[1] + r[1], last[2])
    outl = [res.get(id(c), (0, [], [])) for c in unit]
    outl[0] = tuple(outl[0]) + (_TOLERATED[0] - tol0,)      # tolerated ZeroDivisionErrors of the unit
    return outl


# ------------------------------------------------------------------------------- the check
def plan(tier):
    """TLC jobs: (label, clo, chi, lo, hi, hlo, hhi)"""
    jobs = []
    thorough = tier == "thorough"
    nch = 8 if thorough else 2
    chunk = EXH_COUNT // nch
    for i in range(nch):
        jobs.append((f"exhaustive-1x1/{i}", 0, 0, i * chunk, (i + 1) * chunk - 1, 1, 0) +
                    ((1, THOROUGH_CAPVEC if thorough else QUICK_CAPVEC) if i == 0 else ()))   # + the capacity vectors
    for c1, c2, cnt in (THOROUGH_COUNTS if thorough else QUICK_COUNTS):
        lo = 1
        while lo <= cnt:
            hi = min(cnt, lo + 99)
            jobs.append((f"seeded/cfg{c1}-{c2}/{lo}-{hi}", c1, c2, lo, hi, 1, 0))
            lo = hi + 1
    for h1, h2, cnt in (THOROUGH_CHAINS if thorough else QUICK_CHAINS):
        lo = 0
        while lo < cnt:
            hi = min(cnt - 1, lo + 17)
            jobs.append((f"chain/cfg{h1}-{h2}/{lo}-{hi}", 1, 0, lo, hi, h1, h2))
            lo = hi + 1

    def weight(j):     # rough cost: longest first
        ncase = j[4] - j[3] + 1
        if j[5] <= j[6]:
            return ncase * (j[6] - j[5] + 1) * 60
        return ncase * (1 if j[1] == 0 else 12 * (j[2] - j[1] + 1))
    jobs.sort(key=lambda j: -weight(j))
    return jobs


def units_of(cases):
    """star cases one by one; chain cases grouped by chain and ordered by step (only gap-free prefixes), followed by
    the aliasing leaves of those steps"""
    units, chains, leaves = [], {}, {}
    for c in cases:
        ch = c["inp"]["chain"]
        if not ch:
            units.append([c])
        elif c["inp"]["op"]["kind"] == "scribble":
            leaves.setdefault(tuple(ch), {})[c["inp"]["step"]] = c
        else:
            chains.setdefault(tuple(ch), {})[c["inp"]["step"]] = c
    for key in sorted(chains):
        steps = chains[key]
        unit = []
        i = 1
        while i in steps:
            unit.append(steps[i])
            i += 1
        unit += [leaf for st, leaf in sorted(leaves.get(key, {}).items()) if st < i]
        units.append(unit)
    return units


def run(ctx):
    ctx.rule = ("TLC computes the stream-by-stream SINR / covariances exactly (Gaussian rationals) for every case of "
                "the domain and checks the laws on it; each emitted case is executed once on the real classes "
                "(chain cases consecutively on one channel object and one solver object); "
                "distinct = emitted cases (id = configuration, case number)")
    ctx.assumptions += ["values compared with |x - x^| <= 1e-9 max(1, |x^|); log2 / log10 of the exact rational by Python's math",
                        "an infinite SINR (zero denominator, non-zero signal) may be reported as +inf or as a number >= 1e9; undefined SINRs (0 / 0) are excluded",
                        "the IA solver has no external-interference power in its API: on channels with external sources its SINR is "
                        "demanded with pe = 1, the power its own calc_Q uses; its exact value is modelled for <= 2 streams per user",
                        "remaining-interference percentage is evaluated numerically from TLC's exact trace / determinant (rel)",
                        "chains re-initialise through init_from_channel_matrix; randomize() is judged (rel) at the end of every chain",
                        "the extreme scale factors (1e-9, 1e+9, 1e-17, 1e+17) rest on the term-by-term homogeneity TLC checks "
                        "with small rational factors"]
    seed = int(ctx.seed)
    jobs = plan(ctx.tier)

    def tlc_job(j):
        label, clo, chi, lo, hi, hlo, hhi = j[:7]
        vlo, vhi = (j[7], j[8]) if len(j) > 7 else (1, 0)
        cfg, defs = model(clo, chi, lo, hi, seed, hlo=hlo, hhi=hhi, vlo=vlo, vhi=vhi)
        return tlc.run(MODULE, cfg, defs=defs, heap="1g")   # -coverage is prohibitively slow on the recursive matrix operators

    def dev_job(group):
        """ONE TLC run (-continue) refutes every deviation of the group: each initial state fixes one deviation, tried on
        its own configurations; a deviation is refuted when a violated invariant is reported in a behaviour with its name."""
        import re
        star = [DEV_WHERE[d] for d in group if DEV_WHERE[d][0] == "star"]
        chain = [DEV_WHERE[d] for d in group if DEV_WHERE[d][0] == "chain"]
        clo, chi = (min(w[1] for w in star), max(w[2] for w in star)) if star else (1, 0)
        hlo, hhi = (min(w[1] for w in chain), max(w[2] for w in chain)) if chain else (1, 0)
        cfg, defs = model(clo, chi, 0 if chain else 1, max(DEV_WHERE[d][3] for d in group), seed, dev=group, emit=False, hlo=hlo, hhi=hhi)
        r = tlc.run(MODULE, cfg, defs=defs, heap="1g", continue_=True)
        found = {}
        for block in r.out.split("Error: Invariant ")[1:]:
            inv = block.split(" ", 1)[0]
            m = re.search(r'dv = "(\w+)"', block)
            if m and m.group(1) != "none":
                found.setdefault(m.group(1), inv)
        return r, found

    # TLC processes run in threads (each single-worker); VERIF_PROCS throttles them on a shared machine
    nthreads = max(1, min(14, int(os.environ.get("VERIF_PROCS", "0") or 0) or 14))
    import time as _time
    t_start = _time.time()
    with ThreadPoolExecutor(nthreads) as ex:
        futs = [ex.submit(tlc_job, j) for j in jobs]
        dfuts = [ex.submit(dev_job, g) for g in DEV_GROUPS]
        runs = [f.result() for f in futs]
        found = {}
        dgen = dwall = 0
        for f in dfuts:
            dr, fnd = f.result()
            found.update(fnd)
            dgen += dr.generated
            dwall += dr.wall
        for d in DEVS:
            if d not in found:
                raise tlc.TlcError(f"deviation {d} is not detected by the invariants of Sinr.tla")
        ctx.notes["deviations_refuted_by_model"] = found
        ctx.notes["deviation_runs"] = {"runs": len(DEV_GROUPS), "generated": dgen, "wall_s": round(dwall, 1)}
    cases = []
    per_family = {}
    for j, r in zip(jobs, runs):
        ctx.account(r, MODULE, j[0])
        seen = set()
        for e in r.emitted:
            key = tuple(e["inp"]["id"])
            if key in seen:
                continue
            seen.add(key)
            cases.append(e)
        fam = j[0].rsplit("/", 1)[0]
        per_family[fam] = per_family.get(fam, 0) + len(seen)
    # which action produced a case is visible in the case itself
    for e in cases:
        kind = e["inp"]["op"]["kind"]
        act = ("PickExhaustive" if e["inp"]["id"][0] == 0 else "PickSeeded") if kind == "fresh" else \
              ("ChainStart" if kind == "init" else "ChainLeaf" if kind == "scribble" else
               "PickCapVec" if kind == "capvec" else "ChainStep")
        ctx.actions[act] = ctx.actions.get(act, 0) + 1
        missing = set(e["out"]["req"]) - IMPLEMENTED_LAWS
        if missing:
            raise tlc.TlcError(f"the specification requires laws the replay does not implement: {sorted(missing)}")
    ctx.require_actions(["PickExhaustive", "PickSeeded", "ChainStart", "ChainStep", "ChainLeaf", "PickCapVec"])
    ctx.notes["required_laws"] = sorted({l for e in cases for l in e["out"]["req"]})
    units = units_of(cases)
    t_tlc = _time.time()
    res = pool_map(run_unit, units, chunksize=max(1, len(units) // 128))
    ctx.notes["stage_wall_s"] = {"tlc": round(t_tlc - t_start, 1), "replay": round(_time.time() - t_tlc, 1)}
    comparisons = 0
    solver_cases = 0
    chain_steps = {}
    tolerated = 0
    infinite = 0
    for unit, ures in zip(units, res):
        for case, r in zip(unit, ures):
            ncmp, bad, known = r[:3]
            tolerated += r[3] if len(r) > 3 else 0
            inp = case["inp"]
            comparisons += ncmp
            ctx.ok(key=f"{seed}:{inp['id'][0]}:{inp['id'][1]}")
            if inp["op"]["kind"] == "capvec":
                if bad:
                    ctx.violation(f"capacity vector {inp['id']}: " + "; ".join(bad[:3]), {"unit": [case], "mismatches": bad[:10]})
                continue
            solver_cases += 1 if (case["out"]["sol"]["ok"] and solver_applies(inp)) else 0
            infinite += 1 if any(int(x[1]) == 0 for row in case["out"]["sinr"] for x in row) else 0
            if inp["chain"]:
                k = f"{inp['op']['kind']}/{inp['op']['pl']}/{inp['op']['pw']}"
                chain_steps[k] = chain_steps.get(k, 0) + 1
            # a chain is replayed from its first step: the stored case is the prefix of the unit
            stored = {"unit": unit if inp["op"]["kind"] == "scribble" else unit[: unit.index(case) + 1]}
            for fid in sorted({f for f, _ in known}):
                texts = [t for f, t in known if f == fid]
                ctx.finding(fid, f"case {inp['id']}: " + "; ".join(texts[:2]), dict(stored, mismatches=texts[:6]))
            if bad:
                ctx.violation(f"case {inp['id']} (K={inp['K']} Nr={inp['nr']} Nt={inp['nt']} Ns={inp['ns']} "
                              f"ext={inp['nte']} jp={inp['jp']}): " + "; ".join(bad[:3]), dict(stored, mismatches=bad[:10]))
        if len(unit) > 1:
            ctx.trace_done()
    ctx.exhaustive = True   # the 1x1 family enumerates all channel matrices over the alphabet x noise settings
    ctx.notes["cases_per_family"] = per_family
    ctx.notes["comparisons"] = comparisons
    ctx.notes["cases_with_solver"] = solver_cases
    ctx.notes["cases_with_an_infinite_sinr"] = infinite
    ctx.notes["zero_division_errors_tolerated"] = tolerated
    ctx.notes["chain_steps_executed"] = chain_steps
    ctx.notes["exhaustive_scope"] = ("K=2, 1x1 blocks: all 6^4 channel matrices over {0,1,-1,i,-i,1+i} x noise {None,0,1/2}; "
                                     "other families and the chains are seeded samples of the stated domain")
    stars = [u[0] for u in units if len(u) == 1 and not u[0]["inp"]["chain"] and u[0]["inp"]["op"]["kind"] == "fresh"]
    mid = stars[len(stars) // 2]
    ctx.sample({"id": mid["inp"]["id"], "K": mid["inp"]["K"], "Nr": mid["inp"]["nr"], "Nt": mid["inp"]["nt"],
                "Ns": mid["inp"]["ns"], "noise": mid["inp"]["noise"], "sinr_exact": mid["out"]["sinr"]})
    longest = max(units, key=len)
    ctx.sample({"chain": longest[0]["inp"]["chain"],
                "steps": [[c["inp"]["op"]["kind"], c["inp"]["op"]["pl"], c["inp"]["op"]["pw"], c["inp"]["nr"], c["inp"]["nt"]]
                          for c in longest]})


def replay(ctx, data):
    c = data["case"]
    unit = c["unit"] if "unit" in c else [c["case"]]
    res = run_unit(unit)
    ctx.notes["comparisons"] = sum(r[0] for r in res)
    for case, r in zip(unit, res):
        ncmp, bad, known = r[:3]
        ctx.ok(key=str(case["inp"]["id"]))
        for fid in sorted({f for f, _ in known}):
            texts = [t for f, t in known if f == fid]
            ctx.finding(fid, f"case {case['inp']['id']}: " + "; ".join(texts[:2]), {"unit": unit, "mismatches": texts[:6]})
        if bad:
            ctx.violation(f"case {case['inp']['id']}: " + "; ".join(bad[:3]), {"unit": unit, "mismatches": bad[:10]})
