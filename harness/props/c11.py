"""C11 - reported SINRs equal first-principles signal over interference-plus-noise.

Stage M: TLC on spec/chan/Sinr.tla.  Every explored case satisfies the laws of the property
(NonNegative, ScaleInvariant = homogeneity of every power term in the filter scale and the channel
gain, QScales, QHermitianPSD, QIsSumOfLinks, DenIsQuadraticForm, BIsQPlusOwn, CapacityTerms,
CachesFresh), the model of the code's covariance algebra equals the stream-by-stream definition
(AlgMatches, SolverAlgMatches, SolverZeroForcing, SolverAgrees); for every `Dev` flag (a plausible
regression of one algebra step or of one cache invalidation) TLC must find a counterexample.
Stage R: every case TLC emitted is executed on the real MultiUserChannelMatrix /
MultiUserChannelMatrixExtInt and on an IASolverBaseClass subclass; every returned number is compared
with the exact rational TLC emitted (log2 / log10 evaluated in Python from that exact rational).
 * star cases (exhaustive 1x1 family + seeded families): fresh objects per case;
 * chains: the consecutive cases of a chain are served by ONE channel object and ONE solver object
   (re-initialisation with another antenna partition of equal totals while the path loss is kept or
   set anew; powers changed through the solver's P setter with a vector / scalar / None in all
   orders) - after every step every quantity is compared again;
 * the scale law TLC proved term by term is replayed with extreme factors (filters x 1e-9 / 1e+9,
   channel gain and noise x 1e-17 / 1e+17): the exact SINRs do not change, Q scales exactly.

Python here only converts exact values to floats, drives pyphysim and compares."""
import math
import os
from concurrent.futures import ThreadPoolExecutor
from fractions import Fraction

import numpy as np

from .. import tlc
from ..core import pool_map

MODULE = "chan/Sinr.tla"
TOL = 1e-9
DEVS = ["OwnStreamNotSubtracted", "NoiseNotFiltered", "ExtIntPowerIgnored", "JpRowsOfOtherUser",
        "PathlossIgnored", "ConjMissing", "SolverScalesByP", "ListPrecodersScaledAlongStreams",
        "PowerNoneKeepsCaches", "PlExpansionReusedOnEqualShape"]
# id of the finding the list sub-check maps to (fixed in /repo: 15af8cd)
F_LIST = "ListPrecodersScaledAlongStreams"
INVARIANTS = ["TypeOK", "CachesFresh", "NonNegative", "ScaleInvariant", "QScales", "QHermitianPSD", "QIsSumOfLinks",
              "DenIsQuadraticForm", "BIsQPlusOwn", "AlgMatches", "SolverZeroForcing", "SolverAgrees", "SolverAlgMatches",
              "CapacityTerms"]
EXH_COUNT = 3888  # = ExhCount of the specification


def _cfg(K, nr, nt, ns, nte=(), jp=False, amps=2):
    return dict(K=K, nr=list(nr), nt=list(nt), ns=list(ns), nte=list(nte), jp=jp, amps=amps)


# amps = 1: integral amplitude alphabets (wherever the solver's two-stream zero forcing or K = 3
# multiplies magnitudes: TLC integers are 32-bit), amps = 2: alphabets with halves.
CFG_K2 = [
    _cfg(2, [2, 2], [2, 2], [1, 1]),                        # 1 plain, solver, one stream
    _cfg(2, [2, 2], [2, 2], [2, 2], amps=1),                # 2 plain, solver, two streams (zero forcing of own streams)
    _cfg(2, [2, 1], [1, 2], [1, 1]),                        # 3 plain, Nr # Nt
    _cfg(2, [2, 2], [2, 2], [2, 1], amps=1),                # 4 plain, unequal stream counts
    _cfg(2, [2, 2], [2, 2], [2, 1], nte=[1]),               # 5 external interference, one source
    _cfg(2, [1, 2], [2, 1], [1, 1], nte=[1, 2]),            # 6 two external sources with 1 and 2 antennas
    _cfg(2, [2, 2], [2, 2], [2, 1], jp=True),               # 7 joint processing
    _cfg(2, [2, 1], [1, 2], [1, 1], nte=[2], jp=True),      # 8 joint processing + external interference
    _cfg(3, [2, 2, 2], [2, 2, 2], [1, 1, 1], amps=1),       # 9 three users
]
CFG_K3 = [
    _cfg(3, [2, 2, 2], [2, 2, 2], [2, 2, 2], amps=1),                    # 10
    _cfg(3, [2, 2, 1], [1, 2, 2], [1, 2, 1], amps=1),                    # 11
    _cfg(3, [2, 2, 2], [2, 2, 2], [1, 1, 1]),                            # 12 halves, one stream
    _cfg(3, [2, 2, 2], [2, 2, 2], [2, 2, 2], nte=[1], amps=1),           # 13
    _cfg(3, [2, 1, 2], [2, 2, 1], [2, 1, 1], nte=[2, 1], amps=1),        # 14
    _cfg(3, [2, 2, 2], [2, 2, 2], [2, 2, 2], jp=True, amps=1),           # 15
    _cfg(3, [2, 2, 2], [2, 2, 2], [2, 2, 2], nte=[2, 1], jp=True, amps=1),  # 16
    _cfg(3, [1, 2, 2], [2, 1, 2], [1, 2, 1], jp=True, amps=1),           # 17
]
CFGS = CFG_K2 + CFG_K3
# (first configuration, last configuration, case numbers 1..n): one TLC process per entry (and per 100 cases)
QUICK_COUNTS = [(1, 1, 44), (2, 2, 44), (3, 4, 34), (5, 5, 44), (6, 6, 36), (7, 7, 40), (8, 9, 28)]
THOROUGH_COUNTS = [(1, 1, 160), (2, 2, 160), (3, 3, 120), (4, 4, 120), (5, 5, 160), (6, 6, 120), (7, 7, 160), (8, 8, 120),
                   (9, 9, 100), (10, 10, 600), (11, 11, 400), (12, 12, 300), (13, 13, 400), (14, 14, 300), (15, 15, 400),
                   (16, 16, 300), (17, 17, 300)]

# Chains: one channel object and one solver object serve the consecutive cases.  The partitions of a chain have
# the same number of users / sources and the same antenna TOTALS but different per-user counts (a stale per-antenna
# expansion then has the right shape and silently scales the wrong entries).
_OPS_SOLVER = ["init", "power", "power", "reinit", "power", "reinit"]
_OPS_CHAN = ["init", "reinit", "power", "reinit"]
CHAINS = [
    dict(parts=[_cfg(2, [1, 2], [2, 1], [1, 1]), _cfg(2, [2, 1], [1, 2], [1, 1])], ops=_OPS_SOLVER),             # 1 plain + solver
    dict(parts=[_cfg(2, [1, 2], [2, 1], [1, 1], nte=[2]), _cfg(2, [2, 1], [1, 2], [1, 1], nte=[2])], ops=_OPS_CHAN),  # 2 ext
    dict(parts=[_cfg(2, [1, 2], [2, 1], [1, 1], jp=True), _cfg(2, [2, 1], [1, 2], [1, 2], jp=True)], ops=_OPS_CHAN),  # 3 JP
    dict(parts=[_cfg(2, [2, 1], [1, 2], [1, 1], nte=[1], jp=True), _cfg(2, [1, 2], [2, 1], [1, 1], nte=[1], jp=True)],
         ops=_OPS_CHAN),                                                                                       # 4 JP + ext
    dict(parts=[_cfg(2, [2, 2], [2, 2], [2, 2], amps=1), _cfg(2, [2, 2], [2, 2], [2, 1], amps=1)], ops=_OPS_SOLVER),  # 5 two streams
    dict(parts=[_cfg(3, [1, 2, 2], [2, 2, 1], [1, 1, 1], amps=1), _cfg(3, [2, 1, 2], [1, 2, 2], [1, 1, 1], amps=1),
                _cfg(3, [2, 2, 1], [2, 1, 2], [1, 1, 1], amps=1)], ops=_OPS_SOLVER),                            # 6 K = 3 + solver
    dict(parts=[_cfg(3, [1, 2, 2], [2, 2, 1], [1, 2, 1], nte=[1], jp=True, amps=1),
                _cfg(3, [2, 2, 1], [1, 2, 2], [2, 1, 1], nte=[1], jp=True, amps=1)], ops=_OPS_CHAN),            # 7 K = 3 JP + ext
]
# (first chain configuration, last, chain numbers 0..n-1)
QUICK_CHAINS = [(1, 1, 12), (2, 4, 5), (5, 5, 6)]
THOROUGH_CHAINS = [(1, 1, 54), (2, 2, 30), (3, 3, 30), (4, 4, 30), (5, 5, 54), (6, 6, 54), (7, 7, 30)]

# where each deviation flag is exposed: ("star", clo, chi) or ("chain", hlo, hhi)
DEV_WHERE = {"OwnStreamNotSubtracted": ("star", 1, 1), "NoiseNotFiltered": ("star", 1, 1), "ExtIntPowerIgnored": ("star", 5, 6),
             "JpRowsOfOtherUser": ("star", 7, 8), "PathlossIgnored": ("star", 1, 3), "ConjMissing": ("star", 1, 1),
             "SolverScalesByP": ("star", 1, 2), "ListPrecodersScaledAlongStreams": ("star", 2, 2),
             "PowerNoneKeepsCaches": ("chain", 1, 1), "PlExpansionReusedOnEqualShape": ("chain", 1, 1)}


def model(clo, chi, lo, hi, seed, dev=(), emit=True, hlo=1, hhi=0):
    defs = {"Cfgs": tlc.tla(CFGS), "Chains": tlc.tla(CHAINS), "Dev": tlc.tla({d: (d in dev) for d in DEVS})}
    cfg = tlc.cfg_text(constants={"CLo": str(clo), "CHi": str(chi), "HLo": str(hlo), "HHi": str(hhi),
                                  "Lo": str(lo), "Hi": str(hi), "Seed": str(seed)},
                       defs=defs, invariants=INVARIANTS, action_constraints=["Emit"] if emit else [])
    return cfg, defs


# ------------------------------------------------------------------ exact values -> floats
def _rat(t):
    return Fraction(int(t[0]), int(t[1]))


def _g(t):
    return complex(float(Fraction(int(t[0]), int(t[2]))), float(Fraction(int(t[1]), int(t[2]))))


def _mat(m, rows=None, cols=None):
    if not m:
        return np.zeros((rows or 0, cols or 0), dtype=complex)
    return np.array([[_g(x) for x in row] for row in m], dtype=complex)


def _objarr(mats):
    a = np.empty(len(mats), dtype=object)
    for i, m in enumerate(mats):
        a[i] = m
    return a


def _close(x, xhat):
    x = np.asarray(x)
    xhat = np.asarray(xhat)
    if x.shape != xhat.shape:
        return False
    if x.size == 0:
        return True
    if not np.all(np.isfinite(x) == np.isfinite(xhat)):
        return False
    fin = np.isfinite(xhat)
    if np.any(x[~fin] != xhat[~fin]):
        return False
    return bool(np.all(np.abs(x[fin] - xhat[fin]) <= TOL * np.maximum(1.0, np.abs(xhat[fin]))))


def _log2_frac(q):
    """log2 of an exact positive rational"""
    return math.log2(q.numerator) - math.log2(q.denominator)


def _flat(rows):
    return [x for r in rows for x in r]


class _Solver:
    """built lazily: a concrete IASolverBaseClass (the base class only lacks `solve`)"""
    cls = None

    @classmethod
    def get(cls):
        if cls.cls is None:
            from pyphysim.ia.iabase import IASolverBaseClass

            class TinySolver(IASolverBaseClass):
                def solve(self, Ns, P=None):  # pragma: no cover - never called
                    raise NotImplementedError

            cls.cls = TinySolver
        return cls.cls


NOISE = {"none": None, "zero": 0.0, "half": 0.5}


def _pl_power(inp, gain=1.0):
    """path-loss POWER matrix K x (K + Ke) of the case (None: no path loss), optionally x gain"""
    K, ke = inp["K"], len(inp["nte"])
    if inp["pl"]:
        return np.array([[float(_rat(a) ** 2) for a in row] for row in inp["pl"]], dtype=float) * gain
    if gain == 1.0:
        return None
    return np.ones((K, K + ke)) * gain


def _set_pathloss(ch, inp, gain=1.0):
    K = inp["K"]
    ext = len(inp["nte"]) > 0
    power = _pl_power(inp, gain)
    if power is None:
        ch.set_pathloss(None, None) if ext else ch.set_pathloss(None)
    elif ext:
        ch.set_pathloss(power[:, :K].copy(), power[:, K:].copy())
    else:
        ch.set_pathloss(power.copy())


def _init_channel(ch, inp):
    K = inp["K"]
    H = _mat(inp["H"])
    if len(inp["nte"]) > 0:
        ch.init_from_channel_matrix(H.copy(), np.array(inp["nr"]), np.array(inp["nt"]), K, np.array(inp["nte"]))
    else:
        ch.init_from_channel_matrix(H.copy(), np.array(inp["nr"]), np.array(inp["nt"]), K)


def build_channel(inp, gain=1.0):
    """a fresh channel object for the case; gain multiplies every path-loss power and the noise variance"""
    from pyphysim.channels import multiuser
    ch = multiuser.MultiUserChannelMatrixExtInt() if len(inp["nte"]) > 0 else multiuser.MultiUserChannelMatrix()
    _init_channel(ch, inp)
    if inp["pl"] or gain != 1.0:
        _set_pathloss(ch, inp, gain)
    nv = NOISE[inp["noise"]]
    ch.noise_var = nv if nv is None else nv * gain
    return ch


def solver_applies(inp):
    return (not inp["jp"]) and len(inp["nte"]) == 0


class Session:
    """the real objects that serve a star case (fresh) or the consecutive cases of a chain (persistent)"""

    def __init__(self):
        self.ch = None
        self.solver = None

    def apply(self, case):
        """bring the objects to the case the way its `op` says"""
        inp = case["inp"]
        op = inp["op"]
        K = inp["K"]
        kind = op["kind"]
        F = [_mat(inp["F"][k]) for k in range(K)]
        U = [_mat(inp["U"][k]) for k in range(K)]
        P = np.array([float(_rat(a) ** 2) for a in inp["pa"]])
        if kind in ("fresh", "init"):
            self.ch = build_channel(inp)
            if solver_applies(inp):
                self.solver = _Solver.get()(self.ch)
        elif kind == "reinit":
            _init_channel(self.ch, inp)             # same object, other antenna partition
            if op["pl"] == "set":
                _set_pathloss(self.ch, inp)
            self.ch.noise_var = NOISE[inp["noise"]]
        if kind in ("fresh", "init", "reinit") and self.solver is not None:
            variant = (inp["id"][0] + inp["id"][1]) % 2
            fullF = [math.sqrt(P[k]) * F[k] for k in range(K)]
            if kind != "fresh" or variant == 0 or any(not np.any(f) for f in fullF):
                self.solver.set_precoders(F=_objarr(F), P=P.copy())
                self.solver.set_receive_filters(W=_objarr(U))
            else:
                self.solver.set_precoders(full_F=_objarr([f.copy() for f in fullF]))
                self.solver.set_receive_filters(W_H=_objarr([u.conj().T for u in U]))
        if kind == "power" and self.solver is not None:
            if op["pw"] == "vec":
                self.solver.P = P.copy()
            elif op["pw"] == "scalar":
                self.solver.P = float(P[0])
            else:
                self.solver.P = None


def compare(sess, case):
    """Compare everything the objects of the session report with the exact values of the case.
    Returns (comparisons, [violation texts], [texts with the signature of finding F_LIST])."""
    inp, out = case["inp"], case["out"]
    K, ns, nr = inp["K"], inp["ns"], inp["nr"]
    ext = len(inp["nte"]) > 0
    jp = inp["jp"]
    ch = sess.ch
    bad = []
    known = []
    n = [0]
    tag = "" if inp["op"]["kind"] == "fresh" else f"[chain step {inp['step']} {inp['op']['kind']}/{inp['op']['pl']}/{inp['op']['pw']}] "

    def cmp(what, got, want):
        n[0] += 1
        try:
            ok = _close(got, want)
        except Exception as ex:  # shape/type surprises are mismatches, not harness errors
            ok = False
            what += f" ({type(ex).__name__}: {ex})"
        if not ok:
            bad.append(f"{tag}{what}: code {np.asarray(got).tolist()!r:.200} expected {np.asarray(want).tolist()!r:.200}")

    def cmp_rows(what, got, want_rows):
        got = list(got)
        if len(got) != len(want_rows):
            n[0] += 1
            bad.append(f"{tag}{what}: {len(got)} users returned, expected {len(want_rows)}")
            return
        for k in range(len(want_rows)):
            cmp(f"{what}[user {k}]", np.asarray(got[k], dtype=float), np.array(want_rows[k], dtype=float))

    def guarded(what, f):
        try:
            return f()
        except Exception as ex:
            n[0] += 1
            bad.append(f"{tag}{what} raised {type(ex).__name__}: {ex}")
            return None

    pa = [float(_rat(a)) for a in inp["pa"]]
    F = [_mat(inp["F"][k]) for k in range(K)]
    U = [_mat(inp["U"][k]) for k in range(K)]
    fullF = _objarr([pa[k] * F[k] for k in range(K)])      # "already taking into account the transmit power"
    Uo = _objarr(U)
    pe = _rat(inp["pe"])
    sc = _g(inp["sc"])
    variant = (inp["id"][0] + inp["id"][1]) % 2
    # external power: the default argument (1.0) is exercised by leaving pe out on every other case
    pekw = {} if (not ext or (pe == 1 and variant == 0)) else {"pe": float(pe)}

    sinr = [[float(_rat(x)) for x in row] for row in out["sinr"]]
    one_plus = [[_rat(x) for x in row] for row in out["onePlus"]]
    Q = [_mat(out["Q"][k]) for k in range(K)]

    # --- the channel object
    jname = "calc_JP_SINR" if jp else "calc_SINR"
    qmeth = "calc_JP_Q" if jp else "calc_Q"
    name = jname + ("(ext)" if ext else "")
    qname = qmeth + ("(ext)" if ext else "")
    got = guarded(name, lambda: getattr(ch, jname)(fullF, Uo, **pekw))
    if got is not None:
        cmp_rows(name, got, sinr)
    if variant == 1:
        got = guarded(name + " with list arguments", lambda: getattr(ch, jname)(list(fullF), list(U), **pekw))
        if got is not None:
            cmp_rows(name + " with list arguments", got, sinr)
    for k in range(K):
        got = guarded(qname, lambda: getattr(ch, qmeth)(k, fullF, **pekw))
        if got is not None:
            cmp(f"{qname}[user {k}]", got, Q[k])
            g = np.asarray(got)
            n[0] += 1
            if g.shape == Q[k].shape and not np.allclose(g, g.conj().T, rtol=0, atol=TOL):
                bad.append(f"{tag}{qname}[user {k}] is not Hermitian")
    # internal: the per-stream covariance the SINR is computed from (anchored mechanism)
    for k in range(K):
        def bkl():
            if ext:
                rek = ch.calc_cov_matrix_extint_plus_noise(float(pe))[k]
            else:
                rek = ch.noise_var if (ch.noise_var is not None or not jp) else 0.0
            return (ch._calc_JP_Bkl_cov_matrix_all_l if jp else ch._calc_Bkl_cov_matrix_all_l)(fullF, k, rek)
        got = guarded("_calc_Bkl_cov_matrix_all_l", bkl)
        if got is not None:
            for l in range(ns[k]):
                cmp(f"(internal) Bkl[user {k}][stream {l}]", got[l], _mat(out["B"][k][l]))

    # --- the scale law with ordinary and with extreme factors.  TLC proved for this case that every power term is
    # homogeneous in the filter scale c and in the channel gain (amplitude a, noise x a^2); the exact SINRs are
    # therefore unchanged for any magnitude and Q is multiplied by a^2.  One of four extreme settings per case.
    ga2 = float(_rat(inp["ga"]) ** 2)
    ex_c, ex_gain = [(1e-9, 1.0), (1e9, 1.0), (1.0, 1e-17 * ga2), (1.0, 1e17 * ga2)][(inp["id"][0] + inp["id"][1]) % 4]
    for label, c, gain in (("", sc, 1.0), (" (extreme)", sc * ex_c, ex_gain)):
        ch2 = ch if gain == 1.0 else guarded("channel with gain %g" % gain, lambda: build_channel(inp, gain))
        if ch2 is None:
            continue
        what = f"{name} with U x {c!r}, gain x {gain:g}{label}"
        got = guarded(what, lambda: getattr(ch2, jname)(fullF, _objarr([c * u for u in U]), **pekw))
        if got is not None:
            cmp_rows(what, got, sinr)
        if gain != 1.0:
            for k in range(K):
                got = guarded(qname + " gain", lambda: getattr(ch2, qmeth)(k, fullF, **pekw))
                if got is not None:
                    cmp(f"{qname}[user {k}] / gain with gain x {gain:g}", np.asarray(got) / gain, Q[k])

    # sum capacity of exact SINRs through util.misc
    from pyphysim.util.misc import calc_shannon_sum_capacity
    cap = sum(_log2_frac(q) for q in _flat(one_plus))
    got = guarded("calc_shannon_sum_capacity", lambda: calc_shannon_sum_capacity(np.array(_flat(sinr), dtype=float)))
    if got is not None:
        cmp("calc_shannon_sum_capacity", got, cap)

    # --- the IA solver base class (plain interference channel only)
    sol = out["sol"]
    s = sess.solver
    if sol["ok"] and s is not None:
        ssinr = [[float(_rat(x)) for x in row] for row in sol["sinr"]]
        sq = [[_rat(x) for x in row] for row in sol["sinr"]]
        P = np.array([float(_rat(a) ** 2) for a in inp["pa"]])
        if inp["op"]["kind"] != "fresh":     # (fresh cases may hand over full_F directly; P then stays at its default)
            n[0] += 1
            if not _close(np.asarray(s.P, dtype=float), P):
                bad.append(f"{tag}solver.P reports {np.asarray(s.P).tolist()} expected {P.tolist()}")

        def solver_checks(s, label, gain=1.0):
            got = guarded("solver.calc_SINR" + label, s.calc_SINR)
            if got is not None:
                cmp_rows("solver.calc_SINR" + label, got, ssinr)
            got = guarded("solver.calc_SINR_in_dB" + label, s.calc_SINR_in_dB)
            if got is not None:
                want = [[(10.0 * (math.log10(q.numerator) - math.log10(q.denominator)) if q > 0 else -np.inf)
                         for q in row] for row in sq]
                cmp_rows("solver.calc_SINR_in_dB" + label, got, want)
            got = guarded("solver.calc_sum_capacity" + label, s.calc_sum_capacity)
            if got is not None:
                cmp("solver.calc_sum_capacity" + label, got, sum(_log2_frac(1 + q) for q in _flat(sq)))
            for k in range(K):
                got = guarded("solver.calc_Q" + label, lambda: s.calc_Q(k))
                if got is not None:
                    cmp(f"solver.calc_Q[user {k}]{label}", np.asarray(got) / gain, Q[k])
            # the two implementations agree: the channel object fed with the solver's full filters
            got = guarded("channel.calc_SINR(solver.full_F, solver.full_W)" + label,
                          lambda: s._multiUserChannel.calc_SINR(s.full_F, s.full_W))
            if got is not None:
                cmp_rows("channel.calc_SINR(solver.full_F, solver.full_W)" + label, got, ssinr)
            # (rel) remaining interference: smallest Ns eigenvalues of Q over its trace, from exact trace / determinant
            for k in range(K):
                tr, det = _rat(out["qtr"][k]), _rat(out["qdet"][k])
                if tr == 0:
                    continue
                if ns[k] >= nr[k]:
                    want = 1.0
                else:  # Nr = 2, one stream: lambda_min = 2 det / (tr + sqrt(tr^2 - 4 det))
                    t, d = float(tr), float(det)
                    want = (2.0 * d / (t + math.sqrt(max(t * t - 4.0 * d, 0.0)))) / t
                got = guarded("solver.calc_remaining_interference_percentage" + label,
                              lambda: s.calc_remaining_interference_percentage(k))
                if got is not None:
                    cmp(f"(rel) solver.calc_remaining_interference_percentage[user {k}]{label}", got, want)

        solver_checks(s, "")

        def make(chx, Fs, Us, lists=False):
            s2 = _Solver.get()(chx)
            if lists:
                s2.set_precoders(F=[f.copy() for f in Fs], P=P.copy())
                s2.set_receive_filters(W=[u.copy() for u in Us])
            else:
                s2.set_precoders(F=_objarr(Fs), P=P.copy())
                s2.set_receive_filters(W_H=_objarr([u.conj().T for u in Us]))
            return s2

        # the same solver fed with Python LISTS (documented input type of set_precoders / set_receive_filters).
        # A mismatch here - and only here - has the signature of finding ListPrecodersScaledAlongStreams.
        mark = len(bad)
        got = guarded("solver.calc_SINR (precoders / filters given as lists)", lambda: make(ch, F, U, lists=True).calc_SINR())
        if got is not None:
            cmp_rows("solver.calc_SINR (precoders / filters given as lists)", got, ssinr)
        known.extend(bad[mark:])
        del bad[mark:]
        # W -> c*W (ordinary and extreme c) and the channel gain must not change the solver's SINR either
        chg = ch if ex_gain == 1.0 else guarded("channel with gain", lambda: build_channel(inp, ex_gain))
        if chg is not None:
            s2 = guarded("IASolverBaseClass with rescaled W", lambda: make(chg, F, [sc * ex_c * u for u in U]))
            if s2 is not None:
                solver_checks(s2, f" with W x {sc * ex_c!r}, gain x {ex_gain:g} (extreme)", ex_gain)
    return n[0], bad, known


def run_unit(unit):
    """unit = list of cases: one star case, or the consecutive cases of a chain (sorted by step).
    Returns a list of (comparisons, bad, known), one per case (a chain stops at the first step that cannot be applied)."""
    res = []
    sess = Session()
    with np.errstate(all="ignore"):
        for case in unit:
            try:
                sess.apply(case)
            except Exception as ex:
                res.append((1, [f"step {case['inp']['step']} ({case['inp']['op']}) raised {type(ex).__name__}: {ex}"], []))
                break
            res.append(compare(sess, case))
    while len(res) < len(unit):
        res.append((0, [], []))
    return res


# ------------------------------------------------------------------------------- the check
def plan(tier):
    """TLC jobs: (label, clo, chi, lo, hi, hlo, hhi)"""
    jobs = []
    thorough = tier == "thorough"
    nch = 8 if thorough else 4
    chunk = EXH_COUNT // nch
    for i in range(nch):
        jobs.append((f"exhaustive-1x1/{i}", 0, 0, i * chunk, (i + 1) * chunk - 1, 1, 0))
    for c1, c2, cnt in (THOROUGH_COUNTS if thorough else QUICK_COUNTS):
        lo = 1
        while lo <= cnt:
            hi = min(cnt, lo + 99)
            jobs.append((f"seeded/cfg{c1}-{c2}/{lo}-{hi}", c1, c2, lo, hi, 1, 0))
            lo = hi + 1
    for h1, h2, cnt in (THOROUGH_CHAINS if thorough else QUICK_CHAINS):
        lo = 0
        while lo < cnt:
            hi = min(cnt - 1, lo + 17)
            jobs.append((f"chain/cfg{h1}-{h2}/{lo}-{hi}", 1, 0, lo, hi, h1, h2))
            lo = hi + 1

    def weight(j):     # rough cost: longest first
        ncase = j[4] - j[3] + 1
        if j[5] <= j[6]:
            return ncase * (j[6] - j[5] + 1) * 60
        return ncase * (1 if j[1] == 0 else 12 * (j[2] - j[1] + 1))
    jobs.sort(key=lambda j: -weight(j))
    return jobs


def units_of(cases):
    """star cases one by one; chain cases grouped by chain and ordered by step (only gap-free prefixes)"""
    units, chains = [], {}
    for c in cases:
        ch = c["inp"]["chain"]
        if ch:
            chains.setdefault(tuple(ch), {})[c["inp"]["step"]] = c
        else:
            units.append([c])
    for key in sorted(chains):
        steps = chains[key]
        unit = []
        i = 1
        while i in steps:
            unit.append(steps[i])
            i += 1
        units.append(unit)
    return units


def run(ctx):
    ctx.rule = ("TLC computes the stream-by-stream SINR / covariances exactly (Gaussian rationals) for every case of "
                "the domain and checks the laws on it; each emitted case is executed once on the real classes "
                "(chain cases consecutively on one channel object and one solver object); "
                "distinct = emitted cases (id = configuration, case number)")
    ctx.assumptions += ["values compared with |x - x^| <= 1e-9 max(1, |x^|); log2 / log10 of the exact rational by Python's math",
                        "cases with a zero SINR denominator (infinite / undefined SINR) are excluded in the specification",
                        "the IA solver is bound on the plain interference channel (no external source, no joint processing): "
                        "its API has no external-interference power",
                        "remaining-interference percentage is evaluated numerically from TLC's exact trace / determinant (rel)",
                        "chains re-initialise through init_from_channel_matrix (randomize gives a channel TLC cannot know)",
                        "the extreme scale factors (1e-9, 1e+9, 1e-17, 1e+17) rest on the term-by-term homogeneity TLC checks "
                        "with small rational factors"]
    seed = int(ctx.seed)
    jobs = plan(ctx.tier)

    def tlc_job(j):
        label, clo, chi, lo, hi, hlo, hhi = j
        cfg, defs = model(clo, chi, lo, hi, seed, hlo=hlo, hhi=hhi)
        return tlc.run(MODULE, cfg, defs=defs, heap="1g")   # -coverage is prohibitively slow on the recursive matrix operators

    def dev_job(dev):
        kind, a, b = DEV_WHERE[dev]
        if kind == "star":
            cfg, defs = model(a, b, 1, 12, seed, dev=[dev], emit=False)
        else:
            cfg, defs = model(1, 0, 0, 8, seed, dev=[dev], emit=False, hlo=a, hhi=b)
        return tlc.run(MODULE, cfg, defs=defs, heap="1g")

    # TLC processes run in threads (each single-worker); VERIF_PROCS throttles them on a shared machine
    nthreads = max(1, min(14, int(os.environ.get("VERIF_PROCS", "0") or 0) or 14))
    with ThreadPoolExecutor(nthreads) as ex:
        futs = [ex.submit(tlc_job, j) for j in jobs]
        dfuts = [(d, ex.submit(dev_job, d)) for d in DEVS]
        runs = [f.result() for f in futs]
        for d, f in dfuts:
            r = f.result()
            if not r.violated:
                raise tlc.TlcError(f"deviation {d} is not detected by the invariants of Sinr.tla")
            ctx.notes.setdefault("deviations_refuted_by_model", {})[d] = r.violated
    cases = []
    per_family = {}
    for j, r in zip(jobs, runs):
        ctx.account(r, MODULE, j[0])
        seen = set()
        for e in r.emitted:
            key = tuple(e["inp"]["id"])
            if key in seen:
                continue
            seen.add(key)
            cases.append(e)
        fam = j[0].rsplit("/", 1)[0]
        per_family[fam] = per_family.get(fam, 0) + len(seen)
    # which action produced a case is visible in the case itself
    for e in cases:
        kind = e["inp"]["op"]["kind"]
        act = ("PickExhaustive" if e["inp"]["id"][0] == 0 else "PickSeeded") if kind == "fresh" else \
              ("ChainStart" if kind == "init" else "ChainStep")
        ctx.actions[act] = ctx.actions.get(act, 0) + 1
    ctx.require_actions(["PickExhaustive", "PickSeeded", "ChainStart", "ChainStep"])
    units = units_of(cases)
    res = pool_map(run_unit, units, chunksize=max(1, len(units) // 128))
    comparisons = 0
    solver_cases = 0
    chain_steps = {}
    for unit, ures in zip(units, res):
        for case, (ncmp, bad, known) in zip(unit, ures):
            inp = case["inp"]
            comparisons += ncmp
            solver_cases += 1 if (case["out"]["sol"]["ok"] and solver_applies(inp)) else 0
            ctx.ok(key=f"{seed}:{inp['id'][0]}:{inp['id'][1]}")
            if inp["chain"]:
                k = f"{inp['op']['kind']}/{inp['op']['pl']}/{inp['op']['pw']}"
                chain_steps[k] = chain_steps.get(k, 0) + 1
            # a chain is replayed from its first step: the stored case is the prefix of the unit
            stored = {"unit": unit[: unit.index(case) + 1]}
            if known:
                ctx.finding(F_LIST, f"case {inp['id']}: " + "; ".join(known[:2]), dict(stored, mismatches=known[:6]))
            if bad:
                ctx.violation(f"case {inp['id']} (K={inp['K']} Nr={inp['nr']} Nt={inp['nt']} Ns={inp['ns']} "
                              f"ext={inp['nte']} jp={inp['jp']}): " + "; ".join(bad[:3]), dict(stored, mismatches=bad[:10]))
        if len(unit) > 1:
            ctx.trace_done()
    ctx.exhaustive = True   # the 1x1 family enumerates all channel matrices over the alphabet x noise settings
    ctx.notes["cases_per_family"] = per_family
    ctx.notes["comparisons"] = comparisons
    ctx.notes["cases_with_solver"] = solver_cases
    ctx.notes["chain_steps_executed"] = chain_steps
    ctx.notes["exhaustive_scope"] = ("K=2, 1x1 blocks: all 6^4 channel matrices over {0,1,-1,i,-i,1+i} x noise {None,0,1/2}; "
                                     "other families and the chains are seeded samples of the stated domain")
    stars = [u[0] for u in units if len(u) == 1 and not u[0]["inp"]["chain"]]
    mid = stars[len(stars) // 2]
    ctx.sample({"id": mid["inp"]["id"], "K": mid["inp"]["K"], "Nr": mid["inp"]["nr"], "Nt": mid["inp"]["nt"],
                "Ns": mid["inp"]["ns"], "noise": mid["inp"]["noise"], "sinr_exact": mid["out"]["sinr"]})
    longest = max(units, key=len)
    ctx.sample({"chain": longest[0]["inp"]["chain"],
                "steps": [[c["inp"]["op"]["kind"], c["inp"]["op"]["pl"], c["inp"]["op"]["pw"], c["inp"]["nr"], c["inp"]["nt"]]
                          for c in longest]})


def replay(ctx, data):
    c = data["case"]
    unit = c["unit"] if "unit" in c else [c["case"]]
    res = run_unit(unit)
    ctx.notes["comparisons"] = sum(r[0] for r in res)
    for case, (ncmp, bad, known) in zip(unit, res):
        ctx.ok(key=str(case["inp"]["id"]))
        if known:
            ctx.finding(F_LIST, f"case {case['inp']['id']}: " + "; ".join(known[:2]), {"unit": unit, "mismatches": known[:6]})
        if bad:
            ctx.violation(f"case {case['inp']['id']}: " + "; ".join(bad[:3]), {"unit": unit, "mismatches": bad[:10]})
