"""C13 - path-loss and antenna-gain models are monotone, invertible and unit-consistent.

Stage M: TLC on spec/chan/PathLoss.tla, one instance per model class (complete reachable parameter
graph: ALL setter histories), invariants ParamsValid / CConsistent / PLisDoc / Monotone / InUnit /
Policy / InverseId / FriisClose and the action property RejectLaw; every Dev flag must be refuted.
spec/chan/AntGain.tla: all integer degrees, both sector counts, omni gains.
Stage R: the emitted setter graph is walked on the real objects (every transition; every setter
sequence up to length 3 / 4-5); after every step outcome + public parameters are compared with the
post-state, after the last step every query TLC emitted for that state is executed and compared
with the exact form a + b X1 + c X2 (the irrational constants X1, X2 are evaluated HERE from the
documented formula, never taken from the code under test).
Stage T: see c13_trace.py (random rational parameters, recorded histories validated by TLC)."""
import math
import random
import warnings
import zlib
from concurrent.futures import ThreadPoolExecutor
from fractions import Fraction

import numpy as np

from .. import tlc, graph
from ..core import pool_map

MODULE = "chan/PathLoss.tla"
ANT = "chan/AntGain.tla"
MODELS = ["general", "3gpp1", "freespace", "metis", "hata"]
DEVS = ["FcRejectKeepsValue", "NSetterKeepsC", "FcSetterKeepsC", "ClampArrayOnly", "HataRejectAssigns", "ShadowAfterPolicy",
        "ZeroInArrayAsUnit", "PlotRestoresPolicyFromShadow", "PlotRaiseLeavesShadowOff",
        "ClampLostInFortranLayout", "LinearArrayIgnoresRaise", "FlagsSharedAcrossObjects"]
FID_FC = "C13-freespace-fc-reject-not-atomic"
FID_Z = "C13-scalar-zero-distance-domain-error"
FID_PLOT = "C13-plot-raise-leaves-shadow-off"
TAG_Z = "[scalar zero distance]"
FID_I8 = "C13-integer-distances-reduced-precision"
TAG_I8 = "[8/16-bit integer distances]"
TOL = 1e-9


def tlc_par(default):
    """concurrent TLC processes started by this check (VERIF_PROCS caps it on a shared machine)"""
    import os
    v = int(os.environ.get("VERIF_PROCS", "0") or 0)
    return max(1, min(default, v)) if v else default

C_LIGHT = 299792458.0

# irrational constants of the forms, from the DOCUMENTATION of the models:
#  free space: "PL = 10 n (log10(d) + log10(fc * 1e6) - 4.3779113907)" (class docstring); log10 9 for fc = 900 MHz
#  METIS PS7 : log10(fc_GHz / 5) with fc = 0.9 GHz -> -1 + log10(9/5)
#  Okumura-Hata: log10(28) from K = 2 [log(f/28)]^2 + 5.4, and its square
CONSTS = {
    "general": (0.0, 0.0), "3gpp1": (0.0, 0.0),
    "freespace": (4.3779113907, math.log10(9.0)),
    "metis": (math.log10(9.0 / 5.0), 0.0),
    "hata": (math.log10(28.0), math.log10(28.0) ** 2),
}
KF = math.log10(C_LIGHT / (4000.0 * math.pi))  # Friis with d in km, f in MHz*1e6: 20 (log d + log f - KF)


def rat(p, q=1):
    f = Fraction(p, q)
    return [f.numerator, f.denominator]


def enclosure(x, den=10000):
    if x == 0.0:
        return [[0, 1], [0, 1]]
    lo = math.floor(x * den)
    assert lo / den < x < (lo + 1) / den
    return [rat(lo, den), rat(lo + 1, den)]


def fcr(m, e):
    return {"m": m, "e": e}


def alphabets(model, tier):
    th = tier == "thorough"
    kmin, kmax = (-6, 6) if th else (-4, 3)
    ks = list(range(kmin, kmax + 1))
    a = dict(InitArgs=[dict(n=rat(2), C=rat(0), fc=fcr(1, 0))], NVals=[], FcVals=[], HbsVals=[], HmsVals=[],
             AreaVals=[], WallVals={0}, KMin=kmin, KMax=kmax, ShadowVals={False, True},
             SigmaVals=[rat(8)] if (model == "hata" and not th) else [rat(0), rat(8), rat(3)])
    if model == "general":
        a["InitArgs"] = [dict(n=rat(2), C=rat(100), fc=fcr(1, 0)), dict(n=rat(5, 2), C=rat(-10), fc=fcr(1, 0)),
                         dict(n=rat(94, 25), C=rat(1281, 10), fc=fcr(1, 0)), dict(n=rat(4), C=rat(35), fc=fcr(1, 0))]
    if model == "freespace":
        a["InitArgs"] = [dict(n=rat(2), C=rat(0), fc=fcr(9, 2)), dict(n=rat(3), C=rat(0), fc=fcr(1, 3))]
        a["NVals"] = [rat(2), rat(5, 2), rat(4)] + ([rat(94, 25), rat(3)] if th else [])
        a["FcVals"] = [fcr(9, 2), fcr(1, 0), fcr(1, 3), fcr(0, 0), fcr(-5, 0)] + ([fcr(1, 4), fcr(9, 1)] if th else [])
    if model == "metis":
        a["InitArgs"] = [dict(n=rat(0), C=rat(0), fc=fcr(9, 2)), dict(n=rat(0), C=rat(0), fc=fcr(5, 3))]
        a["FcVals"] = [fcr(5, 3), fcr(5, 2), fcr(9, 2)] + ([fcr(5, 4), fcr(9, 3)] if th else [])
        a["WallVals"] = {-1, 0, 1, 2, 3, 7} | ({4, 5} if th else set())
    if model == "hata":
        a["FcVals"] = [fcr(28, 1), fcr(1, 3), fcr(149, 0), fcr(1501, 0)] + ([fcr(15, 1), fcr(15, 2), fcr(1, 2)] if th else [])
        a["HbsVals"] = [rat(100), rat(200), rat(29)] + ([rat(30), rat(201), rat(0)] if th else [])
        a["HmsVals"] = [rat(1), rat(10), rat(11)] + ([rat(3, 2), rat(1, 2)] if th else [])
        a["AreaVals"] = ["open", "suburban", "medium city", "large city", "rural"]
    # array queries: whole lattice, pairs, (thorough) every contiguous window
    # (the non-negative decades are whole numbers: these sets are also issued in every integer dtype)
    sets = [ks] + [[k, k + 1] for k in ks[:-1:2]] + [[ks[0]], [ks[-1], ks[0]], [0, 1, 2], list(range(0, kmax + 1))]
    sets += [[ZK, 0, 1], [0, ZK], [ZK], [ZK] + ks, [ZK, 0, 1, 2]]  # exact zeros inside arrays
    if th:
        sets += [ks[i:j] for i in range(len(ks)) for j in range(i + 3, len(ks) + 1, 3)]
    arr = []
    for s in sets:
        if model == "metis":
            pats = [[0] * len(s), [(i * 2 + 1) % 4 for i in range(len(s))], [2] * len(s), [5 * (i % 2) for i in range(len(s))]]
            for p in pats[: (4 if th or len(s) > 2 else 2)]:
                arr.append(dict(ks=s, ws=p))
        else:
            arr.append(dict(ks=s, ws=[0] * len(s)))
    a["ArrSets"] = arr
    # plot helper: the whole lattice (raises under policy raise), the same with a leading zero, whole-number distances
    want = [ks, [ZK] + ks, [0, 1, 2]]
    a["PlotIdx"] = {next(i + 1 for i, x in enumerate(arr) if x["ks"] == w and not any(x["ws"])) for w in want}
    return a


def model_cfg(model, tier, dev=(), emit=False, props=True, sel=0):
    a = alphabets(model, tier)
    x1, x2 = CONSTS[model]
    enc = dict(x1=enclosure(x1), x2=enclosure(x2), kf=enclosure(KF))
    defs = {k: tlc.tla(a[k]) for k in ("InitArgs", "NVals", "FcVals", "HbsVals", "HmsVals", "AreaVals", "WallVals", "ArrSets",
                                        "ShadowVals", "SigmaVals", "PlotIdx")}
    defs["Enc"] = tlc.tla(enc)
    defs["ByClasses"] = tlc.tla(set(MODELS))
    defs["KMin"] = str(a["KMin"])
    defs["KMax"] = str(a["KMax"])
    defs["Dev"] = tlc.tla({d: (d in dev) for d in DEVS})
    cfg = tlc.cfg_text(constants={"Model": tlc.tla(model), "DoEmit": tlc.tla(bool(emit)), "EmitSel": str(sel),
                                  "WithBy": tlc.tla(model in BY_MODELS[tier])},
                       defs=defs,
                       invariants=["TypeOK", "ParamsValid", "CConsistent", "PLisDoc", "Monotone", "InUnit", "Policy",
                                   "InverseId", "FriisClose", "ShadowRange", "LayoutIndependent", "LinearAgrees"],
                       properties=["RejectLaw", "PlotPure", "BystanderLaw"] if props else [])
    return cfg, defs


def ev(f, model):
    """the one trusted evaluation function: form <<a, b, c>> of rationals -> float"""
    x1, x2 = CONSTS[model]
    return f[0][0] / f[0][1] + (f[1][0] / f[1][1]) * x1 + (f[2][0] / f[2][1]) * x2


def close(x, want, rel=False):
    if isinstance(x, (bool, np.bool_)) or x is None:
        return False
    try:
        x = float(x)
    except (TypeError, ValueError):
        return False
    if not math.isfinite(x):
        return False
    return abs(x - want) <= TOL * (abs(want) if rel else max(1.0, abs(want)))


# ------------------------------------------------------------------ driving the real classes
def fval(r):
    return r[0] / r[1]


def construct(model, a):
    from pyphysim.channels import pathloss as P
    if model == "general":
        return P.PathLossGeneral(fval(a["n"]), fval(a["C"]))
    if model == "3gpp1":
        return P.PathLoss3GPP1()
    if model == "freespace":
        if a["fc"] == {"m": 9, "e": 2} and a["n"] == [2, 1]:
            return P.PathLossFreeSpace()  # the defaults
        return P.PathLossFreeSpace(n=fval(a["n"]), fc=float(a["fc"]["m"] * 10 ** a["fc"]["e"]))
    if model == "metis":
        if a["fc"] == {"m": 9, "e": 2}:
            return P.PathLossMetisPS7()
        return P.PathLossMetisPS7(fc=float(a["fc"]["m"] * 10 ** a["fc"]["e"]))
    if model == "hata":
        return P.PathLossOkomuraHata()
    raise ValueError(model)


def project(model, o):
    """public parameters of the object, keyed like the emitted post-state"""
    p = {"pol": o.handle_small_distances_bool, "shadow": o.use_shadow_bool, "sigma": o.sigma_shadow}
    if model == "freespace":
        p["n"] = o.n
        p["fcv"] = o.fc
    elif model == "metis":
        p["fcv"] = o.fc
    elif model == "hata":
        p.update(fcv=o.fc, hbs=o.hbs, hms=o.hms, area=o.area_type)
    return p


def compare_params(model, o, post):
    bad = []
    for k, v in project(model, o).items():
        want = post[k]
        if k in ("pol", "area", "shadow"):
            if v is not want and v != want:
                bad.append(f"{k} is {v!r}, expected {want!r}")
        elif not (isinstance(v, (int, float)) and float(v) == fval(want)):
            bad.append(f"{k} is {v!r}, expected {fval(want)!r}")
    return bad


def apply_setter(model, o, e):
    """execute one emitted setter edge; returns (object, 'ok'|'raise', exception text)"""
    op, arg = e["op"], e["arg"]
    try:
        if op == "Construct":
            return construct(model, arg), "ok", ""
        if op == "SetPol":
            o.handle_small_distances_bool = bool(arg)
        elif op == "SetShadow":
            o.use_shadow_bool = bool(arg)
        elif op == "SetSigma":
            o.sigma_shadow = fval(arg)
        elif op == "SetN":
            o.n = fval(arg)
        elif op == "SetFc":
            o.fc = fval(arg["v"])
        elif op == "SetHbs":
            o.hbs = fval(arg)
        elif op == "SetHms":
            o.hms = fval(arg)
        elif op == "SetArea":
            o.area_type = arg
        else:
            raise KeyError(op)
    except KeyError:
        raise
    except Exception as ex:  # noqa: total - any exception of the code under test is the outcome "raise"
        return o, "raise", f"{type(ex).__name__}: {ex}"
    return o, "ok", ""


ZK = -99  # PathLoss!ZK: the distance 0


def dist(k):
    return 0.0 if k == ZK else float(Fraction(10) ** k)


def call_dB(model, o, d, w=None):
    if model == "metis":
        return o.calc_path_loss_dB(d, num_walls=w)
    return o.calc_path_loss_dB(d)


def call_lin(model, o, d, w=None):
    if model == "metis":
        return o.calc_path_loss(d, num_walls=w)
    return o.calc_path_loss(d)


def outcome_of(fn):
    """('val', x) | ('raise', text) | ('raisevalue', text) | ('error:<Type>', text).  Total: whatever the code under test
    raises is an OUTCOME that the caller compares with the expected one (a verdict), never a failure of the harness."""
    try:
        return "val", fn()
    except RuntimeError as ex:
        return "raise", str(ex)
    except ValueError as ex:
        return "raisevalue", str(ex)
    except Exception as ex:  # noqa: anything else the code under test raises
        return "error:" + type(ex).__name__, f"{type(ex).__name__}: {ex}"


def pure_outcome(fn, *args, **kw):
    """Queries are pure (stuttering steps of the specification): call fn(*args) TWICE with the SAME argument objects.
    ndarray arguments (float64 distances / angles / losses, integer wall counts) must be bit-identical after each
    call, the result must not share memory with an argument, and the second result must equal the first.
    Returns outcome_of's (kind, value) of the first call, or ('impure', description)."""
    snaps = [a.copy() if isinstance(a, np.ndarray) else list(a) if isinstance(a, list) else None for a in args]
    seed = kw.get("seed", 20240913)

    def touched(when):
        for i, (a, b) in enumerate(zip(args, snaps)):
            if isinstance(b, list):
                if a != b:
                    return f"query is not pure: argument {i} (caller's list) was modified by the {when} call: before {b[:4]}.., after {a[:4]}.."
            elif b is not None and not (a.dtype == b.dtype and a.shape == b.shape and np.array_equal(a, b, equal_nan=True)):
                return (f"query is not pure: argument {i} (caller's {b.dtype} array) was modified by the {when} call: "
                        f"before {b.ravel()[:4].tolist()}.., after {a.ravel()[:4].tolist()}..")
        return None
    np.random.seed(seed)  # a shadowing draw is a function of the global numpy generator: same seed, same draw
    k1, x1 = outcome_of(lambda: fn(*args))
    t = touched("first")
    if t:
        return "impure", t
    if k1 == "val" and isinstance(x1, np.ndarray) and any(isinstance(b, np.ndarray) and np.shares_memory(x1, a) for a, b in zip(args, snaps)):
        return "impure", "query is not pure: the returned array shares memory with the caller's argument"
    keep = x1.copy() if isinstance(x1, np.ndarray) else x1
    np.random.seed(seed)
    k2, x2 = outcome_of(lambda: fn(*args))
    t = touched("second")
    if t:
        return "impure", t
    if k1 == "val" and isinstance(x1, np.ndarray) and not np.array_equal(x1, keep, equal_nan=True):
        return "impure", "an earlier result was overwritten by a later call (the returned array is re-used by the object)"
    if k1 != k2 or (k1 == "val" and not np.array_equal(np.asarray(keep), np.asarray(x2), equal_nan=True)):
        return "impure", (f"query is not repeatable: the same call with the same arguments returned "
                          f"{np.asarray(keep).ravel()[:4].tolist() if k1 == 'val' else k1}.. and then "
                          f"{np.asarray(x2).ravel()[:4].tolist() if k2 == 'val' else k2}..")
    return k1, keep


INT_DTYPES = (np.int8, np.uint8, np.int16, np.int32, np.int64)


def variants(a, lists=False):
    """(label, array, tolerance factor) for every other way a caller may hold the same values: every integer dtype
    that can hold them (whole numbers only), float32, a strided (non-contiguous) view, a read-only array"""
    out = []
    if a.size and np.all(a == np.round(a)):
        for dt in INT_DTYPES:
            ii = np.iinfo(dt)
            if a.min() >= ii.min and a.max() <= ii.max:
                out.append((np.dtype(dt).name, a.astype(dt), 1.0))
    if a.dtype.kind == "f":
        out.append(("float32", a.astype(np.float32), 3e4))
        big = np.zeros(2 * a.size + 1, dtype=a.dtype)
        big[1::2] = a.ravel()
        out.append(("strided view", big[1::2].reshape(a.shape), 1.0))
        ro = a.copy()
        ro.setflags(write=False)
        out.append(("read-only", ro, 1.0))
        if lists:
            out.append(("list", a.tolist(), 1.0))
    return out


def shapes(n):
    """shapes a caller may hold n values in: row, column, and one true matrix if n factorises"""
    out = [(1, n), (n, 1)]
    for a in (2, 3, 5, 7, 11, 19):
        if n % a == 0 and n // a > 1:
            out.append((a, n // a))
            break
    return out


def scalar_variants(d):
    """other ways a caller may hold ONE number: Python int / numpy integer (whole numbers), np.float64, np.float32, 0-d array"""
    out = [("np.float64", np.float64(d), 1.0), ("0-d array", np.array(float(d)), 1.0), ("np.float32", np.float32(d), 3e4)]
    if float(d) == int(d) and abs(d) < 2 ** 31:
        out += [("int", int(d), 1.0), ("np.int64", np.int64(d), 1.0)]
    return out


def any_shape(fn, args, kind0, x0, rel=False):
    """AnyShapeElementwise: the array query is element-wise, so the same values held as a row, a column or a matrix
    (every ndarray argument reshaped alike), or stacked twice under a broadcast wall vector, give the same elements in that shape"""
    n = np.size(args[0])
    cases = [(f"shape {sh}", [a.reshape(sh) if isinstance(a, np.ndarray) else a for a in args], sh, 1) for sh in shapes(n)]
    if n > 1:  # distances as a 2 x n matrix (n x 2 transposed), the other array arguments broadcast along it
        cases.append(("2 x n matrix, other arguments broadcast", [np.vstack([args[0], args[0]])] + list(args[1:]), (2, n), 2))
        cases.append(("n x 2 matrix, other arguments as a column", [np.vstack([args[0], args[0]]).T.copy()] +
                      [a.reshape(n, 1) if isinstance(a, np.ndarray) else a for a in args[1:]], (n, 2), -2))
    def layouts(label, aa, sh, rep_):
        """AnyLayoutSameValue: a matrix as C-ordered, Fortran-ordered (what a transpose is) and as a strided column view"""
        yield label, aa, sh, rep_
        if min(sh) > 1:
            yield label + ", Fortran-ordered", [np.asfortranarray(a) if isinstance(a, np.ndarray) else a for a in aa], sh, rep_
            yield label + ", transposed view of its C-ordered transpose", [np.ascontiguousarray(a.T).T if isinstance(a, np.ndarray) and a.ndim == 2 else a for a in aa], sh, rep_
            big = np.zeros((aa[0].shape[0], 2 * aa[0].shape[1]), dtype=aa[0].dtype)
            big[:, ::2] = aa[0]
            yield label + ", every second column of a wider matrix", [big[:, ::2]] + list(aa[1:]), sh, rep_
    for label, aa, sh, rep_ in [c2 for c in cases for c2 in layouts(*c)]:
        k, x = pure_outcome(fn, *aa)
        if k == "impure":
            return f"{label}: {x}"
        if k != kind0:
            return f"{label}: {'raised ' + str(x) if k != 'val' else 'returned values'}, the 1-D query: {kind0}"
        if k == "val":
            w = np.asarray(x0, dtype=float)
            w = w.reshape(sh) if rep_ == 1 else np.vstack([w, w]) if rep_ == 2 else np.vstack([w, w]).T
            x = np.asarray(x, dtype=float)
            tol = TOL * (np.abs(w) if rel else np.maximum(1.0, np.abs(w)))
            if x.shape != w.shape:
                return f"{label}: result has shape {x.shape}, expected {w.shape}"
            if not np.all(np.abs(x - w) <= tol):
                return f"{label}: elements differ from the 1-D query: {x.ravel()[:4].tolist()}.. vs {w.ravel()[:4].tolist()}.."
    return None


_SWEPT = set()


def first_time(*key):
    """The dtype / layout sweep of a query concerns how the call treats its arguments, not the object's history: it is
    done once per (model, abstract state, query) in each worker process, not at the end of every path."""
    k = zlib.crc32(repr(key).encode())
    if k in _SWEPT:
        return False
    _SWEPT.add(k)
    return True


def sweep(fn, args, kind0, x0, rel=False, dist8=True, lists=False):
    """AnyDtypeSameValue: repeat the array query fn(*args) with every variant of every ndarray argument (one argument
    varied at a time); the outcome must be the one of the float64 call (already compared with the exact value)."""
    first8 = None

    def one(i, a, label, v, f):
        aa = list(args)
        aa[i] = v
        k, x = pure_outcome(fn, *aa)
        if k == "impure":
            return f"argument {i} as {label}: {x}"
        if k != kind0:
            return f"argument {i} as {label}: {'raised ' + str(x) if k != 'val' else 'returned ' + repr(x)}, as float64: {kind0}"
        if k == "val":
            x = np.asarray(x, dtype=float)
            w = np.asarray(x0, dtype=float)
            tol = TOL * f * (np.abs(w) if rel else np.maximum(1.0, np.abs(w)))
            if label == "float32":
                tol = np.maximum(tol, 1e-33)  # single precision results: below ~1e-38 a linear value is denormal
            if x.shape != w.shape or not np.all(np.abs(x - w) <= tol):
                j = int(np.argmax(np.abs(x - w) - tol)) if x.shape == w.shape and x.size else 0
                return (f"argument {i} as {label} ({np.asarray(v).ravel()[j]!r}): returned {x.ravel()[j] if x.size else x!r}, "
                        f"as float64 ({a.ravel()[j]!r}): {w.ravel()[j] if w.size else w!r}")
        return None
    for i, a in enumerate(args):
        if not isinstance(a, np.ndarray):
            continue
        for label, v, f in variants(a, lists and i == 0):
            r = one(i, a, label, v, f)
            if r and i == 0 and dist8 and label in ("int8", "uint8", "int16"):
                first8 = first8 or f"{TAG_I8} {r}"  # signature of a listed finding; keep looking for anything else
            elif r:
                return r
    return first8


def check_elem(x, exp, model, lin=False):
    """one returned number against one emitted outcome record; None if fine"""
    if exp["t"] == "zero":
        want = 1.0 if lin else 0.0
        return None if (isinstance(x, (float, np.floating)) and float(x) == want) else f"returned {x!r}, expected exactly {want} (clamped)"
    want = ev(exp["f"], model)
    if lin:
        l = exp.get("lin")
        want = (l[0] / l[1]) if l and l[0] != 0 else 10.0 ** (-want / 10.0)
        if not (0.0 < float(x) <= 1.0):
            return f"linear value {x!r} outside (0,1]"
    return None if close(x, want, rel=lin) else f"returned {x!r}, expected {want!r}"


def run_query(model, o, q):
    """execute one emitted query on the object; None if it conforms, else a description"""
    op = q["op"]
    if op == "Rel":
        return run_rel(model, o, q)
    if op == "PLdBArr":
        d = np.array([dist(k) for k in q["ks"]])
        w = np.array(q["ws"]) if model == "metis" else None
        kind, x = pure_outcome(lambda dd, ww: call_dB(model, o, dd, ww), d, w)
        exp = q["exp"]
        if kind == "impure":
            return x
        if exp["t"] == "raise" and kind != "raise":
            return f"array query returned {x!r}, expected RuntimeError (policy: raise)"
        if exp["t"] != "raise" and kind != "val":
            return f"array query raised ({x}), expected values"
        if kind == "val" and (not isinstance(x, np.ndarray) or x.shape != d.shape):
            return f"array query returned {type(x).__name__} of wrong shape"
        if exp["t"] != "raise":
            for i, el in enumerate(exp["v"]):
                r = check_elem(x[i], el, model)
                if r:
                    return f"element {i} (d={dist(q['ks'][i])!r}): {r}"
        # LinearAgreesWithDb: the linear array query decides raise / clamp like the dB query and is 10^(-dB/10) of it
        kl, xl = pure_outcome(lambda dd, ww: call_lin(model, o, dd, ww), d, w)
        if kl == "impure":
            return "linear array query: " + str(xl)
        want_l = {"raise": "raise", "arr": "val"}[q.get("lin", exp["t"])]
        if kl != want_l:
            return (f"linear array query {'raised ' + str(xl) if kl != 'val' else 'returned ' + repr(xl)}, expected "
                    f"{'RuntimeError like the dB query (policy: raise)' if want_l == 'raise' else 'values'} (LinearAgreesWithDb)")
        if kl == "val":
            xl_ = np.asarray(xl, dtype=float)
            wl = 10.0 ** (-np.asarray(x, dtype=float) / 10.0)
            if xl_.shape != wl.shape or not np.all(np.abs(xl_ - wl) <= TOL * wl) or not np.all((xl_ > 0) & (xl_ <= 1)):
                return f"linear array query returned {xl_.tolist()}, 10^(-dB/10) of the dB query is {wl.tolist()} (LinearAgreesWithDb)"
        if not first_time(model, graph.key(q["pre"]), q["ks"], q["ws"]):
            return None
        lists = model not in ("metis", "hata")  # METIS asserts ndarray with wall arrays; Okumura-Hata compares d < 1.0
        r = sweep(lambda dd, ww: call_dB(model, o, dd, ww), [d, w], kind, x, lists=lists)
        if r is None:
            r = sweep(lambda dd, ww: call_lin(model, o, dd, ww), [d, w], kl, xl, rel=True, lists=lists)
            r = r and "linear: " + r
        if r is None:
            r = any_shape(lambda dd, ww: call_dB(model, o, dd, ww), [d, w], kind, x)
        if r is None:
            r = any_shape(lambda dd, ww: call_lin(model, o, dd, ww), [d, w], kl, xl, rel=True)
            r = r and "linear: " + r
        if r is None and q.get("scalarw", -1) >= 0:
            sw = int(q["scalarw"])
            for label, f2 in [(f"scalar wall count {sw}", lambda dd: o.calc_path_loss_dB(dd, num_walls=sw)),
                              (f"numpy integer wall count {sw}", lambda dd: o.calc_path_loss_dB(dd, num_walls=np.int64(sw)))] + (
                    [("wall count omitted", lambda dd: o.calc_path_loss_dB(dd))] if sw == 0 else []):
                k2, x2 = pure_outcome(f2, d)
                if k2 == "impure" or k2 != kind or (k2 == "val" and not (np.shape(x2) == np.shape(x) and np.allclose(x2, x, rtol=0, atol=TOL))):
                    r = f"{label} with the distance array: {k2} {x2!r}, with the wall array: {kind} {x!r}"
                    break
        return ("array query, " + r) if r else None
    k, w = q["k"], q.get("w", 0)
    d = dist(k)
    exp = q["exp"]
    if op in ("PLdB", "PL", "Friis"):
        lin = op == "PL"
        kind, x = outcome_of(lambda: (call_lin if lin else call_dB)(model, o, d, w))
        if k == ZK and exp["t"] == "raise" and kind in ("raise", "raisevalue"):
            return None  # policy raise: the property does not fix the exception type (math domain error is accepted)
        if k == ZK and exp["t"] == "zero" and kind == "raisevalue" and "math domain" in str(x):
            return f"{TAG_Z} calc_path_loss{'' if lin else '_dB'}({d!r}) raised ValueError ({x}) although too small distances are to be clamped to 0 dB"
        if exp["t"] in ("raise", "raisevalue"):
            return None if kind == exp["t"] else f"returned {x!r}, expected {'RuntimeError' if exp['t'] == 'raise' else 'ValueError'}"
        if kind != "val":
            return f"raised ({x}), expected a value"
        if not isinstance(x, (float, np.floating)) or isinstance(x, np.ndarray):
            return f"scalar query returned {type(x).__name__}"
        r = check_elem(x, exp, model, lin=lin)
        if r is None and op == "Friis":
            friis = 20.0 * math.log10(4.0 * math.pi * (d * 1e3) * (o.fc * 1e6) / C_LIGHT)
            if not abs(float(x) - friis) <= fval(exp["tol"]):
                return f"free space n=2 gives {x!r} dB, Friis 20log10(4 pi d f/c) = {friis!r} (more than 0.01 dB apart)"
        if r is None and first_time(model, graph.key(q["pre"]), op, k, w, "scalar types"):
            f0 = call_lin if lin else call_dB
            for label, v, f in scalar_variants(d):
                kv, xv = pure_outcome(lambda vv: f0(model, o, vv, w), v)
                if kv == "val" and kind == "val" and np.ndim(xv) == 0 and \
                        abs(float(xv) - float(x)) <= TOL * f * (abs(float(x)) if lin else max(1.0, abs(float(x)))):
                    continue
                if kv == kind and kind != "val":
                    continue
                if k == ZK and kv == "raisevalue" and kind in ("raise", "raisevalue"):
                    continue
                if k == ZK and kind == "raisevalue":
                    continue  # (scalar zero under clamp: reported under its own finding above)
                return f"distance as {label} ({v!r}): {kv} {xv!r}, as Python float: {kind} {x!r} (AnyScalarTypeSameValue)"
        if r is None:
            # the same query with the caller's one-element float64 array (unchanged afterwards, repeatable, same value)
            da = np.array([d])
            wa = np.array([w]) if model == "metis" else None
            ka, xa = pure_outcome(lambda dd, ww: (call_lin if lin else call_dB)(model, o, dd, ww), da, wa)
            if ka == "impure":
                return xa
            if ka != "val" or not isinstance(xa, np.ndarray) or xa.shape != (1,) or not close(xa[0], float(x), rel=lin):
                return f"one-element array query gives {xa!r} ({ka}), the scalar query {x!r}"
        return r
    if op == "WhichDistDB":
        if exp["t"] == "notoffered":
            try:
                r = o.which_distance_dB(100.0)
            except NotImplementedError:
                return None
            return None if r is None else f"which_distance_dB returned {r!r} although the model documents no inverse"
        kind, x = outcome_of(lambda: o.which_distance_dB(ev(exp["f"], model)))
        if kind != "val":
            return f"which_distance_dB raised ({x})"
        return None if close(x, dist(exp["k"]), rel=True) else f"which_distance_dB(PLdB(10^{k})) = {x!r}, expected {dist(exp['k'])!r}"
    if op == "WhichDist":
        kind, x = outcome_of(lambda: o.which_distance(call_lin(model, o, d, w)))
        if kind != "val":
            return f"which_distance(calc_path_loss(d)) raised ({x})"
        return None if close(x, dist(exp["k"]), rel=True) else f"which_distance(calc_path_loss(10^{k})) = {x!r}, expected {dist(exp['k'])!r}"
    raise KeyError(op)


def doc_value(model, p, d, w=0):
    """The documented formula of the model (class docstrings of pathloss.py) for parameters p in floating point (rel).
    None where the documentation leaves the case open (Okumura-Hata 'large city' at exactly 300 MHz)."""
    L = math.log10(d)
    if model == "general":
        return 10.0 * p["n"] * L + p["C"]
    if model == "3gpp1":
        return 128.1 + 37.6 * L
    if model == "freespace":
        return 10.0 * p["n"] * (L + math.log10(p["fc"] * 1e6) - 4.3779113907)
    if model == "metis":
        A, B, X = (18.7, 46.8, 0.0) if w == 0 else (36.8, 43.8, 5.0 * (w - 1))
        return A * L + B + 20.0 * math.log10(p["fc"] / 1e3 / 5.0) + X
    f, hb, hm, area = p["fc"], p["hbs"], p["hms"], p["area"]
    lf = math.log10(f)
    if area == "large city":
        if f == 300:
            return None
        a = 3.2 * math.log10(11.75 * hm) ** 2 - 4.97 if f > 300 else 8.29 * math.log10(1.54 * hm) ** 2 - 1.10
    else:
        a = (1.1 * lf - 0.7) * hm - 1.56 * lf + 0.8
    K = {"open": 4.78 * lf ** 2 - 18.33 * lf + 40.94, "suburban": 2.0 * math.log10(f / 28.0) ** 2 + 5.4}.get(area, 0.0)
    return 69.55 + 26.16 * lf - 13.82 * math.log10(hb) - a + (44.9 - 6.55 * math.log10(hb)) * L - K


def public_params(model, o, given=None):
    """parameters for doc_value from the object's public attributes (general: the constructor arguments, given)"""
    p = dict(given or {})
    for k, attr in (("n", "n"), ("fc", "fc"), ("hbs", "hbs"), ("hms", "hms"), ("area", "area_type")):
        if hasattr(o, attr) and k not in p:
            p[k] = getattr(o, attr)
    return p


def rel_predicates(model, o, walls=(0,), kmin=-4, kmax=3, per_decade=4, inverse=True, sweep_key=None, params=None):
    """the laws of the property as relations, evaluated numerically on a distance grid (rel).
    Returns {predicate: None | description}."""
    res = {"Monotone": None, "LinearIsDb": None, "InUnit": None, "PolicyArrayScalar": None, "InverseId": None, "QueryPure": None,
           "DocValue": None, "FriisClose": None}
    grid_pos = np.array([10.0 ** (kmin + i / per_decade) for i in range((kmax - kmin) * per_decade + 1)])
    pol = o.handle_small_distances_bool is True
    for w in walls:
        scal = []
        grid = grid_pos
        for d in grid:
            kind, x = outcome_of(lambda: call_dB(model, o, float(d), w))
            scal.append((kind, x))
            if kind == "val":
                if not isinstance(x, (float, np.floating)):
                    res["PolicyArrayScalar"] = f"scalar query returned {type(x).__name__}"
                    continue
                if not x >= 0.0:
                    res["InUnit"] = f"PLdB({d!r}) = {x!r} < 0 (policy {'clamp' if pol else 'raise'})"
                kl, y = outcome_of(lambda: call_lin(model, o, float(d), w))
                if kl != "val" or not close(y, 10.0 ** (-x / 10.0), rel=True):
                    res["LinearIsDb"] = f"calc_path_loss({d!r}) = {y!r}, but 10^(-dB/10) = {10.0 ** (-x / 10.0)!r}"
                elif not 0.0 < y <= 1.0:
                    res["InUnit"] = f"calc_path_loss({d!r}) = {y!r} not in (0,1]"
                if inverse and x > 1e-6:
                    ki, z = outcome_of(lambda: o.which_distance(y))
                    if ki != "val" or not close(z, float(d), rel=True):
                        res["InverseId"] = f"which_distance(calc_path_loss({d!r})) = {z!r}"
                    ki, z = outcome_of(lambda: o.which_distance_dB(x))
                    if ki != "val" or not close(z, float(d), rel=True):
                        res["InverseId"] = f"which_distance_dB(calc_path_loss_dB({d!r})) = {z!r}"
            elif pol:
                res["PolicyArrayScalar"] = f"PLdB({d!r}) raised although small distances are to be clamped: {x}"
        vals = [(d, x) for d, (kind, x) in zip(grid, scal) if kind == "val"]
        if params is not None:
            for d0, x0 in [v for v in vals if v[1] > 1.0][::max(1, len(vals) // 4)]:
                want = doc_value(model, params, float(d0), w)
                if want is not None and not close(x0, want):
                    res["DocValue"] = f"PLdB({d0!r}) = {x0!r} (walls {w}), the documented formula gives {want!r} for {params}"
                if model == "freespace" and params.get("n") == 2:
                    friis = 20.0 * math.log10(4.0 * math.pi * (float(d0) * 1e3) * (params["fc"] * 1e6) / C_LIGHT)
                    if not abs(x0 - friis) <= 0.01:
                        res["FriisClose"] = f"n = 2, fc = {params['fc']} MHz: PLdB({d0!r}) = {x0!r}, Friis gives {friis!r} (> 0.01 dB apart)"
        for (d0, x0), (d1, x1) in zip(vals, vals[1:]):
            if x1 < x0 - 1e-9:
                res["Monotone"] = f"PLdB({d0!r}) = {x0!r} > PLdB({d1!r}) = {x1!r}"
        seen_val = False
        for kind, x in scal:
            if kind == "val" and x > 0:
                seen_val = True
            elif kind != "val" and seen_val:
                res["Monotone"] = "a distance beyond an admissible one is rejected"
        # the array query additionally holds an exact 0.0 (the diagonal of a distance matrix): the extreme of "too small",
        # it must fall under the policy like the scalar query of any too small distance (clamp -> 0 dB, raise -> exception)
        grid = np.concatenate(([0.0], grid_pos))
        scal = [("val", 0.0) if pol else ("raise", "zero distance")] + scal
        wa = np.full(grid.shape, w) if model == "metis" else None
        kind, xa = pure_outcome(lambda dd, ww: call_dB(model, o, dd, ww), grid, wa)
        if kind == "impure":
            res["QueryPure"] = xa
            continue
        if kind != "val":  # LinearAgreesWithDb: the linear array query falls under the same policy
            kl, la = pure_outcome(lambda dd, ww: call_lin(model, o, dd, ww), grid, wa)
            if kl != kind:
                res["PolicyArrayScalar"] = (f"the dB array query raises ({xa}) but the linear array query "
                                            f"{'returned values' if kl == 'val' else kl + ' ' + str(la)} on the same distances")
        any_raise = any(k != "val" for k, _ in scal)
        if any_raise != (kind != "val"):
            res["PolicyArrayScalar"] = (f"array query {'raised' if kind != 'val' else 'returned values'} while scalar queries "
                                        f"{'raise' if any_raise else 'all return values'} on the same distances")
        elif kind == "val":
            for (ks, x), y in zip(scal, xa):
                if not close(y, x):
                    res["PolicyArrayScalar"] = f"array element {y!r} differs from the scalar query {x!r}"
                    break
            r = None
            if sweep_key is None or first_time(sweep_key, w):
                r = sweep(lambda dd, ww: call_dB(model, o, dd, ww), [grid, wa], kind, xa) or \
                    any_shape(lambda dd, ww: call_dB(model, o, dd, ww), [grid, wa], kind, xa)
            if r:
                res["QueryPure"] = r
            kl, la = pure_outcome(lambda dd, ww: call_lin(model, o, dd, ww), grid, wa)
            if kl == "impure":
                res["QueryPure"] = la
                continue
            if inverse:
                good = np.asarray(xa) > 1e-6
                for nm, f, arg in (("which_distance", o.which_distance, np.array(la)), ("which_distance_dB", o.which_distance_dB, np.array(xa))):
                    kz, z = pure_outcome(f, arg)
                    if kz == "impure":
                        res["QueryPure"] = f"{nm}: {z}"
                    elif kz != "val" or not isinstance(z, np.ndarray) or z.shape != grid.shape or \
                            not np.allclose(z[good], grid[good], rtol=1e-9, atol=0):
                        res["InverseId"] = f"array {nm} is not the inverse of the array loss query"
            if kl != "val" or not np.allclose(la, 10.0 ** (-np.asarray(xa) / 10.0), rtol=1e-9, atol=0):
                res["LinearIsDb"] = "array calc_path_loss differs from 10^(-dB/10)"
            elif not np.all((la > 0) & (la <= 1)):
                res["InUnit"] = "array calc_path_loss outside (0,1]"
    return res


def shadow_predicates(model, o, walls=(0,), dets=None, slopes=None, nseeds=4, base_seed=1, inverse=False):
    """Shadowing on, sigma > 0: the range law for EVERY draw, judged on seeded draws (np.random.seed) at distances
    close to the model's minimum distance, scalar and array, under the object's policy (rel).
    dets: {wall: {k: form}} exact deterministic losses from TLC (or None off the lattice), slopes: {wall: [p, q]}."""
    res = {"InUnitEveryDraw": None, "PolicyEveryDraw": None, "NoiseBounded": None, "ShadowingIsOn": None, "InverseIgnoresShadow": None}
    sigma = float(o.sigma_shadow)
    pol = o.handle_small_distances_bool is True
    bound = 7.0 * sigma + 1e-9

    def judge(kind, x, det, what, lin=None):
        if kind == "impure":
            res["InUnitEveryDraw"] = f"{what}: {x}"
        elif kind == "raise":
            if pol:
                res["PolicyEveryDraw"] = f"{what}: raised although small distances are to be clamped to 0 dB ({x})"
            elif det is not None and np.min(det) > bound:
                res["NoiseBounded"] = f"{what}: raised although the deterministic loss {np.min(det)!r} dB is more than 7 sigma above 0"
        elif kind != "val":
            res["PolicyEveryDraw"] = f"{what}: {kind} {x}"
        else:
            xa = np.asarray(x, dtype=float)
            if not np.all(xa >= 0.0):
                res["InUnitEveryDraw"] = (f"{what}: shadowed loss {float(xa.min())!r} dB < 0 (linear value > 1) under policy "
                                          f"{'clamp' if pol else 'raise'}")
            elif det is not None and not np.all((np.abs(xa - det) <= bound) | ((xa == 0.0) & pol & (det <= bound))):
                res["NoiseBounded"] = f"{what}: returned {xa.ravel()[:4].tolist()}.., deterministic {np.ravel(det)[:4].tolist()}.., sigma {sigma}"
            if lin is not None:
                kl, la = lin
                if kl != "val" or not np.allclose(la, 10.0 ** (-xa / 10.0), rtol=1e-9, atol=0) or not np.all((np.asarray(la) > 0) & (np.asarray(la) <= 1)):
                    res["InUnitEveryDraw"] = f"{what}: linear value {la!r} for the same draw is not 10^(-dB/10) in (0,1] (dB {xa.ravel()[:4].tolist()})"

    for w in walls:
        if dets:
            tab = {int(k): ev(f, model) for k, f in dets[str(w)].items()}
            sl = fval(slopes[str(w)])
            pts = [(10.0 ** (k + i / 4.0), tab[k] + sl * i / 4.0) for k in sorted(tab) for i in range(4)]
            near = [p for p in pts if -3.0 * sigma <= p[1] <= 4.0 * sigma][:14]
        else:
            pts = [(10.0 ** (k + i / 4.0), None) for k in range(-3, 3) for i in range(4)]
            near = pts[::2]
        if inverse and dets and w == 0:  # the documented inverse ignores shadowing: exact and the same for every seed
            for k, v in tab.items():
                for sd in (base_seed, base_seed + 1):
                    kz, z = pure_outcome(lambda: o.which_distance_dB(v), seed=sd)
                    if kz != "val" or not close(z, dist(k), rel=True):
                        res["InverseIgnoresShadow"] = f"which_distance_dB({v!r}) = {z!r} with shadowing on, expected {dist(k)!r}"
        grid = np.array([p[0] for p in pts])
        gdet = np.array([p[1] for p in pts]) if dets else None
        wa = np.full(grid.shape, w) if model == "metis" else None
        far = []
        for si in range(nseeds):
            seed = base_seed + 101 * si
            kind, xa = pure_outcome(lambda dd, ww: call_dB(model, o, dd, ww), grid, wa, seed=seed)
            lin = pure_outcome(lambda dd, ww: call_lin(model, o, dd, ww), grid, wa, seed=seed) if kind == "val" else None
            judge(kind, xa, gdet, f"array of {len(grid)} distances, walls {w}, np.random.seed({seed})", lin)
            if si == 0 and len(grid) % 2 == 0:  # the same distances as a matrix: one draw per element, same shape
                g2 = grid.reshape(2, -1)
                k2, x2 = pure_outcome(lambda dd, ww: call_dB(model, o, dd, ww), g2, None if wa is None else wa.reshape(2, -1), seed=seed)
                if k2 == "val" and np.shape(x2) != g2.shape:
                    res["InUnitEveryDraw"] = f"2 x {g2.shape[1]} distance matrix under shadowing: result of shape {np.shape(x2)}"
                else:
                    judge(k2, x2, None if gdet is None else gdet.reshape(2, -1), f"2 x {g2.shape[1]} distance matrix, walls {w}, np.random.seed({seed})")
            for j, (d, det) in enumerate(near):
                sd = seed + 7 * j + 1
                kind, x = pure_outcome(lambda: call_dB(model, o, float(d), w), seed=sd)
                lin = pure_outcome(lambda: call_lin(model, o, float(d), w), seed=sd) if kind == "val" else None
                judge(kind, x, det, f"PLdB({d!r}), walls {w}, np.random.seed({sd})", lin)
            kind, x = pure_outcome(lambda: call_dB(model, o, float(pts[-1][0]), w), seed=seed)
            far.append(x if kind == "val" else None)
        if sigma > 0 and nseeds >= 3 and all(v is not None for v in far) and len({round(float(v), 9) for v in far}) == 1:
            res["ShadowingIsOn"] = f"use_shadow_bool is True, sigma {sigma}: {nseeds} differently seeded draws all returned {far[0]!r}"
    return res


def behaviour(model, o):
    """a small behavioural probe of the object (seeded, so also meaningful with shadowing on): what a later caller sees"""
    out = []
    w = 1 if model == "metis" else None
    arr = np.array([0.002, 0.5, 3.0, 700.0])
    for i, d in enumerate((0.002, 3.0, 700.0)):
        np.random.seed(99 + i)
        k, x = outcome_of(lambda: call_dB(model, o, d, w))
        out.append((k, round(float(x), 9) if k == "val" else ""))
    np.random.seed(5)
    k, x = outcome_of(lambda: call_dB(model, o, arr, None if w is None else np.full(arr.shape, w)))
    out.append((k, tuple(np.round(np.asarray(x, dtype=float), 9).tolist()) if k == "val" else ""))
    return out


def run_rel(model, o, q):
    walls = [int(w) for w in q["slope"]] if isinstance(q["slope"], dict) else [0]
    with warnings.catch_warnings():
        warnings.simplefilter("ignore")
        if q.get("random"):
            slopes = q["slope"] if isinstance(q["slope"], dict) else {"0": q["slope"][0]}
            res = shadow_predicates(model, o, walls=walls, dets=q["dets"] if q.get("exact") else None, slopes=slopes,
                                    nseeds=4, base_seed=1 + (zlib.crc32(graph.key(q["pre"]).encode()) % 1000),
                                    inverse="InverseIgnoresShadow" in q["req"])
            for name in q["req"]:
                if res.get(name):
                    return f"(rel) {name}: {res[name]}"
            return None
        pre = q["pre"]
        given = {"n": fval(pre["n"]), "C": ev(pre["C"], model)} if model in ("general", "3gpp1") else {}
        res = rel_predicates(model, o, walls=walls, inverse="InverseId" in q["req"], sweep_key=(model, graph.key(pre)),
                             params=public_params(model, o, given))
        for name in q["req"]:
            if res.get(name):
                return f"(rel) {name}: {res[name]}"
        lc = q.get("lc") or {}
        if lc.get("on"):
            hms = fval(lc["hms"])
            a = (3.2 * math.log10(11.75 * hms) ** 2 - 4.97) if lc["above300"] else (8.29 * math.log10(1.54 * hms) ** 2 - 1.10)
            want = ev(lc["base"], model) - a
            kind, x = outcome_of(lambda: call_dB(model, o, 1.0))
            if kind != "val" or not close(x, want):
                return (f"(rel) large city, fc {'>' if lc['above300'] else '<'} 300 MHz: PLdB(1 km) = {x!r}, documented formula "
                        f"with a(hms) = {a!r} gives {want!r}")
        # the slope per decade is exact in every model
        slopes = q["slope"] if isinstance(q["slope"], dict) else {"0": q["slope"][0]}
        for w, s in slopes.items():
            if s[0] < 0:
                continue
            for k in (0, 1):
                a = outcome_of(lambda: call_dB(model, o, dist(k), int(w)))
                b = outcome_of(lambda: call_dB(model, o, dist(k + 1), int(w)))
                if a[0] == "val" and b[0] == "val" and a[1] > 0 and b[1] > 0 and not close(b[1] - a[1], fval(s)):
                    return f"loss per decade is {b[1] - a[1]!r} dB, expected {fval(s)!r}"
    return None


# ------------------------------------------------------------------------------ replay of paths
_G = {}  # model -> (Graph, queries by state key); filled before the pool forks


def run_path(job):
    """job = (model, [edge index...]) -> (steps_ok, queries_ok, violations)"""
    model, path = job
    g, qs = _G[model]
    return run_edges_total(model, g.path_edges(path), qs)


def run_edges_total(model, edges, qs):
    """comparisons are total: an exception that escapes while a path is compared (the code under test returned or raised
    something the comparison did not foresee) is reported as a violation of that path, not as a machinery failure"""
    try:
        return run_edges(model, edges, qs)
    except Exception as ex:  # noqa
        import traceback
        tb = traceback.format_exc().strip().splitlines()
        where = next((l.strip() for l in reversed(tb) if "pyphysim" in l), tb[-1])
        return 0, 0, [{"step": len(edges) - 1, "op": "path", "arg": None,
                       "what": f"after {[e['op'] for e in edges]}: unexpected {type(ex).__name__}: {ex} ({where})"}]


class _Axes:
    """stands in for a matplotlib Axes: the plot helper only calls ax.plot(d, PL, **extra_args)"""

    def __init__(self):
        self.calls = []

    def plot(self, x, y, **kw):
        self.calls.append((x, np.array(y, dtype=float), kw))


def plot_call(o, d):
    ax = _Axes()
    o.plot_deterministic_path_loss_in_dB(d, ax=ax, extra_args={"label": "c13"})
    if len(ax.calls) != 1 or ax.calls[0][2] != {"label": "c13"} or not np.array_equal(np.asarray(ax.calls[0][0]), d):
        raise ValueError(f"plot helper called ax.plot {len(ax.calls)} times / with other distances or keywords")
    return ax.calls[0][1]


def plot_step(model, o, e):
    """the emitted Plot action on the real object: (outcome 'plot' | 'plotraise', problem or None)"""
    d = np.array([dist(k) for k in e["arg"]["ks"]])
    kind, y = pure_outcome(lambda dd: plot_call(o, dd), d)
    exp = e["exp"]
    if kind == "impure":
        return "plot", y
    if exp["t"] == "raise":
        return ("plotraise", None) if kind == "raise" else ("plot", f"drew {y!r}, expected RuntimeError (policy: raise)")
    if kind != "val":
        return "plotraise", f"raised ({y}), expected the deterministic curve"
    if np.shape(y) != d.shape:
        return "plot", f"drew a curve of shape {np.shape(y)}"
    for i, el in enumerate(exp["v"]):
        r = check_elem(np.float64(y[i]), el, model)
        if r:
            return "plot", f"curve point {i} (d={d[i]!r}): {r}"
    return "plot", None


BY_FIELDS = ("bph", "bpol", "bshadow")


def mainkey(state):
    """the object's own part of an emitted state (queries are emitted without a bystander and looked up by this)"""
    return graph.key({k: v for k, v in state.items() if k not in BY_FIELDS})


def by_step(by, e):
    """a bystander action: (bystander model, object) after it"""
    bm, b = by
    if e["op"] == "ByConstruct":
        bm = e["arg"]
        a = {"general": dict(n=[3, 1], C=[50, 1], fc=fcr(1, 0)), "freespace": dict(n=[2, 1], C=[0, 1], fc=fcr(9, 2)),
             "metis": dict(n=[0, 1], C=[0, 1], fc=fcr(9, 2))}.get(bm, None)
        return bm, construct(bm, a)
    if e["op"] == "BySetPol":
        b.handle_small_distances_bool = bool(e["arg"])
    else:
        b.use_shadow_bool = bool(e["arg"])
    return bm, b


def by_bad(by, post):
    """the bystander's own flags against the post-state"""
    if by[1] is None or post.get("bph") != "live":
        return []
    b = by[1]
    bad = []
    if b.handle_small_distances_bool is not post["bpol"]:
        bad.append(f"bystander ({by[0]}) handle_small_distances_bool is {b.handle_small_distances_bool!r}, expected {post['bpol']!r}")
    if b.use_shadow_bool is not post["bshadow"]:
        bad.append(f"bystander ({by[0]}) use_shadow_bool is {b.use_shadow_bool!r}, expected {post['bshadow']!r}")
    return bad


def run_edges(model, edges, qs, all_states=False):
    o = None
    by = (None, None)
    okc = qc = 0
    viol = []
    with warnings.catch_warnings():
        warnings.simplefilter("ignore")
        for i, e in enumerate(edges):
            before = behaviour(model, o) if (o is not None and e["out"] in ("raise", "plot", "plotraise", "by")) else None
            bbefore = behaviour(by[0], by[1]) if (by[1] is not None and e["out"] != "by") else None
            if e["out"] == "by":
                # BystanderUntouched: a step of ANOTHER live object; the object under study keeps parameters and behaviour
                by = by_step(by, e)
                got, txt = "by", ""
                if o is not None and behaviour(model, o) != before:
                    viol.append({"step": i, "op": e["op"], "arg": e["arg"],
                                 "what": f"BystanderUntouched: after {e['op']}({e['arg']}) on another live object ({by[0]}) the {model} object "
                                         f"answers differently: {before} -> {behaviour(model, o)}"})
                    break
            elif e["op"] == "Plot":
                got, txt = plot_step(model, o, e)
                if txt:
                    viol.append({"step": i, "op": "Plot", "arg": e["arg"],
                                 "what": f"plot_deterministic_path_loss_in_dB in state {short(e['pre'])}: {txt}"})
                    break
                bad = compare_params(model, o, e["post"])
                if got == "plotraise" == e["out"] and bad == ["shadow is False, expected True"]:
                    viol.append({"step": i, "op": "Plot", "arg": e["arg"], "finding": FID_PLOT,
                                 "what": f"after the raising plot_deterministic_path_loss_in_dB({e['arg']}) use_shadow_bool is False, expected True"})
                    o.use_shadow_bool = True  # resynchronise with the specification and go on
                    bad = []
                if not bad and got == e["out"] and behaviour(model, o) != before:
                    viol.append({"step": i, "op": "Plot", "arg": e["arg"],
                                 "what": f"QueryIsPure: after plot_deterministic_path_loss_in_dB the object answers differently: "
                                         f"{before} -> {behaviour(model, o)}"})
                    break
            else:
                o, got, txt = apply_setter(model, o, e)
            if e["op"] != "Plot" and before is not None and got == "raise" and behaviour(model, o) != before:
                viol.append({"step": i, "op": e["op"], "arg": e["arg"],
                             "what": f"RejectedChangesNothing: after the rejected {e['op']}({e['arg']}) the object answers differently: "
                                     f"{before} -> {behaviour(model, o)}"})
                break
            if got != e["out"]:
                viol.append({"step": i, "op": e["op"], "arg": e["arg"],
                             "what": f"{e['op']}({e['arg']}) {'raised ' + str(txt) if 'raise' in got else 'was accepted'}, expected {e['out']}"})
                break
            bad = (compare_params(model, o, e["post"]) if o is not None else []) + by_bad(by, e["post"])
            if not bad and bbefore is not None and behaviour(by[0], by[1]) != bbefore:
                bad = [f"BystanderUntouched: the other live object ({by[0]}) answers differently: {bbefore} -> {behaviour(by[0], by[1])}"]
            if bad:
                v = {"step": i, "op": e["op"], "arg": e["arg"], "what": f"after {e['op']}({e['arg']}) [{got} {txt}]: " + "; ".join(bad)}
                if model == "freespace" and e["op"] == "SetFc" and e["out"] == "raise" and bad == [
                        f"fcv is {o.fc!r}, expected {fval(e['post']['fcv'])!r}"] and float(o.fc) == fval(e["arg"]["v"]):
                    v["finding"] = FID_FC
                    viol.append(v)
                    o.fc = fval(e["post"]["fcv"])  # resynchronise with the specification and go on
                    continue
                viol.append(v)
                break
            okc += 1
            if o is not None and (all_states or i == len(edges) - 1):
                b0 = behaviour(model, o)
                for q in qs.get(mainkey(e["post"]), ()):
                    r = run_query(model, o, q)
                    if r:
                        viol.append({"step": i, "op": q["op"], "arg": {k: q.get(k) for k in ("k", "w", "ks", "ws")},
                                     "what": f"in state {short(e['post'])} after {[x['op'] for x in edges[:i + 1]]}: {q['op']}: {r}"})
                        if TAG_I8 in r or TAG_Z in r:
                            viol[-1]["finding"] = FID_I8 if TAG_I8 in r else FID_Z
                            continue
                        break
                    qc += 1
                if not [v for v in viol if "finding" not in v] and behaviour(model, o) != b0:
                    viol.append({"step": i, "op": "queries", "arg": None,
                                 "what": f"QueryIsPure: in state {short(e['post'])} the object answers differently after the queries: "
                                         f"{b0} -> {behaviour(model, o)}"})
                if viol and "finding" not in viol[-1]:
                    break
    return okc, qc, viol


def pick(viol):
    """what is reported of one path: the first hit of every listed-finding signature and the first other violation"""
    out, seen = [], set()
    for v in viol:
        key = v.get("finding", "")
        if key not in seen:
            seen.add(key)
            out.append(v)
    return out


def short(p):
    return {k: (fval(v) if isinstance(v, list) and len(v) == 2 and k != "C" else v) for k, v in p.items() if k not in ("C", "fc", "ph")}


def explore(ctx, model, r, depth, walks, walk_len, limit):
    setters = [e for e in r.emitted if e["kind"] == "set"]
    qs = {}
    seenq = set()
    for e in r.emitted:
        if e["kind"] == "q":
            k = mainkey(e["pre"])
            ident = (k, graph.key({x: y for x, y in e.items() if x not in ("pre", "post", "exp")}))
            if ident not in seenq:
                seenq.add(ident)
                qs.setdefault(k, []).append(e)
    g = graph.Graph(setters, label=lambda e: graph.key([e["op"], e["arg"]]))
    _G[model] = (g, qs)
    root = g.roots()[0]
    rng = random.Random(ctx.seed)
    paths = g.transition_cover(root, max_len=10, rng=rng)
    ncover = len(paths)
    # Construct + every setter sequence of length 0..depth; a length with more than `limit` sequences is sampled
    cnt = {nd: 1 for nd in g.nodes}
    exhaustive_to = 0
    for dd in range(1, depth + 2):
        cnt = {nd: sum(cnt[g.edges[ei][1]] for ei in g.out.get(nd, ())) for nd in g.nodes}
        if cnt[root] <= limit:
            paths += g.all_paths(root, dd)
            exhaustive_to = dd - 1
        else:
            paths += g.random_walks(root, limit, dd, rng)
    ctx.notes.setdefault("setter_sequences_exhaustive_to_length", {})[model] = exhaustive_to
    paths += g.random_walks(root, walks, walk_len, rng)
    return g, qs, paths, ncover


def finish_paths(ctx, model, g, qs, paths, ncover, res=None):
    jobs = [(model, p) for p in paths]
    if res is None:
        res = pool_map(run_path, jobs, chunksize=max(1, len(jobs) // 128))
    for idx, (job, (okc, qc, viol)) in enumerate(zip(jobs, res)):
        ctx.ok(n=okc + qc)
        ctx.trace_done()
        for v in pick(viol):
            case = {"model": model, "edges": g.path_edges(job[1]), "failing": v,
                    "queries": {k: qs.get(k, []) for k in {mainkey(e["post"]) for e in g.path_edges(job[1])}}}
            if v.get("finding"):
                ctx.finding(v["finding"], f"{model}: {v['what']}", case)
            else:
                ctx.violation(f"{model}: {v['what']} (step {v['step']})", case)
    for _, _, e in g.edges:
        ctx.distinct.add(model + graph.key(e["pre"]) + graph.key([e["op"], e["arg"]]))
    for k, lst in qs.items():
        for q in lst:
            ctx.distinct.add(model + k + graph.key({x: y for x, y in q.items() if x not in ("pre", "post", "exp")}))
    mid = g.path_edges(paths[min(len(paths) - 1, ncover + 3)])
    ctx.sample({"model": model, "path": [[e["op"], e["arg"], e["out"]] for e in mid],
                "query": next(iter(qs.values()))[0] if qs else None})


# ------------------------------------------------------------------------------- antenna gain
def run_antenna(ctx, r):
    from pyphysim.channels import antennagain as A
    ctx.account(r, ANT, "antenna")
    for c in r.emitted:
        ctx.actions["Ant_" + c["kind"]] = ctx.actions.get("Ant_" + c["kind"], 0) + 1
    sect = {}
    omni = []
    for c in r.emitted:
        if c["kind"] == "sector":
            sect.setdefault(c["sectors"], []).append(c)
        elif c["kind"] == "omni":
            omni.append(c)
        elif c["kind"] == "badsectors":
            try:
                A.AntGainBS3GPP25996(c["sectors"])
                ctx.violation(f"AntGainBS3GPP25996({c['sectors']}) accepted, expected ValueError", {"antenna": c})
            except ValueError:
                ctx.ok(("ant", "bad", c["sectors"]))
    for s, cases in sect.items():
        cases.sort(key=lambda c: fval(c["theta"]))
        o = A.AntGainBS3GPP25996(s)
        th = np.array([fval(c["theta"]) for c in cases])
        kind, arr = pure_outcome(o.get_antenna_gain, th)
        kneg, arrneg = pure_outcome(o.get_antenna_gain, -th)
        if kind != "val" or kneg != "val":
            ctx.violation(f"sector antenna ({s} sectors), float64 array of {len(th)} angles: {arr if kind != 'val' else arrneg}",
                          {"antenna": cases[0], "how": "array"})
            continue
        wants = np.array([10.0 ** (fval(c["gain_dB"]) / 10.0) for c in cases])
        sweeps = []
        for dt in INT_DTYPES:  # whole degrees in every integer dtype that can hold them (a subset of the angles for 8 bits)
            ii = np.iinfo(dt)
            m = (th >= ii.min) & (th <= ii.max) & (th == np.round(th))
            if m.any():
                sweeps.append((np.dtype(dt).name, th[m].astype(dt), wants[m], 1.0))
        sweeps += [(lab, v, wants, f) for lab, v, f in variants(th) if lab in ("float32", "strided view", "read-only")]
        for lab, v, wv, f in sweeps:
            kv, xv = pure_outcome(o.get_antenna_gain, v)
            okv = kv == "val" and np.shape(xv) == wv.shape and np.all(np.abs(np.asarray(xv, dtype=float) - wv) <= TOL * f * np.abs(wv))
            if okv:
                ctx.ok(("ant", s, "array", lab))
            else:
                j = int(np.argmax(np.abs(np.asarray(xv, dtype=float) - wv) / wv)) if kv == "val" and np.shape(xv) == wv.shape else 0
                ctx.violation(f"sector antenna ({s} sectors), angles as {lab} array: " + (str(xv) if kv != "val" else
                              f"gain at {v[j]!r} deg is {np.asarray(xv).ravel()[j]!r}, expected {wv[j]!r} (AnyDtypeSameValue)"),
                              {"antenna": cases[0], "how": lab, "sectors": s})
        r2 = any_shape(o.get_antenna_gain, [th], "val", arr, rel=True)
        if r2:
            ctx.violation(f"sector antenna ({s} sectors), {len(th)} angles: {r2} (AnyShapeElementwise)", {"antenna": cases[0], "how": "shape"})
        else:
            ctx.ok(("ant", s, "shapes"))
        odef = A.AntGainBS3GPP25996() if s == 3 else None  # the documented default: 3 sectors
        for i, c in enumerate(cases):
            want = 10.0 ** (fval(c["gain_dB"]) / 10.0)
            t = fval(c["theta"])
            hows = [("scalar", o.get_antenna_gain(t)), ("array", arr[i]), ("array of negated angles", arrneg[i])]
            if c["theta"][1] == 1:
                hows.append(("int", o.get_antenna_gain(int(t))))
            if odef is not None and i % 16 == 0:
                hows.append(("default constructor", odef.get_antenna_gain(t)))
            if i % 64 == 0:
                hows += [(lab, o.get_antenna_gain(v)) for lab, v, f in scalar_variants(t) if f == 1.0]
            for how, x in hows:
                if close(x, want, rel=True):
                    ctx.ok(("ant", s, tuple(c["theta"]), how))
                else:
                    ctx.violation(f"sector antenna ({s} sectors) gain at {c['theta']} deg ({how}) is {x!r}, expected "
                                  f"10^({fval(c['gain_dB'])}/10) = {want!r}", {"antenna": c, "how": how})
    for c in omni:
        g = None if c["gain"] == "none" else fval(c["gain"])
        o = A.AntGainOmni() if g is None else A.AntGainOmni(g)
        want = 10.0 ** (fval(c["gain_dB"]) / 10.0)
        th = np.array([float(t) for t in c["thetas"]] + [0.25, -90.37])
        kind, ga = pure_outcome(o.get_antenna_gain, th)
        if kind != "val":
            ctx.violation(f"omni antenna gain {g} dBi, float64 array of angles: {ga}", {"antenna": c})
            continue
        xs = [o.get_antenna_gain(float(t)) for t in th] + list(np.asarray(ga).ravel())
        r2 = any_shape(o.get_antenna_gain, [th], "val", ga, rel=True)
        if r2:
            ctx.violation(f"omni antenna gain {g} dBi: {r2} (AnyShapeElementwise)", {"antenna": c})
            continue
        for lab, v, f in variants(th):
            kv, xv = pure_outcome(o.get_antenna_gain, v)
            if kv != "val" or np.shape(xv) != v.shape:
                xs.append(float("nan"))
            else:
                xs += list(np.asarray(xv, dtype=float).ravel())
        if len(xs) >= 2 * len(th) and all(abs(float(x) - want) <= 3e-5 * want for x in xs) and \
                all(close(x, want, rel=True) for x in xs[:2 * len(th)]):
            ctx.ok(("ant", "omni", str(g)))
        else:
            ctx.violation(f"omni antenna gain {g} dBi not constant 10^(g/10) = {want!r}: {xs[:6]}", {"antenna": c})
    if r.emitted:
        ctx.sample({"antenna": r.emitted[len(r.emitted) // 2]})


def run_antenna_total(ctx, r):
    """comparisons are total: an exception escaping from the antenna classes while they are compared is a verdict"""
    try:
        run_antenna(ctx, r)
    except Exception as ex:  # noqa
        import traceback
        tb = traceback.format_exc().strip().splitlines()
        where = next((l.strip() for l in reversed(tb) if "pyphysim" in l), tb[-1])
        ctx.violation(f"antenna gain replay: unexpected {type(ex).__name__}: {ex} ({where})",
                      {"antenna": r.emitted[0] if r.emitted else None})


def ant_cfg(tier, dev=False, emit=True):
    step = 25  # hundredths of a degree: every quarter degree (plus the neighbours of the floor crossing)
    return tlc.cfg_text(constants={"Step": str(step), "DevNoFloor": tlc.tla(bool(dev)), "DoEmit": tlc.tla(bool(emit))},
                        invariants=["Symmetric", "MaxAtBoresight", "Floored", "FloorReached"])


# ------------------------------------------------------------------------------- the check
# instances that carry a bystander object (a second live object of any class); the others would only multiply states
BY_MODELS = {"quick": ("general", "3gpp1", "metis"), "thorough": ("general", "3gpp1", "metis", "freespace")}
REFUTE = {"FlagsSharedAcrossObjects": "3gpp1", "ClampLostInFortranLayout": "general", "LinearArrayIgnoresRaise": "general", "ZeroInArrayAsUnit": "general", "PlotRestoresPolicyFromShadow": "3gpp1", "PlotRaiseLeavesShadowOff": "3gpp1",
          "ShadowAfterPolicy": "3gpp1", "FcRejectKeepsValue": "freespace", "NSetterKeepsC": "freespace", "FcSetterKeepsC": "freespace",
          "ClampArrayOnly": "general", "HataRejectAssigns": "hata"}


def model_devs(ctx):
    def one(dev):
        cfg, defs = model_cfg(REFUTE[dev], "quick", dev=[dev])
        r = tlc.run(MODULE, cfg, defs=defs, workers=1, heap="1g")
        if not r.violated:
            raise tlc.TlcError(f"deviation {dev} is not detected by the invariants of PathLoss.tla")
        return dev, r.violated
    with ThreadPoolExecutor(tlc_par(2)) as ex:
        out = list(ex.map(one, DEVS))
        ra = ex.submit(lambda: tlc.run(ANT, ant_cfg("quick", dev=True, emit=False))).result()
    if not ra.violated:
        raise tlc.TlcError("deviation DevNoFloor is not detected by the invariants of AntGain.tla")
    ctx.notes["deviations_refuted_by_model"] = dict(out, DevNoFloor=ra.violated)


def run(ctx):
    th = ctx.tier == "thorough"
    ctx.rule = ("TLC enumerates the complete reachable parameter graph of PathLoss.tla per model class (all setter histories) "
                "and checks every law in every state; replay: transition cover + every setter sequence up to length "
                f"{5 if th else 3} (sampled above the limit) + random walks, outcome and public parameters compared after every "
                "step, every emitted query executed in the final state; distinct = (state, setter) and (state, query) pairs")
    ctx.assumptions += [
        "irrational constants are evaluated by the harness from the documented formulas (K0 = 4.3779113907, log10 9, "
        "log10 9/5, log10 28); their 4-digit rational enclosures handed to TLC are checked by the harness in floating point",
        "dB values compared with |x - x^| <= 1e-9 max(1,|x^|), linear values and distances with relative 1e-9",
        "queries whose exact loss is 0 dB or whose sign the enclosure does not decide are excluded by the specification",
        "shadowing (use_shadow_bool) stays off; Okumura-Hata 'large city' and off-lattice defaults (fc=900, hbs=30) are (rel)",
    ]
    from . import c13_trace
    import pyphysim.channels.pathloss  # noqa: imported (with matplotlib) once, before any pool forks
    import pyphysim.channels.antennagain  # noqa
    traces = c13_trace.record(ctx)  # process pool: before the TLC threads start
    with ThreadPoolExecutor(tlc_par(8)) as ex:
        futs = {m: ex.submit(lambda m=m: tlc.run(MODULE, *model_cfg(m, ctx.tier, emit=True)[:1],
                                                 defs=model_cfg(m, ctx.tier, emit=True)[1], heap="2g")) for m in MODELS}
        fa = ex.submit(lambda: tlc.run(ANT, ant_cfg(ctx.tier)))
        fd = ex.submit(model_devs, ctx)
        ft = ex.submit(c13_trace.record_and_check, ctx, traces)
        runs = {m: f.result() for m, f in futs.items()}
        ra = fa.result()
        fd.result()
        trace_result = ft.result()
    depth = 5 if th else 3
    plan = {}
    for m in MODELS:
        ctx.account(runs[m], MODULE, m)
        # per-action fire counts from the emission (every action instance emits exactly one record); TLC's
        # -coverage costs 10x the run time here and its parameterised action lines are not parsed by tlc.py
        for e in runs[m].emitted:
            a = e["op"] if e["kind"] == "set" else "Q" + e["op"]
            ctx.actions[a] = ctx.actions.get(a, 0) + 1
        plan[m] = explore(ctx, m, runs[m], depth, 1000 if th else 50, 10 if th else 8, 10000 if th else 1200)
    ctx.require_actions(["Construct", "ByConstruct", "BySetPol", "BySetShadow", "Plot", "SetPol", "SetShadow", "SetSigma", "SetN", "SetFc", "SetHbs", "SetHms", "SetArea", "QPLdB", "QPL", "QPLdBArr",
                         "QWhichDistDB", "QWhichDist", "QFriis", "QRel"])
    n = 0
    jobs = [(m, p) for m in MODELS for p in plan[m][2]]
    order = list(range(len(jobs)))
    random.Random(1).shuffle(order)  # balance the chunks
    res = pool_map(run_path, [jobs[i] for i in order], chunksize=max(1, len(jobs) // 256))
    back = [None] * len(jobs)
    for i, r in zip(order, res):
        back[i] = r
    for m in MODELS:
        k = len(plan[m][2])
        finish_paths(ctx, m, *plan[m], res=back[n:n + k])
        n += k
    run_antenna_total(ctx, ra)
    ctx.require_actions(["Ant_sector", "Ant_badsectors", "Ant_omni"])
    c13_trace.report(ctx, trace_result)
    ctx.exhaustive = True
    ctx.notes["paths_replayed"] = n
    ctx.notes["graph"] = {m: {"states": len(plan[m][0].nodes), "setter_edges": len(plan[m][0].edges),
                              "queries": sum(len(v) for v in plan[m][1].values())} for m in MODELS}


def replay(ctx, data):
    c = data["case"]
    if "antenna" in c:
        r = tlc.TlcResult()
        r.emitted = [c["antenna"]]
        run_antenna_total(ctx, r)
        return
    if "trace" in c:
        from . import c13_trace
        c13_trace.replay(ctx, c)
        return
    okc, qc, viol = run_edges_total(c["model"], c["edges"], c["queries"])
    ctx.ok(n=okc + qc)
    for v in pick(viol):
        if v.get("finding"):
            ctx.finding(v["finding"], f"{c['model']}: {v['what']}", c)
        else:
            ctx.violation(f"{c['model']}: {v['what']} (step {v['step']})", c)
