"""C15 stage H: histories of binary2gray / gray2binary calls in ONE process (spec/modem/GrayCalls.tla).

The replay runs in freshly spawned interpreters (`python -m harness.props.c15_calls job out`), so that no
earlier call of the check (PSK construction, the stage R replays) has touched any module-level state of
pyphysim: the first path of every worker starts in a never-used interpreter, the following paths after
the anchored modules (pyphysim.util.misc, pyphysim.util.conversion) have been re-executed with
importlib.reload, which re-initialises whatever module-level state they keep.
Expected values are the ones TLC emitted from Gray.tla (the job carries them as a look-up table)."""
import importlib
import json
import os
import subprocess
import sys

import numpy as np


def call_values(k, top, known):
    """argument values of Conv(., ., k, top): only integers whose exact result Gray.tla emitted"""
    mx = {"below": 2 ** k - 1, "pow2": 2 ** k, "above": 2 ** k + 1}[top]
    vals = set(range(0, min(2 ** k, 4096)))
    for j in range(0, k + 1):
        vals.update((2 ** j - 1, 2 ** j, 2 ** j + 1))
    vals = sorted(v for v in vals if 0 <= v <= mx and v in known)
    if mx not in vals:
        raise KeyError(f"no TLC value for {mx}")
    return vals, mx


def build_arg(call, known, rng, variant):
    vals, mx = call_values(call["k"], call["top"], known)
    if call["form"] == "scalar":
        return [mx], ("pyint" if variant % 2 == 0 else "int64"), "scalar"
    vals = list(vals)
    rng.shuffle(vals)
    # the integer type rotates over every type that can hold the largest value (a table / cache keyed or sized by one
    # type must not serve another wrongly)
    cands = [t_ for t_ in ("int64", "uint32", "uint16", "int32", "uint64", "uint8", "int16", "int8") if mx <= np.iinfo(getattr(np, t_)).max]
    dtype = cands[(variant // 4 + variant) % len(cands)]
    layout = {2: "2d", 3: "strided"}.get(variant % 4, "1d")
    if layout == "2d" and len(vals) % 2:
        layout = "1d"
    return vals, dtype, layout


def materialise(vals, dtype, layout):
    if layout == "scalar":
        return int(vals[0]) if dtype == "pyint" else np.int64(vals[0])
    a = np.array(vals, dtype=getattr(np, dtype))
    if layout == "2d":
        return a.reshape(2, -1)
    if layout == "strided":
        big = np.full(2 * len(a) + 1, 3, dtype=a.dtype)
        big[1::2] = a
        return big[1::2]
    return a


HELD = []       # (result object, snapshot) of the earlier calls of the current history


def run_call(conv, fn, vals, dtype, layout, exp):
    """returns None or a description of the first wrong position"""
    arg = materialise(vals, dtype, layout)
    f = conv.gray2binary if fn == "g2b" else conv.binary2gray
    try:
        out = f(arg)
    except Exception as ex:
        return f"raised {type(ex).__name__}: {ex}"[:200]
    # call discipline: the argument is an input only; earlier results stay what they were
    if isinstance(arg, np.ndarray) and not np.array_equal(arg, materialise(vals, dtype, layout)):
        return "ArgumentsUnchanged: the conversion modified its argument"
    for h, snap in HELD:
        if not np.array_equal(h, snap):
            return "EarlierResultsUnchanged: an array returned by an earlier call of this history was overwritten"
    if isinstance(out, np.ndarray):
        if isinstance(arg, np.ndarray) and np.shares_memory(out, arg):
            return "ResultNotAliased: the result shares memory with the argument"
        HELD.append((out, np.array(out, copy=True)))
    got = [int(v) for v in np.asarray(out).reshape(-1)]
    if layout != "scalar" and np.shape(out) != np.shape(arg):
        return f"shape {np.shape(out)} for an argument of shape {np.shape(arg)}"
    if len(got) != len(exp):
        return f"{len(got)} results for {len(exp)} values"
    for v, e, g_ in zip(vals, exp, got):
        if e != g_:
            name = "gray2binary" if fn == "g2b" else "binary2gray"
            return (f"{name}({'array' if layout != 'scalar' else 'scalar'} {dtype}/{layout} of {len(vals)} values, max {max(vals)}): "
                    f"element {v} -> {g_}, expected {e}")
    return None


def worker(job):
    known = {fn: {int(k): int(v) for k, v in tab.items()} for fn, tab in job["lookup"].items()}
    from pyphysim.util import conversion, misc       # first import of pyphysim in this interpreter
    okc, viol = 0, []
    for pi, path in enumerate(job["paths"]):
        if pi > 0:                                    # re-initialise the module-level state of the anchored modules
            misc = importlib.reload(misc)
            conversion = importlib.reload(conversion)
        del HELD[:]
        rng = np.random.RandomState(job["seed"] * 1009 + path["id"])
        done = []
        for ci, call in enumerate(path["calls"]):
            if "vals" in call:                        # explicit replay of a stored case
                vals, dtype, layout, exp = call["vals"], call["dtype"], call["layout"], call.get("exp")
            else:
                vals, dtype, layout = build_arg(call, known[call["fn"]], rng, path["id"] + ci)
                exp = [known[call["fn"]][v] for v in vals]
            done.append({"fn": call["fn"], "form": call.get("form"), "k": call.get("k"), "top": call.get("top"),
                         "vals": vals, "dtype": dtype, "layout": layout})
            if exp is None:
                run_call(conversion, call["fn"], vals, dtype, layout, [0] * len(vals))
                continue
            bad = run_call(conversion, call["fn"], vals, dtype, layout, exp)
            if bad:
                done[-1]["exp"] = exp
                viol.append({"path": path["id"], "fresh_interpreter": pi == 0, "step": ci, "what": bad,
                             "history": [f"{c['fn']}:{c['form']}:{c['top']}:2^{c['k']}" for c in path["calls"][:ci + 1]] if "k" in call else [],
                             "calls": done})
                break
            okc += len(vals)
    return {"ok": okc, "viol": viol}


def spawn(job, timeout=900):
    """run worker(job) in a freshly started interpreter (inherits PYTHONPATH = VERIF_REPO:/verif)"""
    from .. import tlc
    os.makedirs(tlc.WORK, exist_ok=True)
    import uuid
    base = os.path.join(tlc.WORK, "graycalls-" + uuid.uuid4().hex[:10])
    try:
        with open(base + ".job", "w") as f:
            json.dump(job, f)
        p = subprocess.run([sys.executable, "-m", "harness.props.c15_calls", base + ".job", base + ".out"],
                           cwd=tlc.ROOT, stdout=subprocess.PIPE, stderr=subprocess.STDOUT, text=True, timeout=timeout)
        if p.returncode != 0 or not os.path.exists(base + ".out"):
            raise tlc.TlcError(f"conversion-history worker failed (exit {p.returncode}):\n{p.stdout[-2000:]}")
        return json.load(open(base + ".out"))
    finally:
        for ext in (".job", ".out"):
            if os.path.exists(base + ext):
                os.remove(base + ext)


if __name__ == "__main__":
    res = worker(json.load(open(sys.argv[1])))
    with open(sys.argv[2], "w") as f_:
        json.dump(res, f_)
