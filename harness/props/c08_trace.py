"""Stage T for C08: random histories on real channel-matrix objects (random K, antennas, complex channels,
path-loss matrices) recorded as traces and validated by TLC (spec/chan/Trace_MuChannel.tla)."""
import copy
import json
import os
import re
import tempfile

import numpy as np

from .. import tlc
from ..core import pool_map

MODULE = "chan/Trace_MuChannel.tla"


def record(job):
    seed, ext = job
    from pyphysim.channels import multiuser
    from scipy.linalg import block_diag
    rs = np.random.RandomState(seed)
    o = multiuser.MultiUserChannelMatrixExtInt() if ext else multiuser.MultiUserChannelMatrix()
    o.set_channel_seed(seed + 1)
    o.set_noise_seed(seed + 2)
    K = rs.randint(2, 5)
    E = rs.randint(1, 3) if ext else 0
    ev = []
    raws, pls, filts = [], [None], [None]      # histories; pls[p] = (main, ext) or None
    nr = nt = nte = None

    def amp_big(p):
        if pls[p] is None:
            return 1.0
        main, extm = pls[p]
        full = np.hstack([main, extm]) if ext else main
        rows = np.repeat(np.arange(K), nr)
        cols = np.repeat(np.arange(K + E), list(nt) + list(nte))
        return np.sqrt(full[np.ix_(rows, cols)])

    def identify(val, view):
        """which (raw, pl) of the history the view equals; prefers the current one"""
        cur = (len(raws), len(pls) - 1)
        cands = [cur] + [(r, p) for r in range(len(raws), 0, -1) for p in range(len(pls) - 1, -1, -1) if (r, p) != cur]
        for (r, p) in cands:
            raw = raws[r - 1]
            if raw.shape != (sum(nr), sum(nt) + sum(nte)):
                continue
            try:
                big = raw * amp_big(p)
            except Exception:
                continue
            if view(big).shape == np.asarray(val).shape and np.allclose(view(big), val, rtol=1e-9, atol=1e-300):
                return [r, p]
        return [-1, -1]

    def new_channel():
        nonlocal nr, nt, nte
        nr = list(rs.randint(1, 4, size=K))
        nt = list(rs.randint(1, 4, size=K))
        nte = list(rs.randint(1, 3, size=E))
        if rs.rand() < 0.5:
            o.randomize(np.array(nr), np.array(nt), K, np.array(nte)) if ext else o.randomize(np.array(nr), np.array(nt), K)
            c = copy.deepcopy(o)
            c.set_pathloss(None, None) if ext else c.set_pathloss(None)
            raws.append(np.array(c.big_H))
        else:
            m = rs.randn(sum(nr), sum(nt) + sum(nte)) + 1j * rs.randn(sum(nr), sum(nt) + sum(nte))
            if ext:
                o.init_from_channel_matrix(m.copy(), np.array(nr), np.array(nt), K, np.array(nte))
            else:
                o.init_from_channel_matrix(m.copy(), np.array(nr), np.array(nt), K)
            raws.append(m)
        ev.append({"op": "NewChannel"})
        # filters are built for the receive antennas: drop them when the channel changes
        o.set_post_filter(None)
        filts.append(None)
        ev.append({"op": "SetFilter"})

    new_channel()
    for _ in range(rs.randint(6, 16)):
        c = rs.randint(0, 10)
        if c == 0:
            new_channel()
        elif c <= 2:
            if rs.rand() < 0.25:
                o.set_pathloss(None, None) if ext else o.set_pathloss(None)
                pls.append(None)
            else:
                # path losses over many orders of magnitude (120 dB and more are ordinary values)
                main = 10.0 ** rs.uniform(-14, 2, size=(K, K))
                extm = 10.0 ** rs.uniform(-14, 2, size=(K, E))
                o.set_pathloss(main, extm) if ext else o.set_pathloss(main)
                pls.append((main, extm))
            ev.append({"op": "SetPathloss"})
        elif c == 3:
            on = bool(rs.rand() < 0.6)
            o.noise_var = rs.uniform(0.1, 1.0) if on else None
            ev.append({"op": "SetNoise", "on": on})
        elif c == 4:
            if rs.rand() < 0.3:
                o.set_post_filter(None)
                filts.append(None)
            else:
                W = [rs.randn(n, n) + 1j * rs.randn(n, n) + 3 * np.eye(n) for n in nr]
                o.set_post_filter(list(W))
                filts.append(W)
            ev.append({"op": "SetFilter"})
        elif c <= 8:
            cr = np.cumsum([0] + nr)
            ct = np.cumsum([0] + nt + nte)
            T = sum(nt)
            k = rs.randint(0, K)
            l = rs.randint(0, K + E)
            views = [("big_H", lambda: o.big_H, lambda b: b),
                     ("Hk", lambda: o.get_Hk(k), lambda b: b[cr[k]:cr[k + 1], :]),
                     ("Hkl", lambda: o.get_Hkl(k, l), lambda b: b[cr[k]:cr[k + 1], ct[l]:ct[l + 1]]),
                     ("Hdiag", lambda: o.H[k, min(l, K - 1)], lambda b: b[cr[k]:cr[k + 1], ct[min(l, K - 1)]:ct[min(l, K - 1) + 1]])]
            if ext:
                views += [("big_H_no_ext", lambda: o.big_H_no_ext_int, lambda b: b[:, :T]),
                          ("Hk_no_ext", lambda: o.get_Hk_without_ext_int(k), lambda b: b[cr[k]:cr[k + 1], :T]),
                          ("H_no_ext", lambda: o.H_no_ext_int[k, min(l, K - 1)], lambda b: b[cr[k]:cr[k + 1], ct[min(l, K - 1)]:ct[min(l, K - 1) + 1]])]
            name, get, view = views[rs.randint(0, len(views))]
            try:
                val = get()
                ev.append({"op": "Read", "view": name, "raised": False, "src": identify(val, view)})
            except Exception as ex:
                ev.append({"op": "Read", "view": name, "raised": True, "src": [-1, -1], "exc": f"{type(ex).__name__}: {ex}"})
        else:
            data = np.zeros(K, dtype=object)
            for k2 in range(K):
                data[k2] = rs.randn(nt[k2], 2) + 1j * rs.randn(nt[k2], 2)
            ed = np.zeros(E, dtype=object)
            for k2 in range(E):
                ed[k2] = rs.randn(nte[k2], 2) + 1j * rs.randn(nte[k2], 2)
            try:
                out = o.corrupt_data(data, ed) if ext else o.corrupt_data(data)
                x = np.vstack(list(data) + list(ed))
                ln = o.last_noise
                y_obs = np.vstack(list(out))
                # which filter was applied, which matrix produced the data?
                found_f, found_src = -1, [-1, -1]
                for fv in range(len(filts) - 1, -1, -1):
                    W = filts[fv]
                    if W is not None and [w.shape[0] for w in W] != nr:
                        continue

                    def view(b, W=W):
                        y = b.dot(x) + (ln if ln is not None else 0)
                        return block_diag(*W).conj().T.dot(y) if W is not None else y
                    src = identify(y_obs, view)
                    if src != [-1, -1]:
                        found_f, found_src = fv, src
                        break
                split_ok = [np.asarray(out[k2]).shape[0] for k2 in range(K)] == nr
                ev.append({"op": "Corrupt", "raised": False, "src": found_src if split_ok else [-1, -1], "noise": ln is not None, "filt": found_f})
            except Exception as ex:
                ev.append({"op": "Corrupt", "raised": True, "src": [-1, -1], "noise": False, "filt": -1, "exc": f"{type(ex).__name__}: {ex}"})
    return ev


def run(ctx):
    n = 300 if ctx.tier == "quick" else 4000
    jobs = [(ctx.seed * 65537 + k, k % 2 == 1) for k in range(n)]
    traces = pool_map(record, jobs, chunksize=max(1, n // 64))
    os.makedirs(tlc.WORK, exist_ok=True)
    fd, path = tempfile.mkstemp(prefix="c08-traces-", suffix=".json", dir=tlc.WORK)
    try:
        with os.fdopen(fd, "w") as f:
            json.dump(traces, f)
        r = tlc.run(MODULE, tlc.cfg_text(invariants=["Conforms"]), env={"TRACE_FILE": path}, workers=4, timeout=1800)
        ctx.account(r, MODULE, "random-histories", expect_violation="any")
        if r.violated:
            m = re.search(r"mismatch = <<(\d+), (\d+), \"([^\"]*)\">>", r.trace_text)
            if m:
                t, i = int(m.group(1)) - 1, int(m.group(2)) - 1
                ctx.violation(f"recorded history {jobs[t]} rejected by Trace_MuChannel at event {i}: {m.group(3)} ({traces[t][i]})",
                              {"kind": "trace", "job": list(jobs[t]), "event": i, "trace": traces[t]})
            else:
                ctx.violation("recorded histories rejected by Trace_MuChannel", {"kind": "trace", "text": r.trace_text[:2000]})
        ctx.trace_done(len(traces))
        ctx.sample({"recorded_history": traces[0][:8]})
        # negative control: a corrupted source version must be rejected
        bad = json.loads(json.dumps(traces[0]))
        for e in bad:
            if e["op"] in ("Read", "Corrupt") and not e["raised"]:
                e["src"] = [e["src"][0], e["src"][1] - 1]
                break
        else:
            bad = None
        if bad:
            with open(path, "w") as f:
                json.dump([bad], f)
            r2 = tlc.run(MODULE, tlc.cfg_text(invariants=["Conforms"]), env={"TRACE_FILE": path}, timeout=600)
            if not r2.violated:
                raise tlc.TlcError("Trace_MuChannel accepted a corrupted trace (binding is not live)")
            ctx.notes["trace_negative_control"] = "stale source version rejected"
    finally:
        os.remove(path)
