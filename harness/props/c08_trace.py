def run(ctx):
    pass
