"""C17 - saving and loading parameters and results loses nothing.

Stage M: TLC on spec/codec/Serialize.tla.  Intended instance (all Dev/Hyp flags FALSE): the laws
EncodeTotal, DecodeTotal, RoundTripEq, RoundTripFaithful, DoubleRoundTrip, MarksPreserved, ChildLaw,
StatsLaw, FileNameInjective, FileNameFunctional hold on every enumerated object.  Every deviation flag
(code as found) and every hypothetical regression flag: TLC must FIND the violation.
Stage R: every object TLC emitted is built for real and sent through to_json/from_json,
to_dict/from_dict, pickle, save_to_file/load_from_file (.json, .pickle, no extension) TWICE; the JSON text
is parsed with the json module and compared with the abstract tree TLC emitted (number kind and exact
value, marker objects, key sets), reloaded objects are compared with == (both directions) and field by
field with the typed description TLC emitted for Dec(Enc(x)); file names are compared with the strings
TLC rendered.  Python holds no oracle: it builds objects from descriptions, converts exact rationals to
floats and compares.
Stage T: harness/props/c17_trace.py (seeded random values and update histories beyond the pools, recorded on
the real code, validated by TLC against Enc / Dec / RState in one batched run)."""
import copy
import json
import math
import os
import pickle
import re
import shutil
import uuid
from concurrent.futures import ThreadPoolExecutor

import numpy as np

from .. import tlc
from ..core import pool_map

MODULE = "codec/Serialize.tla"
DEVS = ["Float32EncodedAsInt", "NarrowScalarRaises", "ArrayDtypeLost", "EmptyArrayShapeLost",
        "RatioZeroUpdatesRaises", "ChoiceAccumOrderLost", "CurrentRepNotSerialized",
        "NpBoolRaises", "FileNameFailsForNonVectorArray"]
HYPS = ["SetAsList", "MarksDropped", "IndexDropped", "ParentDropped", "NumUpdatesDropped", "FileNameRounds",
        "ZeroUpdatesSkipsState", "StaleNameCache", "IndexClampedToRootCount"]
LAWS = ["TypeOK", "EncodeTotal", "DecodeTotal", "RoundTripEq", "RoundTripFaithful", "DoubleRoundTrip",
        "MarksPreserved", "ChildLaw", "StatsLaw", "FileNameInjective", "FileNameFunctional", "FinePoolOk",
        "SaveNameIsCurrent", "SavedFilesRoundTrip", "FileNameTotal"]
FAMILIES = ["value", "params", "result", "results", "fields", "savehist", "fname"]
# flag -> (family in which TLC must find it, law that must be violated)
DEV_EXPECT = {
    "Float32EncodedAsInt": ("value", "RoundTripEq"),
    "NarrowScalarRaises": ("value", "EncodeTotal"),
    "ArrayDtypeLost": ("value", "DoubleRoundTrip"),
    "EmptyArrayShapeLost": ("value", "RoundTripEq"),
    "RatioZeroUpdatesRaises": ("result", "DecodeTotal"),
    "ChoiceAccumOrderLost": ("result", "RoundTripEq"),
    "CurrentRepNotSerialized": ("results", "RoundTripEq"),
    "NpBoolRaises": ("value", "EncodeTotal"),
    "FileNameFailsForNonVectorArray": ("results", "FileNameTotal"),
}
HYP_EXPECT = {
    "SetAsList": ("value", "RoundTripEq"),
    "MarksDropped": ("params", "MarksPreserved"),
    "IndexDropped": ("params", "MarksPreserved"),
    "ParentDropped": ("params", "MarksPreserved"),
    "NumUpdatesDropped": ("result", "RoundTripFaithful"),
    "FileNameRounds": ("fname", "FileNameInjective"),
    # "ZeroUpdatesSkipsState" (a decoder that returns a fresh object when num_updates = 0) is no longer refutable: since
    # /repo's Result.merge ignores a never-updated MISC operand and a rejected update counts nothing, a result with
    # num_updates = 0 IS in its initial state - the hypothetical has become equivalent on reachable objects (seed C17-m8
    # is neutralised by those repairs); the flag stays in the specification, it is just not expected to be refuted
    "StaleNameCache": ("savehist", "SaveNameIsCurrent"),
    "IndexClampedToRootCount": ("params", "MarksPreserved"),
}
WORKBASE = os.path.join(tlc.WORK, "c17-files")
# ~30 short TLC processes: C1 compiler only (start-up dominates), few compiler threads
JVM_ENV = {"JAVA_TOOL_OPTIONS": "-XX:CICompilerCount=2 -XX:TieredStopAtLevel=1"}
NPTYPES = {"NpInt8": np.int8, "NpInt16": np.int16, "NpInt32": np.int32, "NpInt64": np.int64,
           "NpUInt8": np.uint8, "NpUInt16": np.uint16, "NpUInt32": np.uint32, "NpUInt64": np.uint64,
           "NpFloat16": np.float16, "NpFloat32": np.float32, "NpFloat64": np.float64, "NpLongDouble": np.longdouble}
INT_T = {"PyInt", "NpInt8", "NpInt16", "NpInt32", "NpInt64", "NpUInt8", "NpUInt16", "NpUInt32", "NpUInt64"}
FLOAT_T = {"PyFloat", "NpFloat16", "NpFloat32", "NpFloat64", "NpLongDouble"}
BOOL_T = {"PyBool", "NpBool"}


def model(family, tier, part=0, nparts=1, dev=(), hyp=(), emit=True, laws=LAWS):
    defs = {"Dev": tlc.tla({k: (k in dev) for k in DEVS}), "Hyp": tlc.tla({k: (k in hyp) for k in HYPS})}
    cfg = tlc.cfg_text(constants={"Family": tlc.tla(family), "Tier": tlc.tla(tier), "Part": str(part),
                                  "NParts": str(nparts)},
                       defs=defs, invariants=laws, action_constraints=["Emit"] if emit else [])
    return cfg, defs


# ---------------------------------------------------------------- descriptions -> real objects
def fval(n, d):
    """the one trusted evaluation: exact rational -> float (correctly rounded division);
    d = 0 denotes an infinity of the sign of n, n = 0 with d < 0 the negative zero"""
    if d == 0:
        return math.inf if n > 0 else -math.inf
    if n == 0:
        return -0.0 if d < 0 else 0.0
    return n / d


def to_py(v):
    t = v["t"]
    if t == "Str":
        return v["s"]
    if t == "None":
        return None
    if t == "PyBool":
        return bool(v["n"])
    if t == "NpBool":
        return np.bool_(bool(v["n"]))
    if t == "PyInt":
        return int(v["n"])
    if t == "PyFloat":
        return fval(v["n"], v["d"])
    if t in NPTYPES:
        return NPTYPES[t](v["n"]) if t in INT_T else NPTYPES[t](fval(v["n"], v["d"]))
    if t == "List":
        return [to_py(x) for x in v["items"]]
    if t == "Set":
        return set(to_py(x) for x in v["elems"])
    if t == "Array":
        kind_int = np.dtype(v["dtype"]).kind in "iub"
        flat = [x[0] if kind_int else fval(x[0], x[1]) for x in v["data"]]
        return np.array(flat, dtype=v["dtype"]).reshape(tuple(v["shape"]))
    raise ValueError(t)


def _num_close(x, n, d):
    e = fval(n, d)
    x = float(x)
    if math.isinf(e) or math.isinf(x) or math.isnan(x):
        return x == e
    if e == 0.0 and x == 0.0:  # zeros: the sign is part of the value (-0.0 is written "-0.0")
        return math.copysign(1.0, x) == math.copysign(1.0, e)
    return x == e or abs(x - e) <= 1e-12 * max(1.0, abs(e))


def cmp_value(obj, v, where, out, exact_types):
    """Compare a real Python object with a typed value description.  exact_types: the numpy scalar
    width is part of the description (original objects, pickle); otherwise only int/float kind."""
    t = v["t"]
    if t == "Str":
        if type(obj) is not str or obj != v["s"]:
            out.append(("value", f"{where}: expected str {v['s']!r}, got {obj!r}"))
    elif t == "None":
        if obj is not None:
            out.append(("value", f"{where}: expected None, got {obj!r}"))
    elif t in BOOL_T:
        if not isinstance(obj, (bool, np.bool_)):
            out.append(("kind", f"{where}: expected a bool {bool(v['n'])}, got {type(obj).__name__} {obj!r}"))
        elif bool(obj) != bool(v["n"]):
            out.append(("value", f"{where}: expected {bool(v['n'])}, got {obj!r}"))
        elif exact_types and type(obj) is not (bool if t == "PyBool" else np.bool_):
            out.append(("type", f"{where}: expected {t}, got {type(obj).__name__}"))
    elif t in INT_T or t in FLOAT_T:
        isint = isinstance(obj, (int, np.integer)) and not isinstance(obj, (bool, np.bool_))
        isflt = isinstance(obj, (float, np.floating))
        if t in INT_T and not isint:
            out.append(("kind", f"{where}: expected an integer {v['n']}, got {type(obj).__name__} {obj!r}"))
        elif t in FLOAT_T and not isflt:
            out.append(("kind", f"{where}: expected a float {v['n']}/{v['d']}, got {type(obj).__name__} {obj!r}"))
        elif not _num_close(obj, v["n"], v["d"]):
            out.append(("value", f"{where}: expected {v['n']}/{v['d']}, got {obj!r}"))
        elif exact_types:
            want = int if t == "PyInt" else float if t == "PyFloat" else NPTYPES[t]
            if type(obj) is not want:
                out.append(("type", f"{where}: expected {want.__name__}, got {type(obj).__name__}"))
    elif t == "List":
        if type(obj) is not list:
            out.append(("container", f"{where}: expected list, got {type(obj).__name__}"))
        elif len(obj) != len(v["items"]):
            out.append(("value", f"{where}: list length {len(obj)} != {len(v['items'])}"))
        else:
            for i, (o, x) in enumerate(zip(obj, v["items"])):
                cmp_value(o, x, f"{where}[{i}]", out, exact_types)
    elif t == "Set":
        if type(obj) is not set:
            out.append(("container", f"{where}: expected set, got {type(obj).__name__}"))
        elif len(obj) != len(v["elems"]):
            out.append(("value", f"{where}: set size {len(obj)} != {len(v['elems'])}"))
        else:
            rest = list(obj)
            for x in v["elems"]:
                for i, o in enumerate(rest):
                    tmp = []
                    cmp_value(o, x, where, tmp, exact_types)
                    if not tmp:
                        del rest[i]
                        break
                else:
                    out.append(("value", f"{where}: set element {x} not found in {obj!r}"))
    elif t == "Array":
        if not isinstance(obj, np.ndarray):
            out.append(("container", f"{where}: expected ndarray, got {type(obj).__name__}"))
            return
        if tuple(obj.shape) != tuple(v["shape"]):
            out.append(("shape", f"{where}: array shape {tuple(obj.shape)} != {tuple(v['shape'])}"))
            return
        if str(obj.dtype) != v["dtype"]:
            out.append(("dtype", f"{where}: array dtype {obj.dtype} != {v['dtype']}"))
        flat = obj.reshape(-1).tolist()
        if len(flat) != len(v["data"]) or not all(_num_close(a, x[0], x[1]) for a, x in zip(flat, v["data"])):
            out.append(("value", f"{where}: array values {flat} != {v['data']}"))
    else:
        raise ValueError(t)


def cmp_tree(p, node, where, out):
    """parsed JSON text (json.loads, no hooks) against the abstract tree"""
    j = node["j"]
    if j == "int":
        if type(p) is not int:
            if type(p) is float:
                out.append(("tree-kind", f"{where}: JSON has float {p!r} where the integer {node['n']} is expected"))
            else:
                out.append(("tree", f"{where}: expected integer {node['n']}, JSON has {p!r}"))
        elif p != node["n"]:
            e = fval(node["n"], node["d"])
            out.append(("tree", f"{where}: expected {node['n']}, JSON has {p!r}"))
    elif j == "float":
        if type(p) is int:
            e = fval(node["n"], node["d"])
            sig = "tree-f2i" if math.isfinite(e) and p == int(e) else "tree"
            out.append((sig, f"{where}: JSON has the integer {p} where the float {e!r} is expected"))
        elif type(p) is not float:
            out.append(("tree", f"{where}: expected float {node['n']}/{node['d']}, JSON has {p!r}"))
        elif not _num_close(p, node["n"], node["d"]):
            out.append(("tree", f"{where}: expected {fval(node['n'], node['d'])!r}, JSON has {p!r}"))
    elif j == "str":
        if type(p) is not str or p != node["s"]:
            sig = "tree-dtype" if where.endswith(".dtype") else "tree"
            out.append((sig, f"{where}: expected {node['s']!r}, JSON has {p!r}"))
    elif j == "null":
        if p is not None:
            out.append(("tree", f"{where}: expected null, JSON has {p!r}"))
    elif j == "bool":
        if type(p) is not bool or p != bool(node["n"]):
            out.append(("tree", f"{where}: expected {bool(node['n'])}, JSON has {p!r}"))
    elif j == "list":
        if type(p) is not list or len(p) != len(node["items"]):
            sig = "tree-shape" if where.endswith(".shape") else "tree"
            out.append((sig, f"{where}: expected a list of {len(node['items'])}, JSON has {p!r}"))
        else:
            for i, (a, b) in enumerate(zip(p, node["items"])):
                cmp_tree(a, b, f"{where}[{i}]", out)
    elif j == "bag":  # the list a set is written as: order unspecified
        if type(p) is not list or len(p) != len(node["elems"]):
            out.append(("tree", f"{where}: expected a list of {len(node['elems'])} set elements, JSON has {p!r}"))
        else:
            rest = list(p)
            missing = []
            for b in node["elems"]:  # pass 1: exact matches
                for i, a in enumerate(rest):
                    tmp = []
                    cmp_tree(a, b, where, tmp)
                    if not tmp:
                        del rest[i]
                        break
                else:
                    missing.append(b)
            for b in missing:  # pass 2: pair what is left; prefer a pairing whose mismatch has a precise signature
                best = None
                for i, a in enumerate(rest):
                    tmp = []
                    cmp_tree(a, b, where, tmp)
                    if tmp and (best is None or (best[1][0] == "tree" and tmp[0][0] != "tree")):
                        best = (i, tmp[0])
                if best is None:
                    out.append(("tree", f"{where}: set element {b} not found in {p!r}"))
                else:
                    del rest[best[0]]
                    out.append(best[1])
    elif j == "obj":
        if type(p) is not dict:
            out.append(("tree", f"{where}: expected an object with keys {node['keys']}, JSON has {p!r}"))
            return
        want, have = set(node["keys"]), set(p)
        for k in sorted(want - have):
            out.append(("tree-missing:" + k, f"{where}: key {k!r} missing in JSON"))
        for k in sorted(have - want):
            out.append(("tree", f"{where}: unexpected key {k!r} in JSON"))
        for k, b in zip(node["keys"], node["vals"]):
            if k in p:
                cmp_tree(p[k], b, f"{where}.{k}", out)
    elif j == "raise":
        out.append(("tree", f"{where}: the model expects the encoder to raise here"))
    else:
        raise ValueError(j)


# ---------------------------------------------------------------- SimulationParameters
def build_params(P, keep=None):
    from pyphysim.simulations.parameters import SimulationParameters
    d = {q["name"]: to_py(q["val"]) for q in P["params"]}
    if keep is not None:
        keep.append((d, P))  # ArgumentsUnchanged: compared with the description again after all calls
    obj = SimulationParameters.create(d)
    for nm in P["unpacked"]:
        obj.set_unpack_parameter(nm)
    return obj


def check_args(keep, out):
    """ArgumentsUnchanged: what was handed to create() / update() still is what the description says"""
    for d, P in keep:
        if isinstance(P, dict) and "params" in P:
            if list(d.keys()) != [q["name"] for q in P["params"]]:
                out.append(("frame", f"ArgumentsUnchanged: the dictionary given to create() now has keys {list(d)}"))
                continue
            for q in P["params"]:
                tmp = []
                cmp_value(d[q["name"]], q["val"], "argument " + q["name"], tmp, True)
                out.extend(("frame", "ArgumentsUnchanged: " + w) for _, w in tmp)
        else:
            tmp = []
            cmp_value(d, P, "update() argument", tmp, True)
            out.extend(("frame", "ArgumentsUnchanged: " + w) for _, w in tmp)


def make_params(P, k, out, keep=None):
    """the object of a params description; for a child (k >= 0): unpack the real parent and take element k"""
    if k < 0 and not P["parent"]:
        return build_params(P, keep)
    pd = P["parent"][0]
    if pd["parent"]:  # the parent is itself an unpacked child: obtain it the same way, then mark it
        parent = make_params(pd, pd["index"], out, keep)
        if parent is None:
            return None
        for nm in pd["unpacked"]:
            parent.set_unpack_parameter(nm)
    else:
        parent = build_params(pd, keep)
    lst = parent.get_unpacked_params_list()
    idx = P["index"]
    if idx >= len(lst):
        out.append(("child", f"parent unpacks into {len(lst)} variations, the model expects at least {idx + 1}"))
        return None
    return lst[idx]


def cmp_params(obj, P, where, out, exact_types):
    """field by field: parameters (as a map), marks, index, parent"""
    if obj is None:
        out.append(("value", f"{where}: no SimulationParameters object"))
        return
    names = [q["name"] for q in P["params"]]
    if set(obj.parameters.keys()) != set(names):
        out.append(("value", f"{where}: parameter names {sorted(obj.parameters)} != {sorted(names)}"))
        return
    for q in P["params"]:
        cmp_value(obj.parameters[q["name"]], q["val"], f"{where}.{q['name']}", out, exact_types)
    if list(obj.unpacked_parameters) != sorted(P["unpacked"]):
        out.append(("marks", f"{where}: unpacked marks {obj.unpacked_parameters} != {sorted(P['unpacked'])}"))
    if type(getattr(obj, "_unpacked_parameters_set", set())) is not set:
        out.append(("container", f"{where}: the unpacked marks are no longer a set"))
    if obj.unpack_index != P["index"]:
        out.append(("index", f"{where}: unpack_index {obj.unpack_index} != {P['index']}"))
    par = getattr(obj, "_original_sim_params", "absent")
    if par != "absent":  # private cross-check, skipped when the attribute is renamed
        if P["parent"]:
            if par is None:
                out.append(("parent", f"{where}: the parent of the unpacked child is lost"))
            else:
                cmp_params(par, P["parent"][0], where + ".parent", out, exact_types)
        elif par is not None:
            out.append(("parent", f"{where}: unexpected parent"))


def eq_both(a, b, what, out, defined=True):
    if not defined:  # the model says Python's == has no truth value for this object (list holding an array)
        return
    try:
        ok = (a == b) and (b == a) and not (a != b) and not (b != a)
    except Exception as ex:  # comparing must not raise either
        out.append(("eq", f"{what}: == raised {type(ex).__name__}: {ex}"))
        return
    if not ok:
        out.append(("eq", f"{what}: objects are not equal under =="))


def enc_exc_sig(ex):
    if isinstance(ex, TypeError):
        return "enc-typeerror-bool" if "type bool" in str(ex) else "enc-typeerror"
    return "enc-raise"


def dec_exc_sig(ex):
    if isinstance(ex, ZeroDivisionError):
        return "dec-zerodiv"
    if isinstance(ex, AttributeError) and "np.int" in str(ex):
        return "npint"
    return "dec-raise"


def perturb(o):
    """change a loaded object in place (LoadedIsIndependent: the saved object must not notice)"""
    for name in ("parameters", "_results", "_value_list"):
        x = getattr(o, name, None)
        if isinstance(x, dict):
            for v in x.values():
                if isinstance(v, list):
                    v.append("perturbed")
                elif isinstance(v, np.ndarray) and v.size:
                    v.reshape(-1)[0] = 99
            x["__perturbed__"] = [1]
        elif isinstance(x, list):
            x.append("perturbed")
    p = getattr(o, "_params", None)
    if p is not None:
        perturb(p)
    for name in ("_unpacked_parameters_set",):
        x = getattr(o, name, None)
        if isinstance(x, set):
            x.add("__perturbed__")
    for name, val in (("current_rep", 12345), ("runned_reps", [9, 9]), ("num_updates", 777), ("_unpack_index", 55)):
        if hasattr(o, name):
            setattr(o, name, val)


def json_cycle(obj, cls, c, out, cmp_fields):
    """to_json -> text vs tree -> from_json -> == and fields -> to_json -> text vs tree2 -> from_json -> ==;
    then EarlierResultsUnchanged (the first reloaded object again) and LoadedIsIndependent"""
    try:
        s1 = obj.to_json()
    except Exception as ex:
        out.append((enc_exc_sig(ex), f"to_json raised {type(ex).__name__}: {ex}"))
        return
    cmp_tree(json.loads(s1), c["tree"], "json", out)
    try:
        o2 = cls.from_json(s1)
    except Exception as ex:
        out.append((dec_exc_sig(ex), f"from_json raised {type(ex).__name__}: {ex}"))
        return
    eq_both(obj, o2, "from_json(to_json(x)) vs x", out, c.get("eqdef", True))
    cmp_fields(o2, "reloaded")
    try:
        s2 = o2.to_json()
        tmp = []
        cmp_tree(json.loads(s2), c["tree2"], "json2", tmp)
        out.extend(("second:" + sg, w) for sg, w in tmp)
        o3 = cls.from_json(s2)
    except Exception as ex:
        out.append(("second:raise", f"second JSON round trip raised {type(ex).__name__}: {ex}"))
        return
    eq_both(obj, o3, "second JSON round trip vs x", out, c.get("eqdef", True))
    cmp_fields(o3, "reloaded twice")
    n0 = len(out)
    perturb(o3)
    cmp_fields(o2, "EarlierResultsUnchanged/LoadedIsIndependent: first reloaded object after the second round trip")
    out[n0:] = [("frame", w) for _, w in out[n0:]]
    # the dictionary form is the same mapping without the text
    try:
        o4 = cls.from_dict(obj.to_dict())
        eq_both(obj, o4, "from_dict(to_dict(x)) vs x", out, c.get("eqdef", True))
    except Exception as ex:
        out.append((dec_exc_sig(ex), f"from_dict(to_dict(x)) raised {type(ex).__name__}: {ex}"))


def follow_recipe(P0, recipe, out, keep):
    """an unpacking history on the real objects: mark, take child k, change the parent the child came from"""
    obj = build_params(P0, keep)
    parent = None
    for o in recipe:
        if o["op"] == "mark":
            for nm in o["names"]:
                obj.set_unpack_parameter(nm)
        elif o["op"] == "child":
            lst = obj.get_unpacked_params_list()
            if o["k"] >= len(lst):
                out.append(("child", f"{len(lst)} variations, the model expects at least {o['k'] + 1}"))
                return None
            parent, obj = obj, lst[o["k"]]
        elif o["op"] == "parentset":
            parent.add(o["name"], to_py(o["val"]))
        elif o["op"] == "parentunmark":
            parent.set_unpack_parameter(o["name"], False)
        else:
            raise ValueError(o["op"])
    return obj


def run_params_case(c, wd):
    from pyphysim.simulations.parameters import SimulationParameters
    out = []
    keep = []
    if c["kind"] == "unphist":
        obj = follow_recipe(c["P0"], c["recipe"], out, keep)
        keep = []  # the dictionary given to create() belongs to the root, which the recipe may change on purpose
    else:
        obj = make_params(c["P"], c["k"], out, keep)
    if obj is None:
        return out
    # the object under test is what the model says it is (for children: the oracle of unpacking)
    cmp_params(obj, c["P"], "built", out, True)
    if out:
        return [("child" if c["k"] >= 0 else "build", w) for _, w in out]
    json_cycle(obj, SimulationParameters, c, out, lambda o, w: cmp_params(o, c["back"], w, out, False))
    # pickle file, twice
    try:
        f1 = os.path.join(wd, "p1.pickle")
        obj.save_to_pickled_file(f1)
        o2 = SimulationParameters.load_from_pickled_file(f1)
        o2.save_to_pickled_file(f1)
        o3 = SimulationParameters.load_from_pickled_file(f1)
    except Exception as ex:
        out.append(("pickle", f"pickle round trip raised {type(ex).__name__}: {ex}"))
        return out
    for o, w in ((o2, "unpickled"), (o3, "unpickled twice")):
        eq_both(obj, o, w + " vs x", out, c["eqdef"])
        tmp = []
        cmp_params(o, c["P"], w, tmp, True)
        out.extend(("pickle:" + sg, x) for sg, x in tmp)
        if o.get_num_unpacked_variations() != obj.get_num_unpacked_variations():
            out.append(("pickle", f"{w}: number of variations differs"))
    perturb(o3)
    frame_params(obj, c["P"], keep, out)
    return out


def frame_params(obj, P, keep, out):
    """QueryIsPure + ArgumentsUnchanged + LoadedIsIndependent for a parameters object, after every call was made"""
    tmp = []
    cmp_params(obj, P, "QueryIsPure: the saved object after all calls", tmp, True)
    out.extend(("frame", w) for _, w in tmp)
    check_args(keep, out)


# ---------------------------------------------------------------- Result / SimulationResults
def build_result(R, keep=None):
    from pyphysim.simulations.results import Result
    if R["type"] == 3:
        r = Result(R["name"], R["type"], accumulate_values=R["acc"], choice_num=R["nch"])
    else:
        r = Result(R["name"], R["type"], accumulate_values=R["acc"])
    for u in R["hist"]:
        if u.get("op", "upd") == "merge":  # the merge of another result, itself given by its history
            r.merge(build_result(u["rd"][0], keep))
            continue
        v = to_py(u["v"])
        if keep is not None and isinstance(v, (list, set, np.ndarray)):
            keep.append((v, u["v"]))
        if R["type"] == 1:
            r.update(v, to_py(u["tot"]))
        else:
            r.update(v)
    return r


def cmp_result_public(r, st, where, out):
    """public observations of a Result against the state TLC computed"""
    if r.name != st["name"] or r.type_code != st["type"] or r.accumulate_values_bool != st["acc"]:
        out.append(("value", f"{where}: name/type/accumulate differ"))
    if r.num_updates != st["num"]:
        out.append(("num", f"{where}: num_updates {r.num_updates} != {st['num']}"))
    # statistics kept in a float32/float16 accumulator are divided in that width by the getters
    tol = {"NpFloat32": 1e-5, "NpFloat16": 5e-3}.get(st["rsum"]["t"], 1e-9)
    if r.num_updates != st["num"]:
        return  # the getters divide by num_updates
    try:
        _cmp_result_getters(r, st, where, out, tol)
    except Exception as ex:  # a getter that breaks on a reloaded object is a mismatch, not a harness failure
        out.append(("value", f"{where}: a result getter raised {type(ex).__name__}: {ex}"))
    _cmp_result_lists(r, st, where, out)


def _cmp_result_getters(r, st, where, out, tol):
    infinite = any(st[k]["d"] == 0 for k in ("rsum", "rsq")) or (st["type"] in (0, 1) and st["value"]["d"] == 0)
    if infinite and st["num"] > 0 and st["type"] in (0, 1):
        # an accumulated infinity: the result and the mean are that infinity (the variance is inf - inf, not demanded)
        exp = fval(st["value"]["n"], 0)
        if float(r.get_result()) != exp or float(r.get_result_mean()) != fval(st["rsum"]["n"], 0):
            out.append(("value", f"{where}: get_result()/get_result_mean() {r.get_result()!r}/{r.get_result_mean()!r} != {exp!r}"))
        return
    if st["num"] > 0 and st["type"] in (0, 1):
        if st["type"] == 0:
            exp = fval(st["value"]["n"], st["value"]["d"])
        else:
            exp = fval(st["value"]["n"] * st["total"]["d"], st["value"]["d"] * st["total"]["n"])
        got = r.get_result()
        if abs(float(got) - exp) > tol * max(1.0, abs(exp)):
            out.append(("value", f"{where}: get_result() {got!r} != {exp!r}"))
        mean = fval(st["rsum"]["n"], st["rsum"]["d"] * st["num"])
        if abs(float(r.get_result_mean()) - mean) > tol * max(1.0, abs(mean)):
            out.append(("value", f"{where}: get_result_mean() {r.get_result_mean()!r} != {mean!r}"))
        var = fval(st["rsq"]["n"], st["rsq"]["d"] * st["num"]) - mean ** 2
        if abs(float(r.get_result_var()) - var) > 10 * tol * max(1.0, abs(var), mean ** 2):
            out.append(("value", f"{where}: get_result_var() {r.get_result_var()!r} != {var!r}"))
    if st["type"] == 2 and st["num"] > 0:
        cmp_value(r.get_result(), st["value"], where + ".get_result()", out, False)


def _cmp_result_lists(r, st, where, out):
    # accumulated values (private lists; skipped when renamed)
    vl = getattr(r, "_value_list", None)
    if vl is not None:
        tmp = []
        cmp_value(vl, {"t": "List", "items": st["vlist"]}, where + ".value_list", tmp, False)
        if tmp:
            srt = lambda xs: sorted(repr(float(x)) if isinstance(x, (int, float, np.number)) else repr(x) for x in xs)
            same_bag = len(vl) == len(st["vlist"]) and srt(vl) == srt([to_py(x) for x in st["vlist"]])
            out.append(("vlist-order" if same_bag else "value", tmp[0][1]))
    tl = getattr(r, "_total_list", None)
    if tl is not None:
        cmp_value(tl, {"t": "List", "items": st["tlist"]}, where + ".total_list", out, False)


def run_result_case(c, wd):
    from pyphysim.simulations.results import Result
    out = []
    keep = []
    try:
        r = build_result(c["rd"], keep)
    except AttributeError as ex:
        if "np.int" in str(ex):
            return [("npint", f"Result.update raised AttributeError: {str(ex)[:80]}")]
        raise
    cmp_result_public(r, c["st"], "built", out)
    if out:
        return [("build", w) for _, w in out]
    json_cycle(r, Result, c, out, lambda o, w: cmp_result_public(o, c["back"], w, out))
    try:
        r2 = pickle.loads(pickle.dumps(r, protocol=2))
        r3 = pickle.loads(pickle.dumps(r2, protocol=2))
    except Exception as ex:
        out.append(("pickle", f"pickling a Result raised {type(ex).__name__}: {ex}"))
        return out
    for o, w in ((r2, "unpickled"), (r3, "unpickled twice")):
        eq_both(r, o, w + " vs x", out)
        tmp = []
        cmp_result_public(o, c["st"], w, tmp)
        out.extend(("pickle:" + sg, x) for sg, x in tmp)
    perturb(r3)
    tmp = []
    cmp_result_public(r, c["st"], "QueryIsPure: the saved object after all calls", tmp)
    out.extend(("frame", x) for _, x in tmp)
    check_args(keep, out)
    return out


def subst_dir(node, d):
    if isinstance(node, dict):
        return {k: subst_dir(v, d) for k, v in node.items()}
    if isinstance(node, list):
        return [subst_dir(v, d) for v in node]
    if isinstance(node, str):
        return node.replace("@DIR@", d)
    return node


def cmp_results_fields(o, S, where, out, exact_types, with_orig=True):
    cmp_params(o.params, S["params"], where + ".params", out, exact_types)
    cmp_value(o.runned_reps, S["runned"], where + ".runned_reps", out, exact_types)
    if o.current_rep != S["current"]:
        out.append(("current", f"{where}: current_rep {o.current_rep} != {S['current']}"))
    if with_orig:
        cmp_value(o.original_filename, S["orig"], where + ".original_filename", out, False)
    names = [x["name"] for x in S["res"]]
    if sorted(o.get_result_names()) != sorted(names):
        out.append(("value", f"{where}: result names {o.get_result_names()} != {names}"))
        return
    for x in S["res"]:
        lst = o[x["name"]]
        if len(lst) != len(x["rs"]):
            out.append(("value", f"{where}: {x['name']} holds {len(lst)} results, expected {len(x['rs'])}"))
            continue
        for i, (r, st) in enumerate(zip(lst, x["rs"])):
            cmp_result_public(r, st, f"{where}.{x['name']}[{i}]", out)


def run_results_case(c, wd):
    from pyphysim.simulations.results import SimulationResults
    out = []
    c = subst_dir(c, wd)
    S = c["S"]
    keep = []
    pobj = make_params(S["params"], S["params"]["index"], out, keep)
    if pobj is None:
        return out
    sr = SimulationResults()
    sr.set_parameters(pobj)
    try:
        for grp in c["rd"]:
            for R in grp["rs"]:
                sr.append_result(build_result(R, keep))
    except AttributeError as ex:
        if "np.int" in str(ex):
            return [("npint", f"Result.update raised AttributeError: {str(ex)[:80]}")]
        raise
    sr.runned_reps = to_py(S["runned"])
    sr.current_rep = S["current"]
    # --- file name: the template is a function of the parameter values
    tmpl = os.path.join(wd, c["template"])
    expname = os.path.join(wd, c["fname"])
    full = tmpl if os.path.splitext(tmpl)[-1] else tmpl + ".pickle"
    try:
        got = sr.get_filename_with_replaced_params(full)
    except Exception as ex:  # FileNameTotal: every supported parameter set has a file name
        out.append(("fname-raise", f"get_filename_with_replaced_params({c['template']!r}) raised {type(ex).__name__}: {ex}"))
        sr.original_filename = to_py(S["orig"])  # the string routes still apply
        json_cycle(sr, SimulationResults, c, out, lambda o, w: cmp_results_fields(o, c["back"], w, out, False))
        return out
    if c.get("relname"):
        # the text of a list / set / None / mixed-range vector is not spelled out by the model: deterministic (rel)
        if got != sr.get_filename_with_replaced_params(full) or os.path.dirname(got) != wd:
            out.append(("fname", f"(rel) file name {got!r} is not a deterministic name inside the directory"))
        expname = got
        c = dict(c, fname=os.path.basename(got))
    if got != expname:
        out.append(("fname", f"file name {os.path.basename(got)!r} != {c['fname']!r}"))
    # --- through a file, twice
    before = set(os.listdir(wd))
    try:
        fn = sr.save_to_file(tmpl)
    except Exception as ex:
        out.append((enc_exc_sig(ex), f"save_to_file raised {type(ex).__name__}: {ex}"))
        return out
    if fn != expname:
        out.append(("fname", f"save_to_file returned {os.path.basename(fn)!r}, expected {c['fname']!r}"))
    elif not os.path.exists(fn):
        out.append(("fname", f"ReturnedNameIsTheFile: save_to_file returned {os.path.basename(fn)!r} but no such file was written"))
    new = sorted(set(os.listdir(wd)) - before)
    if new != [os.path.basename(fn)]:  # ReturnedNameIsTheFile: exactly the returned name appeared
        out.append(("fname", f"ReturnedNameIsTheFile: save_to_file returned {os.path.basename(fn)!r} but the files that appeared are {new}"))
    cmp_results_fields(sr, S, "built", out, True)
    if out:
        return [("build" if sg not in ("fname",) and not sg.startswith("enc-") else sg, w) for sg, w in out]
    if c["json"]:
        cmp_tree(json.load(open(fn)), c["tree"], "file", out)
    try:
        o2 = SimulationResults.load_from_file(fn)
    except Exception as ex:
        out.append((dec_exc_sig(ex), f"load_from_file raised {type(ex).__name__}: {ex}"))
        return out
    eq_both(sr, o2, "load_from_file(save_to_file(x)) vs x", out, c["eqdef"])
    cmp_results_fields(o2, c["back"] if c["json"] else S, "loaded", out, not c["json"])
    try:
        fn2 = o2.save_to_file(tmpl)
        if fn2 != fn:
            out.append(("second:fname", f"saving the loaded object goes to {os.path.basename(fn2)!r} instead of {c['fname']!r}"))
        if c["json"]:
            tmp = []
            cmp_tree(json.load(open(fn2)), c["tree2"], "file2", tmp)
            out.extend(("second:" + sg, w) for sg, w in tmp)
        o3 = SimulationResults.load_from_file(fn2)
    except Exception as ex:
        out.append(("second:raise", f"second file round trip raised {type(ex).__name__}: {ex}"))
        return out
    eq_both(sr, o3, "second file round trip vs x", out, c["eqdef"])
    cmp_results_fields(o3, c["back"] if c["json"] else S, "loaded twice", out, not c["json"])
    if not c["json"]:
        # what was unpickled writes the same JSON as the original
        try:
            cmp_tree(json.loads(o3.to_json()), c["tree"], "json-of-unpickled", out)
        except Exception as ex:
            out.append((enc_exc_sig(ex), f"to_json of the unpickled object raised {type(ex).__name__}: {ex}"))
    if sorted(set(os.listdir(wd)) - before) != [os.path.basename(fn)]:
        out.append(("fname", f"ReturnedNameIsTheFile: after the second save the directory holds {sorted(os.listdir(wd))}"))
    n0 = len(out)
    perturb(o3)
    cmp_results_fields(o2, c["back"] if c["json"] else S, "EarlierResultsUnchanged: first loaded object after the second round trip",
                       out, not c["json"])
    out[n0:] = [("frame", w) for _, w in out[n0:]]
    # --- as a string, twice
    json_cycle(sr, SimulationResults, c, out, lambda o, w: cmp_results_fields(o, c["back"], w, out, False))
    # --- RejectedSaveChangesNothing: saves that raise leave the object and the directory alone
    listing = sorted(os.listdir(wd))
    for bad in (os.path.join(wd, "no_such_dir", c["template"]), os.path.join(wd, "bad_{num}.txt")):
        try:
            sr.save_to_file(bad)
        except Exception:
            tmp = []
            cmp_results_fields(sr, S, f"RejectedSaveChangesNothing ({os.path.basename(bad)})", tmp, True, with_orig=False)
            out.extend(("frame", w) for _, w in tmp)
            if sorted(os.listdir(wd)) != listing:
                out.append(("frame", f"RejectedSaveChangesNothing: a failed save left {sorted(set(os.listdir(wd)) - set(listing))}"))
    # --- QueryIsPure / ArgumentsUnchanged after everything
    tmp = []
    cmp_results_fields(sr, S, "QueryIsPure: the saved object after all calls", tmp, True, with_orig=False)
    out.extend(("frame", w) for _, w in tmp)
    check_args(keep, out)
    return out


def run_fname_case(c, wd):
    from pyphysim.simulations.parameters import SimulationParameters
    from pyphysim.simulations.results import SimulationResults
    out = []
    names = []
    for v, exp in ((c["v1"], c["n1"]), (c["v2"], c["n2"])):
        sr = SimulationResults()
        sr.set_parameters(SimulationParameters.create({"num": to_py(v)}))
        got = sr.get_filename_with_replaced_params(c["template"])
        again = sr.get_filename_with_replaced_params(c["template"])
        names.append(got)
        if got != exp or again != got:
            out.append(("fname", f"file name for {v['t']} {v['n']}/{v['d']} {v['s']!r} is {got!r}, expected {exp!r}"))
    if (c["n1"] != c["n2"]) != (names[0] != names[1]):
        out.append(("fname", f"names {names} : distinctness differs from the model ({c['n1']!r}, {c['n2']!r})"))
    if c["n1"] != c["n2"] and sum(c["id"]) % 3 == 0:  # end to end (a third of the pairs; every fine group does it too)
        objs = [tagged_results(SimulationParameters.create({"num": to_py(v)}), i) for i, v in enumerate((c["v1"], c["v2"]))]
        save_all_load_back(objs, os.path.join(wd, "e2e", c["template"]), out, "pair through one template")
    return out


def run_fields_case(c, wd):
    """SimulationResults as a string only (never saved): every combination of the scalar-field pools"""
    from pyphysim.simulations.results import SimulationResults
    out = []
    S = c["S"]
    keep = []
    pobj = make_params(S["params"], S["params"]["index"], out, keep)
    if pobj is None:
        return out
    sr = SimulationResults()
    sr.set_parameters(pobj)
    for grp in c["rd"]:
        for R in grp["rs"]:
            sr.append_result(build_result(R, keep))
    sr.runned_reps = to_py(S["runned"])
    sr.current_rep = S["current"]
    sr.original_filename = to_py(S["orig"])
    cmp_results_fields(sr, S, "built", out, True)
    if out:
        return [("build", w) for _, w in out]
    json_cycle(sr, SimulationResults, c, out, lambda o, w: cmp_results_fields(o, c["back"], w, out, False))
    try:
        o2 = pickle.loads(pickle.dumps(sr, protocol=2))
        o3 = pickle.loads(pickle.dumps(o2, protocol=2))
    except Exception as ex:
        out.append(("pickle", f"pickling raised {type(ex).__name__}: {ex}"))
        return out
    for o, w in ((o2, "unpickled"), (o3, "unpickled twice")):
        eq_both(sr, o, w + " vs x", out, c["eqdef"])
        tmp = []
        cmp_results_fields(o, S, w, tmp, True)
        out.extend(("pickle:" + sg, x) for sg, x in tmp)
    perturb(o3)
    tmp = []
    cmp_results_fields(sr, S, "QueryIsPure: the saved object after all calls", tmp, True)
    out.extend(("frame", w) for _, w in tmp)
    check_args(keep, out)
    return out


def run_savehist_case(c, wd):
    """A multi-step history on ONE SimulationResults object: after every step the directory must hold exactly the
    files the model holds, each loading back as the object that was saved into it last; every save must return the
    name the template has for the parameters as they are at that moment."""
    from pyphysim.simulations.results import SimulationResults
    out = []
    c = subst_dir(c, wd)
    S0 = c["S0"]
    sr = SimulationResults()
    sr.set_parameters(build_params(S0["params"]))
    for grp in c["rd0"]:
        for R in grp["rs"]:
            sr.append_result(build_result(R))
    sr.runned_reps = to_py(S0["runned"])
    sr.current_rep = S0["current"]
    snaps = {}  # file name -> deep copy of the object at the moment it was saved there
    last = None
    for k, (o, st, files) in enumerate(zip(c["ops"], c["steps"], c["files"]), 1):
        what = f"step {k} ({o['op']})"
        try:
            if o["op"] == "save":
                fn = sr.save_to_file(os.path.join(wd, st["template"]))
                last = fn
                snaps[os.path.basename(fn)] = copy.deepcopy(sr)
                if os.path.basename(fn) != st["name"]:
                    out.append(("fname", f"{what}: SaveNameIsCurrent: save_to_file({st['template']!r}) returned "
                                         f"{os.path.basename(fn)!r}, the parameters now give {st['name']!r}"))
            elif o["op"] == "add":
                sr.params.add(o["name"], to_py(o["val"]))
            elif o["op"] == "setitem":
                sr.params[o["name"]] = to_py(o["val"])
            elif o["op"] == "setparams":
                sr.set_parameters(build_params(o["P"]))
            elif o["op"] == "upd":
                for name in sr.get_result_names():
                    sr[name][-1].update(to_py(o["val"]))
            elif o["op"] == "cur":
                sr.current_rep = o["val"]["n"]
            elif o["op"] == "mergeall":
                sr.merge_all_results(copy.deepcopy(sr))
            elif o["op"] == "reload":
                sr = SimulationResults.load_from_file(last)
        except Exception as ex:
            out.append(("raise", f"{what}: raised {type(ex).__name__}: {ex}"))
            return out
        # DirectoryIsWhatWasSaved
        there = sorted(os.listdir(wd))
        want = sorted(f["name"] for f in files)
        if there != want:
            out.append(("fname", f"{what}: the directory holds {there}, the history saved {want}"))
            return out
        for f in files:
            try:
                l = SimulationResults.load_from_file(os.path.join(wd, f["name"]))
            except Exception as ex:
                out.append((dec_exc_sig(ex), f"{what}: loading {f['name']!r} raised {type(ex).__name__}: {ex}"))
                continue
            tmp = []
            cmp_results_fields(l, f["S"], f"{what}: file {f['name']!r}", tmp, not f["json"])
            snap = snaps.get(f["name"])
            if snap is not None and not tmp:
                eq_both(snap, l, f"{what}: file {f['name']!r} vs the object saved into it", tmp)
            out.extend(tmp)
        if out:
            return out
    return out


def tagged_results(params_obj, i):
    """a SimulationResults whose content identifies variation i"""
    from pyphysim.simulations.results import Result, SimulationResults
    sr = SimulationResults()
    sr.set_parameters(params_obj)
    sr.add_result(Result.create("ber", Result.RATIOTYPE, i + 1, 128))
    sr.current_rep = 10 * (i + 1)
    return sr


def save_all_load_back(objs, tmpl, out, what):
    """Save every object through ONE template, then load every file and compare it with what was saved into it
    (the relations NameDeterministic, NamesPairwiseDistinct, EachVariationLoadsBackItsOwn)."""
    from pyphysim.simulations.results import SimulationResults
    os.makedirs(os.path.dirname(tmpl), exist_ok=True)
    names = []
    for o in objs:
        full = tmpl if os.path.splitext(tmpl)[-1] else tmpl + ".pickle"
        n1, n2 = o.get_filename_with_replaced_params(full), o.get_filename_with_replaced_params(full)
        try:
            fn = o.save_to_file(tmpl)
        except Exception as ex:
            out.append((enc_exc_sig(ex), f"{what}: save_to_file raised {type(ex).__name__}: {ex}"))
            return
        if n1 != n2 or fn != n1:
            out.append(("fname", f"{what}: the file name is not a function of the values: {n1!r}, {n2!r}, saved to {fn!r}"))
        names.append(fn)
    there = sorted(os.listdir(os.path.dirname(tmpl)))
    if there != sorted({os.path.basename(n) for n in names}):
        out.append(("fname", f"{what}: ReturnedNameIsTheFile: returned {[os.path.basename(n) for n in names]}, directory holds {there}"))
    if len(set(names)) != len(names):
        out.append(("fname", f"{what}: distinct values got the same file name: "
                             f"{[os.path.basename(n) for n in names]} for {[o.params['num'] for o in objs]!r}"))
    for i, (o, fn) in enumerate(zip(objs, names)):
        try:
            l = SimulationResults.load_from_file(fn)
        except Exception as ex:
            out.append((dec_exc_sig(ex), f"{what}: loading {os.path.basename(fn)!r} raised {type(ex).__name__}: {ex}"))
            continue
        same = (l == o) and (o == l) and l.current_rep == o.current_rep and l.params.unpack_index == o.params.unpack_index \
            and l["ber"][0].get_result() == o["ber"][0].get_result() \
            and l.params["num"] == o.params["num"]
        if not same:
            out.append(("fname", f"{what}: file {os.path.basename(fn)!r} was written for value {o.params['num']!r} "
                                 f"(current_rep {o.current_rep}) but holds value {l.params['num']!r} (current_rep {l.current_rep})"))


def fine_values(g):
    """members of a fine group: (n/d) * 10^b10 + k * 2^e2 * 10^e10, exact, then one correctly rounded conversion"""
    from fractions import Fraction as F
    vals = []
    for k in g["ks"]:
        x = F(g["n"], g["d"]) * F(10) ** g["b10"] * F(2) ** g.get("b2", 0) + k * F(2) ** g["e2"] * F(10) ** g["e10"]
        t = g["t"]
        if t in INT_T:
            if x.denominator != 1:
                raise ValueError("fine integer group with a non-integral member")
            vals.append(int(x) if t == "PyInt" else NPTYPES[t](int(x)))
        else:
            vals.append(float(x) if t == "PyFloat" else NPTYPES[t](float(x)))
    return vals


def run_fine_case(c, wd):
    from pyphysim.simulations.parameters import SimulationParameters
    g = c["group"]
    vals = fine_values(g)
    if len({repr(v) for v in vals}) != len(vals) or any(a == b for i, a in enumerate(vals) for b in vals[i + 1:]):
        return [("harness", f"premise of the fine group {g} fails: members are not different machine numbers: {vals!r}")]
    out = []
    dt = {"PyFloat": "float64", "NpFloat64": "float64", "NpFloat32": "float32", "NpFloat16": "float16",
          "PyInt": "int64", "NpInt64": "int64"}[g["t"]]
    for ext in (".json", ".pickle", ""):
        objs = [tagged_results(SimulationParameters.create({"num": v, "tag": "t"}), i) for i, v in enumerate(vals)]
        save_all_load_back(objs, os.path.join(wd, "a" + ext.strip("."), c["template"] + ext), out,
                           f"separate objects, {ext or 'no extension'}")
        parent = SimulationParameters.create({"num": np.array(vals, dtype=dt), "tag": "t"})
        parent.set_unpack_parameter("num")
        kids = parent.get_unpacked_params_list()
        if len(kids) != len(vals):
            out.append(("child", f"{len(kids)} variations for {len(vals)} values"))
            continue
        save_all_load_back([tagged_results(k, i) for i, k in enumerate(kids)],
                           os.path.join(wd, "b" + ext.strip("."), c["template"] + ext), out,
                           f"unpacked variations, {ext or 'no extension'}")
    return out


def _norm_sets(p):
    if isinstance(p, dict):
        if "_is_set" in p and isinstance(p.get("data"), list):
            return {"_is_set": True, "data": sorted((repr(x) for x in p["data"]))}
        return {k: _norm_sets(v) for k, v in p.items()}
    if isinstance(p, list):
        return [_norm_sets(x) for x in p]
    return p


def _same_number(a, b, is_int):
    """bit-for-bit the same value, and the same int / float kind"""
    ka = isinstance(a, (int, np.integer)) and not isinstance(a, (bool, np.bool_))
    if ka != is_int or (not is_int and not isinstance(a, (float, np.floating))):
        return False
    return int(a) == int(b) if is_int else (float(a) == float(b) and math.copysign(1, float(a)) == math.copysign(1, float(b)))


def run_limit_case(c, wd):
    """values at the limits of a width (rel): scalar parameter, list, set and array members, JSON twice and pickle"""
    from pyphysim.simulations.parameters import SimulationParameters
    g = c["group"]
    vals = fine_values(g)
    is_int = g["t"] in INT_T
    if any(a == b for i, a in enumerate(vals) for b in vals[i + 1:]):
        return [("harness", f"premise of the limit group {g} fails: members are not different machine numbers: {vals!r}")]
    out = []
    d = {"x": vals[-1], "l": list(vals), "s": set(vals)}
    dt = None if g["t"] == "PyInt" and any(abs(v) >= 2 ** 63 for v in vals) else \
        ("int64" if g["t"] == "PyInt" else "float64" if g["t"] == "PyFloat" else str(np.dtype(NPTYPES[g["t"]])))
    if dt:
        d["a"] = np.array(vals, dtype=dt)
    obj = SimulationParameters.create(d)

    def compare(o, where, exact):
        if not _same_number(o["x"], vals[-1], is_int):
            out.append(("value", f"{where}: RoundTripExact/KindPreserved: x = {o['x']!r}, saved {vals[-1]!r}"))
        if type(o["l"]) is not list or len(o["l"]) != len(vals) or not all(_same_number(a, b, is_int) for a, b in zip(o["l"], vals)):
            out.append(("value", f"{where}: RoundTripExact: list {o['l']!r}, saved {vals!r}"))
        if type(o["s"]) is not set or o["s"] != set(vals) or not all(_same_number(a, a, is_int) for a in o["s"]):
            out.append(("value", f"{where}: RoundTripExact: set {o['s']!r}, saved {set(vals)!r}"))
        if dt and not (isinstance(o["a"], np.ndarray) and str(o["a"].dtype) == dt and o["a"].shape == (len(vals),)
                       and all(_same_number(a, b, is_int) for a, b in zip(o["a"].tolist(), np.array(vals, dtype=dt).tolist()))):
            out.append(("value", f"{where}: RoundTripExact: array {o['a']!r}, saved {vals!r} as {dt}"))
        if exact and type(o["x"]) is not type(vals[-1]):
            out.append(("type", f"{where}: PickleExact: type {type(o['x']).__name__}, saved {type(vals[-1]).__name__}"))
    try:
        s1 = obj.to_json()
        o2 = SimulationParameters.from_json(s1)
        s2 = o2.to_json()
        o3 = SimulationParameters.from_json(s2)
    except Exception as ex:
        return [("raise", f"JSON round trip of {vals!r} raised {type(ex).__name__}: {ex}")]
    compare(o2, "reloaded", False)
    compare(o3, "reloaded twice", False)
    if _norm_sets(json.loads(s1)) != _norm_sets(json.loads(s2)):
        out.append(("second:tree", f"TextIdempotent: second to_json differs: {s2[:200]} vs {s1[:200]}"))
    try:
        f1 = os.path.join(wd, "lim.pickle")
        obj.save_to_pickled_file(f1)
        o4 = SimulationParameters.load_from_pickled_file(f1)
    except Exception as ex:
        return out + [("pickle", f"pickle round trip raised {type(ex).__name__}: {ex}")]
    compare(o4, "unpickled", True)
    compare(obj, "QueryIsPure: the saved object after all calls", True)
    return out


RUNNERS = {"unphist": run_params_case, "limit": run_limit_case, "savehist": run_savehist_case, "fields": run_fields_case, "fine": run_fine_case, "value": run_params_case, "params": run_params_case, "result": run_result_case,
           "results": run_results_case, "fname": run_fname_case}

# signature of a mismatch -> finding it may belong to (it must also be in the case's `rel` set,
# the argument class TLC computed, except for the np.int finding that belongs to C06)
SIG2FINDING = {
    "enc-typeerror": "NarrowScalarRaises",
    "enc-typeerror-bool": "NpBoolRaises",
    "fname-raise": "FileNameFailsForNonVectorArray",
    "tree-f2i": "Float32EncodedAsInt",
    "dec-zerodiv": "RatioZeroUpdatesRaises",
    "vlist-order": "ChoiceAccumOrderLost",
    "dtype": "ArrayDtypeLost", "second:tree-dtype": "ArrayDtypeLost",
    "shape": "EmptyArrayShapeLost", "second:tree-shape": "EmptyArrayShapeLost",
    "tree-missing:current_rep": "CurrentRepNotSerialized", "current": "CurrentRepNotSerialized",
    "second:tree-missing:current_rep": "CurrentRepNotSerialized",
    "npint": "ChoiceUpdateRaises",
}
DERIVED = {"eq", "value", "kind", "tree", "tree-kind"}  # consequences of a primary deviation (and every "second:" one)


def derived(sg):
    return sg in DERIVED or sg.startswith("second:")


_CODEPOINT = re.compile(r"@u\{([0-9a-f]+)\}@")


def subst_chars(node):
    """@u{hex}@ in any text of a case stands for that code point (non-ASCII, astral, lone surrogates): the model treats
    text as opaque data, the real characters are put in here"""
    if isinstance(node, dict):
        return {k: subst_chars(v) for k, v in node.items()}
    if isinstance(node, list):
        return [subst_chars(v) for v in node]
    if isinstance(node, str) and "@u{" in node:
        return _CODEPOINT.sub(lambda m: chr(int(m.group(1), 16)), node)
    return node


def exec_case(c):
    c = subst_chars(c)
    wd = os.path.join(WORKBASE, f"{os.getpid()}-{uuid.uuid4().hex[:8]}")
    os.makedirs(wd)
    try:
        return RUNNERS[c["kind"]](c, wd)
    except OSError as ex:  # the scratch directory failing is a machinery failure
        return [("harness", f"unexpected {type(ex).__name__}: {ex}")]
    except Exception as ex:  # the library raising where no check expected it is a mismatch of this case
        import traceback
        return [("raise", f"unexpected {type(ex).__name__}: {ex} | {traceback.format_exc()[-400:]}")]
    finally:
        shutil.rmtree(wd, ignore_errors=True)


def judge(ctx, c, mism):
    """no mismatch -> ok; mismatches explained by listed deviations relevant to this case -> findings;
    anything else -> violation"""
    key = (c["kind"],) + tuple(c["id"])
    ctx.trace_done()
    if not mism:
        ctx.ok(key)
        return
    rel = set(c.get("rel", []))
    primary = set()
    def cand(sg):
        f = SIG2FINDING.get(sg, ())
        f = (f,) if isinstance(f, str) else f
        return [x for x in f if x in rel or x == "ChoiceUpdateRaises"]
    for sg, _ in mism:
        primary.update(cand(sg)[:1])
    unexplained = [(sg, w) for sg, w in mism
                   if not (set(cand(sg)) & primary or (primary and derived(sg)))]
    if any(sg == "harness" for sg, _ in mism):
        raise tlc.TlcError(f"harness exception in case {key}: {[w for s, w in mism if s == 'harness'][0]}")
    small = {k: v for k, v in c.items() if k not in ("tree2",)}
    if unexplained or not primary:
        sg, w = (unexplained or mism)[0]
        ctx.violation(f"{c['kind']} case {list(c['id'])}: {w}" + (f" (+{len(mism) - 1} more)" if len(mism) > 1 else ""),
                      {"case": c, "mismatches": mism[:20]})
    else:
        for f in sorted(primary):
            w = [x for s, x in mism if f in cand(s)][0]
            ctx.finding(f, f"{c['kind']} case {list(c['id'])}: {w}", {"case": c, "mismatches": mism[:20]})


def parts_for(family, tier):
    if tier == "thorough":
        return {"value": 8, "params": 4, "result": 4, "results": 12, "fields": 2, "savehist": 6, "fname": 2}[family]
    return {"value": 1, "params": 1, "result": 1, "results": 2, "fields": 1, "savehist": 1, "fname": 1}[family]


def run(ctx):
    tier = ctx.tier
    ctx.rule = ("one evaluation = one TLC-enumerated object (value in a parameters object, parameters object with marks / "
                "unpacked child, Result history, SimulationResults x template x extension, pair of scalars in a file "
                "name) built for real and carried twice through every save/load route; distinct = case identities")
    ctx.assumptions += [
        "json.loads (no hooks) is trusted to parse the library's JSON text; exact rationals become floats by one division",
        "floats are compared exactly when the quotient is representable, else with relative tolerance 1e-12 (JSON) / 1e-9 (statistics)",
        "the numpy scalar width is not demanded back from JSON (np.int32(3) may return as int 3): int/float kind, value, container kind, array dtype and shape are",
        "object key order inside JSON objects is not compared (children list the regular parameters in set order)",
        "PYTHONHASHSEED is fixed by ./check; set element order is compared as a multiset",
        "pickle is the identity at model level; the real pickle files are checked with exact scalar types",
    ]
    global WORKBASE
    WORKBASE = os.path.join(tlc.WORK, f"c17-files-{os.getpid()}-{uuid.uuid4().hex[:6]}")  # inherited by the forked pool
    os.makedirs(WORKBASE, exist_ok=True)
    jobs = [(fam, p, parts_for(fam, tier)) for fam in FAMILIES for p in range(parts_for(fam, tier))]

    def emit_run(job):
        fam, p, n = job
        cfg, defs = model(fam, tier, p, n)
        return tlc.run(MODULE, cfg, defs=defs, workers=1, timeout=3600, env=JVM_ENV)

    # Per-action coverage: every emitted case names its action (kind <-> action is one to one), so the firing counts
    # are taken from the emission itself.  TLC's -coverage instrumentation is not used: on this module it is 4x
    # slower on the emission runs and runs out of memory even on a thin slice once the pools grew.
    def dev_run(item):
        flag, (fam, law), is_dev = item
        cfg, defs = model(fam, tier if fam != "value" else "quick", dev=[flag] if is_dev else (),
                          hyp=() if is_dev else [flag], emit=False, laws=[law])
        return flag, law, tlc.run(MODULE, cfg, defs=defs, timeout=3600, env=JVM_ENV)

    # stage T: record the real code on seeded random inputs now, let TLC validate them next to the other runs
    from . import c17_trace
    recorded = c17_trace.record(ctx)
    nskip = sum(1 for e in recorded if e.get("kind") == "skip-npint")
    events = [e for e in recorded if e.get("kind") != "skip-npint"]
    devitems = [(f, e, True) for f, e in DEV_EXPECT.items()] + [(f, e, False) for f, e in HYP_EXPECT.items()]
    try:
        with ThreadPoolExecutor(int(os.environ.get("VERIF_PROCS", "0") or 0) or 12) as ex:  # the engine caps JVMs machine-wide
            efut = [ex.submit(emit_run, j) for j in jobs]
            dfut = [ex.submit(dev_run, it) for it in devitems]
            tfut = ex.submit(c17_trace.validate, events)
            eruns = [f.result() for f in efut]
            druns = [f.result() for f in dfut]
            tres = tfut.result()
        cases = []
        seen = set()
        for job, r in zip(jobs, eruns):
            ctx.account(r, MODULE, f"{job[0]} part {job[1]}/{job[2]}")
            for c in r.emitted:  # TLC may print a transition twice; identical lines are one case
                k = json.dumps(c, sort_keys=True)
                if k not in seen:
                    seen.add(k)
                    cases.append(c)
        ids = [(c["kind"],) + tuple(c["id"]) for c in cases]
        if len(set(ids)) != len(ids):
            raise tlc.TlcError("two different emitted cases share an identity")
        acts = {"value": "ValueCase", "params": "ParamsCase", "result": "ResultCase", "results": "ResultsCase",
                "fields": "FieldsCase", "savehist": "SaveHistCase", "fname": "FileNameCase", "fine": "FineCase", "limit": "LimitCase", "unphist": "UnpHistCase"}
        for c in cases:  # every emitted case is one firing of its action
            ctx.actions[acts[c["kind"]]] = ctx.actions.get(acts[c["kind"]], 0) + 1
        ctx.require_actions(["ValueCase", "ParamsCase", "ResultCase", "ResultsCase", "FieldsCase", "SaveHistCase", "FileNameCase", "FineCase", "LimitCase", "UnpHistCase"])
        for flag, law, r in druns:
            if r.violated != law:
                raise tlc.TlcError(f"flag {flag}: TLC was expected to refute {law}, it reported {r.violated}")
            ctx.notes.setdefault("deviations_refuted_by_model", {})[flag] = law
            ctx.states += r.distinct
            ctx.transitions += r.generated
        # big cases first so that the pool is balanced; deterministic order
        order = sorted(range(len(cases)), key=lambda i: (-len(cases[i].get("tree", {}).get("keys", [])), i))
        cases = [cases[i] for i in order]
        res = pool_map(exec_case, cases, chunksize=max(1, len(cases) // 128))
        per = {}
        for c, mism in zip(cases, res):
            judge(ctx, c, mism)
            per[c["kind"]] = per.get(c["kind"], 0) + 1
        ctx.notes["cases_per_family"] = per
        c17_trace.report(ctx, events, *tres)
        c17_trace.negative_control(ctx, events, tres[1])  # one corrupted logged value must be rejected by TLC
        for _ in range(nskip):
            ctx.finding("ChoiceUpdateRaises", "recording a CHOICETYPE history: Result.update raised AttributeError (np.int)", None)
        for kind in FAMILIES:
            ex1 = next((c for c in cases if c["kind"] == kind), None)
            if ex1:
                ctx.sample({"kind": kind, "id": ex1["id"], "input": ex1.get("P") or ex1.get("rd") or [ex1.get("v1"), ex1.get("v2")],
                            "expected": {k: ex1[k] for k in ("fname", "n1", "n2", "rel") if k in ex1}}, limit=5)
        ctx.exhaustive = True  # the finite pools of the tier are enumerated completely
    finally:
        shutil.rmtree(WORKBASE, ignore_errors=True)


def replay(ctx, data):
    global WORKBASE
    WORKBASE = os.path.join(tlc.WORK, f"c17-files-{os.getpid()}-{uuid.uuid4().hex[:6]}")
    os.makedirs(WORKBASE, exist_ok=True)
    try:
        if "trace_event" in data["case"]:
            from . import c17_trace
            c17_trace.replay(ctx, data["case"])
            return
        c = data["case"]["case"]
        judge(ctx, c, exec_case(c))
    finally:
        shutil.rmtree(WORKBASE, ignore_errors=True)
