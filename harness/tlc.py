"""Run TLC on a specification of /verif/spec and parse what it printed.

Nothing here knows about pyphysim.  A run is described by the module file, a cfg text
(generated: literal constants, INVARIANT lines ...), and options; the result carries TLC's
statistics, the lines emitted by `Emit!EmitEdge/EmitCase`, per-action coverage and the
violated invariant (if any) with its counterexample text.
"""
import json
import os
import re
import shutil
import subprocess
import tempfile
import time
import uuid

ROOT = os.path.dirname(os.path.dirname(os.path.abspath(__file__)))
SPEC = os.path.join(ROOT, "spec")
WORK = os.path.join(ROOT, ".work")
JAR = "/opt/veriftools/tla/tla2tools.jar"
DEPS = "/opt/veriftools/tla/CommunityModules-deps.jar"


class TlcError(Exception):
    """Machinery failure (parse error, overflow, TLC crash) - exit code 2, never a verdict."""


class TlcResult:
    def __init__(self):
        self.generated = 0
        self.distinct = 0
        self.depth = 0
        self.violated = None  # name of violated invariant/property
        self.trace_text = ""
        self.emitted = []  # parsed JSON objects printed by Emit
        self.coverage = {}  # action -> count
        self.out = ""
        self.wall = 0.0
        self.exit = 0
        self.deadlock = False

    def __repr__(self):
        return (f"<TLC gen={self.generated} distinct={self.distinct} depth={self.depth} "
                f"violated={self.violated} emitted={len(self.emitted)} wall={self.wall:.1f}s>")


_EMIT_RE = re.compile(r'<<\s*"(VEDGE|VCASE)",\s*"((?:[^"\\]|\\.)*)"\s*>>', re.S)


def _unescape(s):
    return s.replace('\\"', '"').replace("\\\\", "\\")


def parse_emitted(out):
    res = []
    for m in _EMIT_RE.finditer(out):
        try:
            res.append(json.loads(_unescape(m.group(2))))
        except json.JSONDecodeError as e:  # pragma: no cover
            raise TlcError(f"unparsable emitted line: {m.group(0)[:200]} ({e})")
    return res


def cfg_text(constants=None, defs=None, spec=None, init="Init", next_="Next", invariants=(), properties=(),
             constraints=(), action_constraints=(), view=None, postcondition=None,
             check_deadlock=False, symmetry=None):
    """Render a TLC configuration.  constants: dict name -> TLA+ literal text."""
    lines = []
    if spec:
        lines.append(f"SPECIFICATION {spec}")
    else:
        lines.append(f"INIT {init}")
        lines.append(f"NEXT {next_}")
    if constants or defs:
        lines.append("CONSTANTS")
        for k, v in (constants or {}).items():
            lines.append(f"  {k} = {v}")
        for k in (defs or {}):
            lines.append(f"  {k} <- def_{k}")
    for i in invariants:
        lines.append(f"INVARIANT {i}")
    for p in properties:
        lines.append(f"PROPERTY {p}")
    for c in constraints:
        lines.append(f"CONSTRAINT {c}")
    for c in action_constraints:
        lines.append(f"ACTION_CONSTRAINT {c}")
    if view:
        lines.append(f"VIEW {view}")
    if postcondition:
        lines.append(f"POSTCONDITION {postcondition}")
    lines.append(f"CHECK_DEADLOCK {'TRUE' if check_deadlock else 'FALSE'}")
    return "\n".join(lines) + "\n"


def tla(v):
    """Python value -> TLA+ literal text (ints, bools, strings, lists->tuples, sets, dicts->records)."""
    if isinstance(v, bool):
        return "TRUE" if v else "FALSE"
    if isinstance(v, int):
        return str(v)
    if isinstance(v, str):
        return '"' + v.replace("\\", "\\\\").replace('"', '\\"') + '"'
    if isinstance(v, (list, tuple)):
        return "<<" + ", ".join(tla(x) for x in v) + ">>"
    if isinstance(v, (set, frozenset)):
        return "{" + ", ".join(sorted(tla(x) for x in v)) + "}"
    if isinstance(v, dict):
        if not v:
            return "<<>>"
        return "[" + ", ".join(f"{k} |-> {tla(x)}" for k, x in v.items()) + "]"
    raise TypeError(f"no TLA+ literal for {type(v)}")


class _Slot:
    """Machine-wide limit on concurrently running TLC JVMs (several checks / builders share the
    sandbox): one of VERIF_TLC_SLOTS lock files is held for the duration of a run."""

    def __enter__(self):
        import fcntl
        n = int(os.environ.get("VERIF_TLC_SLOTS", "12"))
        d = os.path.join(WORK, "slots")
        os.makedirs(d, exist_ok=True)
        self.f = None
        while self.f is None:
            for i in range(n):
                f = open(os.path.join(d, f"slot{i}"), "w")
                try:
                    fcntl.flock(f, fcntl.LOCK_EX | fcntl.LOCK_NB)
                    self.f = f
                    break
                except OSError:
                    f.close()
            if self.f is None:
                time.sleep(0.2)
        return self

    def __exit__(self, *a):
        self.f.close()


def run(module_path, cfg, defs=None, workers=1, coverage=False, env=None, timeout=3600, heap="2g",
        simulate=None, depth=None, seed=None, keep=False, continue_=False, extra=()):
    """Run TLC.  module_path relative to /verif/spec.  Returns TlcResult.

    Raises TlcError on machinery failures.  An invariant violation is a *result*."""
    os.makedirs(WORK, exist_ok=True)
    wd = os.path.join(WORK, "tlc-" + uuid.uuid4().hex[:10])
    os.makedirs(wd)
    try:
        mod_abs = os.path.join(SPEC, module_path)
        mod_dir = os.path.dirname(mod_abs)
        cfg_path = os.path.join(wd, "run.cfg")
        with open(cfg_path, "w") as f:
            f.write(cfg)
        libs = [os.path.join(SPEC, "lib"), mod_dir]
        cmd = ["java", "-XX:+UseParallelGC", f"-XX:ParallelGCThreads={max(2, min(4, int(workers)))}", f"-Xmx{heap}", "-Xss64m",
               "-DTLA-Library=" + os.pathsep.join(libs),
               "-cp", JAR + os.pathsep + DEPS, "tlc2.TLC",
               "-config", cfg_path, "-workers", str(workers),
               "-metadir", os.path.join(wd, "states"), "-noGenerateSpecTE"]
        if coverage:
            cmd += ["-coverage", "1"]
        if continue_:
            cmd += ["-continue"]
        if simulate:
            cmd += ["-simulate", simulate]
        if depth is not None:
            cmd += ["-depth", str(depth)]
        if seed is not None:
            cmd += ["-seed", str(seed)]
        cmd += list(extra)
        if defs:
            # constants that a cfg file cannot express (records, tuples, rationals) are supplied as
            # definitions of a generated root module extending the specification
            base = os.path.splitext(os.path.basename(mod_abs))[0]
            root = os.path.join(wd, "MCrun.tla")
            with open(root, "w") as f:
                f.write("---- MODULE MCrun ----\nEXTENDS " + base + "\n")
                for k, v in defs.items():
                    f.write(f"def_{k} == {v}\n")
                f.write("====\n")
            cmd.append(root)
        else:
            cmd.append(mod_abs)
        e = dict(os.environ)
        e.pop("JAVA_TOOL_OPTIONS", None)
        if env:
            e.update({k: str(v) for k, v in env.items()})
        with _Slot():
            t0 = time.time()
            try:
                p = subprocess.run(cmd, cwd=wd, env=e, stdout=subprocess.PIPE, stderr=subprocess.STDOUT,
                                   timeout=timeout, text=True, errors="replace")
            except subprocess.TimeoutExpired:
                raise TlcError(f"TLC timed out after {timeout}s on {module_path}")
        r = TlcResult()
        r.wall = time.time() - t0
        r.out = p.stdout
        r.exit = p.returncode
        _parse(r, module_path)
        return r
    finally:
        if not keep:
            shutil.rmtree(wd, ignore_errors=True)


_STATS = re.compile(r"(\d+) states generated, (\d+) distinct states found")
_DEPTH = re.compile(r"The depth of the complete state graph search is (\d+)")
_INV = re.compile(r"Error: Invariant (\S+) is violated")
_PROP = re.compile(r"Error: (?:Action|Temporal) property (\S+) (?:is|was) violated")
_COV = re.compile(r"^<(\w+) line \d+, col \d+ to line \d+, col \d+ of module (\w+)>: (\d+):(\d+)", re.M)


def _parse(r, module_path):
    out = r.out
    for m in _STATS.finditer(out):
        r.generated, r.distinct = int(m.group(1)), int(m.group(2))
    m = _DEPTH.search(out)
    if m:
        r.depth = int(m.group(1))
    m = _INV.search(out) or _PROP.search(out)
    if m:
        r.violated = m.group(1).rstrip(".")
        i = out.find("Error: The behavior up to this point is")
        r.trace_text = out[i:i + 20000] if i >= 0 else ""
    if "Error: Action property" in out and not r.violated:
        r.violated = "ActionProperty"
    if "Deadlock reached" in out:
        r.deadlock = True
    for m in _COV.finditer(out):
        r.coverage[m.group(1)] = r.coverage.get(m.group(1), 0) + int(m.group(4))
    r.emitted = parse_emitted(out)
    bad = None
    if "Overflow when computing" in out:
        bad = "arithmetic overflow in TLC"
    elif "Parsing or semantic analysis failed" in out or "*** Errors:" in out or "Semantic error" in out:
        bad = "specification does not parse"
    elif r.exit not in (0, 12, 13, 11, 10) and not r.violated:
        bad = f"TLC exit status {r.exit}"
    elif r.exit != 0 and not r.violated and not r.deadlock:
        bad = f"TLC exit status {r.exit} without a violated property"
    if "Error: Evaluating" in out or "Error: The following" in out or "TLC threw an unexpected exception" in out:
        if not r.violated:
            bad = bad or "TLC evaluation error"
    if "Error: Assumption" in out:
        bad = "ASSUME violated"
    if bad:
        tail = "\n".join(l for l in out.splitlines() if not l.startswith('<<"V'))[-3000:]
        raise TlcError(f"{bad} in {module_path}:\n{tail}")


def sany(module_path):
    mod_abs = os.path.join(SPEC, module_path)
    libs = [os.path.join(SPEC, "lib"), os.path.dirname(mod_abs)]
    p = subprocess.run(["java", "-DTLA-Library=" + os.pathsep.join(libs), "-cp", JAR + os.pathsep + DEPS,
                        "tla2sany.SANY", mod_abs], stdout=subprocess.PIPE, stderr=subprocess.STDOUT, text=True)
    ok = p.returncode == 0 and "Semantic errors" not in p.stdout and "***Parse Error***" not in p.stdout \
        and "Fatal errors" not in p.stdout
    return ok, p.stdout
