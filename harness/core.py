"""Verdict bookkeeping shared by every property check: counts, violations, known findings,
evidence file, exit status (DESIGN.md section 4)."""
import json
import os
import sys
import time
import hashlib

from . import tlc

ROOT = tlc.ROOT
EVID = os.path.join(ROOT, "evidence")
REPLAYS = os.path.join(EVID, "replays")


def _json_default(o):
    import numpy as np
    from fractions import Fraction
    if isinstance(o, (np.integer,)):
        return int(o)
    if isinstance(o, (np.floating,)):
        return float(o)
    if isinstance(o, (complex, np.complexfloating)):
        return [float(o.real), float(o.imag)]
    if isinstance(o, np.ndarray):
        return o.tolist()
    if isinstance(o, Fraction):
        return [o.numerator, o.denominator]
    if isinstance(o, (set, frozenset)):
        return sorted(o, key=repr)
    if isinstance(o, bytes):
        return o.hex()
    return repr(o)


def load_findings():
    p = os.path.join(ROOT, "known_findings.json")
    res = json.load(open(p))["findings"] if os.path.exists(p) else []
    extra = os.environ.get("VERIF_EXTRA_FINDINGS")  # builders' test aid only; never set by registered commands
    if extra and os.path.exists(extra):
        res += json.load(open(extra))["findings"]
    return res


class Ctx:
    """One run of one property check."""

    def __init__(self, prop, tier="quick", seed=0):
        self.prop = prop
        self.tier = tier
        self.seed = seed
        self.t0 = time.time()
        self.states = 0
        self.transitions = 0
        self.evaluations = 0
        self.traces = 0
        self.distinct = set()
        self.samples = []
        self.actions = {}
        self.violations = []
        self.known_hits = {}
        self.assumptions = []
        self.notes = {}
        self.exhaustive = None
        self.rule = ""
        self.model_runs = []
        self.findings = {f["id"]: f for f in load_findings() if f["property"] == prop}
        self._max_report = 5

    # ---- TLC -----------------------------------------------------------------------
    def tlc(self, module, cfg, label=None, expect_violation=None, **kw):
        """Run TLC; account states/transitions.  With expect_violation=None an invariant
        violation of the *specification* is a machinery failure (the intended design must
        satisfy its properties); with a name, TLC must find exactly that violation."""
        r = tlc.run(module, cfg, **kw)
        return self.account(r, module, label, expect_violation)

    def account(self, r, module, label=None, expect_violation=None):
        self.states += r.distinct
        self.transitions += r.generated
        for a, n in r.coverage.items():
            self.actions[a] = self.actions.get(a, 0) + n
        self.model_runs.append({"module": module, "label": label or "", "generated": r.generated,
                                "distinct": r.distinct, "depth": r.depth, "violated": r.violated,
                                "wall_s": round(r.wall, 2)})
        if expect_violation == "any":          # trace specifications: a violated Conforms is a verdict about the code
            return r
        if expect_violation is None and r.violated:
            raise tlc.TlcError(f"specification {module} ({label}) violates its own property "
                               f"{r.violated}:\n{r.trace_text[:3000]}")
        if expect_violation is not None and r.violated != expect_violation:
            raise tlc.TlcError(f"as-is instance of {module} ({label}) was expected to violate "
                               f"{expect_violation}, TLC reported {r.violated}")
        return r

    def require_actions(self, names):
        missing = [n for n in names if self.actions.get(n, 0) == 0]
        if missing:
            raise tlc.TlcError(f"actions never fired in the model (vacuous check): {missing}")

    # ---- counting -------------------------------------------------------------------
    def ok(self, key=None, n=1):
        self.evaluations += n
        if key is not None:
            self.distinct.add(key if isinstance(key, (str, int, tuple)) else
                              hashlib.md5(json.dumps(key, sort_keys=True, default=_json_default).encode()).hexdigest())

    def trace_done(self, n=1):
        self.traces += n

    def sample(self, obj, limit=4):
        if len(self.samples) < limit:
            self.samples.append(obj)

    # ---- verdicts -------------------------------------------------------------------
    def violation(self, what, case):
        """A behaviour that conforms to neither the intended specification nor a listed finding."""
        self.violations.append({"what": what, "case": case})

    def finding(self, fid, what, case=None):
        """A mismatch that has the signature of finding `fid`.  Reported as KNOWN-FINDING only
        when the finding is listed as open in known_findings.json; otherwise it is a violation."""
        f = self.findings.get(fid)
        if f is not None and f.get("status") == "open":
            h = self.known_hits.setdefault(fid, {"what": f.get("what", what), "count": 0, "example": case})
            h["count"] += 1
        else:
            self.violation(f"[{fid}] {what}", case)

    def check(self, cond, what, case, fid=None):
        if cond:
            return True
        if fid:
            self.finding(fid, what, case)
        else:
            self.violation(what, case)
        return False

    # ---- finish ---------------------------------------------------------------------
    def finish(self):
        os.makedirs(REPLAYS, exist_ok=True)
        wall = time.time() - self.t0
        for fid, h in sorted(self.known_hits.items()):
            print(f"KNOWN-FINDING: property={self.prop} {fid}: {h['what']} ({h['count']} matching cases)")
        paths = []
        for i, v in enumerate(self.violations[: self._max_report]):
            path = os.path.join(REPLAYS, f"{self.prop}-{self.tier}-{i}.json")
            with open(path, "w") as f:
                json.dump({"property": self.prop, "what": v["what"], "case": v["case"], "seed": self.seed,
                           "tier": self.tier}, f, indent=1, default=_json_default)
            paths.append(path)
            print(f"VIOLATION property={self.prop} replay={path}")
            print(f"  detail: {v['what']}"[:600])
        if len(self.violations) > self._max_report:
            print(f"  ... {len(self.violations) - self._max_report} further violating cases not written out")
        cov = {
            "states": max(self.states, 0),
            "transitions": max(self.transitions, 0),
            # behaviours of the implementation compared with the specification: replayed paths / cases (R)
            # plus recorded traces validated by TLC (T); a check that only counts cases reports those
            "traces_validated_against_impl": self.traces if self.traces else self.evaluations,
            "samples": self.samples[:6] or ["(no sample recorded)"],
            "evaluations": self.evaluations,
            "distinct_nontrivial": len(self.distinct),
            "rule": self.rule,
            "exhaustive": bool(self.exhaustive),
            "actions": self.actions,
            "model_runs": self.model_runs,
            "known_findings_hit": {k: v["count"] for k, v in self.known_hits.items()},
        }
        cov.update(self.notes)
        ev = {"property_id": self.prop, "tier": self.tier, "seed": int(self.seed), "level": "model_checking",
              "coverage": cov, "assumptions": self.assumptions, "wall_s": round(wall, 2),
              "violations": len(self.violations)}
        os.makedirs(EVID, exist_ok=True)
        scratch = os.environ.get("VERIF_REPO") not in (None, "", "/repo")     # a run against a scratch copy (mutation tests)
        if scratch:
            os.makedirs(os.path.join(ROOT, ".work", "evidence-scratch"), exist_ok=True)
        if not getattr(self, "replay_mode", False):
            with open(os.path.join(ROOT, ".work", "evidence-scratch", f"{self.prop}.json") if scratch
                      else os.path.join(_evid_dir(self.prop), f"{self.prop}.json"), "w") as f:
                json.dump(ev, f, indent=1, default=_json_default)
        print(f"[{self.prop}] tier={self.tier} seed={self.seed} states={self.states} transitions={self.transitions} "
              f"evaluations={self.evaluations} traces={self.traces} violations={len(self.violations)} "
              f"known={sum(h['count'] for h in self.known_hits.values())} wall={wall:.1f}s")
        return 1 if self.violations else 0


def _evid_dir(prop):
    """checks of behaviour beyond the listed properties (ids X..) keep their evidence apart"""
    if prop.startswith("X"):
        os.makedirs(os.path.join(EVID, "extras"), exist_ok=True)
        return os.path.join(EVID, "extras")
    return EVID


def pool_map(fn, items, procs=None, chunksize=1):
    """Run fn over items in worker processes (fork), preserving order."""
    import multiprocessing as mp
    procs = procs or int(os.environ.get("VERIF_PROCS", "0") or 0) or min(16, os.cpu_count() or 1)
    if procs <= 1 or len(items) <= 1:
        return [fn(x) for x in items]
    ctx = mp.get_context("fork")
    with ctx.Pool(procs) as p:
        return p.map(fn, items, chunksize=chunksize)


def preload():
    """Import the library modules the watchdog-guarded replays call, BEFORE a processor-time watchdog is armed: on a freshly
    restored tree the byte-code caches are stale and PYTHONDONTWRITEBYTECODE keeps them so - compiling numpy / scipy / the
    library from source costs many seconds of processor time per process, which is not time spent in the call under test
    (`vp check` 12: three C06 paths of a few milliseconds were reported as "did not terminate within 15 s")."""
    import importlib
    for m in ("numpy", "scipy.linalg", "pyphysim.simulations.results", "pyphysim.simulations.parameters",
              "pyphysim.simulations.runner", "pyphysim.comm.blockdiagonalization", "pyphysim.channels.multiuser",
              "pyphysim.cell.cell", "pyphysim.cell.shapes", "pyphysim.util.misc", "pyphysim.util.conversion"):
        try:
            importlib.import_module(m)
        except Exception:      # noqa - a module that cannot be imported is reported by the replay that needs it
            pass
