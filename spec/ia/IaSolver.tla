------------------------------ MODULE IaSolver ------------------------------
(* C10 - IA solvers return valid, power-limited, aligned solutions; no stale derived quantities.

   The derived-quantity machine of pyphysim.ia.iabase.IASolverBaseClass (shared by all solvers):

     primary inputs   F (unit-norm precoders), P (powers), W / W_H (receive filters, whichever
                      was given), the channel H
     derived, cached  full_F    = F * sqrt(P)
                      W <-> W_H = Hermitian of the other
                      full_W_H  = (W_H H_kk full_F)^-1 W_H        (depends on W, H, F and P)
                      full_W    = full_W_H^H

   Every cache holds a SNAPSHOT: for each primary input whether the value it was computed from is
   still the current one ("cur") or has been replaced since ("old").  One action per public
   operation: Solve, RandomizeF, SetPrecoders(F | full_F [, P]), SetReceiveFilters(W | W_H),
   SetP (valid), SetPInvalid (rejected value: nothing may change), NewChannel, and the readers.

   NoStaleView : every reader returns a value computed from the CURRENT primary inputs.
   Required(s) : the predicates of the property that must hold in state s (evaluated numerically by
                 the replay on generic channels):  UnitNormF, PowerLeP / PowerEqP, OwnChannelIdentity,
                 NsMatchesShapes, and after Solve of the closed-form solver ClosedFormNulls.

   Deviation flags reproduce the resets the code was missing before it was repaired.          *)
EXTENDS Integers, Sequences, FiniteSets, TLC, Emit

CONSTANTS Alg,      \* "ClosedForm" | "AltMin" | "MinLeakage" | "MaxSINR" | "MMSE"
          Acts,     \* enabled action names
          Dev       \* [PSetterKeepsDerived, SetPrecodersKeepsFullW, InvalidPCommitted, SetFiltersKeepsFullW : BOOLEAN]

VARIABLES hasF, hasW, wGiven, pKind, solved, cFullF, cWconv, cFullWH, cFullW, ret, iterOK,
          fNs, wNs    \* streams per user of the current precoders / receive filters (they can be installed with another
                      \* stream count than the last solve used; Ns must follow the precoders)
\* iterOK: precoders and filters (and the solver's internal subspaces) come from one solve()/iteration of this object, at
\*         most the power was changed since: the state from which "one more iteration" is defined
vars == <<hasF, hasW, wGiven, pKind, solved, cFullF, cWconv, cFullWH, cFullW, ret, fNs, wNs, iterOK>>
NsSet == {1, 2}

\* snapshot: [f, p, w, h : "cur" | "old"]; a cache is NoneC or a snapshot
NoneC == [none |-> TRUE]
Fresh == [f |-> "cur", p |-> "cur", w |-> "cur", h |-> "cur"]
AgeIn(c, fld) == IF c = NoneC THEN c ELSE [c EXCEPT ![fld] = "old"]

Init == /\ hasF = FALSE /\ hasW = FALSE /\ wGiven = "none" /\ pKind = "default" /\ solved = FALSE
        /\ cFullF = NoneC /\ cWconv = NoneC /\ cFullWH = NoneC /\ cFullW = NoneC
        /\ ret = [op |-> "none", a |-> <<>>] /\ fNs = 1 /\ wNs = 1 /\ iterOK = FALSE

Step(op, a) == ret' = [op |-> op, a |-> a]

\* ---- mutators --------------------------------------------------------------------------
\* _clear_precoder_filter (as repaired: everything that depends on the precoder goes too)
ClearF(keepsFullW) == /\ cFullF' = NoneC
                      /\ cFullWH' = IF keepsFullW THEN AgeIn(cFullWH, "f") ELSE NoneC
                      /\ cFullW'  = IF keepsFullW THEN AgeIn(cFullW, "f") ELSE NoneC
ClearW == cWconv' = NoneC /\ cFullWH' = NoneC /\ cFullW' = NoneC

\* solve(Ns, P): new P, new F, new W; all derived caches are dropped along the way (an iterative solver
\* may leave full_F cached for the final F and P, which is observationally the same as recomputing it)
Solve(pk) ==
  /\ "Solve" \in Acts
  /\ hasF' = TRUE /\ hasW' = TRUE /\ pKind' = pk /\ solved' = TRUE
  /\ wGiven' = IF Alg = "AltMin" THEN "W_H" ELSE "W"
  /\ cFullF' = NoneC
  /\ cWconv' = NoneC /\ cFullWH' = NoneC /\ cFullW' = NoneC
  /\ fNs' = 1 /\ wNs' = 1 /\ iterOK' = TRUE
  /\ Step("Solve", <<pk>>)

\* one more iteration of an iterative solver, continued from its own precoders (initialize_with = 'fix',
\* max_iterations = 1) with the power in force.  For the alternating-minimization and minimum-leakage solvers with equal
\* powers the total leaked interference power after the iteration is at most the one before (LeakNonIncreasing).
IterStep ==
  /\ "IterStep" \in Acts /\ iterOK /\ Alg \in {"AltMin", "MinLeakage"} /\ pKind \in {"default", "scalar"}
  /\ hasF' = TRUE /\ hasW' = TRUE /\ solved' = TRUE /\ iterOK' = TRUE
  /\ wGiven' = IF Alg = "AltMin" THEN "W_H" ELSE "W"
  /\ cFullF' = NoneC /\ cWconv' = NoneC /\ cFullWH' = NoneC /\ cFullW' = NoneC
  /\ UNCHANGED <<pKind, fNs, wNs>>
  /\ Step("IterStep", <<>>)

\* clear(): the object forgets its solution and its power
Clear ==
  /\ "Clear" \in Acts
  /\ hasF' = FALSE /\ hasW' = FALSE /\ wGiven' = "none" /\ pKind' = "default" /\ solved' = FALSE /\ iterOK' = FALSE
  /\ cFullF' = NoneC /\ cWconv' = NoneC /\ cFullWH' = NoneC /\ cFullW' = NoneC /\ fNs' = 1 /\ wNs' = 1
  /\ Step("Clear", <<>>)

RandomizeF(pk) ==
  /\ "RandomizeF" \in Acts
  /\ hasF' = TRUE /\ pKind' = pk /\ solved' = FALSE
  /\ ClearF(Dev.SetPrecodersKeepsFullW) /\ UNCHANGED <<hasW, wGiven, cWconv, wNs>>
  /\ fNs' = 1 /\ iterOK' = FALSE
  /\ Step("RandomizeF", <<pk>>)

\* set_precoders(F=.. | full_F=.. | both [, P=..]);  how \in {"F", "fullF", "both"};  pk = "keep" leaves P as it is
SetPrecoders(how, pk, ns) ==
  /\ "SetPrecoders" \in Acts
  /\ fNs' = ns /\ UNCHANGED wNs
  /\ hasF' = TRUE /\ solved' = FALSE
  /\ pKind' = IF pk = "keep" THEN pKind ELSE pk
  /\ cFullWH' = IF Dev.SetPrecodersKeepsFullW THEN AgeIn(cFullWH, "f") ELSE NoneC
  /\ cFullW'  = IF Dev.SetPrecodersKeepsFullW THEN AgeIn(cFullW, "f") ELSE NoneC
  /\ cFullF' = IF how \in {"fullF", "both"} THEN Fresh ELSE NoneC          \* the given full_F is stored
  /\ iterOK' = FALSE
  /\ UNCHANGED <<hasW, wGiven, cWconv>>
  /\ Step("SetPrecoders", <<how, pk, ns>>)

\* set_receive_filters(W=.. | W_H=..)
SetFilters(which, ns) ==
  /\ "SetFilters" \in Acts
  /\ wNs' = ns /\ UNCHANGED fNs
  /\ hasW' = TRUE /\ wGiven' = which /\ solved' = FALSE
  /\ cWconv' = NoneC
  /\ cFullWH' = NoneC
  /\ cFullW' = IF Dev.SetFiltersKeepsFullW THEN AgeIn(cFullW, "w") ELSE NoneC
  /\ iterOK' = FALSE
  /\ UNCHANGED <<hasF, pKind, cFullF>>
  /\ Step("SetFilters", <<which, ns>>)

\* P = value (valid): everything derived from the power is dropped
SetP(pk) ==
  /\ "SetP" \in Acts /\ pk # "keep"
  /\ pKind' = pk /\ solved' = FALSE
  /\ IF Dev.PSetterKeepsDerived
       THEN /\ cFullF' = AgeIn(cFullF, "p") /\ cFullWH' = AgeIn(cFullWH, "p") /\ cFullW' = AgeIn(cFullW, "p")
       ELSE /\ cFullF' = NoneC /\ cFullWH' = NoneC /\ cFullW' = NoneC
  /\ UNCHANGED <<hasF, hasW, wGiven, cWconv, fNs, wNs, iterOK>>
  /\ Step("SetP", <<pk>>)

\* P = invalid value (negative entry, zero, wrong length): raises, the object is unchanged
SetPInvalid(kind) ==
  /\ "SetPInvalid" \in Acts
  /\ IF Dev.InvalidPCommitted /\ kind = "negvec"
       THEN /\ pKind' = "invalid" /\ cFullF' = AgeIn(cFullF, "p") /\ cFullWH' = AgeIn(cFullWH, "p") /\ cFullW' = AgeIn(cFullW, "p")
       ELSE UNCHANGED <<pKind, cFullF, cFullWH, cFullW>>
  /\ UNCHANGED <<hasF, hasW, wGiven, solved, cWconv, fNs, wNs, iterOK>>
  /\ Step("SetPInvalid", <<kind>>)

\* rejected setter calls: set_precoders() without F and full_F, set_receive_filters() with both or none of W, W_H
\* (RuntimeError), set_precoders(F, P = a vector with a negative entry) (ValueError).  Nothing may change.
RejectedCall(kind) ==
  /\ "RejectedCall" \in Acts
  /\ UNCHANGED <<hasF, hasW, wGiven, pKind, solved, cFullF, cWconv, cFullWH, cFullW, fNs, wNs, iterOK>>
  /\ Step("RejectedCall", <<kind>>)

\* the channel object is re-randomized: the stored solution belongs to the old channel until the next Solve
NewChannel ==
  /\ "NewChannel" \in Acts /\ solved
  /\ solved' = FALSE /\ hasF' = FALSE /\ hasW' = FALSE /\ wGiven' = "none"
  /\ cFullF' = NoneC /\ cWconv' = NoneC /\ cFullWH' = NoneC /\ cFullW' = NoneC
  /\ iterOK' = FALSE
  /\ UNCHANGED <<pKind, fNs, wNs>>
  /\ Step("NewChannel", <<>>)

\* ---- readers ---------------------------------------------------------------------------
FullFVal == IF cFullF = NoneC THEN Fresh ELSE cFullF
ReadFullF ==
  /\ "ReadFullF" \in Acts /\ hasF
  /\ cFullF' = FullFVal
  /\ ret' = [op |-> "ReadFullF", a |-> <<>>, src |-> FullFVal]
  /\ UNCHANGED <<hasF, hasW, wGiven, pKind, solved, cWconv, cFullWH, cFullW, fNs, wNs, iterOK>>

\* W (when W_H was given) or W_H (when W was given): the converted filter
ConvVal == IF cWconv = NoneC THEN Fresh ELSE cWconv
ReadWconv ==
  /\ "ReadWconv" \in Acts /\ hasW
  /\ cWconv' = ConvVal
  /\ ret' = [op |-> "ReadWconv", a |-> <<>>, src |-> ConvVal]
  /\ UNCHANGED <<hasF, hasW, wGiven, pKind, solved, cFullF, cFullWH, cFullW, fNs, wNs, iterOK>>

\* full_W_H: computed from W_H (converted if need be), the channel and full_F (itself cached)
Merge(a, b) == [f |-> IF a.f = "old" \/ b.f = "old" THEN "old" ELSE "cur",
                p |-> IF a.p = "old" \/ b.p = "old" THEN "old" ELSE "cur",
                w |-> IF a.w = "old" \/ b.w = "old" THEN "old" ELSE "cur",
                h |-> IF a.h = "old" \/ b.h = "old" THEN "old" ELSE "cur"]
FullWHVal == IF cFullWH = NoneC THEN Merge(ConvVal, FullFVal) ELSE cFullWH
ReadFullWH ==
  /\ "ReadFullWH" \in Acts /\ hasF /\ hasW /\ fNs = wNs
  /\ cFullWH' = FullWHVal
  /\ IF cFullWH = NoneC THEN cWconv' = ConvVal /\ cFullF' = FullFVal ELSE UNCHANGED <<cWconv, cFullF>>
  /\ ret' = [op |-> "ReadFullWH", a |-> <<>>, src |-> FullWHVal]
  /\ UNCHANGED <<hasF, hasW, wGiven, pKind, solved, cFullW, fNs, wNs, iterOK>>

FullWVal == IF cFullW = NoneC THEN FullWHVal ELSE cFullW
ReadFullW ==
  /\ "ReadFullW" \in Acts /\ hasF /\ hasW /\ fNs = wNs
  /\ cFullW' = FullWVal
  /\ IF cFullW = NoneC
       THEN /\ cFullWH' = FullWHVal
            /\ IF cFullWH = NoneC THEN cWconv' = ConvVal /\ cFullF' = FullFVal ELSE UNCHANGED <<cWconv, cFullF>>
       ELSE UNCHANGED <<cFullWH, cWconv, cFullF>>
  /\ ret' = [op |-> "ReadFullW", a |-> <<>>, src |-> FullWVal]
  /\ UNCHANGED <<hasF, hasW, wGiven, pKind, solved, fNs, wNs, iterOK>>

PKinds == {"default", "scalar", "vector"}
Next ==
  \/ \E pk \in PKinds : Solve(pk) \/ RandomizeF(pk) \/ SetP(pk)
  \/ \E how \in {"F", "fullF", "both"}, pk \in {"keep", "vector", "scalar"}, ns \in NsSet : SetPrecoders(how, pk, ns)
  \/ \E w \in {"W", "W_H"}, ns \in NsSet : SetFilters(w, ns)
  \/ \E k \in {"negvec", "zero", "short"} : SetPInvalid(k)
  \/ \E k \in {"precodersNone", "filtersBoth", "filtersNone", "precodersBadP"} : RejectedCall(k)
  \/ IterStep \/ Clear
  \/ NewChannel \/ ReadFullF \/ ReadWconv \/ ReadFullWH \/ ReadFullW
Spec == Init /\ [][Next]_vars

(* ------------------------------ properties ----------------------------------------------- *)
NoStaleView == "src" \in DOMAIN ret => ret.src = Fresh
CachesFresh == /\ cFullF # NoneC => cFullF = Fresh
               /\ cWconv # NoneC => cWconv = Fresh
               /\ cFullWH # NoneC => cFullWH = Fresh
               /\ cFullW # NoneC => cFullW = Fresh
PowerValid == pKind # "invalid"

\* what the property requires of the object in this state (names evaluated by the replay)
Required == (IF hasF THEN {"UnitNormF", "PowerLeP", "NsMatchesShapes"} ELSE {})
       \cup (IF hasF /\ Alg # "MMSE" THEN {"PowerEqP"} ELSE {})
       \cup (IF hasF /\ hasW /\ fNs = wNs THEN {"OwnChannelIdentity", "FullWIsHermitianOfFullWH"} ELSE {})
       \cup (IF solved /\ Alg = "ClosedForm" THEN {"ClosedFormNulls"} ELSE {})
       \cup (IF solved THEN {"SolvedShapes"} ELSE {})
       \cup (IF ~hasF /\ ~hasW /\ pKind = "default" /\ ~solved THEN {"NothingReported"} ELSE {})

StateRec == [hasF |-> hasF, hasW |-> hasW, wGiven |-> wGiven, pKind |-> pKind, solved |-> solved,
             cFullF |-> cFullF, cWconv |-> cWconv, cFullWH |-> cFullWH, cFullW |-> cFullW, fNs |-> fNs, wNs |-> wNs, iterOK |-> iterOK]
StateRecP == [hasF |-> hasF', hasW |-> hasW', wGiven |-> wGiven', pKind |-> pKind', solved |-> solved',
             cFullF |-> cFullF', cWconv |-> cWconv', cFullWH |-> cFullWH', cFullW |-> cFullW', fNs |-> fNs', wNs |-> wNs', iterOK |-> iterOK']
RequiredP == (IF hasF' THEN {"UnitNormF", "PowerLeP", "NsMatchesShapes"} ELSE {})
       \cup (IF hasF' /\ Alg # "MMSE" THEN {"PowerEqP"} ELSE {})
       \cup (IF hasF' /\ hasW' /\ fNs' = wNs' THEN {"OwnChannelIdentity", "FullWIsHermitianOfFullWH"} ELSE {})
       \cup (IF solved' /\ Alg = "ClosedForm" THEN {"ClosedFormNulls"} ELSE {})
       \cup (IF solved' THEN {"SolvedShapes"} ELSE {})
       \cup (IF ret'.op = "Clear" THEN {"NothingReported"} ELSE {})
       \cup (IF ret'.op = "IterStep" THEN {"LeakNonIncreasing"} ELSE {})
Emit == EmitEdge([pre |-> StateRec, post |-> StateRecP, ret |-> ret', req |-> RequiredP])
=============================================================================
