------------------------------- MODULE Params -------------------------------
(* Parameter grids of pyphysim.simulations.parameters.SimulationParameters (C05, C06).

   A grid is a sequence (one entry per UNPACKED parameter, in sorted-name order) of value
   lists (sequences without duplicates of value ids; the harness maps ids to Python values
   that sort like the ids).  The documented order of the variations is row-major over the
   sorted parameter names (itertools.product).

   Declarative definitions (no index arithmetic shared with the code):
     Combos(g)        the sequence of all combinations, row-major
     Lookup(g, fx)    the indexes of the combinations that agree with the partial assignment fx
     Union(ga, gb)    the grid of combine_simulation_parameters (sorted union per parameter)
     CombineExp       per combination of the union: which (side, index) results must be merged

   The model is a star: Next picks one case; the laws are invariants evaluated by TLC on every
   case; Emit hands the case and the expected answer to the replay.                           *)
EXTENDS ParamsLib, TLC, Emit

CONSTANTS Universe,   \* sequence over parameters of the set of value ids each may take, e.g. <<{1,2,3},{1,2}>>
          MaxLen,     \* sequence over parameters: maximal length of a value list
          Mode        \* "lookup" | "combine" | "combine3"

VARIABLES case
vars == <<case>>

NP == Len(Universe)
Grids == IF NP = 0 THEN {<<>>}           \* nothing is unpacked: one variation
         ELSE IF NP = 1 THEN {<<a>> : a \in ValueLists(Universe[1], MaxLen[1])}
         ELSE IF NP = 2 THEN {<<a, b>> : a \in ValueLists(Universe[1], MaxLen[1]), b \in ValueLists(Universe[2], MaxLen[2])}
         ELSE {<<a, b, c>> : a \in ValueLists(Universe[1], MaxLen[1]), b \in ValueLists(Universe[2], MaxLen[2]),
                             c \in ValueLists(Universe[3], MaxLen[3])}


(* ---------- the star ---------- *)
Init == case = [kind |-> "none"]
PickLookup == \E g \in Grids : \E fx \in FixChoices(g) :
                 case' = [kind |-> "lookup", g |-> g, fx |-> fx, n |-> NumVar(g), combos |-> Combos(g),
                          idx |-> AscSeq(Lookup(g, fx))]
\* nobs: observations held by every operand result (1 or 2); acc: the operands accumulate their observations
PickCombine == \E ga \in Grids, gb \in Grids, nobs \in 1..2, acc \in BOOLEAN :
                 case' = [kind |-> "combine", ga |-> ga, gb |-> gb, u |-> Union(ga, gb), exp |-> CombineExp(ga, gb),
                          nobs |-> nobs, acc |-> acc]
PickCombine3 == \E ga \in Grids, gb \in Grids, gc \in Grids :
                 case' = [kind |-> "combine3", ga |-> ga, gb |-> gb, gc |-> gc, u |-> Union(Union(ga, gb), gc),
                          exp |-> CombineExp3(ga, gb, gc), nobs |-> 1 + (Len(ga[1]) % 2), acc |-> (Len(gb[1]) % 2 = 0)]
Next == /\ case.kind = "none"
        /\ IF Mode = "lookup" THEN PickLookup ELSE IF Mode = "combine3" THEN PickCombine3 ELSE PickCombine

LawsLookup == case.kind = "lookup" =>
                /\ RowMajor(case.g) /\ AllDistinct(case.g)
                /\ Len(case.idx) = NumVar(case.g) \div
                     (LET RECURSIVE F(_) F(p) == IF p = 0 THEN 1 ELSE (IF case.fx[p] = 0 THEN 1 ELSE Len(case.g[p])) * F(p - 1)
                      IN F(Len(case.g)))
LawsCombine == /\ case.kind = "combine" => CombineLaw(case.ga, case.gb) /\ RowMajor(case.u)
               /\ case.kind = "combine3" => CombineLaw3(case.ga, case.gb, case.gc) /\ RowMajor(case.u)

Emit == case'.kind = "none" \/ EmitCase(case')
=============================================================================
