------------------------------ MODULE Progress ------------------------------
(* Progress reporting of pyphysim (pyphysim/progressbar/progressbar.py) - a part of the system that no listed
   property talks about; it is specified here because it is the one piece of pyphysim that is a concurrent
   state machine (an updater thread, a reference-counted start/stop protocol, clients posting counts).

   Two machines share this module (constant Mode):

   "bar"     one ProgressBarBase object (ProgressbarText / Text2 / Text3): progress(c), stop(),
             display_interval=, under a virtual clock.  A call to progress() clamps the count, stores it,
             writes a frame when more than `display_interval` passed since the last frame, and at 100% writes
             one more frame, finalizes and (Text/Text2) writes the closing newline; once finalized every call
             is ignored.

   "server"  ProgressbarDistributedServerBase with its proxy clients (ProgressbarMultiProcessClient):
             register, client progress (a client is itself a throttled ProgressBarBase whose "display" is a
             store into the shared list), start_updater / stop_updater (reference counted; stop blocks in
             join until the updater thread left), and the updater thread itself:
                 [delay] -> create the inner bar -> while count < total and running: sleep; count := sum(list);
                 bar.final := total; bar.progress(count)  -> on exit: if count < total: bar.progress(total);
                 running := FALSE
             One thread step = the code between two sleeps (Fine = FALSE; this is what the conformance
             harness can schedule deterministically by owning time.sleep) or the individual statements
             (Fine = TRUE; design-level exploration of the races, TLC only).

   Time: one tick = 0.25 s; display intervals are given in 1/100 s (the default 0.1 s is 10).        *)
EXTENDS Naturals, Integers, Sequences, FiniteSets, TLC, Emit

CONSTANTS Mode, Final, Totals, MaxClients, MaxNow, SleepT, Delays, Intervals, Fine, Dev, MaxStarts

VARIABLES now,        \* virtual clock (ticks)
          bar,        \* the visible bar: [ex, n, final, fin, last, iv]
          cl,         \* sequence of client proxies: [n, final, fin, last, iv, posted]
          total,      \* server: _total_final_count
          nlist,      \* server: length of _client_data_list (Fine: registration is two statements)
          startCount, \* server: _start_updater_count
          running,    \* server: _is_running
          pc,         \* updater thread: "none" | "delay" | "sleep" | "done"  (+ Fine: "init","check","woken","summed","exit1","exit2")
          cnt,        \* updater thread local: count
          sleptAt,    \* tick at which the current sleep began
          dly,        \* start delay of the running thread (ticks)
          blocked,    \* main thread is inside stop_updater's join
          starts,     \* number of threads created so far (bound only)
          out,        \* what this step wrote: [frames, nl, init, warn]
          ret         \* the operation of this step

vars == <<now, bar, cl, total, nlist, startCount, running, pc, cnt, sleptAt, dly, blocked, starts, out, ret>>

NoBar == [ex |-> FALSE, n |-> 0, final |-> 0, fin |-> FALSE, last |-> -1, iv |-> 10]
NewBar(f) == [ex |-> TRUE, n |-> 0, final |-> f, fin |-> FALSE, last |-> -1, iv |-> 10]
Quiet == [frames |-> <<>>, nl |-> 0, init |-> FALSE, warn |-> FALSE]

(* more than the display interval passed since the last frame (the first frame is always due) *)
Due(b, t) == b.last = -1 \/ (t - b.last) * 25 > b.iv

Clamp(c, f) == IF c > f /\ ~Dev.NoClamp THEN f ELSE c

(* ProgressBarBase.progress(c) at time t: new bar, frames written (count, final), closing newlines *)
BarStep(b, c, t) ==
  IF b.fin /\ ~Dev.ProgressAfterStop THEN [bar |-> b, frames |-> <<>>, nl |-> 0]
  ELSE LET c1 == Clamp(c, b.final)
           due == Due(b, t)
           b1 == [b EXCEPT !.n = c1, !.last = IF due THEN t ELSE @]
           f1 == IF due THEN << <<c1, b.final>> >> ELSE <<>>
       IN IF c1 = b.final
            THEN [bar |-> [b1 EXCEPT !.fin = TRUE],
                  frames |-> IF Dev.NoForcedFinalFrame THEN f1 ELSE f1 \o << <<c1, b.final>> >>,
                  nl |-> IF b.fin THEN 0 ELSE 1]
            ELSE [bar |-> b1, frames |-> f1, nl |-> 0]

-----------------------------------------------------------------------------
(* ------------------------------ the single bar ------------------------------ *)
BarInit ==
  /\ now = 0 /\ bar = NewBar(Final) /\ cl = <<>> /\ total = 0 /\ nlist = 0 /\ startCount = 0 /\ running = FALSE
  /\ pc = "none" /\ cnt = 0 /\ sleptAt = 0 /\ dly = 0 /\ blocked = FALSE /\ starts = 0
  /\ out = [Quiet EXCEPT !.init = TRUE] /\ ret = [op |-> "New", a |-> Final, b |-> 0]

ServerOnly == <<cl, total, nlist, startCount, running, pc, cnt, sleptAt, dly, blocked, starts>>

Progress(c) ==
  LET r == BarStep(bar, c, now) IN
  /\ bar' = r.bar
  /\ out' = [Quiet EXCEPT !.frames = r.frames, !.nl = r.nl]
  /\ ret' = [op |-> "Progress", a |-> c, b |-> 0]
  /\ UNCHANGED <<now, ServerOnly>>

Stop ==
  /\ bar' = [bar EXCEPT !.fin = TRUE]
  /\ out' = [Quiet EXCEPT !.nl = IF bar.fin THEN 0 ELSE 1]
  /\ ret' = [op |-> "Stop", a |-> 0, b |-> 0]
  /\ UNCHANGED <<now, ServerOnly>>

SetInterval(v) ==          \* negative values are stored as 0
  /\ bar' = [bar EXCEPT !.iv = IF v < 0 THEN 0 ELSE v]
  /\ out' = Quiet
  /\ ret' = [op |-> "SetInterval", a |-> v, b |-> 0]
  /\ UNCHANGED <<now, ServerOnly>>

Tick ==
  /\ now < MaxNow
  /\ now' = now + 1
  /\ out' = Quiet
  /\ ret' = [op |-> "Tick", a |-> 0, b |-> 0]
  /\ UNCHANGED <<bar, ServerOnly>>

BarNext == (\E c \in 0 .. Final + 1 : Progress(c)) \/ Stop \/ Tick \/ (\E v \in Intervals \cup {-10} : SetInterval(v))

-----------------------------------------------------------------------------
(* ------------------------------ server, clients, updater thread ------------------------------ *)
ServerInit ==
  /\ now = 0 /\ bar = NoBar /\ cl = <<>> /\ total = 0 /\ nlist = 0 /\ startCount = 0 /\ running = FALSE
  /\ pc = "none" /\ cnt = 0 /\ sleptAt = 0 /\ dly = 0 /\ blocked = FALSE /\ starts = 0
  /\ out = Quiet /\ ret = [op |-> "NewServer", a |-> 0, b |-> 0]

RECURSIVE SumPosted(_, _)
SumPosted(s, k) == IF k = 0 THEN 0 ELSE s[k].posted + SumPosted(s, k - 1)
ListSum == SumPosted(cl, nlist)          \* sum(self._client_data_list)

(* the thread's exit path: fill the bar if it is not full, clear the running flag *)
ExitPath(b, c, acc) ==
  LET r == IF c < total /\ ~Dev.NoFillOnStop THEN BarStep(b, total, now) ELSE [bar |-> b, frames |-> <<>>, nl |-> 0]
  IN [pc |-> "done", bar |-> r.bar, running |-> FALSE, sleptAt |-> sleptAt,
      out |-> [acc EXCEPT !.frames = @ \o r.frames, !.nl = @ + r.nl]]

(* `while count < self.finalcount and self.is_running`, then sleep or leave *)
LoopCheck(b, c, run, acc) ==
  IF c < total /\ run THEN [pc |-> "sleep", bar |-> b, running |-> run, sleptAt |-> now, out |-> acc]
  ELSE ExitPath(b, c, acc)

(* warn when nothing is registered, create the inner bar, first loop test *)
ThreadInit(run) == LoopCheck(NewBar(total), 0, run, [Quiet EXCEPT !.init = TRUE, !.warn = (total = 0)])

(* after a sleep: count := sum(list); bar.final := total; bar.progress(count); loop test *)
ThreadWake(run) ==
  LET c == ListSum
      r == BarStep([bar EXCEPT !.final = total], c, now)
  IN [res |-> LoopCheck(r.bar, c, run, [Quiet EXCEPT !.frames = r.frames, !.nl = r.nl]), c |-> c]

Apply(res) ==
  /\ pc' = res.pc /\ bar' = res.bar /\ running' = res.running /\ sleptAt' = res.sleptAt /\ out' = res.out

Register(tc) ==
  /\ ~blocked /\ Len(cl) < MaxClients /\ ~Fine
  /\ total' = total + tc
  /\ cl' = Append(cl, [n |-> 0, final |-> tc, fin |-> FALSE, last |-> -1, iv |-> 10, posted |-> 0])
  /\ nlist' = nlist + 1
  /\ out' = Quiet
  /\ ret' = [op |-> "Register", a |-> tc, b |-> 0]
  /\ UNCHANGED <<now, bar, startCount, running, pc, cnt, sleptAt, dly, blocked, starts>>

(* a client proxy is a ProgressBarBase whose frame is a store into the shared list *)
ClientProgress(i, c) ==
  LET r == BarStep([n |-> cl[i].n, final |-> cl[i].final, fin |-> cl[i].fin, last |-> cl[i].last, iv |-> cl[i].iv, ex |-> TRUE], c, now) IN
  /\ i <= nlist
  /\ cl' = [cl EXCEPT ![i] = [n |-> r.bar.n, final |-> r.bar.final, fin |-> r.bar.fin, last |-> r.bar.last, iv |-> r.bar.iv,
                              posted |-> IF r.frames # <<>> THEN r.bar.n ELSE @.posted]]
  /\ out' = Quiet
  /\ ret' = [op |-> "ClientProgress", a |-> i, b |-> c]
  /\ UNCHANGED <<now, bar, total, nlist, startCount, running, pc, cnt, sleptAt, dly, blocked, starts>>

StartUpdater(d) ==
  /\ ~blocked /\ startCount < 2
  /\ startCount' = startCount + 1
  /\ ret' = [op |-> "StartUpdater", a |-> d, b |-> 0]
  /\ IF running
       THEN /\ out' = Quiet /\ UNCHANGED <<bar, running, pc, cnt, sleptAt, dly, starts>>
       ELSE /\ starts < MaxStarts
            /\ starts' = starts + 1
            /\ dly' = d /\ cnt' = 0
            /\ IF Fine
                 THEN /\ pc' = IF d > 0 THEN "delay" ELSE "init"
                      /\ running' = TRUE /\ sleptAt' = now /\ out' = Quiet /\ bar' = bar
                 ELSE IF d > 0
                        THEN /\ pc' = "delay" /\ running' = TRUE /\ sleptAt' = now /\ out' = Quiet /\ bar' = bar
                        ELSE Apply(ThreadInit(TRUE))
  /\ UNCHANGED <<now, cl, total, nlist, blocked>>

(* stop_updater: decrement; only the call that reaches 0 clears the flag and joins *)
StopBegin ==
  /\ ~blocked /\ startCount > -1
  /\ startCount' = startCount - 1
  /\ LET last == IF Dev.StopNotRefCounted THEN TRUE ELSE startCount' = 0 IN
       /\ last => pc # "none"                       \* the code asserts that a thread exists
       /\ running' = IF last THEN FALSE ELSE running
       /\ blocked' = last
  /\ out' = Quiet
  /\ ret' = [op |-> "StopBegin", a |-> 0, b |-> 0]
  /\ UNCHANGED <<now, bar, cl, total, nlist, pc, cnt, sleptAt, dly, starts>>

StopJoin ==
  /\ blocked /\ pc = "done"
  /\ blocked' = FALSE
  /\ out' = Quiet
  /\ ret' = [op |-> "StopJoin", a |-> 0, b |-> 0]
  /\ UNCHANGED <<now, bar, cl, total, nlist, startCount, running, pc, cnt, sleptAt, dly, starts>>

(* coarse thread steps *)
WakeDelay ==
  /\ ~Fine /\ pc = "delay" /\ now >= sleptAt + dly
  /\ Apply(ThreadInit(running))
  /\ cnt' = 0
  /\ ret' = [op |-> "WakeDelay", a |-> 0, b |-> 0]
  /\ UNCHANGED <<now, cl, total, nlist, startCount, dly, blocked, starts>>

Wake ==
  /\ ~Fine /\ pc = "sleep" /\ now >= sleptAt + SleepT
  /\ LET w == ThreadWake(running) IN Apply(w.res) /\ cnt' = w.c
  /\ ret' = [op |-> "Wake", a |-> 0, b |-> 0]
  /\ UNCHANGED <<now, cl, total, nlist, startCount, dly, blocked, starts>>

ServerTick ==
  /\ now < MaxNow
  /\ now' = now + 1
  /\ out' = Quiet
  /\ ret' = [op |-> "Tick", a |-> 0, b |-> 0]
  /\ UNCHANGED <<bar, ServerOnly>>

-----------------------------------------------------------------------------
(* fine-grained thread and registration (TLC only): every statement that reads or writes shared state *)
FRegister1(tc) ==          \* self._total_final_count += total_count
  /\ Fine /\ ~blocked /\ Len(cl) < MaxClients /\ Len(cl) = nlist
  /\ total' = total + tc
  /\ cl' = Append(cl, [n |-> 0, final |-> tc, fin |-> FALSE, last |-> -1, iv |-> 10, posted |-> 0])
  /\ out' = Quiet /\ ret' = [op |-> "Register1", a |-> tc, b |-> 0]
  /\ UNCHANGED <<now, bar, nlist, startCount, running, pc, cnt, sleptAt, dly, blocked, starts>>
FRegister2 ==              \* self._client_data_list.append(0)
  /\ Fine /\ Len(cl) > nlist
  /\ nlist' = nlist + 1
  /\ out' = Quiet /\ ret' = [op |-> "Register2", a |-> 0, b |-> 0]
  /\ UNCHANGED <<now, bar, cl, total, startCount, running, pc, cnt, sleptAt, dly, blocked, starts>>

FThread ==
  /\ Fine
  /\ ret' = [op |-> "Thread", a |-> 0, b |-> 0]
  /\ UNCHANGED <<now, cl, total, nlist, startCount, dly, blocked, starts>>
  /\ \/ /\ pc = "delay" /\ now >= sleptAt + dly /\ pc' = "init" /\ out' = Quiet /\ UNCHANGED <<bar, running, cnt, sleptAt>>
     \/ /\ pc = "init" /\ bar' = NewBar(total) /\ cnt' = 0 /\ pc' = "check"
        /\ out' = [Quiet EXCEPT !.init = TRUE, !.warn = (total = 0)] /\ UNCHANGED <<running, sleptAt>>
     \/ /\ pc = "check" /\ out' = Quiet /\ UNCHANGED <<bar, running, cnt>>
        /\ IF cnt < total /\ running THEN pc' = "sleep" /\ sleptAt' = now ELSE pc' = "exit1" /\ sleptAt' = sleptAt
     \/ /\ pc = "sleep" /\ now >= sleptAt + SleepT /\ pc' = "woken" /\ out' = Quiet /\ UNCHANGED <<bar, running, cnt, sleptAt>>
     \/ /\ pc = "woken" /\ cnt' = ListSum /\ pc' = "summed" /\ out' = Quiet /\ UNCHANGED <<bar, running, sleptAt>>
     \/ /\ pc = "summed" /\ pc' = "check" /\ UNCHANGED <<running, cnt, sleptAt>>
        /\ LET r == BarStep([bar EXCEPT !.final = total], cnt, now) IN
             bar' = r.bar /\ out' = [Quiet EXCEPT !.frames = r.frames, !.nl = r.nl]
     \/ /\ pc = "exit1" /\ pc' = "exit2" /\ UNCHANGED <<running, cnt, sleptAt>>
        /\ LET r == IF cnt < total THEN BarStep(bar, total, now) ELSE [bar |-> bar, frames |-> <<>>, nl |-> 0] IN
             bar' = r.bar /\ out' = [Quiet EXCEPT !.frames = r.frames, !.nl = r.nl]
     \/ /\ pc = "exit2" /\ running' = FALSE /\ pc' = "done" /\ out' = Quiet /\ UNCHANGED <<bar, cnt, sleptAt>>

ServerNext ==
  \/ \E tc \in Totals : Register(tc) \/ FRegister1(tc)
  \/ FRegister2
  \/ \E i \in 1 .. Len(cl) : \E c \in 0 .. cl[i].final + 1 : ClientProgress(i, c)
  \/ \E d \in Delays : StartUpdater(d)
  \/ StopBegin \/ StopJoin \/ WakeDelay \/ Wake \/ ServerTick \/ FThread

-----------------------------------------------------------------------------
Init == IF Mode = "bar" THEN BarInit ELSE ServerInit
Next == IF Mode = "bar" THEN BarNext ELSE ServerNext
Spec == Init /\ [][Next]_vars

(* ------------------------------ properties ------------------------------ *)
TypeOK ==
  /\ now \in 0 .. MaxNow /\ bar.n \in Nat /\ bar.fin \in BOOLEAN /\ running \in BOOLEAN /\ blocked \in BOOLEAN
  /\ startCount \in -1 .. 2 /\ nlist <= Len(cl) /\ Len(cl) <= MaxClients

(* the visible bar never shows more than 100% and a client never posts more than its total *)
Bounded == bar.n <= bar.final /\ \A i \in 1 .. Len(cl) : cl[i].posted <= cl[i].final /\ cl[i].n <= cl[i].final

(* a bar that reached 100% by itself is finalized, and only then is the closing newline written *)
FullIsFinal == (bar.ex /\ bar.n = bar.final /\ bar.final > 0 /\ Mode = "bar") => bar.fin

(* nothing is written by a finalized bar (same bar object) *)
SilentWhenFinal == [][(bar.fin /\ bar'.ex /\ ~out'.init) => (out'.frames = <<>> /\ out'.nl = 0)]_vars

(* frames are written only at or after the interval, except the forced 100% frame; every frame shows the stored count *)
FramesShowCount == [][(Len(out'.frames) > 0) => (out'.frames[Len(out'.frames)][1] = bar'.n /\ \A k \in 1 .. Len(out'.frames) : out'.frames[k][1] <= out'.frames[k][2])]_vars

(* reaching 100% through progress() always writes the 100% frame, whatever the display interval says *)
FinalFrameWritten == [][(~bar.fin /\ bar'.fin /\ bar'.ex /\ ret'.op # "Stop") => Len(out'.frames) > 0]_vars

(* only the stop_updater call that balances the last start_updater clears the running flag *)
RefCounted == [][(ret'.op = "StopBegin" /\ running /\ ~running') => startCount' = 0]_vars

(* the running flag is set only while an updater thread exists *)
RunningHasThread == running => pc \notin {"none", "done"}

(* when the last stop_updater returns the thread is gone, the flag is clear and a bar that was shown is closed *)
JoinedClosed == [][(blocked /\ ~blocked') => (pc' = "done" /\ ~running' /\ (bar'.ex /\ bar'.final > 0 => bar'.fin))]_vars

(* ... and it shows 100% of what it was last told to be the total.  Holds for thread steps that are atomic between
   sleeps; with statement-level interleaving a registration between bar.progress(count) and the loop test freezes the
   bar at the old total (LateRegisterFreezesBar; checked as an expected violation in Fine mode). *)
JoinedFull == [][(blocked /\ ~blocked' /\ bar'.ex /\ bar'.final > 0) => bar'.n = bar'.final]_vars

(* the thread sleeps only while it has a reason to *)
SleepHasReason == (pc = "sleep" /\ ~Fine) => cnt < total

Bound == TLCGet("level") <= 40

(* `ret` and `out` describe the last step only and never influence a later one: they are hidden from the state
   identity (VIEW), every property that talks about them is an action property *)
View == <<now, bar, cl, total, nlist, startCount, running, pc, cnt, sleptAt, dly, blocked, starts>>

Emit == EmitEdge([pre |-> [now |-> now, bar |-> bar, cl |-> cl, total |-> total, sc |-> startCount, run |-> running, pc |-> pc,
                           cnt |-> cnt, at |-> sleptAt, dly |-> dly, blk |-> blocked],
                  post |-> [now |-> now', bar |-> bar', cl |-> cl', total |-> total', sc |-> startCount', run |-> running', pc |-> pc',
                            cnt |-> cnt', at |-> sleptAt', dly |-> dly', blk |-> blocked'],
                  ret |-> ret', out |-> out'])
=============================================================================
