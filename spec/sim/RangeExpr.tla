------------------------------ MODULE RangeExpr ------------------------------
(* Range expressions of pyphysim (X02, beyond the listed properties; DESIGN.md section 14).

   Two small languages turn arrays of parameter values into text and back:

   (A) util.misc.get_mixed_range_representation / get_range_representation write an array as a comma list of
       numbers and of progressions  first:step:last  (file names: first_(step)_last), LAST INCLUDED.  The
       segmentation is the case analysis of the code, transcribed statement by statement below (Runs = the
       while loop, Adjust = the second loop, Render = the last loop), so that every case TLC enumerates is one
       implementation test with the exact expected text (as a list of atoms).
       Laws (TLC, every array over Vals of length <= MaxLen):
         Cover      the final segments are consecutive intervals that cover the array exactly once, in order
         NeverNone  every segment of four or more elements is a progression (the code's assert cannot fire)
         LongRanges a progression atom always stands for at least four elements
         Lossless   the text determines the array: Denote(Repr(v)) = v   unless a progression has step 0
                    (a constant run of >= 4 elements is written first:0:last, which forgets its length - named
                    deviation ZeroStepForgetsLength, checked as an expected violation of LosslessAll)
         AdjustAlways  the condition of the second loop is implied by its guard (exact arithmetic)

   (B) simulations.configobjvalidation.{real,integer}_numpy_array_check (and the scalar_or_ variants, and
       SimulationParameters.load_from_config_file through them) read a value as numbers and ranges  a:b / a:s:b
       with numpy.arange's meaning, END EXCLUDED, and apply optional bounds.
         Parse(items)   the concatenation of the items' expansions, in order
         Verdict        the first item (in order) with an element below min -> "small", else above max -> "big"
         ScalarOr       a value that is one plain number stays a scalar
       ReprIsNotParserSyntax (documented, TLC-checked): reading the text of (A) with (B) loses the last element of
       every progression.

   The model is a star (Init -> one case); Emit hands every case with its expected answer to the replay.   *)
EXTENDS Integers, Sequences, FiniteSets, TLC, Emit

CONSTANTS MaxLen,   \* maximal array length (A) / number of items (B)
          Vals,     \* the integers array elements and range limits are drawn from
          Mode,     \* "repr" | "reprd" | "parse"
          Dev       \* set of deviation flags (each must be refuted by TLC)

VARIABLES case
vars == <<case>>

RECURSIVE SeqsUpTo(_)
SeqsUpTo(n) == IF n = 0 THEN {<<>>} ELSE LET S == SeqsUpTo(n - 1) IN S \cup {Append(s, x) : s \in {t \in S : Len(t) = n - 1}, x \in Vals}
RECURSIVE Concat(_)
Concat(ss) == IF ss = <<>> THEN <<>> ELSE Head(ss) \o Concat(Tail(ss))

(* ====================== (A) array -> text ====================== *)
\* diff = hstack([diff[0], array[1:] - array[:-1]])                       (positions 1..n, n >= 2)
D(v, i) == IF i = 1 THEN v[2] - v[1] ELSE v[i] - v[i - 1]

\* the while loop: maximal runs of equal diff, as closed intervals <<first, last>>
RECURSIVE RunsFrom(_, _)
RunsFrom(v, s) == IF s > Len(v) THEN <<>>
                  ELSE LET brk == {i \in s..Len(v) : D(v, i) # D(v, s)}
                           e == IF brk = {} THEN Len(v) ELSE (CHOOSE i \in brk : \A j \in brk : i <= j) - 1
                       IN <<<<s, e>>>> \o RunsFrom(v, e + 1)
Runs(v) == RunsFrom(v, 1)
SegLen(p) == p[2] - p[1] + 1

\* the second loop: a run of more than 3 elements takes the last element of the run before it when the difference to it
\* is the run's step
Takes(v, R, k) == /\ k >= 2 /\ SegLen(R[k]) > 3
                  /\ v[R[k][1]] - v[R[k - 1][2]] = v[R[k][1] + 1] - v[R[k][1]]
Adjust(v, R) == [k \in 1..Len(R) |->
                   <<R[k][1] - (IF Takes(v, R, k) THEN 1 ELSE 0),
                     R[k][2] - (IF k < Len(R) /\ Takes(v, R, k + 1) /\ "AdjustWithoutShrink" \notin Dev THEN 1 ELSE 0)>>]
Segments(v) == Adjust(v, Runs(v))

Slice(v, p) == [i \in 1..(p[2] - p[1] + 1) |-> v[p[1] + i - 1]]
IsAP(a) == \A i \in 2..Len(a) : a[i] - a[i - 1] = a[2] - a[1]
Num(x) == [k |-> "num", a |-> x]
Rng(a, s, b) == [k |-> "rng", a |-> a, s |-> s, b |-> b]
\* get_range_representation of one slice: fewer than 4 elements -> the numbers; a progression -> one atom; else None
Render(a) == IF Len(a) < 4 THEN [i \in 1..Len(a) |-> Num(a[i])]
             ELSE IF IsAP(a) THEN <<Rng(a[1], a[2] - a[1], IF "ExclusiveEnd" \in Dev THEN a[Len(a)] + (a[2] - a[1]) ELSE a[Len(a)])>>
             ELSE <<[k |-> "none"]>>
Repr(v) == IF Len(v) < 2 THEN <<Num(v[1])>>
           ELSE LET S == Segments(v) IN Concat([k \in 1..Len(S) |-> Render(Slice(v, S[k]))])

\* what a text stands for (last included)
RECURSIVE Expand(_, _, _)
Expand(a, s, b) == IF (s > 0 /\ a > b) \/ (s < 0 /\ a < b) THEN <<>> ELSE IF s = 0 THEN <<a>> ELSE <<a>> \o Expand(a + s, s, b)
DenoteAtom(t) == IF t.k = "num" THEN <<t.a>> ELSE IF t.k = "rng" THEN Expand(t.a, t.s, t.b) ELSE <<>>
Denote(T) == Concat([i \in 1..Len(T) |-> DenoteAtom(T[i])])

Cover(v) == LET S == Segments(v) IN
              /\ S[1][1] = 1 /\ S[Len(S)][2] = Len(v)
              /\ \A k \in 1..Len(S) : S[k][2] >= S[k][1] - 1               \* a run may become empty, never negative
              /\ \A k \in 1..Len(S) - 1 : S[k + 1][1] = S[k][2] + 1
NeverNone(v) == \A i \in 1..Len(Repr(v)) : Repr(v)[i].k # "none"
LongRanges(v) == \A i \in 1..Len(Repr(v)) : Repr(v)[i].k = "rng" => Len(DenoteAtom(Repr(v)[i])) >= 4 \/ Repr(v)[i].s = 0
ZeroStep(v) == \E i \in 1..Len(Repr(v)) : Repr(v)[i].k = "rng" /\ Repr(v)[i].s = 0
AdjustAlways(v) == LET R == Runs(v) IN \A k \in 2..Len(R) : SegLen(R[k]) > 3 => Takes(v, R, k)

(* ====================== (B) text -> array ====================== *)
\* numpy.arange(a, b, s): a, a+s, ... strictly before b
RECURSIVE Arange(_, _, _)
Arange(a, s, b) == IF s = 0 \/ (s > 0 /\ a >= b) \/ (s < 0 /\ a <= b) THEN <<>> ELSE <<a>> \o Arange(a + s, s, b)
ItemVals(it) == IF it.k = "num" THEN <<it.a>> ELSE IF it.k = "r2" THEN Arange(it.a, 1, it.b) ELSE Arange(it.a, it.s, it.b)
Parse(items) == Concat([i \in 1..Len(items) |-> ItemVals(items[i])])
NoB == -99                                                      \* "no bound"
Bad(it) == it.k = "r3" /\ it.s = 0                              \* arange with step 0 raises: the value is invalid
Small(it, mn) == mn # NoB /\ \E i \in 1..Len(ItemVals(it)) : ItemVals(it)[i] < mn
Big(it, mx) == mx # NoB /\ \E i \in 1..Len(ItemVals(it)) : ItemVals(it)[i] > mx
RECURSIVE Verdict(_, _, _)
Verdict(items, mn, mx) == IF items = <<>> THEN "ok"
                          ELSE IF Bad(Head(items)) THEN "type"
                          ELSE IF Small(Head(items), mn) THEN "small"
                          ELSE IF Big(Head(items), mx) THEN "big"
                          ELSE Verdict(Tail(items), mn, mx)
Steps == {-2, -1, 0, 1, 2}
Items == {[k |-> "num", a |-> x] : x \in Vals}
           \cup {[k |-> "r2", a |-> x, b |-> y] : x \in Vals, y \in Vals}
           \cup {[k |-> "r3", a |-> x, s |-> s, b |-> y] : x \in Vals, y \in Vals, s \in Steps}
\* an item that expands to nothing is only admitted without bounds (the code takes min() / max() of what it expanded)
NonEmptyItem(it) == ItemVals(it) # <<>> \/ Bad(it)
RECURSIVE ItemSeqs(_)
ItemSeqs(n) == IF n = 0 THEN {<<>>} ELSE LET S == ItemSeqs(n - 1) IN S \cup {Append(s, x) : s \in {t \in S : Len(t) = n - 1}, x \in Items}
Bounds == {NoB} \cup {x \in Vals : x % 2 = 1}       \* interior values: elements below, at and above a bound exist

\* reading the text of (A) as parser syntax: every progression loses its last element
AsItem(t) == IF t.k = "num" THEN [k |-> "num", a |-> t.a] ELSE [k |-> "r3", a |-> t.a, s |-> t.s, b |-> t.b]
DropLast(T) == Concat([i \in 1..Len(T) |-> IF T[i].k = "rng" THEN SubSeq(DenoteAtom(T[i]), 1, Len(DenoteAtom(T[i])) - 1)
                                           ELSE DenoteAtom(T[i])])
ReprIsNotParserSyntax(v) == ZeroStep(v) \/ Parse([i \in 1..Len(Repr(v)) |-> AsItem(Repr(v)[i])]) = DropLast(Repr(v))

(* ====================== the star ====================== *)
Init == case = [kind |-> "none"]
PickRepr == \E v \in SeqsUpTo(MaxLen) \ {<<>>} :
              case' = [kind |-> "repr", v |-> v, runs |-> IF Len(v) < 2 THEN <<>> ELSE Runs(v),
                       segs |-> IF Len(v) < 2 THEN <<>> ELSE Segments(v), atoms |-> Repr(v), whole |-> Render(v), zero |-> Len(v) >= 2 /\ ZeroStep(v)]
\* the segmentation depends on the neighbour differences only: arrays given by their difference sequence reach long
\* adjacent runs within a small bound (Mode "reprd": Vals is the alphabet of differences, MaxLen their number)
RECURSIVE SumTo(_, _)
SumTo(d, n) == IF n = 0 THEN 0 ELSE d[n] + SumTo(d, n - 1)
FromDiffs(d) == [i \in 1..Len(d) + 1 |-> SumTo(d, i - 1)]
PickReprD == \E d \in SeqsUpTo(MaxLen) \ {<<>>} : LET v == FromDiffs(d) IN
              case' = [kind |-> "repr", v |-> v, runs |-> Runs(v), segs |-> Segments(v), atoms |-> Repr(v), whole |-> Render(v),
                       zero |-> ZeroStep(v)]
PickParse == \E items \in ItemSeqs(MaxLen) \ {<<>>}, mn \in Bounds, mx \in Bounds :
               /\ (mn # NoB \/ mx # NoB) => \A i \in 1..Len(items) : NonEmptyItem(items[i])
               /\ (mn # NoB /\ mx # NoB) => mn <= mx
               /\ case' = [kind |-> "parse", items |-> items, mn |-> mn, mx |-> mx, verdict |-> Verdict(items, mn, mx),
                           vals |-> Parse(items),
                           scalar |-> Len(items) = 1 /\ items[1].k = "num"]
Next == case.kind = "none" /\ IF Mode = "repr" THEN PickRepr ELSE IF Mode = "reprd" THEN PickReprD ELSE PickParse

LawsRepr == (case.kind = "repr" /\ Len(case.v) >= 2) =>
               /\ Cover(case.v) /\ NeverNone(case.v) /\ LongRanges(case.v) /\ AdjustAlways(case.v)
               /\ (~ZeroStep(case.v) => Denote(Repr(case.v)) = case.v)
               /\ ReprIsNotParserSyntax(case.v)
LosslessAll == (case.kind = "repr" /\ Len(case.v) >= 2) => Denote(Repr(case.v)) = case.v      \* expected violation
LawsParse == case.kind = "parse" =>
               /\ (case.verdict = "ok" => \A i \in 1..Len(case.vals) :
                                             /\ (case.mn # NoB => case.vals[i] >= case.mn)
                                             /\ (case.mx # NoB => case.vals[i] <= case.mx))
               /\ (case.verdict \in {"small", "big"} => \E i \in 1..Len(case.vals) :
                                             \/ (case.mn # NoB /\ case.vals[i] < case.mn)
                                             \/ (case.mx # NoB /\ case.vals[i] > case.mx))

Emit == case'.kind = "none" \/ EmitCase(case')
=============================================================================
