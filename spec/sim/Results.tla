------------------------------ MODULE Results ------------------------------
(* C06 - combining simulation results is independent of how repetitions were grouped.

   Implementation-shaped machine for pyphysim.simulations.results.Result and
   SimulationResults (one result name per set):
     sets  : set id -> sequence of Result records (n, value, total, sum, sqsum, vlist, tlist), exact
             rationals (a SimulationResults holding one result name)
     alias : blocks of set ids whose LAST result is one and the same Python object
   so that aliasing between sets is expressible (it only arises under a deviation flag).  Actions = the public operations:
     AddNew (add_new_result / Result.create), UpdateLast (Result.update), MergeRes (Result.merge),
     MergeAll (merge_all_results), AppendAll (append_all_results, the source is consumed).

   The oracle is declarative and shares no structure with the code: the ghost variable `sobs`
   records, per set and position, the SEQUENCE OF OBSERVATIONS that result stands for, and
   `Fold(seq)` says what a result holding exactly those observations must contain.
   `PartitionLaw` : every stored result equals Fold of its ghost sequence - for every way of
   splitting the observations over objects and every order / association of merges.
   `OperandUnchanged` follows: a merge changes the ghost of the destination only, so any
   change to another set's objects (aliasing) breaks PartitionLaw for that set.            *)
EXTENDS Integers, Sequences, FiniteSets, TLC, Emit, Rat

CONSTANTS Type,     \* "SUM" | "RATIO" | "CHOICE" | "MISC"
          Acc,      \* BOOLEAN: accumulate_values
          ObsAlpha, \* sequence of observations [v |-> Rat, t |-> Rat]; CHOICE: v = <<index, 1>>
          NChoice,  \* number of choices (CHOICE)
          NSets,    \* number of SimulationResults objects
          MaxObs,   \* bound on the total number of observations held by all sets (state constraint)
          SkipOn,   \* BOOLEAN: some sets carry the runner's num_skipped_reps counter (own configuration: it multiplies the states)
          Dev       \* [EmptyMergeAliases, MiscMergeAdds, SqSumNotMerged, SkipCounterCloned, MiscEmptyOperandWins : BOOLEAN]

(* ------------------------------ the code, step by step ---------------------------------- *)
ZeroVal == IF Type = "CHOICE" THEN [i \in 1..NChoice |-> 0] ELSE RZero
Empty == [n |-> 0, value |-> ZeroVal, total |-> RZero, sum |-> RZero, sqsum |-> RZero, vlist |-> <<>>, tlist |-> <<>>]

ObjUpdate(o, ob) ==
  CASE Type = "SUM" ->
         [o EXCEPT !.n = @ + 1, !.value = RAdd(@, ob.v), !.sum = RAdd(@, ob.v), !.sqsum = RAdd(@, RSq(ob.v)),
                   !.vlist = IF Acc THEN Append(@, ob.v) ELSE @]
    [] Type = "RATIO" ->
         LET r == RDiv(ob.v, ob.t) IN
         [o EXCEPT !.n = @ + 1, !.value = RAdd(@, ob.v), !.total = RAdd(@, ob.t),
                   !.sum = RAdd(@, r), !.sqsum = RAdd(@, RSq(r)),
                   !.vlist = IF Acc THEN Append(@, ob.v) ELSE @, !.tlist = IF Acc THEN Append(@, ob.t) ELSE @]
    [] Type = "MISC" ->
         [o EXCEPT !.n = @ + 1, !.value = ob.v, !.vlist = IF Acc THEN Append(@, ob.v) ELSE @]
    [] Type = "CHOICE" ->
         [o EXCEPT !.n = @ + 1, !.value = [@ EXCEPT ![ob.v[1] + 1] = @ + 1], !.total = RAdd(@, ROne),
                   !.vlist = IF Acc THEN Append(@, ob.v) ELSE @]

AddVal(a, b) == IF Type = "CHOICE" THEN [i \in 1..NChoice |-> a[i] + b[i]] ELSE RAdd(a, b)

ObjMerge(a, b) ==
  LET lists == [a EXCEPT !.vlist = IF Acc THEN @ \o b.vlist ELSE @, !.tlist = IF Acc THEN @ \o b.tlist ELSE @]
  IN IF Type = "MISC" /\ ~Dev.MiscMergeAdds
       THEN IF b.n = 0 /\ ~Dev.MiscEmptyOperandWins
              THEN lists            \* an operand without observation has no "last observation": nothing to take over
              ELSE [lists EXCEPT !.n = b.n, !.value = b.value, !.total = b.total, !.sum = b.sum, !.sqsum = b.sqsum]
       ELSE [lists EXCEPT !.n = @ + b.n, !.value = AddVal(@, b.value), !.total = RAdd(@, b.total),
                          !.sum = RAdd(@, b.sum),
                          !.sqsum = IF Dev.SqSumNotMerged THEN @ ELSE RAdd(@, b.sqsum)]

(* ------------------------------ the declarative oracle ---------------------------------- *)
SumV(s)  == RSumSeq([k \in 1..Len(s) |-> s[k].v])
SumT(s)  == RSumSeq([k \in 1..Len(s) |-> s[k].t])
SumR(s)  == RSumSeq([k \in 1..Len(s) |-> RDiv(s[k].v, s[k].t)])
SumR2(s) == RSumSeq([k \in 1..Len(s) |-> RSq(RDiv(s[k].v, s[k].t))])
SumV2(s) == RSumSeq([k \in 1..Len(s) |-> RSq(s[k].v)])
CountOf(s, i) == Cardinality({k \in 1..Len(s) : s[k].v[1] = i})

Fold(s) ==
  CASE Type = "SUM" -> [n |-> Len(s), value |-> SumV(s), total |-> RZero, sum |-> SumV(s),
                        sqsum |-> SumV2(s), vlist |-> IF Acc THEN [k \in 1..Len(s) |-> s[k].v] ELSE <<>>,
                        tlist |-> <<>>]
    [] Type = "RATIO" -> [n |-> Len(s), value |-> SumV(s), total |-> SumT(s), sum |-> SumR(s),
                        sqsum |-> SumR2(s), vlist |-> IF Acc THEN [k \in 1..Len(s) |-> s[k].v] ELSE <<>>,
                        tlist |-> IF Acc THEN [k \in 1..Len(s) |-> s[k].t] ELSE <<>>]
    [] Type = "CHOICE" -> [n |-> Len(s), value |-> [i \in 1..NChoice |-> CountOf(s, i - 1)], total |-> R(Len(s)),
                        sum |-> RZero, sqsum |-> RZero,
                        vlist |-> IF Acc THEN [k \in 1..Len(s) |-> s[k].v] ELSE <<>>, tlist |-> <<>>]
    [] Type = "MISC" -> [value |-> IF s = <<>> THEN ZeroVal ELSE s[Len(s)].v]     \* the last observation wins

\* which fields the property speaks about
Agrees(o, f) == \A k \in DOMAIN f : o[k] = f[k]

\* derived statistics (the harness compares get_result / mean / var with these)
Stats(o) == IF o.n = 0 \/ Type = "MISC" \/ Type = "CHOICE" THEN <<>>
            ELSE LET mean == RDiv(o.sum, R(o.n)) IN
                 [mean |-> mean, var |-> RSub(RDiv(o.sqsum, R(o.n)), RSq(mean))]

(* ------------------------------ actions ------------------------------------------------- *)
VARIABLES sets, alias, sobs, last,
          skp    \* per set: the values of its `num_skipped_reps` results (the counter the runner adds to a result set; a set
                 \* may lack it, and merge_all_results has a special rule for it)
vars == <<sets, alias, sobs, last, skp>>
\* which freshly created sets carry the counter (a fixed pattern: both kinds meet in merges), and with which value
HasSkip(s, k) == SkipOn /\ (s + k) % 2 = 0
S == 1..NSets
RECURSIVE CntSeq(_)
CntSeq(q) == IF q = <<>> THEN 0 ELSE Len(Head(q)) + CntSeq(Tail(q))
RECURSIVE CntAll(_)
CntAll(k) == IF k = 0 THEN 0 ELSE CntSeq(sobs[k]) + CntAll(k - 1)
TotalObs == CntAll(NSets)

Init == /\ sets = [s \in S |-> <<>>] /\ sobs = [s \in S |-> <<>>] /\ alias = {} /\ last = [op |-> "init"]
        /\ skp = [s \in S |-> <<>>]

\* sets whose last result is the same object as the last result of s
Sharing(s) == {s} \cup UNION {b \in alias : s \in b}
Leave(al, s) == {b \ {s} : b \in al} \ {b \in {c \ {s} : c \in al} : Cardinality(b) < 2}
\* mutate the object that is the last result of s
Mutate(s, new) == [u \in S |-> IF u \in Sharing(s) /\ sets[u] # <<>> THEN [sets[u] EXCEPT ![Len(sets[u])] = new] ELSE sets[u]]
LastOf(s) == sets[s][Len(sets[s])]

\* s.add_new_result(name, type, v, t)  (replaces whatever s held)
AddNew(s, k) ==
  /\ sets' = [sets EXCEPT ![s] = <<ObjUpdate(Empty, ObsAlpha[k])>>]
  /\ alias' = Leave(alias, s)
  /\ sobs' = [sobs EXCEPT ![s] = << <<ObsAlpha[k]>> >>]
  /\ skp' = [skp EXCEPT ![s] = IF HasSkip(s, k) THEN <<k>> ELSE <<>>]
  /\ last' = [op |-> "AddNew", s |-> s, k |-> k]

\* s.add_result(Result(name, type, accumulate_values, choice_num)): a result without observations
\* (what combine_simulation_results starts from)
AddEmpty(s) ==
  /\ sets' = [sets EXCEPT ![s] = <<Empty>>]
  /\ alias' = Leave(alias, s)
  /\ sobs' = [sobs EXCEPT ![s] = << <<>> >>]
  /\ skp' = [skp EXCEPT ![s] = <<>>]
  /\ last' = [op |-> "AddEmpty", s |-> s]

\* s[name][-1].update(v, t)
UpdateLast(s, k) ==
  /\ sets[s] # <<>>
  /\ sets' = Mutate(s, ObjUpdate(LastOf(s), ObsAlpha[k]))
  /\ sobs' = [sobs EXCEPT ![s][Len(sobs[s])] = Append(@, ObsAlpha[k])]
  /\ UNCHANGED <<alias, skp>>
  /\ last' = [op |-> "UpdateLast", s |-> s, k |-> k]

\* a rejected observation (RATIO without a total -> ValueError; CHOICE with an index that is not an integer or is
\* out of range -> AssertionError / IndexError): nothing may change
RejectedUpdate(s, kind) ==
  /\ Type \in {"RATIO", "CHOICE"} /\ sets[s] # <<>>
  /\ (kind = "noTotal") <=> (Type = "RATIO")
  /\ UNCHANGED <<sets, alias, sobs, skp>>
  /\ last' = [op |-> "RejectedUpdate", s |-> s, kind |-> kind]

\* a MISC result that never saw an observation has no "last observation": merging it IN is outside the law
\* (before /repo 3e373b7 such a merge wiped the receiver's value: it is part of the law now, see Dev.MiscEmptyOperandWins)
MiscGuard(t) == TRUE

\* s[name][-1].merge(t[name][-1])
MergeRes(s, t) ==
  /\ s # t /\ sets[s] # <<>> /\ sets[t] # <<>> /\ t \notin Sharing(s)
  /\ MiscGuard(t)
  /\ sets' = Mutate(s, ObjMerge(LastOf(s), LastOf(t)))
  /\ sobs' = [sobs EXCEPT ![s][Len(sobs[s])] = @ \o sobs[t][Len(sobs[t])]]
  /\ UNCHANGED <<alias, skp>>
  /\ last' = [op |-> "MergeRes", s |-> s, t |-> t]

\* s.merge_all_results(t): t holds exactly one result
MergeAll(s, t) ==
  /\ s # t /\ Len(sets[t]) = 1 /\ t \notin Sharing(s)
  /\ MiscGuard(t)
  /\ IF sets[s] = <<>>
       THEN /\ sets' = [sets EXCEPT ![s] = sets[t]]          \* a copy of t's result ...
            /\ alias' = IF Dev.EmptyMergeAliases                \* ... or the very same object
                          THEN (Leave(alias, s) \ {b \in alias : t \in b}) \cup {Sharing(t) \cup {s}}
                          ELSE Leave(alias, s)
       ELSE /\ sets' = Mutate(s, ObjMerge(LastOf(s), LastOf(t)))
            /\ UNCHANGED alias
  /\ sobs' = IF sets[s] = <<>> THEN [sobs EXCEPT ![s] = sobs[t]]
             ELSE [sobs EXCEPT ![s][Len(sobs[s])] = @ \o sobs[t][1]]
  \* the counter: copied with everything else into an empty receiver; otherwise merged into the receiver's last counter,
  \* which is created (with value 0) when the receiver has none; an operand without a counter leaves it alone
  /\ skp' = IF sets[s] = <<>> THEN [skp EXCEPT ![s] = skp[t]]
            ELSE IF skp[t] = <<>> THEN skp
            ELSE IF skp[s] = <<>> THEN [skp EXCEPT ![s] = <<(IF Dev.SkipCounterCloned THEN 2 ELSE 1) * skp[t][Len(skp[t])]>>]
            ELSE [skp EXCEPT ![s][Len(skp[s])] = @ + skp[t][Len(skp[t])]]
  /\ last' = [op |-> "MergeAll", s |-> s, t |-> t]

\* s.append_all_results(t); the objects now belong to s (t is dropped by the caller)
AppendAll(s, t) ==
  /\ s # t /\ sets[t] # <<>> /\ t \notin Sharing(s)
  /\ sets' = [sets EXCEPT ![s] = @ \o sets[t], ![t] = <<>>]
  /\ sobs' = [sobs EXCEPT ![s] = @ \o sobs[t], ![t] = <<>>]
  /\ alias' = {IF t \in b THEN (b \ {t}) \cup {s} ELSE b : b \in Leave(alias, s)}
  /\ skp' = [skp EXCEPT ![s] = @ \o skp[t], ![t] = <<>>]
  /\ last' = [op |-> "AppendAll", s |-> s, t |-> t]

Next ==
  \/ \E s \in S, k \in 1..Len(ObsAlpha) : AddNew(s, k) \/ UpdateLast(s, k)
  \/ \E s \in S, kd \in {"noTotal", "badIndex"} : RejectedUpdate(s, kd)
  \/ AddEmpty(1)          \* (by symmetry of the sets one place for the empty result suffices)
  \/ \E s \in S, t \in S : MergeRes(s, t) \/ MergeAll(s, t) \/ AppendAll(s, t)

RECURSIVE ResAll(_)
ResAll(k) == IF k = 0 THEN 0 ELSE Len(sets[k]) + ResAll(k - 1)
Bound == TotalObs <= MaxObs /\ ResAll(NSets) <= 3

(* ------------------------------ properties ---------------------------------------------- *)
PartitionLaw == \A s \in S : \A p \in 1..Len(sets[s]) : Agrees(sets[s][p], Fold(sobs[s][p]))
Shape == \A s \in S : Len(sets[s]) = Len(sobs[s])
NoSharing == alias = {}
StatsLaw == \A s \in S : \A p \in 1..Len(sets[s]) :
              LET o == sets[s][p] IN
              (Type \in {"SUM", "RATIO"} /\ o.n > 0) => RSgn(Stats(o).var) >= 0
\* the counter a receiver gets from merge_all_results is the operand's count (plus its own, if it had one): never more
SkipLaw == [][(last'.op = "MergeAll" /\ sets[last'.s] # <<>> /\ skp[last'.t] # <<>>) =>
                 skp'[last'.s][Len(skp'[last'.s])] =
                   (IF skp[last'.s] = <<>> THEN 0 ELSE skp[last'.s][Len(skp[last'.s])]) + skp[last'.t][Len(skp[last'.t])]]_vars
\* merging never changes a result held by another set
OperandUnchanged ==
  [][last'.op \in {"MergeRes", "MergeAll"} => \A t \in S \ {last'.s} : sets'[t] = sets[t]]_vars

(* ------------------------------ emission ------------------------------------------------ *)
Emit == EmitEdge([pre |-> [sobs |-> sobs, skp |-> skp], post |-> [sobs |-> sobs', skp |-> skp'],
                  \* expected content of every set whose ghost changed in this step (<<"same">>: as before the step)
                  op |-> last', exp |-> [s \in S |-> IF sobs'[s] = sobs[s] THEN <<"same">> ELSE [p \in 1..Len(sobs'[s]) |->
                                         [f |-> Fold(sobs'[s][p]), n |-> Len(sobs'[s][p]),
                                          st |-> IF Type \in {"SUM", "RATIO"} THEN Stats(Fold(sobs'[s][p])) ELSE <<>>]]]])
=============================================================================
