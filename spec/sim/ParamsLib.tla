----------------------------- MODULE ParamsLib -----------------------------
(* Pure definitions about parameter grids (no state): value lists, row-major enumeration of the
   variations, lookup by fixed values, union of grids.  See Params.tla for their use.           *)
EXTENDS Integers, Sequences, FiniteSets

(* ---------- sequences without duplicates over a set, length 1..n ---------- *)
RECURSIVE Lists(_, _)
Lists(U, n) == IF n = 0 THEN {<<>>}
               ELSE LET shorter == Lists(U, n - 1)
                    IN  shorter \cup {Append(l, x) : l \in {m \in shorter : Len(m) = n - 1}, x \in U}
NoDup(l) == \A i, j \in 1..Len(l) : i # j => l[i] # l[j]
ValueLists(U, n) == {l \in Lists(U, n) : Len(l) >= 1 /\ NoDup(l)}

(* ---------- row-major enumeration ---------- *)
RECURSIVE NumVar(_)
NumVar(g) == IF g = <<>> THEN 1 ELSE Len(Head(g)) * NumVar(Tail(g))
\* the i-th combination (1-based), as a sequence of VALUES: defined by counting, first parameter slowest
RECURSIVE ComboAt(_, _)
ComboAt(g, i) == IF g = <<>> THEN <<>>
                 ELSE LET rest == NumVar(Tail(g)) IN
                      <<Head(g)[((i - 1) \div rest) + 1]>> \o ComboAt(Tail(g), ((i - 1) % rest) + 1)
Combos(g) == [i \in 1..NumVar(g) |-> ComboAt(g, i)]

\* lexicographic order on combinations by POSITION of the values in their lists = the order of
\* itertools.product; stated independently of ComboAt
PosIn(l, x) == CHOOSE k \in 1..Len(l) : l[k] = x
RECURSIVE LexLess(_, _, _)
LexLess(g, a, b) == IF g = <<>> THEN FALSE
                    ELSE LET pa == PosIn(Head(g), Head(a))  pb == PosIn(Head(g), Head(b)) IN
                         IF pa # pb THEN pa < pb ELSE LexLess(Tail(g), Tail(a), Tail(b))
RowMajor(g) == \A i, j \in 1..NumVar(g) : i < j => LexLess(g, ComboAt(g, i), ComboAt(g, j))
AllDistinct(g) == \A i, j \in 1..NumVar(g) : i # j => ComboAt(g, i) # ComboAt(g, j)

(* ---------- lookup by fixed values ---------- *)
\* fx : sequence over parameters of a value id, or 0 = "not fixed"
Matches(c, fx) == \A p \in 1..Len(fx) : fx[p] = 0 \/ c[p] = fx[p]
Lookup(g, fx) == {i \in 1..NumVar(g) : Matches(ComboAt(g, i), fx)}
FixChoices(g) == IF Len(g) = 0 THEN {<<>>}        \* no unpacked parameter: the empty assignment selects the only variation
                 ELSE IF Len(g) = 1 THEN {<<a>> : a \in {0} \cup {g[1][k] : k \in 1..Len(g[1])}}
                 ELSE IF Len(g) = 2 THEN {<<a, b>> : a \in {0} \cup {g[1][k] : k \in 1..Len(g[1])},
                                                     b \in {0} \cup {g[2][k] : k \in 1..Len(g[2])}}
                 ELSE {<<a, b, c>> : a \in {0} \cup {g[1][k] : k \in 1..Len(g[1])},
                                     b \in {0} \cup {g[2][k] : k \in 1..Len(g[2])},
                                     c \in {0} \cup {g[3][k] : k \in 1..Len(g[3])}}
\* a set of naturals as an ascending sequence
RECURSIVE AscSeq(_)
AscSeq(Sx) == IF Sx = {} THEN <<>> ELSE LET m == CHOOSE x \in Sx : \A y \in Sx : x <= y IN <<m>> \o AscSeq(Sx \ {m})

(* ---------- combination of two grids ---------- *)
SetOf(l) == {l[k] : k \in 1..Len(l)}
Union(ga, gb) == [p \in 1..Len(ga) |-> AscSeq(SetOf(ga[p]) \cup SetOf(gb[p]))]
InGrid(g, c) == \A p \in 1..Len(g) : c[p] \in SetOf(g[p])
IndexOf(g, c) == CHOOSE i \in 1..NumVar(g) : ComboAt(g, i) = c
\* for every combination of the union: the indexes (0 = absent) of the operands' results that stand for it
CombineExp(ga, gb) == LET u == Union(ga, gb) IN
   [i \in 1..NumVar(u) |-> LET c == ComboAt(u, i) IN
       [combo |-> c, a |-> IF InGrid(ga, c) THEN IndexOf(ga, c) ELSE 0, b |-> IF InGrid(gb, c) THEN IndexOf(gb, c) ELSE 0]]
\* law: every result of either operand is used exactly once (combinations of the union grid that
\* neither operand simulated hold a result without observations)
CombineLaw(ga, gb) == LET e == CombineExp(ga, gb) IN
   /\ \A i \in 1..NumVar(ga) : Cardinality({k \in DOMAIN e : e[k].a = i}) = 1
   /\ \A i \in 1..NumVar(gb) : Cardinality({k \in DOMAIN e : e[k].b = i}) = 1

\* three operands: combine(combine(a, b), c) and combine(a, combine(b, c)) must both give, per combination of the
\* union of the three grids, the merge of the operands' results for that combination in the order a, b, c
CombineExp3(ga, gb, gc) == LET u == Union(Union(ga, gb), gc) IN
   [i \in 1..NumVar(u) |-> LET c == ComboAt(u, i) IN
       [combo |-> c, a |-> IF InGrid(ga, c) THEN IndexOf(ga, c) ELSE 0, b |-> IF InGrid(gb, c) THEN IndexOf(gb, c) ELSE 0,
        c |-> IF InGrid(gc, c) THEN IndexOf(gc, c) ELSE 0]]
CombineLaw3(ga, gb, gc) == LET e == CombineExp3(ga, gb, gc) IN
   /\ Union(Union(ga, gb), gc) = Union(ga, Union(gb, gc))
   /\ \A i \in 1..NumVar(ga) : Cardinality({k \in DOMAIN e : e[k].a = i}) = 1
   /\ \A i \in 1..NumVar(gb) : Cardinality({k \in DOMAIN e : e[k].b = i}) = 1
   /\ \A i \in 1..NumVar(gc) : Cardinality({k \in DOMAIN e : e[k].c = i}) = 1

=============================================================================
