------------------------------- MODULE Runner -------------------------------
(* C05 - the Monte-Carlo runner runs exactly the requested repetitions per variation.

   pyphysim.simulations.runner.SimulationRunner.simulate(), one action per step of
   `_simulate_serially_*` / `_simulate_for_current_params_common`:

     SimStart   clear(), setup                       (repeated simulate() calls: nsim)
     VarStart   next combination of the unpacked parameters (row-major over sorted names)
     FirstRep   the repetition the code runs before its loop
     Test       the loop guard  _keep_going(params, merged results, rep) and rep < rep_max
     Body       one more call of the user's iteration: merged (rep+1) or skipped (SkipThisOne)
     VarEnd     runned_reps.append(rep); results.append_all_results(...)
     SimEnd

   The user's side is data chosen in Init, so that one TLC run covers the whole family:
     plan[v].kg    the stop rule of variation v, a function of (repetitions merged, skips seen):
                   <<"always">> | <<"stopAt", t>> | <<"noSkip">> (stop once a skip was counted)
     plan[v].skip  the attempts of variation v that raise SkipThisOne
   For a deterministic user iteration every `_keep_going` predicate is such a function; the
   behaviour is then a single chain and `Emit` prints its summary at the end.

   Tokens: the attempt number identifies a call; `merged` is the set of attempts whose result was
   merged into the stored result of the variation.                                            *)
EXTENDS ParamsLib, TLC, Emit

CONSTANTS GridLens,   \* set of grids, each a sequence of value-list lengths, e.g. {<<>>, <<2>>, <<2,2>>}
          RepMaxes,   \* set of repetition limits
          KGKinds,    \* set of stop rules
          SkipSets,   \* set of skip patterns (sets of attempt numbers)
          Modes,      \* set of modes: <<"all">> or <<"single", index>>
          MaxSim,     \* number of simulate() calls on the same runner
          Exhaustive, \* maximal NV for which all per-variation plan assignments are enumerated
          ErrAt,      \* set of <<variation, attempt>>: the user's iteration raises an (arithmetic) error there; simulate()
                      \* must let it out - nothing is skipped over, no result list is left one short
          Dev         \* [FirstRepSkipEscapes, SkipCounted, GuardLE, OrderByInsertion : BOOLEAN]

VARIABLES cfg, phase, v, rep, att, skips, merged, calls, tests, runned, stored, nsim, rmax
vars == <<cfg, phase, v, rep, att, skips, merged, calls, tests, runned, stored, nsim, rmax>>

\* value lists are prefixes of a NON-sorted list, so that "order of the list" differs from "sorted values"
BaseList == <<2, 1, 3>>
GridOf(lens) == [p \in 1..Len(lens) |-> SubSeq(BaseList, 1, lens[p])]
NVof(lens) == NumVar(GridOf(lens))
Plans == {[kg |-> k, skip |-> s] : k \in KGKinds, s \in SkipSets}
\* a fixed enumeration of Plans used to assign plans cyclically when NV is large
PlanSeq == LET RECURSIVE Ord(_)
               Ord(Ps) == IF Ps = {} THEN <<>> ELSE LET x == CHOOSE y \in Ps : TRUE IN <<x>> \o Ord(Ps \ {x})
           IN Ord(Plans)
PlanAssignments(nv) ==
   IF nv <= Exhaustive THEN [1..nv -> Plans]
   ELSE {[i \in 1..nv |-> PlanSeq[((i * 3 + off) % Len(PlanSeq)) + 1]] : off \in 0..(Len(PlanSeq) - 1)}

KG(pl, r, sk) == CASE pl.kg[1] = "always" -> TRUE
                   [] pl.kg[1] = "stopAt" -> r < pl.kg[2]
                   [] pl.kg[1] = "noSkip" -> sk = 0

NV == NVof(cfg.lens)
Plan == cfg.plan[v]
Single == cfg.mode[1] = "single"

\* the user may change rep_max between two simulate() calls on the same runner: repmax, then repmax2
Init == /\ \E l \in GridLens, r \in RepMaxes, r2 \in RepMaxes, m \in Modes : \E p \in PlanAssignments(NVof(l)) :
             /\ cfg = [lens |-> l, repmax |-> r, repmax2 |-> r2, plan |-> p, mode |-> m]
             /\ (MaxSim = 1 => r2 = r)
             /\ \A i \in DOMAIN p : p[i].kg[1] = "stopAt" => p[i].kg[2] <= r2
             /\ (m[1] = "single" => m[2] \in 1..NVof(l))
             /\ \A i \in DOMAIN p : p[i].kg[1] = "stopAt" => p[i].kg[2] <= r
        /\ phase = "idle" /\ v = 0 /\ rep = 0 /\ att = 0 /\ skips = 0 /\ merged = {}
        /\ calls = <<>> /\ tests = <<>> /\ runned = <<>> /\ stored = <<>> /\ nsim = 0 /\ rmax = 0

SimStart ==
  /\ phase \in {"idle", "done"} /\ nsim < MaxSim
  /\ rmax' = IF nsim = 0 THEN cfg.repmax ELSE cfg.repmax2
  /\ nsim' = nsim + 1 /\ runned' = <<>> /\ stored' = <<>> /\ tests' = <<>>
  /\ v' = IF Single THEN cfg.mode[2] ELSE 1
  \* the user's hooks are part of "the documented order": _on_simulate_start, then per combination
  \* _on_simulate_current_params_start ... iterations ... _on_simulate_current_params_finish, then _on_simulate_finish
  \* (which a single-variation run does not call); they are logged in `calls` with attempt number 0
  /\ calls' = << <<0, 0, "simstart">>, <<v', 0, "start">> >>
  /\ phase' = "first" /\ rep' = 0 /\ att' = 0 /\ skips' = 0 /\ merged' = {}
  /\ UNCHANGED cfg

\* the first repetition of a variation (run before the loop)
FirstRep ==
  /\ phase = "first"
  /\ att' = att + 1
  /\ IF <<v, att + 1>> \in ErrAt
       THEN /\ calls' = Append(calls, <<v, att + 1, "raise">>) /\ phase' = "raised" /\ UNCHANGED <<skips, rep, merged>>
     ELSE IF att + 1 \in Plan.skip
       THEN /\ calls' = Append(calls, <<v, att + 1, "skip">>)
            /\ IF Dev.FirstRepSkipEscapes
                 THEN phase' = "escaped" /\ UNCHANGED <<skips, rep, merged>>
                 ELSE phase' = "first" /\ skips' = skips + 1 /\ UNCHANGED <<rep, merged>>
       ELSE /\ calls' = Append(calls, <<v, att + 1, "ok">>)
            /\ merged' = {att + 1} /\ rep' = 1 /\ phase' = "test" /\ UNCHANGED skips
  /\ UNCHANGED <<cfg, v, tests, runned, stored, nsim, rmax>>

\* while self._keep_going(params, results, rep) and rep < rep_max
Test ==
  /\ phase = "test"
  \* the predicate is handed the MERGED results of the variation so far (attempts merged, ascending)
  /\ tests' = Append(tests, <<v, rep, skips, AscSeq(merged)>>)
  /\ phase' = IF KG(Plan, rep, skips) /\ (IF Dev.GuardLE THEN rep <= rmax ELSE rep < rmax)
                THEN "body" ELSE "end"
  /\ UNCHANGED <<cfg, v, rep, att, skips, merged, calls, runned, stored, nsim, rmax>>

Body ==
  /\ phase = "body"
  /\ att' = att + 1
  /\ IF <<v, att + 1>> \in ErrAt
       THEN /\ calls' = Append(calls, <<v, att + 1, "raise">>) /\ phase' = "raised" /\ UNCHANGED <<skips, rep, merged>>
     ELSE /\ phase' = "test"
          /\ IF att + 1 \in Plan.skip
               THEN /\ calls' = Append(calls, <<v, att + 1, "skip">>)
                    /\ skips' = skips + 1
                    /\ IF Dev.SkipCounted THEN rep' = rep + 1 ELSE UNCHANGED rep
                    /\ UNCHANGED merged
               ELSE /\ calls' = Append(calls, <<v, att + 1, "ok">>)
                    /\ merged' = merged \cup {att + 1} /\ rep' = rep + 1 /\ UNCHANGED skips
  /\ UNCHANGED <<cfg, v, tests, runned, stored, nsim, rmax>>

VarEnd ==
  /\ phase = "end"
  /\ runned' = Append(runned, rep)
  /\ stored' = Append(stored, [v |-> v, merged |-> merged, skips |-> skips, rep |-> rep])
  /\ IF ~Single /\ v < NV
       THEN /\ v' = v + 1 /\ phase' = "first" /\ rep' = 0 /\ att' = 0 /\ skips' = 0 /\ merged' = {}
            /\ calls' = calls \o << <<v, 0, "finish">>, <<v + 1, 0, "start">> >>
       ELSE /\ phase' = "done" /\ UNCHANGED <<v, rep, att, skips, merged>>
            /\ calls' = calls \o (IF Single THEN << <<v, 0, "finish">> >> ELSE << <<v, 0, "finish">>, <<0, 0, "simfinish">> >>)
  /\ UNCHANGED <<cfg, tests, nsim, rmax>>

Next == SimStart \/ FirstRep \/ Test \/ Body \/ VarEnd
Spec == Init /\ [][Next]_vars

(* ------------------------------ properties ----------------------------------------------- *)
InLoop == phase \in {"test", "body", "end"}
RepIsMergedCount == InLoop => rep = Cardinality(merged)
NoSkipMerged     == v \in DOMAIN cfg.plan => merged \cap Plan.skip = {}
NoOverrun        == rep <= rmax
AttemptsAccounted == InLoop => (att = rep + skips /\ merged \cup (Plan.skip \cap 1..att) = 1..att)
StopReason       == phase = "end" => (rep = rmax \/ ~KG(Plan, rep, skips))
NoEscape         == phase # "escaped"
\* an attempt beyond the first happens only right after a positive test
BodyOnlyAfterPositiveTest ==
  [][(att' = att + 1 /\ phase = "body") => (KG(Plan, rep, skips) /\ rep < rmax)]_vars
\* at the end: every variation was run once, in row-major order, and its stored result is what was merged
Complete == phase = "done" =>
              /\ Len(stored) = (IF Single THEN 1 ELSE NV) /\ Len(runned) = Len(stored)
              /\ \A i \in 1..Len(stored) : /\ stored[i].v = (IF Single THEN cfg.mode[2] ELSE i)
                                           /\ runned[i] = Cardinality(stored[i].merged)
\* calls are grouped by variation, in increasing variation order, attempts numbered 1,2,3...
IsIter(c) == c[3] \in {"ok", "skip", "raise"}
Iters == SelectSeq(calls, IsIter)
CallOrder == \A i \in 1..(Len(Iters) - 1) :
               \/ (Iters[i + 1][1] = Iters[i][1] /\ Iters[i + 1][2] = Iters[i][2] + 1)
               \/ (Iters[i + 1][1] = Iters[i][1] + 1 /\ Iters[i + 1][2] = 1)
\* hooks bracket the iterations of their combination: an iteration of v lies between <<v, 0, "start">> and <<v, 0, "finish">>
HookOrder == \A i \in 1..Len(calls) : IsIter(calls[i]) =>
               /\ \E j \in 1..(i - 1) : calls[j] = <<calls[i][1], 0, "start">>
               /\ \A j \in 1..(i - 1) : calls[j] # <<calls[i][1], 0, "finish">>

(* ------------------------------ emission ------------------------------------------------- *)
\* one summary per complete simulate() call (deterministic chain)
Emit == (phase' \in {"done", "escaped", "raised"} /\ phase # phase') =>
           EmitCase([cfg |-> [lens |-> cfg.lens, repmax |-> cfg.repmax, repmax2 |-> cfg.repmax2, mode |-> cfg.mode,
                              plan |-> [i \in DOMAIN cfg.plan |-> [kg |-> cfg.plan[i].kg, skip |-> cfg.plan[i].skip]]],
                     grid |-> GridOf(cfg.lens), combos |-> Combos(GridOf(cfg.lens)),
                     nsim |-> nsim, outcome |-> phase', calls |-> calls', tests |-> tests',
                     runned |-> runned', stored |-> stored'])
=============================================================================
