---------------------------- MODULE Trace_Runner ----------------------------
(* Stage T for C05: traces recorded from real SimulationRunner objects (arbitrary, also random,
   stop rules and skip patterns - not only the family Runner.tla enumerates) are validated against
   the runner machine.  The stop rule is not known to the specification: the `test` event carries
   the value the user's `_keep_going` returned, and the machine checks that the runner acted on it
   exactly as Runner.tla's Test/Body/VarEnd prescribe.

   All traces of a run are validated in one TLC invocation: `tid` is chosen in Init, each step
   consumes one event; the first event the machine cannot explain is recorded in `mismatch`
   (trace id, event index, reason) and reported through the invariant Conforms.               *)
EXTENDS Integers, Sequences, TLC, Json, IOUtils

Traces == JsonDeserialize(IOEnv.TRACE_FILE)

VARIABLES tid, i, phase, v, rep, att, skips, nmerged, runned, mismatch
vars == <<tid, i, phase, v, rep, att, skips, nmerged, runned, mismatch>>

T == Traces[tid]
Ev == T.events[i]

Init == /\ tid \in 1..Len(Traces) /\ i = 1 /\ phase = "first" /\ v = 1 /\ rep = 0 /\ att = 0 /\ skips = 0
        /\ nmerged = 0 /\ runned = <<>> /\ mismatch = <<>>

Fail(why) == /\ mismatch' = <<tid, i, why>> /\ UNCHANGED <<tid, i, phase, v, rep, att, skips, nmerged, runned>>
Advance == i' = i + 1 /\ UNCHANGED <<tid, mismatch>>

\* a call of the user's iteration
OnCall ==
  /\ Ev.e = "call"
  /\ IF Ev.v # v THEN Fail("call for another variation than the current one")
     ELSE IF Ev.a # att + 1 THEN Fail("attempt numbers are not consecutive")
     ELSE IF phase \notin {"first", "body"} THEN Fail("iteration called without a positive loop test")
     ELSE /\ Advance /\ att' = att + 1
          /\ IF Ev.ok
               THEN /\ rep' = rep + 1 /\ nmerged' = nmerged + 1 /\ phase' = "test" /\ UNCHANGED skips
               ELSE /\ skips' = skips + 1 /\ UNCHANGED <<rep, nmerged>>
                    /\ phase' = IF phase = "first" THEN "first" ELSE "test"
          /\ UNCHANGED <<v, runned>>

\* the loop guard: the user's predicate was consulted with (rep, skips) and returned Ev.ret
OnTest ==
  /\ Ev.e = "test"
  /\ IF phase # "test" THEN Fail("_keep_going consulted outside the loop test")
     ELSE IF Ev.v # v \/ Ev.r # rep \/ Ev.s # skips THEN Fail("_keep_going saw other (variation, rep, skips) than the machine state")
     ELSE /\ Advance
          /\ phase' = IF Ev.ret /\ rep < T.repmax THEN "body" ELSE "end"
          /\ UNCHANGED <<v, rep, att, skips, nmerged, runned>>

\* end of a variation: reported repetition count and number of merged results
OnVarEnd ==
  /\ Ev.e = "varend"
  /\ IF phase = "test" /\ rep >= T.repmax
       THEN \* the guard `keep_going(...) and rep < rep_max` is allowed to short-circuit
            Fail("loop left without consulting the stop rule")
     ELSE IF phase # "end" THEN Fail("variation finished although the loop test was positive")
     ELSE IF Ev.v # v \/ Ev.r # rep THEN Fail("reported repetitions differ from the successful calls")
     ELSE IF Ev.m # nmerged THEN Fail("stored result is not the merge of exactly the successful repetitions")
     ELSE IF Ev.s # skips THEN Fail("skip count differs")
     ELSE /\ Advance /\ runned' = Append(runned, rep)
          /\ v' = v + 1 /\ phase' = "first" /\ rep' = 0 /\ att' = 0 /\ skips' = 0 /\ nmerged' = 0

OnSimEnd ==
  /\ Ev.e = "simend"
  /\ IF phase # "first" \/ att # 0 THEN Fail("simulation ended inside a variation")
     ELSE IF v # T.nv + 1 THEN Fail("not every variation was simulated")
     ELSE IF Ev.runned # runned THEN Fail("runned_reps differs from the per-variation repetition counts")
     ELSE /\ Advance /\ phase' = "done" /\ UNCHANGED <<v, rep, att, skips, nmerged, runned>>

Done == /\ i > Len(T.events) /\ UNCHANGED vars

Next == IF mismatch # <<>> \/ i > Len(T.events) THEN Done
        ELSE OnCall \/ OnTest \/ OnVarEnd \/ OnSimEnd

Conforms == mismatch = <<>>
\* the properties of Runner.tla, evaluated on every state of every recorded run
RepIsMergedCount == rep = nmerged
NoOverrun == rep <= T.repmax
AttemptsAccounted == att = rep + skips
Finished == (i > Len(T.events) /\ mismatch = <<>>) => phase = "done"
=============================================================================
