------------------------------- MODULE Persist -------------------------------
(* C07 - a simulation stopped at any point resumes without losing or double-counting work.

   SimulationRunner.simulate() with a results file name, the files it writes, and a process
   boundary.  One action per step that a crash can separate:

     Load        load_partial_results(variation): absent / whole (same parameters) / whole (other
                 parameters -> refused with an error) / torn (-> the restart fails: must be unreachable)
     First, Test, Body   as in Runner.tla (stop rule "always", no skips)
     SaveBegin / SaveCommit   every save is two steps so that Crash can fall between them:
                 intended design: write a temporary file, then rename (the old file survives a crash);
                 Dev.NonAtomicWrite: truncate and write in place (a crash leaves a torn file)
     MaybeSave   periodic save after a body iteration when rep is a multiple of SavePeriod, or when more
                 than five minutes have passed since the last save (TimerAt)
     VarSave     the save at the end of a variation,  Final  the results file,  Delete  partial files
     Crash       enabled in EVERY non-terminal state; volatile state is lost, files stay
     Restart     a new process: same parameters, or other parameters (must be refused)

   cur[i] = number of repetitions in the current merged result that were executed by incarnation i
   (the harness makes incarnation i's repetitions worth 1000^(i-1), so the stored value reveals it).

   Scale: the code's save period is 500.  The model uses SavePeriod = 3 and the replay maps model
   repetition counts q*3 + m to real counts q*500 + (0, 1, 499)[m]  (a refinement: the real steps in
   between are stuttering steps, no save is due there).                                        *)
EXTENDS Integers, Sequences, FiniteSets, TLC, Emit

CONSTANTS NV, SavePeriod, MaxInc, DeletePartials, AllowMismatch,
          RepMaxSeq, \* rep_max of each incarnation (the user may ask for fewer or more repetitions when running again;
                     \* rep_max is explicitly not one of the parameters that the saved results are compared on)
          AllowRerun,\* a completed simulation whose partial results were kept may be started again (next rep_max)
          TimerAt, \* set of <<variation, rep>>: more than five minutes have passed since the last save when that
                   \* repetition has been merged (the wall-clock half of save_partial_results_maybe)
          Dev      \* [NonAtomicWrite, SaveBeforeIncrement, LoadedMergedTwice, NoParamGuard, TornAccepted : BOOLEAN]

VARIABLES inc, phase, ret, v, rep, cur, disk, final, wr, pid, hist, loaded, nw
vars == <<inc, phase, ret, v, rep, cur, disk, final, wr, pid, hist, loaded, nw>>
RepMax == RepMaxSeq[inc]
RECURSIVE MaxOf(_, _)
MaxOf(sq, k) == IF k = 0 THEN 0 ELSE IF sq[k] > MaxOf(sq, k - 1) THEN sq[k] ELSE MaxOf(sq, k - 1)
MaxRepMax == MaxOf(RepMaxSeq, Len(RepMaxSeq))

Zero == [i \in 1..MaxInc |-> 0]
RECURSIVE SumTo(_, _)
SumTo(c, k) == IF k = 0 THEN 0 ELSE c[k] + SumTo(c, k - 1)
Total(c) == SumTo(c, MaxInc)
NoWr == [f |-> 0]
Terminal == phase \in {"done", "loadfail", "refused"}
Ended == phase \in {"loadfail", "refused"} \/ (phase = "done" /\ ~(AllowRerun /\ ~DeletePartials /\ inc < MaxInc))
\* a file: absent, torn (partly written) or whole with a content
Absent == [kind |-> "absent"]
Torn == [kind |-> "torn"]
Whole(c) == [kind |-> "whole", rep |-> c.rep, cnt |-> c.cnt, pid |-> c.pid]

Init == /\ inc = 1 /\ phase = "load" /\ ret = "none" /\ v = 1 /\ rep = 0 /\ cur = Zero
        /\ disk = [f \in 1..NV |-> Absent] /\ final = Absent /\ wr = NoWr /\ pid = 1
        /\ hist = <<>> /\ loaded = <<>> /\ nw = [f \in 0..NV |-> 0]

\* ---- load_partial_results --------------------------------------------------------------
Load ==
  /\ phase = "load"
  /\ LET f == disk[v] IN
     IF f.kind = "absent" THEN /\ phase' = "first" /\ rep' = 0 /\ cur' = Zero /\ loaded' = Append(loaded, <<inc, v, 0, pid, pid>>)
     ELSE IF f.kind = "torn" THEN
          IF Dev.TornAccepted THEN /\ phase' = "first" /\ rep' = 0 /\ cur' = Zero /\ loaded' = Append(loaded, <<inc, v, 0, pid, pid>>)
          ELSE /\ phase' = "loadfail" /\ UNCHANGED <<rep, cur, loaded>>
     ELSE IF f.pid # pid /\ ~Dev.NoParamGuard THEN /\ phase' = "refused" /\ UNCHANGED <<rep, cur, loaded>>
     ELSE /\ phase' = "test" /\ rep' = f.rep /\ loaded' = Append(loaded, <<inc, v, f.rep, f.pid, pid>>)
          /\ cur' = IF Dev.LoadedMergedTwice THEN [i \in 1..MaxInc |-> 2 * f.cnt[i]] ELSE f.cnt
  /\ UNCHANGED <<inc, ret, v, disk, final, wr, pid, hist, nw>>

OneMore == [cur EXCEPT ![inc] = @ + 1]

First ==
  /\ phase = "first"
  /\ cur' = OneMore /\ rep' = 1 /\ phase' = "test"
  /\ UNCHANGED <<inc, ret, v, disk, final, wr, pid, hist, loaded, nw>>

Test ==
  /\ phase = "test"
  /\ phase' = IF rep < RepMax THEN "body" ELSE "vsave"
  /\ UNCHANGED <<inc, ret, v, rep, cur, disk, final, wr, pid, hist, loaded, nw>>

\* one more repetition merged; then save_partial_results_maybe
Body ==
  /\ phase = "body"
  /\ cur' = OneMore
  /\ rep' = rep + 1
  /\ IF (rep + 1) % SavePeriod = 0 \/ <<v, rep + 1>> \in TimerAt
       THEN /\ phase' = "wbegin" /\ ret' = "test"
            /\ wr' = [f |-> v, c |-> [rep |-> IF Dev.SaveBeforeIncrement THEN rep ELSE rep + 1, cnt |-> cur', pid |-> pid]]
       ELSE /\ phase' = "test" /\ UNCHANGED <<ret, wr>>
  /\ UNCHANGED <<inc, v, disk, final, pid, hist, loaded, nw>>

\* save at the end of the variation
VarSave ==
  /\ phase = "vsave"
  /\ phase' = "wbegin" /\ ret' = "append"
  /\ wr' = [f |-> v, c |-> [rep |-> rep, cnt |-> cur, pid |-> pid]]
  /\ UNCHANGED <<inc, v, rep, cur, disk, final, pid, hist, loaded, nw>>

\* open the file (in place: truncated) or a temporary file
SaveBegin ==
  /\ phase = "wbegin"
  /\ IF Dev.NonAtomicWrite
       THEN IF wr.f = 0 THEN final' = Torn /\ UNCHANGED disk
            ELSE disk' = [disk EXCEPT ![wr.f] = Torn] /\ UNCHANGED final
       ELSE UNCHANGED <<disk, final>>
  /\ phase' = "wcommit"
  /\ UNCHANGED <<inc, ret, v, rep, cur, wr, pid, hist, loaded, nw>>

\* all bytes written and the file closed (or the temporary file renamed over the old one)
SaveCommit ==
  /\ phase = "wcommit"
  /\ IF wr.f = 0 THEN final' = Whole(wr.c) /\ UNCHANGED disk
     ELSE disk' = [disk EXCEPT ![wr.f] = Whole(wr.c)] /\ UNCHANGED final
  /\ phase' = ret /\ wr' = NoWr /\ ret' = "none" /\ nw' = [nw EXCEPT ![wr.f] = @ + 1]
  /\ UNCHANGED <<inc, v, rep, cur, pid, hist, loaded>>

\* results.append_all_results; next variation or the final save
AppendVar ==
  /\ phase = "append"
  /\ hist' = Append(hist, [inc |-> inc, v |-> v, rep |-> rep, cnt |-> cur])
  /\ IF v < NV THEN /\ v' = v + 1 /\ phase' = "load" /\ UNCHANGED <<ret, wr>>
     ELSE /\ phase' = "wbegin" /\ ret' = "delete" /\ UNCHANGED v
          /\ wr' = [f |-> 0, c |-> [rep |-> RepMax, cnt |-> Zero, pid |-> pid]]
  /\ UNCHANGED <<inc, rep, cur, disk, final, pid, loaded, nw>>

Delete ==
  /\ phase = "delete"
  /\ disk' = IF DeletePartials THEN [f \in 1..NV |-> Absent] ELSE disk
  /\ phase' = "done"
  /\ UNCHANGED <<inc, ret, v, rep, cur, final, wr, pid, hist, loaded, nw>>

\* the process dies; what is on disk stays (a file being written in place stays torn)
Crash ==
  /\ ~Terminal /\ phase # "crashed" /\ inc < MaxInc
  /\ phase' = "crashed"
  /\ hist' = Append(hist, [inc |-> inc, v |-> v, crash |-> phase, rep |-> rep, wf |-> wr.f, nw |-> nw[wr.f], ret |-> ret])
  /\ wr' = NoWr /\ ret' = "none"
  /\ UNCHANGED <<inc, v, rep, cur, disk, final, pid, loaded, nw>>

Restart ==
  /\ phase = "crashed"
  /\ inc' = inc + 1 /\ phase' = "load" /\ v' = 1 /\ rep' = 0 /\ cur' = Zero
  /\ \/ pid' = pid
     \/ (AllowMismatch /\ pid = 1 /\ pid' = 2)
  /\ nw' = [f \in 0..NV |-> 0]
  /\ UNCHANGED <<ret, disk, final, wr, hist, loaded>>

\* a completed simulation is started again (same parameters, the next rep_max); its partial results are still there
Rerun ==
  /\ phase = "done" /\ AllowRerun /\ ~DeletePartials /\ inc < MaxInc
  /\ hist' = Append(hist, [inc |-> inc, v |-> 0, crash |-> "rerun", rep |-> 0, wf |-> 0, nw |-> 0, ret |-> "none"])
  /\ inc' = inc + 1 /\ phase' = "load" /\ v' = 1 /\ rep' = 0 /\ cur' = Zero
  /\ nw' = [f \in 0..NV |-> 0]
  /\ UNCHANGED <<ret, disk, final, wr, pid, loaded>>

Next == Load \/ First \/ Test \/ Body \/ VarSave \/ SaveBegin \/ SaveCommit \/ AppendVar \/ Delete \/ Crash \/ Restart \/ Rerun
Spec == Init /\ [][Next]_vars

(* ------------------------------ properties ----------------------------------------------- *)
\* an interruption never leaves behind a file that makes the restart fail
RestartNeverFails == phase # "loadfail"
\* the merged result holds every repetition exactly once
NoDoubleCount == phase \in {"test", "body", "vsave", "append"} => Total(cur) = rep
\* whatever is on disk is a consistent snapshot
WholeFile(f) == f.kind = "whole"
DiskSound == \A f \in 1..NV : WholeFile(disk[f]) => (Total(disk[f].cnt) = disk[f].rep /\ disk[f].rep <= MaxRepMax)
\* only durably saved repetitions of earlier incarnations are used: what is loaded is what the file held
\* and after completion every combination has exactly RepMax repetitions
Variations(h) == {k \in 1..Len(h) : "cnt" \in DOMAIN h[k] /\ h[k].inc = inc}
\* (a combination that already holds more than this incarnation's rep_max keeps what it has: nothing is dropped, nothing is run)
LoadedRep(f) == LET ks == {k \in 1..Len(loaded) : loaded[k][1] = inc /\ loaded[k][2] = f} IN
                IF ks = {} THEN 0 ELSE loaded[CHOOSE k \in ks : TRUE][3]
Want(f) == IF LoadedRep(f) > RepMax THEN LoadedRep(f) ELSE RepMax
ResumeExact == phase = "done" =>
                 /\ \A f \in 1..NV : \E k \in Variations(hist) : hist[k].v = f /\ hist[k].rep = Want(f) /\ Total(hist[k].cnt) = Want(f)
                 /\ WholeFile(final)
\* partial results saved for other parameters are refused, never merged
MismatchRefused == \A k \in 1..Len(loaded) : loaded[k][4] = loaded[k][5]

(* ------------------------------ emission ------------------------------------------------- *)
\* one summary per terminal behaviour
Emit == (phase' \in {"done", "loadfail", "refused"} /\ ~Terminal) =>
          EmitCase([nv |-> NV, repmax |-> RepMaxSeq[inc'], rms |-> RepMaxSeq, period |-> SavePeriod, delete |-> DeletePartials,
                    outcome |-> phase', incs |-> inc', pid |-> pid', hist |-> hist', loaded |-> loaded',
                    last |-> [v |-> v', rep |-> rep', cnt |-> cur']])
=============================================================================
