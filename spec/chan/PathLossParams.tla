--------------------------- MODULE PathLossParams ---------------------------
(* Constant-free part of the C13 specification, shared by PathLoss.tla (lattice machine) and
   Trace_PathLoss.tla (validation of recorded histories with arbitrary rational parameters):

   * overflow-careful rational arithmetic (lcm based sum, cross-cancelling product; sign by
     subtraction instead of cross multiplication) - dB values have denominators up to 10^5;
   * the admissible parameter ranges of every model, written from the class documentation
     (pathloss.py docstrings: "Height of the Base Station -> 30m to 200m", "Mobile Station
     1m to 10m", "150MHz to 1500MHz", the four area types; free space / METIS: a carrier
     frequency is a positive number; a path-loss exponent is positive).                       *)
EXTENDS Integers, Sequences, Rat

LAdd(a, b) == LET g == Gcd(a[2], b[2])
              IN  RNorm(a[1] * (b[2] \div g) + b[1] * (a[2] \div g), (a[2] \div g) * b[2])
LSub(a, b) == LAdd(a, RNeg(b))
LMul(a, b) == IF a[1] = 0 \/ b[1] = 0 THEN RZero
              ELSE LET g1 == Gcd(Abs(a[1]), b[2])
                       g2 == Gcd(Abs(b[1]), a[2])
                   IN  <<(a[1] \div g1) * (b[1] \div g2), (a[2] \div g2) * (b[2] \div g1)>>
LDiv(a, b) == LMul(a, IF b[1] < 0 THEN <<-b[2], -b[1]>> ELSE <<b[2], b[1]>>)      \* b # 0
LLe(a, b)  == RSgn(LSub(b, a)) >= 0
LLt(a, b)  == RSgn(LSub(b, a)) > 0
IsInt(a)   == a[2] = 1

RECURSIVE IPow10(_)
IPow10(j)  == IF j = 0 THEN 1 ELSE 10 * IPow10(j - 1)
Pow10(j)   == IF j >= 0 THEN <<IPow10(j), 1>> ELSE <<1, IPow10(-j)>>

(* ------------------------------ admissible parameter values ------------------------------ *)
AreaTypes == {"open", "suburban", "medium city", "large city"}

\* does the setter `op` of model `m` accept the (rational or string) value v ?
Accepts(m, op, v) ==
  CASE op = "SetPol"  -> TRUE
    [] op = "SetShadow" -> TRUE
    [] op = "Plot"      -> TRUE
    [] op \in {"ByConstruct", "BySetPol", "BySetShadow"} -> TRUE      \* steps of another live object (bystander)
    [] op = "SetSigma"  -> RSgn(v) >= 0
    [] op = "SetN"    -> RSgn(v) > 0
    [] op = "SetFc"   -> IF m = "hata" THEN LLe(R(150), v) /\ LLe(v, R(1500)) ELSE RSgn(v) > 0
    [] op = "SetHbs"  -> LLe(R(30), v) /\ LLe(v, R(200))
    [] op = "SetHms"  -> LLe(R(1), v) /\ LLe(v, R(10))
    [] op = "SetArea" -> v \in AreaTypes

\* setters each model offers (public attributes / properties of the class)
Common == {"SetPol", "SetShadow", "SetSigma", "Plot", "ByConstruct", "BySetPol", "BySetShadow"}      \* "Plot": the plot helper, a query (no parameter changes)
Offers(m) ==
  CASE m = "freespace" -> Common \cup {"SetN", "SetFc"}
    [] m = "metis"     -> Common \cup {"SetFc"}
    [] m = "hata"      -> Common \cup {"SetFc", "SetHbs", "SetHms", "SetArea"}
    [] OTHER           -> Common
=============================================================================
