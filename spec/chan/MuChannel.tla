----------------------------- MODULE MuChannel -----------------------------
(* C08 - views of a multi-user channel matrix stay coherent across any sequence of updates.

   One machine for pyphysim.channels.multiuser.MultiUserChannelMatrix (Ext = FALSE) and
   MultiUserChannelMatrixExtInt (Ext = TRUE).  The state is implementation shaped: the
   primary inputs (antenna split, raw channel, path loss, noise variance, post filter) and
   the lazily filled caches of the code (_H_with_pathloss, _big_H_with_pathloss,
   _pathloss_big_matrix, _big_W), each holding a *snapshot* of the primary inputs it was
   computed from.  One action per public mutator / reader.

   What the property demands is a pure function of the primary state (`ExpSrc`): every
   reader must return the view of the CURRENT raw channel, CURRENT split and CURRENT path
   loss.  `Coherent` and `ReceiveLaw` compare what the machine returns with that.

   Named deviations (fields of Dev) switch single steps of the machine to what the code did before
   it was repaired / to a plausible regression; with all flags FALSE the invariants hold.  *)
EXTENDS Integers, Sequences, FiniteSets, TLC, Emit, Rat

CONSTANTS Ext,      \* BOOLEAN
          Splits,   \* sequence of [nr, nt, nte : Seq(Nat \ {0})]  (nte = <<>> iff ~Ext)
          NPl,      \* number of path-loss matrices 1..NPl  (0 = no path loss)
          NFilt,    \* number of post-filter sets 1..NFilt  (0 = no filter)
          NData,    \* number of data blocks for Corrupt
          Acts,     \* enabled action names
          Dev       \* [name |-> BOOLEAN]

NS == Len(Splits)
KOf(s)   == Len(Splits[s].nr)
RECURSIVE SumSeq(_)
SumSeq(q) == IF q = <<>> THEN 0 ELSE Head(q) + SumSeq(Tail(q))
Rows(s)  == SumSeq(Splits[s].nr)
Cols(s)  == SumSeq(Splits[s].nt) + SumSeq(Splits[s].nte)

(* ---------------- exact content of the views (the oracle the replay multiplies with) ------------- *)
\* Path loss p is a POWER relation; amplitudes are rational so that sqrt is exact.
\* Path-loss id 3 has the user part of id 1 and the external-interference part of id 2 (changing only one part).
MainOf(p) == IF p = 3 THEN 1 ELSE p
ExtOf(p)  == IF p = 3 THEN 2 ELSE p
\* (path-loss matrix 2 has one entry that is exactly zero: a link that is completely blocked)
Amp(p, k, l)  == IF p = 0 THEN ROne
                 ELSE IF MainOf(p) = 2 /\ k = 1 /\ l = 2 THEN RZero
                 ELSE <<1, 1 + ((2 * k + 3 * l + MainOf(p)) % 4)>>     \* user l -> user k
AmpE(p, k, e) == IF p = 0 THEN ROne ELSE <<1, 2 + ((k + 2 * e + ExtOf(p)) % 3)>>          \* ext source e -> user k
PlMain(p, s)  == [k \in 1..KOf(s) |-> [l \in 1..KOf(s) |-> RSq(Amp(p, k, l))]]
PlExt(p, s)   == [k \in 1..KOf(s) |-> [e \in 1..Len(Splits[s].nte) |-> RSq(AmpE(p, k, e))]]

\* owner of antenna index i (1-based) in a sequence of antenna counts
RECURSIVE OwnerOf(_, _, _)
OwnerOf(counts, i, u) == IF i <= counts[u] THEN u ELSE OwnerOf(counts, i - counts[u], u + 1)
Owner(counts, i) == OwnerOf(counts, i, 1)

\* Per-antenna amplitude matrix for path loss p when the channel has split s: what must
\* multiply the raw matrix element-wise.
AmpBig(p, s) ==
  LET nr == Splits[s].nr  nt == Splits[s].nt  nte == Splits[s].nte  nT == SumSeq(nt)
  IN [i \in 1..Rows(s) |-> [j \in 1..Cols(s) |->
        IF j <= nT THEN Amp(p, Owner(nr, i), Owner(nt, j))
                   ELSE AmpE(p, Owner(nr, i), Owner(nte, j - nT))]]

(* ---------------------------------------- state ------------------------------------------------- *)
VARIABLES inited, split, pl, plBig, cH, cBigH, noise, filt, cBigW, lastNoise, ret
vars == <<inited, split, pl, plBig, cH, cBigH, noise, filt, cBigW, lastNoise, ret>>

\* A snapshot says which inputs a value was computed from:
\*   <<rawTag, s, p, es>>: raw channel ("cur" | "old"), split s, path loss p, expanded for split es
NoneC == <<"none">>
Snap(rawTag, s, p, es) == <<rawTag, s, p, IF p = 0 THEN s ELSE es>>
ExpSrc == Snap("cur", split, pl, split)              \* what the property demands of every view
Age(c) == IF c = NoneC THEN c ELSE <<"old", c[2], c[3], c[4]>>
NoRet == [op |-> "none", a |-> <<>>]

Init == /\ inited = FALSE /\ split = 1 /\ pl = 0 /\ plBig = <<0, 1>> /\ cH = NoneC /\ cBigH = NoneC
        /\ noise = "none" /\ filt = <<0, 1>> /\ cBigW = <<0, 1>> /\ lastNoise = "none" /\ ret = NoRet

(* ---------------------------------------- mutators ---------------------------------------------- *)
\* randomize(Nr, Nt, K[, NtE]) and init_from_channel_matrix(M, Nr, Nt, K[, NtE]): new raw channel,
\* possibly another antenna split.  The number of users / external sources may only change while no
\* path loss is set (a K x K path-loss matrix has no meaning for another K).
NewChannel(s, how) ==
  /\ how \in Acts
  \* (a path loss / post filters may have been set BEFORE the first channel exists: they are dimensioned like split 1)
  /\ (KOf(s) = KOf(split) /\ Len(Splits[s].nte) = Len(Splits[split].nte)) \/ pl = 0
  /\ filt[1] = 0 \/ Splits[s].nr = Splits[filt[2]].nr \/ "Corrupt" \notin Acts
  /\ inited' = TRUE /\ split' = s
  /\ cH'    = IF Dev.NewChannelKeepsCache THEN Age(cH) ELSE NoneC
  /\ cBigH' = IF Dev.NewChannelKeepsCache THEN Age(cBigH) ELSE NoneC
  /\ ret' = [op |-> how, a |-> <<s>>]
  /\ UNCHANGED <<pl, plBig, noise, filt, cBigW, lastNoise>>
Randomize(s) == NewChannel(s, "Randomize")
InitFrom(s)  == NewChannel(s, "InitFrom")

\* set_pathloss(matrix | None [, ext_int_pathloss])
SetPathloss(p) ==
  /\ "SetPathloss" \in Acts
  /\ pl' = p
  /\ plBig' = <<p, IF inited THEN split ELSE 0>>       \* 0: expanded while no channel (no antennas) existed
  /\ IF Ext /\ Dev.ExtIntSetPathlossKeepsCache
       THEN UNCHANGED <<cH, cBigH>>
       ELSE cH' = NoneC /\ cBigH' = NoneC
  /\ ret' = [op |-> "SetPathloss", a |-> <<p>>]
  /\ UNCHANGED <<inited, split, noise, filt, cBigW, lastNoise>>

SetNoiseVar(n) ==
  /\ "SetNoiseVar" \in Acts
  /\ noise' = n /\ ret' = [op |-> "SetNoiseVar", a |-> <<n>>]
  /\ UNCHANGED <<inited, split, pl, plBig, cH, cBigH, filt, cBigW, lastNoise>>

\* set_post_filter(filters): filter set f built for the current receive antennas (0 = None)
SetPostFilter(f) ==
  /\ "SetPostFilter" \in Acts
  /\ filt' = <<f, split>>
  /\ cBigW' = IF Dev.SetPostFilterKeepsBigW THEN cBigW ELSE <<0, split>>
  /\ ret' = [op |-> "SetPostFilter", a |-> <<f>>]
  /\ UNCHANGED <<inited, split, pl, plBig, cH, cBigH, noise, lastNoise>>

\* Rejected calls: init_from_channel_matrix with a matrix of the right shape but Nr / Nt that do not have K entries
\* (ValueError), noise_var = negative value (AssertionError).  Nothing may change.
Rejected(kind) ==
  /\ "Rejected" \in Acts /\ inited
  /\ ret' = [op |-> "Rejected", a |-> <<kind>>]
  /\ UNCHANGED <<inited, split, pl, plBig, cH, cBigH, noise, filt, cBigW, lastNoise>>

(* ---------------------------------------- readers ----------------------------------------------- *)
\* H getter of the base class (fills _H_with_pathloss); the ExtInt class overrides H without a cache.
BaseH == IF pl = 0 THEN [c |-> cH, v |-> Snap("cur", split, 0, split)]
         ELSE IF cH = NoneC THEN [c |-> Snap("cur", split, pl, split), v |-> Snap("cur", split, pl, split)]
         ELSE [c |-> cH, v |-> cH]
ViewH == IF Ext THEN [c |-> cH, v |-> Snap("cur", split, pl, split)] ELSE BaseH

\* big_H getter (fills _big_H_with_pathloss from _pathloss_big_matrix, which is rebuilt for the
\* current antenna split at fill time)
FillSplit == IF Dev.PlBigNotRebuiltOnResize THEN plBig[2] ELSE split
ViewBigH == IF pl = 0 THEN [c |-> cBigH, v |-> Snap("cur", split, 0, split)]
            ELSE IF cBigH = NoneC THEN [c |-> Snap("cur", split, pl, FillSplit), v |-> Snap("cur", split, pl, FillSplit)]
            ELSE [c |-> cBigH, v |-> cBigH]

Reader(name, viaBig, viaBaseH, idx) ==
  /\ name \in Acts /\ inited
  /\ IF viaBig
       THEN /\ cBigH' = ViewBigH.c /\ UNCHANGED cH
            /\ ret' = [op |-> name, a |-> idx, src |-> ViewBigH.v]
       ELSE LET w == IF viaBaseH THEN BaseH ELSE ViewH IN
            /\ cH' = w.c /\ UNCHANGED cBigH
            /\ ret' = [op |-> name, a |-> idx, src |-> w.v]
  /\ UNCHANGED <<inited, split, pl, plBig, noise, filt, cBigW, lastNoise>>

K == KOf(split)
ReadH      == Reader("ReadH", FALSE, FALSE, <<>>)
ReadBigH   == Reader("ReadBigH", TRUE, FALSE, <<>>)
GetHkl     == \E k \in 1..K, l \in 1..K : Reader("GetHkl", FALSE, FALSE, <<k, l>>)
GetHk      == \E k \in 1..K : Reader("GetHk", TRUE, FALSE, <<k>>)
\* ExtInt only
BigHNoExt  == Ext /\ Reader("BigHNoExt", TRUE, FALSE, <<>>)
HNoExt     == Ext /\ Reader("HNoExt", FALSE, ~Dev.HNoExtViaOverride, <<>>)
GetHkNoExt == Ext /\ \E k \in 1..K : Reader("GetHkNoExt", TRUE, FALSE, <<k>>)
\* get_Hk_with_ext_int: bypasses the subclass and slices the base class's big_H
GetHkWithExt == Ext /\ \E k \in 1..K : Reader("GetHkWithExt", TRUE, FALSE, <<k>>)

\* corrupt_data(data[, ext_int_data]): big_H . x + noise, filtered by big_W^H, split by Nr
Corrupt(d) ==
  /\ "Corrupt" \in Acts /\ inited
  /\ filt[1] = 0 \/ Splits[filt[2]].nr = Splits[split].nr
  /\ cBigH' = ViewBigH.c
  /\ lastNoise' = IF noise = "none" THEN "none" ELSE "arr"
  /\ cBigW' = IF cBigW[1] = 0 /\ filt[1] # 0 THEN filt ELSE cBigW
  /\ ret' = [op |-> "Corrupt", a |-> <<d>>, src |-> ViewBigH.v, noise |-> lastNoise',
             filt |-> cBigW'[1], splitBy |-> split]
  /\ UNCHANGED <<inited, split, pl, plBig, cH, noise, filt>>

Next ==
  \/ \E s \in 1..NS : Randomize(s) \/ InitFrom(s)
  \/ \E p \in 0..NPl : SetPathloss(p)
  \/ \E n \in {"none", "zero", "pos"} : SetNoiseVar(n)
  \/ \E f \in 0..NFilt : SetPostFilter(f)
  \/ \E kd \in {"initK", "noiseNeg"} : Rejected(kd)
  \/ ReadH \/ ReadBigH \/ GetHkl \/ GetHk \/ BigHNoExt \/ HNoExt \/ GetHkNoExt \/ GetHkWithExt
  \/ \E d \in 1..NData : Corrupt(d)

Spec == Init /\ [][Next]_vars

(* ---------------------------------------- properties -------------------------------------------- *)
TypeOK == /\ inited \in BOOLEAN /\ split \in 1..NS /\ pl \in 0..NPl
          /\ noise \in {"none", "zero", "pos"} /\ lastNoise \in {"none", "arr"}

\* every reader returns the view of the current raw channel under the current path loss
Coherent == "src" \in DOMAIN ret => ret.src = ExpSrc

\* received data = current global matrix x data + reported noise, filtered by the current filters,
\* split by the current receive antenna counts
ReceiveLaw == ret.op = "Corrupt" =>
                 /\ ret.src = ExpSrc
                 /\ ret.filt = filt[1]
                 /\ (ret.noise = "arr") = (noise # "none")
                 /\ ret.splitBy = split

\* a cache never holds anything but the current view (stronger, state-based form)
CachesFresh == /\ cH # NoneC => cH = ExpSrc
               /\ cBigH # NoneC => cBigH = ExpSrc
               /\ cBigW[1] # 0 => cBigW = filt

(* ---------------------------------------- emission ---------------------------------------------- *)
StateRec == [inited |-> inited, split |-> split, pl |-> pl, plBig |-> plBig, cH |-> cH, cBigH |-> cBigH,
             noise |-> noise, filt |-> filt, cBigW |-> cBigW, lastNoise |-> lastNoise]
StateRecP == [inited |-> inited', split |-> split', pl |-> pl', plBig |-> plBig', cH |-> cH', cBigH |-> cBigH',
             noise |-> noise', filt |-> filt', cBigW |-> cBigW', lastNoise |-> lastNoise']
\* expected content of the views in the post-state: the raw matrix times this amplitude matrix
Emit == EmitEdge([pre |-> StateRec, post |-> StateRecP, ret |-> ret',
                  plm |-> IF ret'.op = "SetPathloss" /\ ret'.a[1] # 0
                            THEN [main |-> PlMain(ret'.a[1], split), ext |-> PlExt(ret'.a[1], split)]
                            ELSE [main |-> <<>>, ext |-> <<>>],
                  amp |-> IF pl' # pl \/ split' # split \/ ~inited THEN AmpBig(pl', split') ELSE <<>>])
=============================================================================
