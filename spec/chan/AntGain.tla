------------------------------- MODULE AntGain -------------------------------
(* C13, antenna part - pyphysim.channels.antennagain.

   Sector antenna of 3GPP TR 25.996 (AntGainBS3GPP25996):
       gain(theta) [dB] = G - min( 12 (theta / theta_3dB)^2 , Am ),   -180 <= theta <= 180
       3 sectors: theta_3dB = 70,  Am = 20 dB, G = 14 dBi;   6 sectors: theta_3dB = 35, Am = 23 dB, G = 17 dBi
   Omnidirectional antenna (AntGainOmni): the configured gain (0 dBi when none is given) at every angle.

   The gain is checked for every quarter degree and around the floor crossing; the default constructor is the 3-sector one.
   A "star" model: `Next` picks one case (sector count, integer angle / omni gain), computes the exact
   rational gain in dB and emits it; the laws of the property are invariants evaluated on every case:
   symmetric, maximal at boresight, floored at G - Am (and the floor is reached), omni constant.
   The gain is a FUNCTION of (sector count, angle): the replay issues the angles as one float64 array, requires
   the caller's array to be unchanged by the call, re-uses it (same angles again, negated angles) and requires equal
   results - a query has no effect on its arguments or on later queries.
   DevNoFloor: the pattern without the min(., Am) - must be refuted by `Floored`.              *)
EXTENDS Integers, Sequences, TLC, Emit, PathLossParams

CONSTANTS Step,        \* angle step in HUNDREDTHS of a degree (25 = quarter degrees)
          DevNoFloor, DoEmit

Sectors == {3, 6}
Theta3(s) == IF s = 3 THEN 70 ELSE 35
Am(s)     == IF s = 3 THEN R(20) ELSE R(23)
G(s)      == IF s = 3 THEN R(14) ELSE R(17)
\* angles are rationals t/100 degrees (t an integer): quarter degrees over [-180, 180] plus the hundredths that bracket the
\* point where the parabola meets the floor (theta_3dB sqrt(Am/12) = 90.37 / 48.45 degrees)
Ratio(s, t) == RNorm(t, 100 * Theta3(s))
Parab(s, t) == LMul(R(12), LMul(Ratio(s, t), Ratio(s, t)))
Atten(s, t) == IF DevNoFloor THEN Parab(s, t) ELSE IF LLe(Parab(s, t), Am(s)) THEN Parab(s, t) ELSE Am(s)
GaindB(s, t) == LSub(G(s), Atten(s, t))

Near == {9036, 9037, 9038, 4844, 4845, 4846}
Angles == {t \in -18000..18000 : t % Step = 0} \cup Near \cup {-t : t \in Near}
OmniGains == <<R(0), R(0), R(3), R(-2), RNorm(5, 2)>>      \* entry 1: constructed without a gain (0 dBi)
OmniThetas == <<-180, -90, -1, 0, 1, 45, 180>>

VARIABLES kind, sec, th, og
vars == <<kind, sec, th, og>>
Init == kind = "init" /\ sec = 3 /\ th = 0 /\ og = 1
E(rec) == IF DoEmit THEN EmitCase(rec) ELSE TRUE

Sector(s, t) ==
  /\ kind' = "sector" /\ sec' = s /\ th' = t /\ og' = og
  /\ E([kind |-> "sector", sectors |-> s, theta |-> RNorm(t, 100), gain_dB |-> GaindB(s, t)])
BadSectors(s) ==
  /\ kind' = "badsectors" /\ sec' = s /\ th' = 0 /\ og' = og
  /\ E([kind |-> "badsectors", sectors |-> s])
Omni(i) ==
  /\ kind' = "omni" /\ og' = i /\ sec' = sec /\ th' = th
  /\ E([kind |-> "omni", gain |-> IF i = 1 THEN "none" ELSE OmniGains[i], gain_dB |-> OmniGains[i], thetas |-> OmniThetas])

Next == /\ kind = "init"                                   \* a star: every case is one step from Init
        /\ \/ \E s \in Sectors, t \in Angles : Sector(s, t)
           \/ \E s \in {1, 4} : BadSectors(s)
           \/ \E i \in 1..Len(OmniGains) : Omni(i)

IsSector == kind = "sector"
Symmetric      == IsSector => GaindB(sec, th) = GaindB(sec, -th)
MaxAtBoresight == IsSector => /\ LLe(GaindB(sec, th), GaindB(sec, 0)) /\ GaindB(sec, 0) = G(sec)
                              /\ th # 0 => LLt(GaindB(sec, th), GaindB(sec, 0))
Floored        == IsSector => LLe(LSub(G(sec), Am(sec)), GaindB(sec, th))
FloorReached   == IsSector => /\ LLe(Am(sec), Parab(sec, th)) => GaindB(sec, th) = LSub(G(sec), Am(sec))
                              /\ GaindB(sec, 18000) = LSub(G(sec), Am(sec))
                              \* non-increasing away from boresight
                              /\ (th >= 0 /\ th + Step <= 18000) => LLe(GaindB(sec, th + Step), GaindB(sec, th))
\* (the omni law - same gain at every angle - has no content at model level: the emitted case carries ONE
\*  expected gain for all of OmniThetas and the replay compares every angle, scalar and array, with it)
=============================================================================
