------------------------------- MODULE Jakes -------------------------------
(* C14 - Jakes fading samples do not depend on how generation was chunked.

   One machine for pyphysim.channels.fading_generators.JakesSampleGenerator (Kind = "jakes"; the
   module-level function generate_jakes_samples is the same machine with the position kept by the
   caller) and RayleighSampleGenerator (Kind = "rayleigh": no time, every block is a fresh draw).

   A generator is a record
       cur     position of the machine, in samples (Limb): the code's _current_time / Ts
       served  GHOST: how many samples the callers have asked for so far (generated + skipped) =
               the index the next sample of the process must have.  Never read by the machine.
       ph      which phase draw (_phi_l/_psi_l) the machine uses; draws are numbered globally 1, 2, ..
       phWant  GHOST: the draw the property demands (fixed phases: changes only when the shape is set)
       sh      configured shape as a tuple (<<>> is shape None, <<3>> is shape 3 or (3,))
       buf     identity of the ARRAY that holds `out` (arrays handed out are numbered 1, 2, .. = nbuf: exactly
               the arrays a caller may still hold; in the intended design every block is a new array)
       off     the machine's time is no longer a whole number of sampling intervals (see
               Dev.ArangeStepRounded); FALSE in the intended design
       out     the block get_samples() returns: [first, n, ph, sh, tdim, ongrid]  = sample indexes
               first .. first+n-1 of the process with phases ph, array shape sh \o <<n>> (tdim) or sh;
               ongrid: the samples were taken AT the times k * Ts
   One action per public call: Construct, Generate(n), GenDefault (generate_more_samples() without
   argument), Skip(n), SkipBig(r) (r successive skips of 10^7 samples: positions up to 10^10),
   SetShape(s) (the code redraws the phases for the new dimensions, time goes on, the stored block
   stays), Similar (get_similar_fading_generator: a second, independent generator that starts at
   sample 0).

   What the property demands is written from the ghosts only: a Generate(n) must return exactly the
   indexes served .. served+n-1 (`exp` in the emitted edge), the machine returns what its own
   position gives (`asis`).  With every Dev flag FALSE the two coincide (Count, Contiguity, Aligned,
   PhasesFixed hold); each flag switches one step to what the code does / a plausible regression did
   and TLC must then find the violation.

   Sample VALUES.  The sum of sinusoids has no exact value for generic phases; the replay evaluates it
   numerically at the index TLC emitted ("rel").  For the lattice instance (Lattice = TRUE) all
   angles are multiples of a quarter turn: phi_l = q * pi/2, psi_l = p * pi/2, Fd * Ts = FdQ / 4, so
       sqrt(L) * h(k) = SUM_l  i ^ ((FdQ * cos(phi_l) * k + p_l) mod 4)       (a Gaussian integer)
   is computed exactly here, depends on k mod 4 only, and is emitted as a period table; the replay
   hands these phases to the real code (a table-driven RS / explicit phi_l, psi_l) and compares
   values.  Bound, ZeroDoppler and UnitPower are invariants over these exact values.            *)
EXTENDS Integers, Sequences, FiniteSets, TLC, Emit, Limb

CONSTANTS Kind,        \* "jakes" | "rayleigh" | "funcfresh" (generate_jakes_samples WITHOUT phase arguments: the
                       \* caller keeps the time, every call draws its own phases; no argument at all = 100 samples from t = 0)
          FormSalt,    \* rotates the concrete form in which a shape is handed over (see FormOf)
          GenSizes,    \* request sizes n of Generate(n)
          SkipSizes,   \* sizes n of Skip(n)
          BigReps,     \* repetition counts r of SkipBig(r)
          ShapeSet,    \* shapes offered to SetShape (set of tuples)
          Shape0,      \* set of shapes offered to the constructor
          Warm,        \* set of r: the generator has already run r * 10^7 samples when requests start
          MaxLen,      \* number of requests after construction
          MaxGens,     \* 1: Similar disabled;  2: one sibling may be created
          GenDefault,  \* BOOLEAN: generate_more_samples() without argument is offered
          Lattice,     \* BOOLEAN: exact sample values (quarter-turn phases)
          HalfCos,     \* BOOLEAN (lattice): arrival angles also at 60 degrees (cos phi = +-1/2); needs an even FdQ
          L,           \* number of rays (lattice instance)
          FdQ,         \* Doppler of the lattice instance in quarter turns per sample (0, 1, 2)
          Dev          \* [name |-> BOOLEAN]

VARIABLES gens, draws, nbuf, len, ret
vars == <<gens, draws, nbuf, len, ret>>

Ray   == Kind = "rayleigh"
Fresh == Kind = "funcfresh"
NoMem == Ray \/ Fresh          \* every block comes from its own draw
NoRet == [op |-> "none"]
NG    == Len(gens)

RECURSIVE Prod(_)
Prod(s) == IF s = <<>> THEN 1 ELSE Head(s) * Prod(Tail(s))

(* ------------------------------------------ lattice phases and exact values ------------------------ *)
\* quarter-turn angles of ray l (0-based), element e (0-based, row-major over the shape), draw d
QPhi(d, l, e) == (l + d + e * (l + 1)) % 4
QPsi(d, l, e) == IF d = 1 /\ e = 0 THEN 1 ELSE (l * l + 2 * d + 3 * e + l) % 4   \* draw 1: all rays aligned at k = 0
CosQ(q)  == CASE q = 0 -> 1 [] q = 1 -> 0 [] q = 2 -> -1 [] q = 3 -> 0
UnitQ(m) == CASE m = 0 -> <<1, 0>> [] m = 1 -> <<0, 1>> [] m = 2 -> <<-1, 0>> [] m = 3 -> <<0, -1>>
\* Arrival angles in units of 30 degrees (1/12 turn).  Plain lattice: multiples of 90 degrees, cos in {1, 0, -1}.
\* HalfCos lattice: also 60, 120, 240, 300 degrees, cos = +-1/2 - there a Doppler of a WHOLE number of turns per
\* sample (FdQ = 4: Fd*Ts = 1) still moves the ray by half a turn per sample: whole turns may be dropped from the
\* PHASE, never from Fd*Ts before it is multiplied by cos(phi_l).
Ang12 == <<0, 2, 3, 4, 6, 8, 9, 10>>
QPhi12(d, l, e) == IF HalfCos THEN Ang12[((l + d + e * (l + 1)) % 8) + 1] ELSE 3 * QPhi(d, l, e)
Cos2(a) == CASE a = 0 -> 2 [] a = 2 -> 1 [] a = 3 -> 0 [] a = 4 -> -1 [] a = 6 -> -2 [] a = 8 -> -1 [] a = 9 -> 0 [] a = 10 -> 1
\* phase advance per sample of ray l in quarter turns for a Doppler of fd quarter turns per sample (fd even if HalfCos)
Adv(fd, d, l, e) == (fd * Cos2(QPhi12(d, l, e))) \div 2
ASSUME (Lattice /\ HalfCos) => FdQ % 2 = 0
RECURSIVE SumRays(_, _, _, _, _, _)
SumRays(d, e, r, l, top, fd) ==    \* SUM over rays l..top-1 of the unit phasor at sample index = r (mod 4)
  IF l >= top THEN <<0, 0>>
  ELSE LET u == UnitQ((Adv(fd, d, l, e) * r + QPsi(d, l, e)) % 4)
           t == SumRays(d, e, r, l + 1, top, fd)
       IN  <<u[1] + t[1], u[2] + t[2]>>
Val(d, e, r) == SumRays(d, e, r, 0, L, FdQ)              \* sqrt(L) * h at any k with k % 4 = r: ALL L rays
\* The machine may accumulate the rays in passes of RayPass (bounded temporaries).  Whatever the pass
\* structure, every one of the L rays has to arrive in the sum; the deviation computes the number of passes
\* by floor division and so drops the last L % RayPass rays once L > RayPass (the scaling stays 1/sqrt(L)).
RayPass == 16
LSummed == IF Dev.DropsTailRays /\ L >= RayPass THEN (L \div RayPass) * RayPass ELSE L
\* deviation: the code works in sample indexes with the Doppler reduced to its fractional number of turns per
\* sample BEFORE the cos(phi_l) factor (fmod(Fd*Ts, 1)): wrong process as soon as Fd*Ts >= 1
FdQM == IF Dev.DopplerFoldedBeforeCos /\ FdQ >= 0 THEN FdQ % 4 ELSE FdQ
ValM(d, e, r) == SumRays(d, e, r, 0, LSummed, FdQM)      \* what the machine returns
PeriodTable(d, sh) == [e \in 1..Prod(sh) |-> [r \in 1..4 |-> Val(d, e - 1, r - 1)]]
\* the numbers the (table-driven) random source must deliver for draw d and shape sh: rand(L, sh.., 1)
\* row-major; the code multiplies by 2 pi: phi is delivered in twelfths of a turn, psi in quarters (the replay divides)
DrawTable(d, sh) == LET E == Prod(sh) IN
  [phi |-> [i \in 1..(L * E) |-> QPhi12(d, (i - 1) \div E, (i - 1) % E)],
   psi |-> [i \in 1..(L * E) |-> QPsi(d, (i - 1) \div E, (i - 1) % E)]]
\* |scale|^2 of the sum: every ray carries power 1/L
Norm2 == IF Dev.NormOneOverL THEN <<1, L * L>> ELSE <<1, L>>

(* ------------------------------------------------ state -------------------------------------------- *)
Block(first, n, ph, sh, tdim) == [first |-> first, n |-> n, ph |-> ph, sh |-> sh, tdim |-> tdim, ongrid |-> TRUE]
OffGrid(b) == [b EXCEPT !.ongrid = FALSE]
BlockShape(b) == IF b.tdim THEN b.sh \o <<b.n>> ELSE b.sh

Init == /\ gens = <<>>
        /\ draws = 0
        /\ nbuf = 0
        /\ len = 0
        /\ ret = NoRet

\* The abstract shape <<3>> can be handed over as the Python int 3, the tuple (3,), a numpy integer scalar or a
\* tuple of numpy integers; <<2,3>> as a tuple of Python or numpy integers; <<>> is None.  Whatever the form, the
\* configured shape is the same tuple (law AnyIntTypeSameShape).  The form is rotated deterministically.
Forms == <<"int", "tuple", "npint", "nptuple">>
FormOf(s) == LET k == (FormSalt + draws + len) % 4 IN
             IF s = <<>> THEN "none" ELSE IF Len(s) = 1 THEN Forms[k + 1] ELSE IF k >= 2 THEN "nptuple" ELSE "tuple"
\* deviation: the shape setter recognises only isinstance(shape, int) as "an integer"
ShapeRejected(s) == Dev.NumpyIntShapeRejected /\ FormOf(s) = "npint"

\* a freshly constructed generator: the constructor draws the phases and generates sample 0
NewGen(sh, d, dAsIs, w) ==
  [cur    |-> IF Ray THEN LZero ELSE <<w, 1>>,
   served |-> IF Ray THEN LZero ELSE <<w, 1>>,
   ph |-> dAsIs, phWant |-> d, sh |-> sh, off |-> FALSE, buf |-> nbuf + 1,
   out |-> Block(LZero, 1, dAsIs, sh, ~Ray)]

\* JakesSampleGenerator(Fd, Ts, L, shape, RS) followed by w skips of 10^7 samples (a generator that
\* has been running for a long time)
Construct(sh, w) ==
  /\ gens = <<>>
  /\ ~ShapeRejected(sh)
  /\ gens' = <<NewGen(sh, 1, 1, w)>>
  /\ draws' = 1
  /\ nbuf' = 1
  /\ len' = 0
  /\ ret' = [op |-> "Construct", g |-> 1, sh |-> sh, warm |-> IF Ray THEN 0 ELSE w, buf |-> 1,
             form |-> FormOf(sh), rejected |-> FALSE,
             exp |-> Block(LZero, 1, 1, sh, ~Ray),
             tab |-> IF Lattice THEN DrawTable(1, sh) ELSE <<>>,
             vals |-> IF Lattice THEN PeriodTable(1, sh) ELSE <<>>, r0 |-> 0]

\* the constructor raising on a valid shape (deviation only): no generator exists afterwards
ConstructRejected(sh, w) ==
  /\ gens = <<>>
  /\ ShapeRejected(sh)
  /\ ret' = [op |-> "Construct", g |-> 1, sh |-> sh, warm |-> 0, buf |-> 0, form |-> FormOf(sh), rejected |-> TRUE]
  /\ UNCHANGED <<gens, draws, nbuf, len>>

\* how many time points the code builds for a request of n samples: np.arange(start, start + n*Ts,
\* Ts*(1+1e-10)) has ceil((stop - start)/step) points, and stop - start is rounded to the ulp of a
\* start time of 10^7 sampling intervals or more
Counts(G, n) == IF Dev.ArangeCountDrifts /\ ~Ray /\ G.cur[1] >= 1 THEN {n, n + 1} ELSE {n}
\* np.arange fills start + j * ((start + step) - start): the step is rounded to the ulp of the start
\* time, so a long request at a large position ends a fraction of a sampling interval off the grid,
\* and the code keeps that time (t[-1] + Ts) for the following requests
LongN == 1000
Offs(G, n) == IF G.off THEN {TRUE}
              ELSE IF Dev.ArangeStepRounded /\ ~Ray /\ G.cur[1] >= 1 /\ n >= LongN THEN {FALSE, TRUE} ELSE {FALSE}

\* restart: generate_jakes_samples() with no argument at all starts at t = 0 whatever the caller's time
GenStep(g, n, op, tdim, restart) ==
  /\ g \in 1..NG
  /\ len < MaxLen
  /\ \E cnt \in Counts(gens[g], n), off1 \in Offs(gens[g], n) :
       LET G      == gens[g]
           redraw == NoMem \/ Dev.GenRedrawsPhases
           ph1    == IF redraw THEN draws + 1 ELSE G.ph
           phE    == IF NoMem THEN draws + 1 ELSE G.phWant
           from   == IF restart THEN LZero ELSE G.cur
           fromE  == IF restart THEN LZero ELSE G.served
           blk0   == Block(from, cnt, ph1, G.sh, tdim)
           blk    == IF off1 THEN OffGrid(blk0) ELSE blk0
           expb   == Block(fromE, n, phE, G.sh, tdim)
           raised == cnt # n               \* the reshape to (.., n) raises, after the time was advanced
           adv    == IF Dev.PlusTsDropped THEN cnt - 1 ELSE cnt
           \* the array the samples are written to: a new one - or (deviation) the generator's output
           \* buffer of the previous request when size and shape did not change
           reuse  == Dev.ReusesBuffer /\ ~Ray /\ G.out.n = cnt /\ G.out.sh = G.sh /\ G.out.tdim = tdim
           wbuf   == IF raised THEN 0 ELSE IF reuse THEN G.buf ELSE nbuf + 1
       IN /\ gens' = [gens EXCEPT ![g] =
                        [@ EXCEPT !.cur    = IF Ray THEN @ ELSE LAddSmall(from, adv),
                                  !.served = IF Ray THEN @ ELSE LAddSmall(fromE, n),
                                  !.ph     = ph1,
                                  !.phWant = phE,
                                  !.off    = off1,
                                  !.buf    = IF raised THEN @ ELSE wbuf,
                                  !.out    = IF raised THEN @ ELSE blk]]
          /\ draws' = IF redraw THEN draws + 1 ELSE draws
          /\ nbuf' = IF wbuf = nbuf + 1 THEN nbuf + 1 ELSE nbuf
          /\ ret' = [op |-> op, g |-> g, n |-> n, raised |-> raised, asis |-> blk, exp |-> expb, buf |-> wbuf,
                     vals |-> IF Lattice THEN PeriodTable(expb.ph, expb.sh) ELSE <<>>,
                     r0 |-> LMod(expb.first, 4)]
  /\ len' = len + 1

Generate(g, n) == GenStep(g, n, "Gen", TRUE, FALSE)                \* generate_more_samples(n)
\* generate_more_samples() = one sample; generate_jakes_samples(Fd) = NSamples 100, shape None, from t = 0
GenerateDefault(g) ==
  /\ GenDefault
  /\ g \in 1..NG
  /\ Fresh => gens[g].sh = <<>>
  /\ GenStep(g, IF Fresh THEN 100 ELSE 1, "GenDefault", ~Ray, Fresh)

\* skip_samples_for_next_generation(n)
Skip(g, n) ==
  /\ g \in 1..NG
  /\ len < MaxLen
  /\ gens' = [gens EXCEPT ![g] =
                [@ EXCEPT !.cur    = IF Ray THEN @ ELSE LAddSmall(@, IF Dev.SkipOffByOne THEN n + 1 ELSE n),
                          !.served = IF Ray THEN @ ELSE LAddSmall(@, n)]]
  /\ ret' = [op |-> "Skip", g |-> g, n |-> n]
  /\ UNCHANGED <<draws, nbuf>>
  /\ len' = len + 1

\* r successive calls skip_samples_for_next_generation(10^7)
SkipBig(g, r) ==
  /\ g \in 1..NG
  /\ len < MaxLen
  /\ gens' = [gens EXCEPT ![g] =
                [@ EXCEPT !.cur    = IF Ray THEN @ ELSE LAddBig(@, r),
                          !.served = IF Ray THEN @ ELSE LAddBig(@, r)]]
  /\ ret' = [op |-> "SkipBig", g |-> g, r |-> r]
  /\ UNCHANGED <<draws, nbuf>>
  /\ len' = len + 1

\* the shape setter: Jakes phases are redrawn for the new dimensions (also when the shape is the
\* same), the time continues, the stored block is kept until the next generation
SetShape(g, s) ==
  /\ g \in 1..NG
  /\ len < MaxLen
  /\ LET d == IF NoMem \/ ShapeRejected(s) THEN draws ELSE draws + 1 IN
       /\ gens' = IF ShapeRejected(s) THEN gens ELSE
                   [gens EXCEPT ![g] =
                     [@ EXCEPT !.sh = s,
                               !.ph = IF NoMem THEN @ ELSE d,
                               !.phWant = IF NoMem THEN @ ELSE d,
                               !.cur = IF Dev.ShapeRestartsTime /\ ~Ray THEN LZero ELSE @]]
       /\ draws' = d
       /\ UNCHANGED nbuf
       /\ ret' = [op |-> "SetShape", g |-> g, sh |-> s, draw |-> d, form |-> FormOf(s), rejected |-> ShapeRejected(s),
                  tab |-> IF Lattice /\ ~Ray THEN DrawTable(d, s) ELSE <<>>]
  /\ len' = len + 1

\* get_similar_fading_generator(): same configuration, independent samples, its own time
Similar(g) ==
  /\ g \in 1..NG
  /\ NG < MaxGens
  /\ len < MaxLen
  /\ LET d    == draws + 1
         dUse == IF Dev.SimilarSharesPhases /\ ~Ray THEN gens[g].ph ELSE d
         G    == NewGen(gens[g].sh, d, dUse, 0)
     IN /\ gens' = Append(gens, G)
        /\ draws' = d
        /\ nbuf' = nbuf + 1
        /\ ret' = [op |-> "Similar", g |-> g, new |-> NG + 1, buf |-> nbuf + 1, exp |-> Block(LZero, 1, d, gens[g].sh, ~Ray),
                   tab |-> IF Lattice /\ ~Ray THEN DrawTable(d, gens[g].sh) ELSE <<>>,
                   vals |-> IF Lattice THEN PeriodTable(d, gens[g].sh) ELSE <<>>, r0 |-> 0]
  /\ len' = len + 1

\* one named disjunct per public call (TLC reports coverage per name)
DoConstruct  == \E s \in Shape0, w \in Warm : Construct(s, w) \/ ConstructRejected(s, w)
DoGenerate   == \E g \in 1..NG, n \in GenSizes : Generate(g, n)
DoGenDefault == \E g \in 1..NG : GenerateDefault(g)
DoSkip       == \E g \in 1..NG, n \in SkipSizes : Skip(g, n)
DoSkipBig    == \E g \in 1..NG, r \in BigReps : SkipBig(g, r)
DoSetShape   == \E g \in 1..NG, s \in ShapeSet : SetShape(g, s)
DoSimilar    == \E g \in 1..NG : Similar(g)
Next == DoConstruct \/ DoGenerate \/ DoGenDefault \/ DoSkip \/ DoSkipBig \/ DoSetShape \/ DoSimilar

Spec == Init /\ [][Next]_vars

(* ---------------------------------------------- properties ----------------------------------------- *)
GenOps == {"Gen", "GenDefault"}

IsBlock(b) == /\ IsLimb(b.first)
              /\ b.n \in Nat
              /\ b.ph \in 1..draws
              /\ b.tdim \in BOOLEAN
              /\ b.ongrid \in BOOLEAN
TypeOK == /\ draws \in Nat
          /\ nbuf \in Nat
          /\ \A g \in 1..NG : gens[g].buf \in 1..nbuf
          /\ len \in 0..MaxLen
          /\ NG <= MaxGens
          /\ \A g \in 1..NG : /\ IsLimb(gens[g].cur)
                              /\ IsLimb(gens[g].served)
                              /\ gens[g].ph \in 1..draws
                              /\ gens[g].phWant \in 1..draws
                              /\ IsBlock(gens[g].out)

\* every request returns exactly the requested number of samples with the configured shape
Count == ret.op \in GenOps =>
           /\ ~ret.raised
           /\ ret.asis.n = ret.n
           /\ ret.asis.sh = ret.exp.sh
           /\ ret.asis.tdim = ret.exp.tdim
           /\ gens[ret.g].out = ret.asis

\* every form of a valid shape is accepted and configures the same tuple
ShapeAccepted == ret.op \in {"Construct", "SetShape"} => ~ret.rejected

\* the machine's position is the number of samples asked for so far
Aligned == \A g \in 1..NG : gens[g].cur = gens[g].served

\* sample number k is the value of the process AT time k * Ts (not a fraction of an interval off)
OnGrid == /\ \A g \in 1..NG : ~gens[g].off /\ gens[g].out.ongrid
          /\ ret.op \in GenOps => ret.asis.ongrid

\* Across ANY request sequence no sample index is repeated or skipped: a generation step returns
\* exactly the interval [served, served + n) of the state it starts from, and leaves the generator
\* at served + n; skips move by exactly n; nothing else moves a generator.
ContigStep ==
  /\ ret'.op \in GenOps =>
       LET start == IF Fresh /\ ret'.op = "GenDefault" THEN LZero ELSE gens[ret'.g].served IN
       /\ ret'.asis.first = start
       /\ ret'.asis.n = ret'.n
       /\ gens'[ret'.g].cur = (IF Ray THEN LZero ELSE LAddSmall(start, ret'.n))
  /\ ret'.op = "Skip" => gens'[ret'.g].cur = (IF Ray THEN LZero ELSE LAddSmall(gens[ret'.g].served, ret'.n))
  /\ ret'.op = "SkipBig" => gens'[ret'.g].cur = (IF Ray THEN LZero ELSE LAddBig(gens[ret'.g].served, ret'.r))
  /\ ret'.op \in {"SetShape", "Similar"} => gens'[ret'.g].cur = gens[ret'.g].served
Contiguity == [][ContigStep]_vars

\* the samples of a Jakes generator come from fixed phases: only setting the shape changes them
PhasesFixed == /\ \A g \in 1..NG : gens[g].ph = gens[g].phWant
               /\ ret.op \in GenOps => ret.asis.ph = ret.exp.ph

\* generators obtained from one another are independent: no two share a phase draw (for the Rayleigh
\* generator: no two stored blocks come from the same draw), and a call on one leaves the other alone
Independent == \A g, h \in 1..NG : g # h => /\ gens[g].ph # gens[h].ph
                                            /\ gens[g].out.ph # gens[h].out.ph
IsolStep == \A h \in 1..NG : (ret'.op # "Construct" /\ h # ret'.g) => gens'[h] = gens[h]
Isolation == [][IsolStep]_vars

\* A block handed out is a VALUE, not a window into the generator: the arrays 1..nbuf are exactly those
\* callers may still hold, so a step that produces samples must write them to a NEW array (nbuf + 1) and a
\* step that produces none must write to no array at all.  (Call discipline: results stay results.)
BlockOps == GenOps \cup {"Construct", "Similar"}
EarlierStep ==
  /\ (ret'.op \in BlockOps /\ (ret'.op \in GenOps => ~ret'.raised)) => (ret'.buf = nbuf + 1 /\ nbuf' = nbuf + 1)
  /\ (ret'.op \notin BlockOps \/ (ret'.op \in GenOps /\ ret'.raised)) =>
        (nbuf' = nbuf /\ \A g \in 1..NG : gens'[g].buf = gens[g].buf)
EarlierBlocksUnchanged == [][EarlierStep]_vars
\* no two generators ever share an output array
BuffersDistinct == \A g, h \in 1..NG : g # h => gens[g].buf # gens[h].buf

\* Frame conditions every replayed call is held to (names listed per emitted edge; the harness refuses
\* an edge naming a law it does not implement):
\*   EarlierBlocksUnchanged  every array returned by an earlier call still holds the values it was returned with
\*   OthersUnchanged         Isolation: the stored block of every other generator is untouched
\*   ArgumentsUnchanged      array arguments (phi_l, psi_l of generate_jakes_samples) are bit-identical afterwards
\*   QueriesPure             get_samples / shape / L / Ts / Fd may be read any number of times without effect
Frame == {"EarlierBlocksUnchanged", "OthersUnchanged", "ArgumentsUnchanged", "QueriesPure"}
Laws(r) == IF r.op \in BlockOps
             THEN Frame \cup {"Count", "Contiguity", "OnGrid", "PhasesFixed", "Bound", "EveryRayCounts", "DopplerNotFolded"}
                        \cup (IF r.op = "Construct" THEN {"AnyIntTypeSameShape"} ELSE {})
                        \cup (IF (Lattice /\ FdQ = 0) THEN {"ZeroDoppler"} ELSE {})
             ELSE Frame \cup {"StoredBlockKept"} \cup (IF r.op = "SetShape" THEN {"AnyIntTypeSameShape"} ELSE {})

\* exact values (lattice instance): |h|^2 = (re^2 + im^2) * Norm2 <= L for every draw, element, index
AllVals == {ValM(d, e, r) : d \in 1..draws, e \in 0..1, r \in 0..3}
\* every ray of the model is in the sum, for every ray count (also beyond / not a multiple of the pass size)
\* any Doppler, also one or more whole turns per sample, gives the process of the statement
DopplerNotFolded == Lattice => \A d \in 1..draws, e \in 0..1, r \in 0..3 : ValM(d, e, r) = Val(d, e, r)
EveryRayCounts == Lattice => \A d \in 1..draws, e \in 0..1, r \in 0..3 : ValM(d, e, r) = Val(d, e, r)
Bound == Lattice => \A v \in AllVals : (v[1] * v[1] + v[2] * v[2]) * Norm2[1] <= L * Norm2[2]
\* the bound is attained: with all rays aligned (draw 1, element 0, k = 0) |h|^2 = L
BoundTight == (Lattice /\ draws >= 1) =>
                LET v == ValM(1, 0, 0) IN (v[1] * v[1] + v[2] * v[2]) * Norm2[1] = L * Norm2[2]
\* a zero Doppler frequency gives a time-invariant channel
ZeroDoppler == (Lattice /\ FdQ = 0) =>
                 \A d \in 1..draws, e \in 0..1, r \in 1..3 : ValM(d, e, r) = ValM(d, e, 0)
\* and a non-zero one does not (the values above are not vacuous)
Moves == (Lattice /\ FdQ # 0 /\ draws >= 1) => \E r \in 1..3 : Val(1, 0, r) # Val(1, 0, 0)
UnitPower == (Lattice /\ draws >= 1) => Norm2[1] * L = Norm2[2]

(* ---------------------------------------------- emission ------------------------------------------- *)
View(gs, d, n) == [gens |-> gs, draws |-> d, len |-> n]
Emit == EmitEdge([pre |-> View(gens, draws, len), post |-> View(gens', draws', len'), ret |-> ret', req |-> Laws(ret'),
                  norm2 |-> Norm2])
=============================================================================
