-------------------------------- MODULE Sinr --------------------------------
(* C11 - reported SINRs equal first-principles signal over interference-plus-noise.

   Models the SINR / interference-covariance readers of
       pyphysim.channels.multiuser.MultiUserChannelMatrix          (ext = <<>>)
       pyphysim.channels.multiuser.MultiUserChannelMatrixExtInt    (ext sources nte)
       pyphysim.ia.iabase.IASolverBaseClass                        (out.sol)
   as a "star": `Init` holds no case, every `Next` step picks ONE case (channel, path loss,
   precoders, receive filters, powers, noise, external interference) from a finite domain and
   computes what the property demands of the code for that case.

   Two independent descriptions live side by side:

   (1) FIRST PRINCIPLES (operators Pow, SinrTab, QOf, BOf).  Stream d of transmitter j is the
       vector  sqrt(P_j) * F_j[:, d]  (documented convention: the channel object receives
       precoders "already taking into account the transmit power", the IA solver forms
       full_F = F * sqrt(P)).  At receiver k it arrives as  g = H_kj * that  (joint
       processing: all transmit antennas of all users carry every stream, g = H_k * that),
       H including the path-loss AMPLITUDE (path loss is a power relation: amplitude^2).
       After the receive filter column u (the code applies u^H) its power is |u^H g|^2.  Then

           SINR[k][l] =                 |u^H g(k,l)|^2
                        -------------------------------------------------------------------
                        SUM over every OTHER stream (j,d) # (k,l) of every user |u^H g(j,d)|^2
                          + pe * SUM over external-interference columns h  |u^H h|^2
                          + sigma^2 * (u^H u)

       computed with scalar sums of exact Gaussian rationals - no covariance matrices.
       A zero denominator with a non-zero signal is an INFINITE SINR (<<1, 0>>, see Inf): the code may
       report +inf or a huge positive number, never a negative one or NaN.  0 / 0 is undefined and
       outside the property (`PowValid`).  Configurations with zf = TRUE build the ALIGNED regime
       exactly (null-space precoders, zero-forcing filters: block diagonalisation in miniature).
       Capacity vectors (`PickCapVec`) quantify "sum capacity = sum log2(1 + SINR)" over long vectors
       of SINRs between 1e-7 and 1e+15.

   (2) THE ALGEBRA OF THE CODE (operators whose names start with A): B_kl = SUM_j H V V^H H^H + R_e - own stream,
       SINR = |u^H H f|^2 / (u^H B u), written with the exact matrix library CMat.  Fields of
       `Dev` switch single steps of that algebra to plausible regressions (own stream not
       subtracted, noise not filtered, external power ignored, joint-processing rows of another
       user, path loss ignored, conjugate missing, solver scaling by P instead of sqrt(P)); with
       all flags FALSE TLC proves (1) = (2) on every case, with a flag TRUE it must find a
       counterexample.  One flag is an OBSERVED deviation of /repo, found by this check:
       ListPrecodersScaledAlongStreams (see AFullF).

   HISTORIES.  The property quantifies over inputs, but the code answers from caches (the solver's
   full_F / full_W_H, the channel's per-antenna path-loss expansion).  Besides the star cases the
   model therefore has CHAINS: consecutive cases served by the SAME channel object and the SAME solver
   object.  A chain step either re-initialises the channel with another antenna partition of equal
   totals (keeping the path loss that was set before, or setting a new one) and new precoders /
   filters, or changes only the transmit powers through the solver's P setter (vector, scalar, None in
   every order).  What the property demands of a step is a function of the CURRENT inputs alone
   (`OutOf`), the variable `cache` records which inputs the cached quantities were computed from
   (`CachesFresh`), and two Dev flags describe the stale-cache regressions.

   Laws checked on every case (INVARIANTs): NonNegative, ScaleInvariant (U -> c*U, c a non-zero
   Gaussian rational, AND channel gain -> a*gain with sigma^2 -> a^2 sigma^2: every one of the four
   power terms is homogeneous, it scales by |c|^2 a^2, hence no SINR changes - for ANY magnitude of c
   and a; the harness replays this law with factors of 1e-9 / 1e+9 / 1e-17 / 1e+17), QScales, QHermitianPSD, QIsSumOfLinks (Q is a sum of
   A*A^H terms, hence positive semidefinite BY CONSTRUCTION; for Nr <= 2 this is also decided
   exactly through the principal minors), DenIsQuadraticForm (denominator = u^H Q u + own other
   streams), AlgMatches, SolverZeroForcing / SolverAgrees / SolverAlgMatches, CapacityTerms.
   Sum capacity and dB values are transcendental: TLC emits the exact rational 1+SINR / SINR and
   the harness evaluates log2 / log10 of that exact rational.                                  *)
EXTENDS Integers, Sequences, FiniteSets, TLC, Emit, CMat

CONSTANTS Cfgs,     \* sequence of [K, nr, nt, ns, nte, jp, amps] - antenna / stream configurations
          CLo, CHi, \* configuration indices explored by this run; index 0 = the exhaustive 1x1 family
          Chains,   \* sequence of [parts : sequence of configurations with equal K, sources and antenna totals,
                    \*              ops : sequence over {"init", "reinit", "power"} starting with "init"]
          HLo, HHi, \* chain configurations explored by this run (HLo > HHi: none)
          VLo, VHi, \* capacity-vector numbers explored by this run (VLo > VHi: none)
          Lo, Hi,   \* case / chain numbers explored by this run
          Seed,     \* seed of the in-spec pseudo-random stream
          DevTry    \* set of [name, cfgs, chains, hi]: the deviations this run tries (each in its own initial state) and the
                    \* configurations / chain configurations on which each is tried; {} for the runs of the intended design

(* The active deviation is a VARIABLE fixed by the initial state ("none" = the intended design), so that ONE TLC run
   (with -continue) can refute every deviation: each must produce a violated invariant in a behaviour whose dv is its name. *)
VARIABLE dv
DevNames == {"OwnStreamNotSubtracted", "NoiseNotFiltered", "ExtIntPowerIgnored", "JpRowsOfOtherUser", "PathlossIgnored",
             "ConjMissing", "SolverScalesByP", "ListPrecodersScaledAlongStreams", "PowerNoneKeepsCaches",
             "PlExpansionReusedOnEqualShape", "SolverIgnoresExtInt", "FullFKeepsStaleNs"}
Dev == [nm \in DevNames |-> dv = nm]
DevRec == CHOOSE d \in DevTry : d.name = dv
CfgOk(ci)   == IF dv = "none" THEN TRUE ELSE ci \in DevRec.cfgs
NumOk(n)    == IF dv = "none" THEN TRUE ELSE n <= DevRec.hi
ChainOk(hi) == IF dv = "none" THEN TRUE ELSE hi \in DevRec.chains

(* ------------------------------------- small helpers ------------------------------------------- *)
RECURSIVE SumTo(_, _)
SumTo(q, n) == IF n = 0 THEN 0 ELSE q[n] + SumTo(q, n - 1)
Total(q)    == SumTo(q, Len(q))
Off(q, k)   == SumTo(q, k - 1)                     \* antennas before block k
RECURSIVE OwnerFrom(_, _, _)
OwnerFrom(q, i, u) == IF i <= q[u] THEN u ELSE OwnerFrom(q, i - q[u], u + 1)
Owner(q, i) == OwnerFrom(q, i, 1)                  \* block that owns antenna i

Force(x) == IF x = x THEN x ELSE x                 \* makes TLC evaluate a lazily built function once

Col(M, d)    == [a \in 1..Len(M) |-> M[a][d]]
AsCol(v)     == [a \in 1..Len(v) |-> <<v[a]>>]     \* vector -> n x 1 matrix
MatVec(M, v) == [a \in 1..Len(M) |-> GSumSeq([b \in 1..Len(v) |-> GMul(M[a][b], v[b])])]
Inner(u, v)  == GSumSeq([a \in 1..Len(u) |-> GMul(GConj(u[a]), v[a])])        \* u^H v
Norm2(u)     == RSumSeq([a \in 1..Len(u) |-> GAbs2(u[a])])                    \* u^H u

(* ------------------------------------- the case domain ----------------------------------------- *)
Alpha   == << <<0, 0, 1>>, <<1, 0, 1>>, <<-1, 0, 1>>, <<0, 1, 1>>, <<0, -1, 1>>, <<1, 1, 1>> >>   \* 0, 1, -1, i, -i, 1+i
AlphaNZ == SubSeq(Alpha, 2, 6)
\* amplitude alphabets (power = amplitude^2).  Set 1 is integral (used where the solver's
\* zero-forcing filter multiplies magnitudes: 32-bit integers), set 2 has halves.
AmpSets == << << <<1, 1>>, <<2, 1>>, <<3, 1>> >>,
              << <<1, 1>>, <<1, 2>>, <<2, 1>>, <<3, 2>>, <<3, 1>>, <<1, 2>>, <<2, 1>>, <<0, 1>> >>,   \* incl. a ZERO path loss
              << <<1, 1>> >> >>            \* set 3: unit gains (two-stream aligned regime: exact null vectors multiply magnitudes)
PaSets  == << << <<1, 1>>, <<2, 1>> >>,
              << <<1, 1>>, <<2, 1>>, <<1, 2>>, <<3, 2>> >>,
              << <<1, 1>>, <<2, 1>> >> >>
PeSet   == << <<1, 1>>, <<0, 1>>, <<1, 2>>, <<2, 1>>, <<3, 2>> >>      \* <<1,1>> = the default argument
ScSet   == << <<2, 0, 1>>, <<-1, 0, 3>>, <<0, 1, 1>>, <<1, 1, 2>>, <<-3, 0, 2>> >>   \* 2, -1/3, i, (1+i)/2, -3/2
GaSet   == << <<1, 2>>, <<2, 1>>, <<3, 1>> >>                          \* channel gain factors (amplitude) of the twin case
TnSet   == << <<1, 1>>, <<1, 4>>, <<3, 1>> >>                          \* extra factor on the noise variance of the twin case
\* noise variance: None, 0, 1/2 and the integral values 1, 2 (the harness hands integral values over as Python int,
\* numpy integer, float32, float64 in turn: the demanded value depends on the NUMBER, not on its representation)
NoiseTags == <<"none", "zero", "half", "one", "two">>
NoiseVar(t) == IF t = "half" THEN <<1, 2>> ELSE IF t = "one" THEN <<1, 1>> ELSE IF t = "two" THEN <<2, 1>> ELSE RZero   \* None and 0 add nothing
PwKinds == <<"vec", "scalar", "none">>                      \* how the solver's P setter is fed
FreshOp == [kind |-> "fresh", pl |-> "set", pw |-> "ctor"]
\* How the precoders reach the solver: "ctor" = set_precoders(F, P), "fullF" = set_precoders(full_F = sqrt(P) F) alone.
\* What the solver did BEFORE (its prehistory `pre`: nothing, randomizeF(pre.ns), or set_precoders / set_receive_filters
\* with pre.ns streams per user - another stream count wherever the antennas allow) must not matter: every reported value
\* is a function of the LAST precoders / filters / powers handed over (SolverHistoryIrrelevant).
PreKinds == <<"none", "randomizeF", "set_precoders">>
PreNs(ns, nr, nt) == [k \in 1..Len(ns) |-> IF ns[k] = 1 THEN (IF nr[k] >= 2 /\ nt[k] >= 2 THEN 2 ELSE 1) ELSE 1]

RECURSIVE Str(_, _)
Str(x, n) == IF n = 0 THEN <<>> ELSE <<x>> \o Str(LcgNext(x), n - 1)
Start(ci, n) == LcgIter((((Seed % 1000) * 7919 + ci * 12289 + n * 251) % 65536) + 1, 3)
Pk(s, i, m) == ((s[i] \div 8) % m) + 1               \* i-th draw, uniform-ish on 1..m

\* a case with the dimensions of configuration g, every entry drawn from the stream starting at x0
\* (unz: receive-filter entries non-zero, plOn: path loss certainly set)
MkFrom(g, x0, unz, plOn) ==
  LET K  == g.K
      Ke == Len(g.nte)
      RR == Total(g.nr)
      T  == Total(g.nt)
      C  == T + Total(g.nte)
      oF == RR * C                        \* F: K blocks of (up to) 6 rows x 3 columns
      oU == oF + 18 * K                   \* U: K blocks of 3 x 3
      oP == oU + 9 * K                    \* power amplitudes
      oL == oP + K                        \* path-loss amplitudes K x (K + Ke)
      oX == oL + K * (K + Ke)             \* path loss on/off, noise, pe, scale constant
      s  == Str(x0, oX + 6 + 3 * K)
      am == AmpSets[g.amps]
      pw == PaSets[g.amps]
  IN [ id |-> <<0, 0>>, chain |-> <<>>, step |-> 0, op |-> FreshOp, scr |-> <<>>,
       pre |-> [kind |-> PreKinds[((Pk(s, oX + 2, 5) + Pk(s, oX + 4, 5)) % 3) + 1], ns |-> PreNs(g.ns, g.nr, g.nt)],
       K |-> K, nr |-> g.nr, nt |-> g.nt, ns |-> g.ns, nte |-> g.nte, jp |-> g.jp,
       H  |-> [i \in 1..RR |-> [j \in 1..C |-> Alpha[Pk(s, (i - 1) * C + j, 6)]]],
       F  |-> [k \in 1..K |-> [a \in 1..(IF g.jp THEN T ELSE g.nt[k]) |-> [b \in 1..g.ns[k] |->
                  Alpha[Pk(s, oF + (k - 1) * 18 + (a - 1) * 3 + b, 6)]]]],
       U  |-> [k \in 1..K |-> [a \in 1..g.nr[k] |-> [b \in 1..g.ns[k] |->
                  IF unz THEN AlphaNZ[Pk(s, oU + (k - 1) * 9 + (a - 1) * 3 + b, 5)]
                         ELSE Alpha[Pk(s, oU + (k - 1) * 9 + (a - 1) * 3 + b, 6)]]]],
       pa |-> [k \in 1..K |-> pw[Pk(s, oP + k, Len(pw))]],
       pl |-> IF ~plOn /\ Pk(s, oX + 1, 3) = 1 THEN <<>>
              ELSE [k \in 1..K |-> [j \in 1..(K + Ke) |-> am[Pk(s, oL + (k - 1) * (K + Ke) + j, Len(am))]]],
       noise |-> NoiseTags[Pk(s, oX + 2, 5)], nsc |-> ROne,
       pe |-> IF Ke = 0 THEN ROne ELSE PeSet[Pk(s, oX + 3, Len(PeSet))],
       sc |-> ScSet[Pk(s, oX + 4, Len(ScSet))],
       scs |-> [k \in 1..K |-> [l \in 1..g.ns[k] |-> ScSet[Pk(s, oX + 6 + (k - 1) * 3 + l, Len(ScSet))]]],   \* one factor per stream
       ga |-> GaSet[Pk(s, oX + 5, Len(GaSet))],
       tn |-> TnSet[Pk(s, oX + 6, Len(TnSet))] ]

\* exhaustive family (configuration index 0): K = 2, every block 1 x 1, one stream each; case
\* number n in 0..3887 enumerates ALL 6^4 channel matrices over the alphabet x the three noise
\* settings; the non-zero precoder / filter entries, powers and path loss come from the stream.
ExhCount == 3888
MkExh(n) ==
  LET hd == n % 1296
      s  == Str(Start(0, n), 16)
      am == AmpSets[2]
      pw == PaSets[2]
  IN [ id |-> <<0, n>>, chain |-> <<>>, step |-> 0, op |-> [FreshOp EXCEPT !.pw = IF n % 2 = 0 THEN "ctor" ELSE "fullF"], scr |-> <<>>,
       pre |-> [kind |-> PreKinds[(n % 3) + 1], ns |-> <<1, 1>>],
       K |-> 2, nr |-> <<1, 1>>, nt |-> <<1, 1>>, ns |-> <<1, 1>>, nte |-> <<>>, jp |-> FALSE,
       H  |-> << <<Alpha[(hd % 6) + 1], Alpha[((hd \div 6) % 6) + 1]>>,
                 <<Alpha[((hd \div 36) % 6) + 1], Alpha[((hd \div 216) % 6) + 1]>> >>,
       F  |-> [k \in 1..2 |-> << <<AlphaNZ[Pk(s, k, 5)]>> >>],
       U  |-> [k \in 1..2 |-> << <<AlphaNZ[Pk(s, 2 + k, 5)]>> >>],
       pa |-> [k \in 1..2 |-> pw[Pk(s, 4 + k, Len(pw))]],
       pl |-> IF Pk(s, 7, 3) = 1 THEN <<>>
              ELSE [k \in 1..2 |-> [j \in 1..2 |-> am[Pk(s, 7 + (k - 1) * 2 + j, Len(am))]]],
       noise |-> NoiseTags[(n \div 1296) + 1], nsc |-> ROne,
       pe |-> ROne,
       sc |-> ScSet[Pk(s, 12, Len(ScSet))],
       scs |-> [k \in 1..2 |-> <<ScSet[Pk(s, 14 + k, Len(ScSet))]>>],
       ga |-> GaSet[Pk(s, 13, Len(GaSet))],
       tn |-> TnSet[Pk(s, 14, Len(TnSet))] ]


(* ------------------------------ (1) first principles ------------------------------------------- *)
NtAll(c)     == c.nt \o c.nte
NumT(c)      == Total(c.nt)
Amp(c, k, j) == IF c.pl = <<>> THEN ROne ELSE c.pl[k][j]       \* transmitter / source j -> receiver k
HasNoise(c)  == c.noise # "none"
NoiseOf(c)   == RMul(NoiseVar(c.noise), c.nsc)                 \* sigma^2 (nsc = 1 except in twin cases)

\* channel from transmitter (or external source, j > K) j to receiver k, path loss applied
HBlk(c, k, j) == [a \in 1..c.nr[k] |-> [b \in 1..NtAll(c)[j] |->
                    GScaleRat(Amp(c, k, j), c.H[Off(c.nr, k) + a][Off(NtAll(c), j) + b])]]
\* channel from ALL users' transmit antennas (no external source) to receiver k
HRow(c, k)    == [a \in 1..c.nr[k] |-> [t \in 1..NumT(c) |->
                    GScaleRat(Amp(c, k, Owner(c.nt, t)), c.H[Off(c.nr, k) + a][t])]]
(* ----- the aligned regime (configurations with zf = TRUE; single-antenna receivers, one stream each): the
   precoder of user j is a null vector of the channels towards every OTHER receiver (block diagonalisation /
   zero forcing in miniature), so that the interference power is EXACTLY zero: with a noise variance the
   SINR is sig / noise (any magnitude through tn), without one it is infinite.                              *)
ZfRow(c, k, j) == IF c.jp THEN HRow(c, k)[1] ELSE HBlk(c, k, j)[1]
NullOf(r)      == IF Len(r) = 2 THEN <<r[2], GNeg(r[1])>> ELSE <<r[2], GNeg(r[1]), GZero>>
Cross(r, q)    == << GSub(GMul(r[2], q[3]), GMul(r[3], q[2])), GSub(GMul(r[3], q[1]), GMul(r[1], q[3])),
                     GSub(GMul(r[1], q[2]), GMul(r[2], q[1])) >>
ZfF1(c) == [j \in 1..c.K |->
             LET v == IF c.K = 2 THEN NullOf(ZfRow(c, 3 - j, j))
                      ELSE Cross(ZfRow(c, IF j = 1 THEN 2 ELSE 1, j), ZfRow(c, IF j = 3 THEN 2 ELSE 3, j))
             IN  [a \in 1..Len(v) |-> <<v[a]>>]]
\* two users, two receive antennas, two streams, four (joint) transmit antennas: the two columns of F_j span the
\* null space of the other receiver's 2 x 4 channel; the receive filter of stream l is orthogonal to the user's
\* OTHER stream (zero forcing), so that every stream is free of interference - exactly.
ZfMat(c, k, j) == IF c.jp THEN HRow(c, k) ELSE HBlk(c, k, j)
ZfF2(c) == [j \in 1..2 |->
             LET M  == ZfMat(c, 3 - j, j)
                 v1 == Cross(SubSeq(M[1], 1, 3), SubSeq(M[2], 1, 3)) \o <<GZero>>
                 v2 == <<GZero>> \o Cross(SubSeq(M[1], 2, 4), SubSeq(M[2], 2, 4))
             IN  [a \in 1..4 |-> <<v1[a], v2[a]>>]]
Perp(g) == <<GConj(g[2]), GNeg(GConj(g[1]))>>                     \* Perp(g)^H g = 0
ZfF(c) == IF c.ns[1] = 2 THEN ZfF2(c) ELSE ZfF1(c)
\* seeded family: dimensions from Cfgs[ci]
\* precoders with the transmit power: sqrt(P_j) * F_j
FullF(c)      == [j \in 1..c.K |-> MScale(GFromRat(c.pa[j]), c.F[j])]
\* stream d of user j as it arrives at receiver k
Rx(c, FF, k, j, d) == IF c.jp THEN MatVec(HRow(c, k), Col(FF[j], d))
                              ELSE MatVec(HBlk(c, k, j), Col(FF[j], d))
ZfU(c) == [k \in 1..2 |-> LET g1 == Rx(c, FullF(c), k, k, 1)
                               g2 == Rx(c, FullF(c), k, k, 2)
                               u1 == Perp(g2)
                               u2 == Perp(g1)
                           IN  [a \in 1..2 |-> <<u1[a], u2[a]>>]]
\* seeded family: dimensions from Cfgs[ci]
MkSeeded(ci, n) == LET g  == Cfgs[ci]
                       b  == [MkFrom(g, Start(ci, n), g.zf, FALSE) EXCEPT !.id = <<ci, n>>,
                                                                          !.op = [FreshOp EXCEPT !.pw = IF (ci + n) % 2 = 0 THEN "ctor" ELSE "fullF"]]
                       b2 == [b EXCEPT !.F = ZfF(b)]
                   IN  IF ~g.zf THEN b ELSE IF g.ns[1] = 2 THEN [b2 EXCEPT !.U = ZfU(b2)] ELSE b2
MkCase(ci, n) == IF ci = 0 THEN MkExh(n) ELSE MkSeeded(ci, n)
RxTab(c, FF)  == Force([k \in 1..c.K |-> [j \in 1..c.K |-> [d \in 1..c.ns[j] |-> Rx(c, FF, k, j, d)]]])
\* the columns of all external sources as they arrive at receiver k
ExtCols(c, k) == [e \in 1..Total(c.nte) |->
                    LET src == c.K + Owner(c.nte, e)
                    IN  [a \in 1..c.nr[k] |-> GScaleRat(Amp(c, k, src), c.H[Off(c.nr, k) + a][NumT(c) + e])]]
ExtTab(c)     == Force([k \in 1..c.K |-> ExtCols(c, k)])

\* powers after receive filter column l of user k: signal, the other streams, external, noise
Pow(c, rx, ex, pe, UU, k, l) ==
  LET u == Col(UU[k], l)
  IN [ sig  |-> GAbs2(Inner(u, rx[k][k][l])),
       intf |-> RSumSeq([j \in 1..c.K |-> RSumSeq([d \in 1..c.ns[j] |->
                   IF j = k /\ d = l THEN RZero ELSE GAbs2(Inner(u, rx[k][j][d]))])]),
       ext  |-> RMul(pe, RSumSeq([e \in 1..Len(ex[k]) |-> GAbs2(Inner(u, ex[k][e]))])),
       nse  |-> RMul(NoiseOf(c), Norm2(u)) ]
Den(p)      == RAdd(RAdd(p.intf, p.ext), p.nse)
\* (the received streams and external columns of a case are computed once and shared: Tb)
Tb(c, FF) == [rx |-> RxTab(c, FF), ex |-> ExtTab(c)]
PowTabT(c, tb, UU, pe) == [k \in 1..c.K |-> [l \in 1..c.ns[k] |-> Pow(c, tb.rx, tb.ex, pe, UU, k, l)]]
PowTab(c, FF, UU, pe)  == PowTabT(c, Tb(c, FF), UU, pe)
\* A stream whose interference-plus-noise power is exactly zero while its signal power is not has an INFINITE
\* SINR: written <<1, 0>>.  The code may report +inf or a huge positive number (its denominator is then rounding
\* noise), never a negative number or NaN (NonNegative).  0 / 0 is undefined: such cases are outside the property.
Inf == <<1, 0>>
IsInf(q) == q[2] = 0
SDiv(a, b) == IF b[1] = 0 THEN Inf ELSE RDiv(a, b)
\* (written without a disjunction: TLC would enumerate the disjuncts of an action guard as separate successors)
PowValid(c, pt) == \A k \in 1..c.K : \A l \in 1..c.ns[k] : ~(Den(pt[k][l])[1] = 0 /\ pt[k][l].sig[1] = 0)
SinrOfPow(c, pt) == [k \in 1..c.K |-> [l \in 1..c.ns[k] |-> SDiv(pt[k][l].sig, Den(pt[k][l]))]]
SinrTab(c, FF, UU, pe) == SinrOfPow(c, PowTab(c, FF, UU, pe))

\* interference(+noise) covariance reported for receiver k, element by element: all streams of
\* all OTHER users, the external sources, and sigma^2 on the diagonal when a noise variance is set
OuterEl(g, a, b) == GMul(g[a], GConj(g[b]))
CovEl(c, rx, ex, k, a, b, skipUser, skipStream) ==
  GAdd(GAdd(GSumSeq([j \in 1..c.K |-> GSumSeq([d \in 1..c.ns[j] |->
                 IF j = skipUser /\ (skipStream = 0 \/ d = skipStream) THEN GZero
                 ELSE OuterEl(rx[k][j][d], a, b)])]),
            GScaleRat(c.pe, GSumSeq([e \in 1..Len(ex[k]) |-> OuterEl(ex[k][e], a, b)]))),
       IF HasNoise(c) /\ a = b THEN GFromRat(NoiseOf(c)) ELSE GZero)
QTabT(c, tb) == [k \in 1..c.K |-> [a \in 1..c.nr[k] |-> [b \in 1..c.nr[k] |-> CovEl(c, tb.rx, tb.ex, k, a, b, k, 0)]]]
QTab(c, FF)  == QTabT(c, Tb(c, FF))
\* covariance seen by stream l of user k: every other stream of every user + external + noise
BTabT(c, tb) == [k \in 1..c.K |-> [l \in 1..c.ns[k] |-> [a \in 1..c.nr[k] |-> [b \in 1..c.nr[k] |->
                    CovEl(c, tb.rx, tb.ex, k, a, b, k, l)]]]]
BTab(c, FF)  == BTabT(c, Tb(c, FF))

(* ----- the IA solver: W is compensated so that  full_W^H * H_kk * full_F = I  (zero forcing of
   the user's own streams).  full_W_H = (W^H H_kk full_F)^-1 W^H; we keep the adjugate form
   Ueff^H = adj(Heq) W^H = det(Heq) * full_W_H  (a non-zero multiple of the filter; the SINR does
   not see the multiple - ScaleInvariant) so that magnitudes stay inside 32-bit integers.        *)
\* The solver has no argument for the external power: the one power it can mean is pe = 1, the default its own
\* calc_Q uses (it forwards to the channel's calc_Q).  Its SINR must therefore contain the external interference
\* with pe = 1.  (Modelled for at most two streams per user: the adjugate of a 3 x 3 Heq leaves 32-bit integers;
\* `inv` still tells the harness when the compensated filter exists, for the (rel) agreement check.)
SolverApplies(c) == ~c.jp /\ \A k \in 1..c.K : c.ns[k] <= 2
Heq(c, FF, k)    == MMul(MHerm(c.U[k]), MMul(HBlk(c, k, k), FF[k]))
HeqDet(c, FF, k) == MDet(Heq(c, FF, k))
UeffH(c, FF, k)  == MMul(MAdj(Heq(c, FF, k)), MHerm(c.U[k]))
UeffTab(c, FF)   == Force([k \in 1..c.K |-> MHerm(UeffH(c, FF, k))])
SolverInvertible(c, FF) == \A k \in 1..c.K : ~GIsZero(HeqDet(c, FF, k))

NoSol == [ok |-> FALSE, sinr |-> <<>>, det |-> <<>>, q1 |-> <<>>, inv |-> FALSE]
SolOfT(c, tb) ==
  IF c.jp THEN NoSol
  ELSE LET FF  == FullF(c)
           inv == SolverInvertible(c, FF)
       IN IF ~SolverApplies(c) \/ ~inv THEN [NoSol EXCEPT !.inv = inv]
          ELSE LET pt == PowTabT(c, tb, UeffTab(c, FF), ROne)
               IN IF ~PowValid(c, pt) THEN [NoSol EXCEPT !.inv = inv]
                  ELSE [ok |-> TRUE, sinr |-> SinrOfPow(c, pt), det |-> [k \in 1..c.K |-> HeqDet(c, FF, k)],
                        q1 |-> IF c.nte = <<>> THEN <<>> ELSE QTabT([c EXCEPT !.pe = ROne], tb),    \* what solver.calc_Q reports
                        inv |-> TRUE]

SolOf(c) == SolOfT(c, Tb(c, FullF(c)))

(* Frame conditions every replayed step owes (notes/CALL_DISCIPLINE.md).  They are laws about CALLS, not about
   values, so TLC cannot evaluate them; the specification names the ones a step requires, emits the names with
   the step and the harness refuses to run a step whose required set it does not implement.
     ArgumentsUnchanged       every array / list handed to a call is bit-identical afterwards (any memory layout)
     EarlierResultsUnchanged  a value returned earlier is not altered by later calls on the same or another object
     ResultsAreCopies         writing into a returned value does not change what the object reports next
     QueryIsPure              calc_* / get_* leave the later behaviour of the object unchanged
     RepresentationIrrelevant the demanded value is a function of the NUMBERS handed over: Python int, numpy
                              integer, float32, float64, 0 / 0.0 / -0.0, C / Fortran / strided / read-only arrays
     BystanderUnaffected      a second channel / solver object in the same process reports what it reported before
     RejectedChangesNothing   a call refused with an exception leaves the object as it was (chains)
     AliasCoherent            see the aliasing probes (scribble leaves)                                              *)
\* a REAL solver class can be run on the case: ClosedFormIASolver needs K = 3, square 2 x 2 links that are all invertible
ClosedFormApplies(c) == /\ c.K = 3 /\ ~c.jp /\ c.nte = <<>>
                        /\ \A k \in 1..3 : c.nr[k] = 2 /\ c.nt[k] = 2
                        /\ \A k \in 1..3 : \A j \in 1..3 : ~GIsZero(MDet(HBlk(c, k, j)))
\*   SolveSelfConsistent        (rel) after solve() of a real solver class its SINR is the SINR of the channel object fed
\*                              with the solver's own full_F / full_W, its capacity the sum of log2(1 + that)
\*   RandomizeThenQueryCoherent (rel) after randomize() on the same object (path loss kept) every SINR / Q is the
\*                              first-principles value for the matrix big_H reports
Required(c) ==
  <<"ArgumentsUnchanged", "EarlierResultsUnchanged", "ResultsAreCopies", "QueryIsPure", "RepresentationIrrelevant">>
  \o (IF c.chain # <<>> THEN <<"BystanderUnaffected", "RejectedChangesNothing", "RandomizeThenQueryCoherent">> ELSE <<>>)
  \o (IF c.op.kind = "scribble" THEN <<"AliasCoherent">> ELSE <<>>)
  \o (IF ClosedFormApplies(c) THEN <<"SolveSelfConsistent">> ELSE <<>>)
  \o (IF ~c.jp THEN <<"SolverHistoryIrrelevant">> ELSE <<>>)

(* everything the harness compares with the real code *)
\* determinant of a 1 x 1 / 2 x 2 matrix over one common denominator (fraction free: 32-bit integers)
Lcm(a, b) == (a \div Gcd(a, b)) * b
Det2(M)  == IF Len(M) = 1 THEN M[1][1]
            ELSE LET D == Lcm(Lcm(M[1][1][3], M[2][2][3]), Lcm(M[1][2][3], M[2][1][3]))
                     N(e) == <<e[1] * (D \div e[3]), e[2] * (D \div e[3])>>
                     a == N(M[1][1])  b == N(M[1][2])  cc == N(M[2][1])  d == N(M[2][2])
                 IN  GNorm(a[1] * d[1] - a[2] * d[2] - (b[1] * cc[1] - b[2] * cc[2]),
                           a[1] * d[2] + a[2] * d[1] - (b[1] * cc[2] + b[2] * cc[1]), D * D)
OutOf(c, pt) ==
  LET FF == FullF(c)
      tb == Tb(c, FF)
      q  == QTabT(c, tb)
      sn == SinrOfPow(c, pt)
  IN [ sinr |-> sn,
       pow |-> pt,
       onePlus |-> [k \in 1..c.K |-> [l \in 1..c.ns[k] |-> IF IsInf(sn[k][l]) THEN Inf ELSE RAdd(ROne, sn[k][l])]],
       Q |-> q,
       B |-> BTabT(c, tb),
       qtr |-> [k \in 1..c.K |-> GRe(MTrace(q[k]))],
       qdet |-> [k \in 1..c.K |-> IF c.nr[k] <= 2 THEN GRe(Det2(q[k])) ELSE RZero],     \* (3 x 3: PSD by construction only, QIsSumOfLinks)
       xcov |-> IF c.nte = <<>> THEN <<>>                                           \* pe * He He^H, the external covariance alone
                ELSE [k \in 1..c.K |-> [a \in 1..c.nr[k] |-> [b \in 1..c.nr[k] |->
                        GScaleRat(c.pe, GSumSeq([e \in 1..Len(tb.ex[k]) |-> OuterEl(tb.ex[k][e], a, b)]))]]],
       cf |-> ClosedFormApplies(c),
       sol |-> SolOfT(c, tb),
       req |-> Required(c) ]

(* ------------------------------ (2) the algebra of the code ------------------------------------ *)
AAmp(c, k, j)  == IF Dev.PathlossIgnored THEN ROne ELSE Amp(c, k, j)
AHkl(c, k, j)  == [a \in 1..c.nr[k] |-> [b \in 1..NtAll(c)[j] |->
                     GScaleRat(AAmp(c, k, j), c.H[Off(c.nr, k) + a][Off(NtAll(c), j) + b])]]      \* get_Hkl
AHkRows(c, k)  == [a \in 1..c.nr[k] |-> [t \in 1..NumT(c) |->
                     GScaleRat(AAmp(c, k, Owner(c.nt, t)), c.H[Off(c.nr, k) + a][t])]]
AHk(c, k)      == LET k2 == (k % c.K) + 1                                                           \* get_Hk / get_Hk_without_ext_int
                  IN IF Dev.JpRowsOfOtherUser /\ c.nr[k2] = c.nr[k] THEN AHkRows(c, k2) ELSE AHkRows(c, k)
AChan(c, k, j) == Force(IF c.jp THEN AHk(c, k) ELSE AHkl(c, k, j))
AExtH(c, k)    == [a \in 1..c.nr[k] |-> [e \in 1..Total(c.nte) |->
                     GScaleRat(AAmp(c, k, c.K + Owner(c.nte, e)), c.H[Off(c.nr, k) + a][NumT(c) + e])]]
APe(c)         == IF Dev.ExtIntPowerIgnored THEN ROne ELSE c.pe
ANoiseI(c, k)  == MScale(GFromRat(NoiseOf(c)), MIdent(c.nr[k]))
\* calc_cov_matrix_extint_plus_noise (zero matrix + noise for the class without external sources)
ARe(c, k, withNoise) ==
  LET e == IF c.nte = <<>> THEN MZero(c.nr[k], c.nr[k])
           ELSE MScale(GFromRat(APe(c)), MMul(AExtH(c, k), MHerm(AExtH(c, k))))
  IN  Force(IF withNoise THEN MAdd(e, ANoiseI(c, k)) ELSE e)
ACov(Hm, V)    == LET hv == Force(MMul(Hm, V)) IN Force(MMul(hv, MHerm(hv)))
RECURSIVE AFirstFrom(_, _, _, _, _)
AFirstFrom(c, FF, k, j, acc) == IF j > c.K THEN acc
                                ELSE AFirstFrom(c, FF, k, j + 1, Force(MAdd(acc, ACov(AChan(c, k, j), FF[j]))))
AFirst(c, FF, k)     == AFirstFrom(c, FF, k, 1, ARe(c, k, ~Dev.NoiseNotFiltered))     \* _calc_*Bkl_cov_matrix_first_part
ASecond(c, FF, k, l) == ACov(AChan(c, k, k), AsCol(Col(FF[k], l)))                     \* ..._second_part
AB(c, FF, k, l)      == IF Dev.OwnStreamNotSubtracted THEN AFirst(c, FF, k)
                        ELSE Force(MSub(AFirst(c, FF, k), ASecond(c, FF, k, l)))              \* ..._all_l
Bad == <<-1, 1>>
ASinr(c, FF, UU, k, l) ==                                                               \* _calc_SINR_k / _calc_JP_SINR_k_impl
  LET u   == AsCol(Col(UU[k], l))
      uH  == IF Dev.ConjMissing THEN MTrans(u) ELSE MHerm(u)
      aux == MMul(uH, MMul(AChan(c, k, k), AsCol(Col(FF[k], l))))[1][1]
      den == MMul(uH, MMul(AB(c, FF, k, l), u))[1][1]
      dn  == IF Dev.NoiseNotFiltered THEN RAdd(GRe(den), NoiseOf(c)) ELSE GRe(den)
  IN  IF den[2] # 0 \/ (dn[1] = 0 /\ GIsZero(aux)) THEN Bad ELSE SDiv(GAbs2(aux), dn)
ASinrTab(c, FF, UU) == [k \in 1..c.K |-> [l \in 1..c.ns[k] |-> ASinr(c, FF, UU, k, l)]]
\* calc_Q / calc_JP_Q: sum over the interfering users + external + noise (when set)
RECURSIVE AQFrom(_, _, _, _, _)
AQFrom(c, FF, k, j, acc) == IF j > c.K THEN acc
                            ELSE AQFrom(c, FF, k, j + 1, IF j = k THEN acc ELSE Force(MAdd(acc, ACov(AChan(c, k, j), FF[j]))))
AQ(c, FF, k) == AQFrom(c, FF, k, 1, ARe(c, k, HasNoise(c)))
\* the solver: full_F = F * sqrt(P), user by user.
\* Deviation ListPrecodersScaledAlongStreams (OBSERVED in /repo, iabase.full_F): when the precoders are
\* handed over as a Python list (documented input type) of equally shaped matrices, `list * sqrt(P)`
\* is a numpy broadcast over the LAST axis: column d of every user is scaled by sqrt(P_d).
\* (numpy accepts that product silently only for Ns = K; with Ns = 1 the product has K columns and the
\* compensated filter then fails with LinAlgError, ragged lists raise ValueError - the replay reports those
\* under the same finding.)
ListBroadcasts(c) == \A j \in 1..c.K : c.ns[j] = c.K /\ c.nt[j] = c.nt[1]
AFullF(c) == [j \in 1..c.K |->
               IF Dev.ListPrecodersScaledAlongStreams /\ ListBroadcasts(c)
               THEN [a \in 1..Len(c.F[j]) |-> [d \in 1..c.ns[j] |-> GScaleRat(c.pa[d], c.F[j][a][d])]]
               ELSE MScale(GFromRat(IF Dev.SolverScalesByP THEN RSq(c.pa[j]) ELSE c.pa[j]), c.F[j])]

(* ---------------------------------------- the star --------------------------------------------- *)
VARIABLES inp, out, cache
vars == <<inp, out, cache, dv>>
NoCase == [id |-> <<-1, -1>>, chain |-> <<>>]
NoOut  == [sinr |-> <<>>]
\* which inputs the cached quantities of the real objects were computed from
\*   pa   : the powers inside the solver's full_F / full_W_H
\*   part : the antenna partition the channel's per-antenna path-loss expansion was made for
PartOf(c) == <<c.nr, c.nt, c.nte>>
NoCache == [pa |-> <<>>, part |-> <<>>, ns |-> <<>>]
\* the stream counts the solver believes after the precoders were handed over
NsAfter(c, old) == IF Dev.FullFKeepsStaleNs /\ c.op.pw = "fullF" /\ old # <<>> THEN old ELSE c.ns

Init == inp = NoCase /\ out = NoOut /\ cache = NoCache /\ dv \in (IF DevTry = {} THEN {"none"} ELSE {d.name : d \in DevTry})

\* a case on fresh objects
Pick(ci, n) ==
  /\ inp = NoCase
  /\ LET c  == MkCase(ci, n)
         pt == PowTab(c, FullF(c), c.U, c.pe)
     IN  /\ PowValid(c, pt)                    \* undefined SINRs (0 / 0) are outside the property
         /\ inp' = c
         /\ out' = OutOf(c, pt)
         /\ cache' = [pa |-> c.pa, part |-> PartOf(c), ns |-> NsAfter(c, IF c.pre.kind = "none" THEN <<>> ELSE c.pre.ns)]

PickExhaustive == \E n \in Lo..Hi : CLo = 0 /\ dv = "none" /\ n < ExhCount /\ Pick(0, n)
PickSeeded     == \E ci \in CLo..CHi : \E n \in Lo..Hi : ci > 0 /\ CfgOk(ci) /\ NumOk(n) /\ Pick(ci, n)

(* ----- chains: consecutive cases on the same channel object and the same solver object ----- *)
RECURSIVE CountOp(_, _, _)
CountOp(ops, s, name) == IF s = 0 THEN 0 ELSE CountOp(ops, s - 1, name) + (IF ops[s] = name THEN 1 ELSE 0)
RECURSIVE Pow3(_)
Pow3(j) == IF j = 0 THEN 1 ELSE 3 * Pow3(j - 1)
ChainId(hi, n, s) == <<100 + hi, n * 16 + s>>

\* step s (re-)initialises the channel object: next antenna partition (equal totals), new channel matrix,
\* precoders, filters, powers (through set_precoders), noise; the path loss is either set anew or - every
\* other time - simply kept from the previous step (set_pathloss is not called again)
\* (r: redraw number - the first of four draws without an infinite SINR is taken, see FirstValid)
InitCase(prev, hi, n, s, r) ==
  LET hc   == Chains[hi]
      p    == (CountOp(hc.ops, s, "reinit") % Len(hc.parts)) + 1
      base == MkFrom(hc.parts[p], Start(100 + hi, (n * 16 + s) * 4 + r), TRUE, s = 1)
      keep == s > 1 /\ (n + (s \div 2)) % 2 = 0
  IN  [base EXCEPT !.id = ChainId(hi, n, s), !.chain = <<hi, n>>, !.step = s,
                   !.pl = IF keep THEN prev.pl ELSE base.pl,
                   !.op = [kind |-> IF s = 1 THEN "init" ELSE "reinit", pl |-> IF keep THEN "keep" ELSE "set",
                           \* the LAST step (no power step follows) hands full_F alone on every other chain
                           pw |-> IF s = Len(hc.ops) /\ s > 1 /\ n % 2 = 0 THEN "fullF" ELSE "ctor"]]
\* step s changes only the powers, through the P setter of the solver; the j-th power step of chain n is fed
\* with a vector / a scalar / None according to the j-th base-3 digit of n (all orders occur)
PowerCase(prev, hi, n, s) ==
  LET hc   == Chains[hi]
      j    == CountOp(hc.ops, s, "power")
      kind == PwKinds[((n \div Pow3(j - 1)) % 3) + 1]
      pw   == PaSets[hc.parts[1].amps]
      st   == Str(Start(100 + hi, n * 16 + s), prev.K + 1)
      pa   == [k \in 1..prev.K |-> IF kind = "vec" THEN pw[Pk(st, k, Len(pw))]
                                   ELSE IF kind = "scalar" THEN pw[Pk(st, prev.K + 1, Len(pw))] ELSE ROne]
  IN  [prev EXCEPT !.id = ChainId(hi, n, s), !.step = s, !.pa = pa,
                   !.op = [kind |-> "power", pl |-> "keep", pw |-> kind]]
\* an attempt = the case together with its power table (computed once) and whether it is admissible
Attempt(c) == LET pt == PowTab(c, FullF(c), c.U, c.pe)
              IN  [c |-> c, pt |-> pt, ok |-> PowValid(c, pt) /\ (SolverApplies(c) => SolOf(c).ok)]   \* (a chain wants the solver on every step)
RECURSIVE FirstValid(_, _, _, _, _)
FirstValid(prev, hi, n, s, r) ==
  LET a == Attempt(InitCase(prev, hi, n, s, r))
  IN  IF a.ok \/ r >= 3 THEN a ELSE FirstValid(prev, hi, n, s, r + 1)
ChainAttempt(prev, hi, n, s) == IF Chains[hi].ops[s] = "power"
                                THEN LET c == PowerCase(prev, hi, n, s) IN [c |-> c, pt |-> PowTab(c, FullF(c), c.U, c.pe), ok |-> TRUE]
                                ELSE FirstValid(prev, hi, n, s, 0)

(* ----- aliasing probes.  The arrays handed to set_pathloss / init_from_channel_matrix are kept by reference.
   After a chain step the caller tries to WRITE one entry of such an array in place.  Admissible outcomes:
   the write is refused (read-only array; nothing changes - the values of the step itself stay demanded), or
   it is accepted and then the object must behave, in every view and every SINR / Q, as if it had been set up
   with the modified array (`AliasCoherent`); anything in between (reports the new path loss, computes with
   the old one) is a violation.  The probe is a LEAF of the chain: it carries the values demanded in the
   "accepted" alternative; the harness undoes an accepted write afterwards and the chain continues from
   the step itself.                                                                                   *)
Other(seq, cur, i) == LET x == seq[((i - 1) % Len(seq)) + 1] IN IF x # cur THEN x ELSE seq[(i % Len(seq)) + 1]
ScribbleCase(prev, n) ==
  LET st   == Str(Start(200 + prev.chain[1], n * 16 + prev.step), 4)
      onPl == prev.pl # <<>> /\ n % 2 = 0
      am   == AmpSets[Chains[prev.chain[1]].parts[1].amps]
      k    == Pk(st, 1, prev.K)
      j    == Pk(st, 2, IF onPl THEN prev.K + Len(prev.nte) ELSE Len(prev.H[1]))
      i    == Pk(st, 1, Len(prev.H))
  IN  [prev EXCEPT !.id = <<200 + prev.chain[1], n * 16 + prev.step>>,
                   !.pl = IF onPl THEN [prev.pl EXCEPT ![k][j] = Other(am, prev.pl[k][j], st[3])] ELSE prev.pl,
                   !.H  = IF onPl THEN prev.H ELSE [prev.H EXCEPT ![i][j] = Other(Alpha, prev.H[i][j], st[3])],
                   !.op = [kind |-> "scribble", pl |-> IF onPl THEN "pl" ELSE "H", pw |-> "keep"],
                   !.scr = IF onPl THEN <<k, j>> ELSE <<i, j>>]
ChainLeaf == /\ inp # NoCase
             /\ inp.chain # <<>>
             /\ inp.op.kind \in {"init", "reinit"}
             /\ (inp.chain[2] + inp.step) % 2 = 0
             /\ LET c  == ScribbleCase(inp, inp.chain[2])
                    pt == PowTab(c, FullF(c), c.U, c.pe)
                IN  /\ PowValid(c, pt)
                    /\ inp' = c
                    /\ out' = OutOf(c, pt)
                    /\ UNCHANGED cache

\* what the caches of the real objects hold after the step (readers fill them)
CacheAfter(c) ==
  [ pa   |-> IF c.op.kind = "power" /\ c.op.pw = "none" /\ Dev.PowerNoneKeepsCaches THEN cache.pa ELSE c.pa,
    part |-> IF c.op.kind = "reinit" /\ c.op.pl = "keep" /\ Dev.PlExpansionReusedOnEqualShape THEN cache.part ELSE PartOf(c),
    ns   |-> IF c.op.kind \in {"init", "reinit"} THEN NsAfter(c, IF c.op.kind = "init" /\ c.pre.kind # "none" THEN c.pre.ns ELSE cache.ns)
             ELSE cache.ns ]

Step(a) ==
  /\ PowValid(a.c, a.pt)
  /\ inp' = a.c
  /\ out' = OutOf(a.c, a.pt)
  /\ cache' = CacheAfter(a.c)
ChainStart == \E hi \in HLo..HHi : \E n \in Lo..Hi : inp = NoCase /\ ChainOk(hi) /\ NumOk(n) /\ Step(ChainAttempt(inp, hi, n, 1))
ChainStep  == /\ inp # NoCase
              /\ inp.chain # <<>>
              /\ inp.op.kind # "scribble"
              /\ inp.step < Len(Chains[inp.chain[1]].ops)
              /\ Step(ChainAttempt(inp, inp.chain[1], inp.chain[2], inp.step + 1))
(* ----- capacity vectors: "sum capacity is the sum of log2(1 + SINR)" for ANY vector of SINRs - long vectors
   (more streams than any case above has), values from 1e-7 to 1e+15, zeros.  An entry <<m, d, e>> is the SINR
   (m / d) * 10^e.  log2 is transcendental: the harness evaluates sum log2(1 + SINR) from these exact numbers;
   the laws it owes are named here: the value does not depend on the order of the entries
   (CapacityPermutationInvariant) and the capacity of a concatenation is the sum of the capacities
   (CapacityAdditive, split after `cut` entries); every term is >= 0, so the result is finite and >= 0.          *)
CvLens  == <<1, 2, 5, 21, 24, 33, 48>>
CvMants == << <<0, 1>>, <<1, 2>>, <<1, 1>>, <<3, 2>>, <<2, 1>>, <<7, 3>>, <<9, 1>> >>
CvExps  == <<-7, -3, 0, 0, 3, 7, 15, 15>>
CvHot   == <<15, 15, 7, 15>>                     \* the noise-free regime: every stream ~ 1e15
MkCapVec(n) ==
  LET s0  == Str(Start(300, n), 3)
      L   == CvLens[Pk(s0, 1, Len(CvLens))]
      hot == Pk(s0, 2, 2) = 1
      s   == Str(Start(301, n), 2 * L)
  IN [ id |-> <<-2, n>>, chain |-> <<>>, step |-> 0, op |-> [kind |-> "capvec", pl |-> "", pw |-> ""],
       cut |-> Pk(s0, 3, L + 1) - 1,
       cv |-> [i \in 1..L |-> LET m == CvMants[Pk(s, 2 * i - 1, Len(CvMants))]
                               IN  <<m[1], m[2], IF hot THEN CvHot[Pk(s, 2 * i, Len(CvHot))] ELSE CvExps[Pk(s, 2 * i, Len(CvExps))]>>] ]
PickCapVec == \E n \in VLo..VHi :
                /\ inp = NoCase /\ dv = "none"
                /\ inp' = MkCapVec(n)
                /\ out' = [sinr |-> <<>>, req |-> <<"ArgumentsUnchanged", "CapacityPermutationInvariant", "CapacityAdditive">>]
                /\ UNCHANGED cache
CapVecWellFormed == (inp # NoCase /\ inp.op.kind = "capvec") =>
                       /\ inp.cut \in 0..Len(inp.cv)
                       /\ \A i \in 1..Len(inp.cv) : inp.cv[i][1] >= 0 /\ inp.cv[i][2] > 0      \* every 1 + SINR is >= 1

Next == (PickExhaustive \/ PickSeeded \/ ChainStart \/ ChainStep \/ ChainLeaf \/ PickCapVec) /\ dv' = dv

Emit == EmitCase([inp |-> inp', out |-> out'])

(* ---------------------------------------- the laws --------------------------------------------- *)
Has == inp # NoCase /\ inp.op.kind # "capvec"
Streams(c) == {kl \in (1..c.K) \X (1..3) : kl[2] <= c.ns[kl[1]]}

TypeOK == Has => /\ inp.K \in 1..4 /\ inp.step >= 0 /\ (inp.chain = <<>> <=> inp.step = 0) /\ Len(inp.nr) = inp.K /\ Len(inp.nt) = inp.K /\ Len(inp.ns) = inp.K
                 /\ Len(out.sinr) = inp.K
                 /\ \A k \in 1..inp.K : Len(out.sinr[k]) = inp.ns[k]

NonNegative == Has => \A kl \in Streams(inp) :
                  LET q == out.sinr[kl[1]][kl[2]]
                  IN  q[1] >= 0 /\ q[2] >= 0 /\ (q[2] = 0 => q = Inf)      \* finite and >= 0, or +infinity; never negative

\* the cached quantities were computed from the current inputs
CachesFresh == Has => /\ cache.pa = inp.pa
                      /\ cache.ns = inp.ns
                      /\ inp.pl # <<>> => cache.part = PartOf(inp)

\* The twin case: column l of the receive filter of user k rescaled by the non-zero Gaussian rational inp.scs[k][l]
\* (ONE FACTOR PER STREAM: a noise term or normalisation shared between the streams of a user would show), every channel gain
\* (path-loss amplitude, external sources included) by inp.ga and the noise variance by inp.ga^2.
\* Each of the four power terms is homogeneous - it is multiplied by |sc|^2 ga^2 - so no SINR changes.
\* Because the terms scale one by one the law extends to factors of any magnitude.
\* The noise variance carries one more factor inp.tn that touches the noise term ALONE: the SINR of the twin is
\* sig / (intf + ext + tn * nse) - again for any magnitude of tn (tiny noise: huge but finite SINRs).
Twin(c) == [c EXCEPT !.pl  = [k \in 1..c.K |-> [j \in 1..(c.K + Len(c.nte)) |-> RMul(c.ga, Amp(c, k, j))]],
                     !.nsc = RMul(RMul(c.nsc, RSq(c.ga)), c.tn),
                     !.U   = [k \in 1..c.K |-> [a \in 1..c.nr[k] |-> [l \in 1..c.ns[k] |-> GMul(c.scs[k][l], c.U[k][a][l])]]]]
ScaleInvariant == Has =>
  LET t  == Twin(inp)
      tb == Tb(t, FullF(t))
      pt == PowTabT(t, tb, t.U, t.pe)
      ff(k, l) == RMul(GAbs2(inp.scs[k][l]), RSq(inp.ga))
      nI == [k \in 1..inp.K |-> IF HasNoise(inp) THEN MScale(GFromRat(NoiseOf(inp)), MIdent(inp.nr[k]))
                                                 ELSE MZero(inp.nr[k], inp.nr[k])]
  IN  /\ \A kl \in Streams(inp) :
            LET p == pt[kl[1]][kl[2]]
                b == out.pow[kl[1]][kl[2]]
                f == ff(kl[1], kl[2])
            IN  /\ p.sig = RMul(f, b.sig) /\ p.intf = RMul(f, b.intf)
                /\ p.ext = RMul(f, b.ext) /\ p.nse = RMul(RMul(f, inp.tn), b.nse)
      /\ SinrOfPow(t, pt) = [k \in 1..inp.K |-> [l \in 1..inp.ns[k] |->
                                LET b == out.pow[k][l]
                                IN  SDiv(b.sig, RAdd(RAdd(b.intf, b.ext), RMul(inp.tn, b.nse)))]]
      \* QScales: the interference covariance of the twin is ga^2 times the original one (it does not depend on U;
      \* its sigma^2 I part carries the extra noise factor tn)
      /\ QTabT(t, tb) = [k \in 1..inp.K |->
                           MScale(GFromRat(RSq(inp.ga)), MAdd(MSub(out.Q[k], nI[k]), MScale(GFromRat(inp.tn), nI[k])))]

\* Hermitian; positive semidefinite decided exactly by the principal minors (Nr <= 2)
QHermitianPSD == Has => \A k \in 1..inp.K :
                    /\ MIsHerm(out.Q[k])
                    /\ \A a \in 1..inp.nr[k] : out.Q[k][a][a][2] = 0 /\ out.Q[k][a][a][1] >= 0
                    /\ inp.nr[k] <= 2 => (out.qdet[k][1] >= 0 /\ GIm(Det2(out.Q[k]))[1] = 0)

\* Q = SUM over the interfering links A_j A_j^H (A_j = H_kj F_j sqrt(P_j), resp. H_k F_j) + pe * He He^H + sigma^2 I:
\* a sum of matrices of the form A A^H, hence positive semidefinite by construction
LinkSum(c, FF, k) ==
  LET Z     == MZero(c.nr[k], c.nr[k])
      links == [j \in 1..c.K |-> IF j = k THEN Z ELSE ACov(IF c.jp THEN HRow(c, k) ELSE HBlk(c, k, j), FF[j])]
      ecols == Force(ExtCols(c, k))
      he    == Force([a \in 1..c.nr[k] |-> [e \in 1..Total(c.nte) |-> ecols[e][a]]])
      ext   == IF c.nte = <<>> THEN Z ELSE Force(MScale(GFromRat(c.pe), MMul(he, MHerm(he))))
      nse   == IF HasNoise(c) THEN MScale(GFromRat(NoiseOf(c)), MIdent(c.nr[k])) ELSE Z
      RECURSIVE Acc(_)
      Acc(j) == IF j = 0 THEN Force(MAdd(ext, nse)) ELSE Force(MAdd(Acc(j - 1), links[j]))
  IN  Acc(c.K)
QIsSumOfLinks == Has => \A k \in 1..inp.K : out.Q[k] = LinkSum(inp, FullF(inp), k)

\* the SINR denominator is the quadratic form of Q plus the user's own other streams
\* (when no noise variance is set neither side has a noise term)
DenIsQuadraticForm == Has =>
  LET FF == FullF(inp)
      rx == RxTab(inp, FF)
      pt == out.pow
  IN \A kl \in Streams(inp) :
       LET k == kl[1]
           l == kl[2]
           u == Col(inp.U[k], l)
           qf == GRe(Inner(u, MatVec(out.Q[k], u)))
           own == RSumSeq([d \in 1..inp.ns[k] |-> IF d = l THEN RZero ELSE GAbs2(Inner(u, rx[k][k][d]))])
       IN  /\ Inner(u, MatVec(out.Q[k], u))[2] = 0
           /\ RAdd(qf, own) = Den(pt[k][l])
           /\ out.sinr[k][l] = SDiv(pt[k][l].sig, RAdd(qf, own))

\* B_kl = Q_k + own other streams (matrix form)
BIsQPlusOwn == Has =>
  LET FF == FullF(inp)
  IN \A kl \in Streams(inp) :
       LET k == kl[1]
           l == kl[2]
           RECURSIVE Acc(_)
           Acc(d) == IF d = 0 THEN out.Q[k]
                     ELSE IF d = l THEN Acc(d - 1)
                     ELSE Force(MAdd(Acc(d - 1), ACov(IF inp.jp THEN HRow(inp, k) ELSE HBlk(inp, k, k), AsCol(Col(FF[k], d)))))
           \* Q carries no noise term when no variance is set; B then has none either
       IN  out.B[k][l] = Acc(inp.ns[k])

\* the covariance algebra of the code yields the first-principles value
AlgMatches == Has => /\ ASinrTab(inp, FullF(inp), inp.U) = out.sinr
                     /\ \A k \in 1..inp.K : AQ(inp, FullF(inp), k) = out.Q[k]

\* the solver's compensated filter zero-forces the user's own streams:  Ueff^H H_kk full_F = det * I
SolverZeroForcing == (Has /\ out.sol.ok) =>
  \A k \in 1..inp.K :
     MMul(UeffH(inp, FullF(inp), k), MMul(HBlk(inp, k, k), FullF(inp)[k])) = MScale(out.sol.det[k], MIdent(inp.ns[k]))
\* with one stream the compensation is a scalar: solver and channel object report the same number
SolverAgrees == (Has /\ out.sol.ok /\ (inp.nte = <<>> \/ inp.pe = ROne)) =>
  \A k \in 1..inp.K : inp.ns[k] = 1 =>
     out.sol.sinr[k] = out.sinr[k]
SolverAlgMatches == (Has /\ out.sol.ok) =>
  ASinrTab([inp EXCEPT !.pe = IF Dev.SolverIgnoresExtInt THEN RZero ELSE ROne], AFullF(inp), UeffTab(inp, AFullF(inp))) = out.sol.sinr

\* every term of the sum capacity is log2 of a rational >= 1
CapacityTerms == Has => \A kl \in Streams(inp) :
                    LET t == out.onePlus[kl[1]][kl[2]]
                    IN  IF IsInf(t) THEN IsInf(out.sinr[kl[1]][kl[2]])
                        ELSE RLe(ROne, t) /\ RSub(t, ROne) = out.sinr[kl[1]][kl[2]]
=============================================================================
