----------------------------- MODULE Trace_Tdl -----------------------------
(* Stage T of C03 (exact part): call sequences RECORDED on the real TdlChannel / SuChannel / MuChannel
   classes - random tap profiles (quarter-sample delays up to 10 samples), the real Jakes / Rayleigh
   generators wrapped by a logging subclass, arbitrary input lengths, fft sizes 2..64 (also below the
   channel memory), arbitrary
   slice(start, stop, step) and index-array selections - are replayed through the ACTIONS of Tdl.tla.
   All traces of a run are validated in one TLC run (the trace is chosen in TInit).

   A trace is [cfg |-> configuration record of Tdl.tla whose `ops` are the recorded calls,
               ev  |-> <<observation, ...>>]   (one observation per call, integers / strings only):
     [raised, outlen, nsamp, cnt, calls, same, pos, delays, dir]
   outlen  length of the returned signal (per receiver / antenna row), nsamp the number of samples of the
   response reported afterwards, cnt the number of carriers numpy selected with the selection object,
   calls the calls the channel made on its fading generator during this call (<<"g", n>> generate,
   <<"s", n>> skip), same = every link made the same calls, pos the generator position afterwards,
   delays the tap indexes of the reported response, dir the value switched_direction reads back.

   mismatch = <<>> until the first call whose observation differs from what the action of Tdl.tla
   demands; it then holds <<trace, call index, field>> and is also emitted (TLC runs with -continue). *)
EXTENDS Tdl, IOUtils

Traces == JsonDeserialize(IOEnv.TRACE_FILE)
TraceConfigs == [t \in 1..Len(Traces) |-> Traces[t].cfg]        \* substituted for Configs

VARIABLES tid, i, mismatch
tvars == <<cid, gpos, dir, pl, has, ai, reqs, op, held, tid, i, mismatch>>

TInit == /\ Init /\ tid = cid /\ i = 1 /\ mismatch = <<>>

Ob == Traces[tid].ev[i]
Call == C.ops[i]

\* the generator calls a frequency-domain transmission of nb blocks must make
FCallsOK(calls, nb, fft) ==
  /\ Len(calls) = 2 * nb
  /\ \A q \in 1..Len(calls) : calls[q] = (IF q % 2 = 1 THEN <<"g", 1>> ELSE <<"s", fft - 1>>)

\* first field in which the observation differs from what the call must do ("" = conforms);
\* unprimed = state before the call, primed = state after the module's action
Diff(o, e) ==
  LET D == XDisc(C.prof) IN
  IF e.raised THEN "raised"
  ELSE IF o.k = "T" THEN
         (IF e.outlen # o.n + Mem(D) THEN "outlen" ELSE IF e.nsamp # o.n THEN "nsamp"
          ELSE IF e.calls # <<<<"g", o.n>>>> \/ ~e.same THEN "calls" ELSE IF e.pos # gpos' THEN "pos"
          ELSE IF e.delays # D.delays THEN "delays" ELSE "")
  ELSE IF o.k = "F" THEN LET cnt == Len(SelIdx(o)) IN
         (IF e.cnt # cnt THEN "cnt" ELSE IF e.outlen # o.n * cnt THEN "outlen"
          ELSE IF e.nsamp # o.n THEN "nsamp" ELSE IF ~FCallsOK(e.calls, o.n, o.fft) \/ ~e.same THEN "calls"
          ELSE IF e.pos # gpos' THEN "pos" ELSE IF e.delays # D.delays THEN "delays" ELSE "")
  ELSE IF o.k = "Gen" THEN
         (IF e.nsamp # o.n THEN "nsamp" ELSE IF e.calls # <<<<"g", o.n>>>> THEN "calls"
          ELSE IF e.pos # gpos' THEN "pos" ELSE "")
  ELSE (IF e.calls # <<>> THEN "calls" ELSE IF e.pos # gpos' THEN "pos" ELSE IF e.dir # dir' THEN "dir" ELSE "")

\* the recorder only issues calls the machine has a transition for
WellFormed(o) ==
  \/ o.k = "T" /\ o.n >= 0
  \/ o.k = "F" /\ o.n >= 1 /\ Len(SelIdx(o)) >= 1
  \/ o.k = "Gen" /\ C.kind = "tdl" /\ o.n >= 1
  \/ o.k = "Dir" /\ dir # (o.n = 1)
  \/ o.k = "Ant" /\ C.kind \in {"tdl", "su"} /\ o.n \in 1..Len(C.ants) /\ o.n # ai
  \/ o.k = "PL" /\ C.kind \in {"su", "mu"} /\ pl # o.n /\ o.n \in 0..Len(C.pls)

Note(m) == IF m = <<>> THEN TRUE ELSE EmitCase([tid |-> m[1], ev |-> m[2], field |-> m[3]])

Step ==
  /\ i <= Len(Traces[tid].ev)
  /\ mismatch = <<>>
  /\ IF WellFormed(Call)
       THEN /\ Next /\ op' = Call
            /\ LET d == Diff(Call, Ob) IN mismatch' = IF d = "" THEN <<>> ELSE <<tid, i, d>>
       ELSE /\ mismatch' = <<tid, i, "malformed">>
            /\ UNCHANGED vars
  /\ Note(mismatch')
  /\ i' = i + 1
  /\ UNCHANGED tid

Done == /\ (i > Len(Traces[tid].ev) \/ mismatch # <<>>)
        /\ UNCHANGED tvars

TNext == Step \/ Done

Conforms == mismatch = <<>>
=============================================================================
