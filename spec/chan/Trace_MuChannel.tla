--------------------------- MODULE Trace_MuChannel ---------------------------
(* Stage T for C08: histories recorded from real MultiUserChannelMatrix(ExtInt) objects - random
   numbers of users, antennas, complex channels and path-loss matrices, i.e. NOT restricted to the
   alphabet MuChannel.tla enumerates - validated against the coherence requirement of MuChannel.tla.

   The recorder numbers the primary inputs: rawVer counts randomize / init_from_channel_matrix
   calls, plVer counts set_pathloss calls, filtVer counts set_post_filter calls.  For every reader
   it logs which (rawVer, plVer) combination of its own history the returned view equals (found by
   comparing the value with raw(r) .* sqrt(pathloss(p)) for every earlier combination).  The
   specification keeps the current versions and requires every view to stem from the CURRENT ones
   (Coherent), the reported noise to match the noise setting and the applied filter to be the
   current one (ReceiveLaw).  All traces are validated in one TLC run.                           *)
EXTENDS Integers, Sequences, TLC, Json, IOUtils

Traces == JsonDeserialize(IOEnv.TRACE_FILE)

VARIABLES tid, i, rawVer, plVer, filtVer, noiseOn, mismatch
vars == <<tid, i, rawVer, plVer, filtVer, noiseOn, mismatch>>
T == Traces[tid]
Ev == T[i]

Init == /\ tid \in 1..Len(Traces) /\ i = 1 /\ rawVer = 0 /\ plVer = 0 /\ filtVer = 0 /\ noiseOn = FALSE /\ mismatch = <<>>

Fail(why) == mismatch' = <<tid, i, why>> /\ UNCHANGED <<tid, i, rawVer, plVer, filtVer, noiseOn>>
Go == i' = i + 1 /\ UNCHANGED <<tid, mismatch>>

Step ==
  CASE Ev.op = "NewChannel"  -> Go /\ rawVer' = rawVer + 1 /\ UNCHANGED <<plVer, filtVer, noiseOn>>
    [] Ev.op = "SetPathloss" -> Go /\ plVer' = plVer + 1 /\ UNCHANGED <<rawVer, filtVer, noiseOn>>
    [] Ev.op = "SetFilter"   -> Go /\ filtVer' = filtVer + 1 /\ UNCHANGED <<rawVer, plVer, noiseOn>>
    [] Ev.op = "SetNoise"    -> Go /\ noiseOn' = Ev.on /\ UNCHANGED <<rawVer, plVer, filtVer>>
    [] Ev.op = "Read" ->
         IF Ev.raised THEN Fail("reader raised")
         ELSE IF Ev.src # <<rawVer, plVer>> THEN Fail("view does not stem from the current channel and path loss")
         ELSE Go /\ UNCHANGED <<rawVer, plVer, filtVer, noiseOn>>
    [] Ev.op = "Corrupt" ->
         IF Ev.raised THEN Fail("corrupt_data raised")
         ELSE IF Ev.src # <<rawVer, plVer>> THEN Fail("received data not produced by the current global matrix")
         ELSE IF Ev.noise # noiseOn THEN Fail("reported last_noise does not match the noise setting")
         ELSE IF Ev.filt # filtVer THEN Fail("post filter applied is not the current one")
         ELSE Go /\ UNCHANGED <<rawVer, plVer, filtVer, noiseOn>>

Next == IF mismatch # <<>> \/ i > Len(T) THEN UNCHANGED vars ELSE Step

Conforms == mismatch = <<>>
=============================================================================
