------------------------------ MODULE PathLoss ------------------------------
(* C13 - path-loss models are monotone, invertible and unit-consistent, and stay so after any
   sequence of parameter changes.

   One machine for the five classes of pyphysim.channels.pathloss (constant `Model`):
     "general"   PathLossGeneral(n, C)         PL = 10 n log10(d) + C              d in km
     "3gpp1"     PathLoss3GPP1()               PL = 128.1 + 37.6 log10(d)          d in km
     "freespace" PathLossFreeSpace(n, fc)      PL = 10 n (log10 d + log10(fc 1e6) - K0)
     "metis"     PathLossMetisPS7(fc)          PL = A log10 d + B + 20 log10(fc_GHz/5) + X,  d in m
     "hata"      PathLossOkomuraHata()         PL = 69.55 + 26.16 log fc - 13.82 log hbs - a(hms)
                                                    + (44.9 - 6.55 log hbs) log d - K
   The formulas are the ones in the DOCUMENTATION of the classes (docstrings), not the code.

   State = the parameter tuple of one object (implementation shaped: the free-space class
   caches the constant C derived from (n, fc), so C is a state variable of its own) plus the
   small-distance policy flag `handle_small_distances_bool`.  Actions = the constructor, every
   public setter with accepted AND rejected values, and the queries (which do not change the
   state):  PLdB(d), PLdB(array), PL(d), WhichDistDB(pl), WhichDist(pl), Friis(d), Rel.

   Exact arithmetic.  Distances are decades d = 10^k, parameters sit on a lattice where every
   logarithm is an integer or an integer plus ONE model-specific irrational constant:
       freespace  X1 = K0 = 4.3779113907 (the constant printed in the class docstring,
                  = log10(3e8/(4000 pi))),   X2 = log10 9      (fc = 900 MHz, the default)
       metis      X1 = log10(9/5)            (fc = 900 MHz, the default;  fc = 5 10^j MHz exact)
       hata       X1 = log10 28,  X2 = X1^2  (fc = 280: log10(fc/28) = 1;  fc = 1000: log10 fc = 3)
   A dB value is a FORM <<a, b, c>> of rationals meaning a + b X1 + c X2; forms are compared
   coefficient-wise; signs are decided with rational enclosures of X1, X2 (`Enc`), and a query
   whose sign is not decided by the enclosure (or is exactly 0: the boundary "PL < 0" of the
   policy) is not enabled - ties are excluded here, in the specification.
   States off the lattice (Okumura-Hata defaults fc = 900, hbs = 30; 'large city', whose
   correction needs log10(11.75 hms)) keep the state-machine part exact (accepted / rejected,
   parameters after the call, slope per decade) and the laws are evaluated by the harness as
   relations (query `Rel`, marked (rel)).

   Named deviations (record Dev): with all flags FALSE every invariant below holds.
     FcRejectKeepsValue  free space: `fc = v` with v <= 0 raises AFTER storing v (code as it is:
                         the getter then reports v while the loss still uses the old fc, and every
                         later `n = x` raises after storing x)
     NSetterKeepsC       free space: n setter does not recompute C
     FcSetterKeepsC      free space: fc setter does not recompute C
     ClampArrayOnly      negative loss clamped to 0 dB for arrays but returned as is for scalars
     HataRejectAssigns   Okumura-Hata setters store the value before validating it
     ShadowAfterPolicy   the shadowing draw is added AFTER the small-distance handling (a returned loss can be < 0)
     ZeroInArrayAsUnit   a zero distance inside an ARRAY gets the loss of the unit distance instead of the policy
     PlotRestoresPolicyFromShadow / PlotRaiseLeavesShadowOff   the plot helper does not leave the object as it was
     FlagsSharedAcrossObjects   the option flags are shared by all path-loss objects of the process
     ClampLostInFortranLayout   the clamp does not reach matrices that are not C-ordered
     LinearArrayIgnoresRaise    the linear array query never raises under the raise policy

   Shadowing (`use_shadow_bool`, `sigma_shadow`) is part of the state with its two setters.  While it is on with
   sigma > 0 the exact-value queries are not enabled (the value is det + sigma z for an unknown draw z); the range
   law is stated for every draw (ShadowRange) and `QRel` hands the harness the exact deterministic losses, so that
   seeded draws close to the minimum distance can be judged: never negative, never an exception under the clamp
   policy, within 7 sigma of the deterministic loss.  sigma = 0 with shadowing on is a falsy-but-valid value: all
   exact queries stay enabled and must return the deterministic values.                                      *)
EXTENDS Integers, Sequences, FiniteSets, TLC, Emit, PathLossParams

CONSTANTS Model,     \* "general" | "3gpp1" | "freespace" | "metis" | "hata"
          InitArgs,  \* sequence of constructor arguments [n |-> Rat, C |-> Rat, fc |-> [m, e]]
          NVals,     \* sequence of Rat          : alphabet of the n setter
          FcVals,    \* sequence of [m, e]       : alphabet of the fc setter, fc = m 10^e MHz
          HbsVals, HmsVals,   \* sequences of Rat
          AreaVals,  \* sequence of strings (incl. an invalid one)
          WallVals,  \* set of wall counts for scalar METIS queries (incl. -1)
          ArrSets,   \* sequence of [ks |-> Seq(Int), ws |-> Seq(Nat)] : array queries
          KMin, KMax,\* decades of distance
          Enc,       \* [x1, x2, kf |-> <<lo, hi>>] rational enclosures of X1, X2, log10(c/(4000 pi))
          WithBy,     \* BOOLEAN: does this instance have a bystander object
          ByClasses,  \* set of class names a bystander is constructed from
          PlotIdx,    \* indices into ArrSets: the distance arrays handed to the plot helper
          ShadowVals, \* subset of BOOLEAN : values of the use_shadow_bool setter
          SigmaVals,  \* sequence of Rat >= 0   : values of the sigma_shadow setter (0 = shadowing without effect)
          EmitSel,    \* 0: emit everything; 1 / 2: only from states with policy raise / clamp (parallel emission runs)
          Dev, DoEmit

D(p, q) == RNorm(p, q)
Ks == KMin..KMax

(* ---------------------------------------- forms ------------------------------------------- *)
FZ          == <<RZero, RZero, RZero>>
FC(r)       == <<r, RZero, RZero>>
X1          == <<RZero, ROne, RZero>>
X2          == <<RZero, RZero, ROne>>
FAdd(f, g)  == <<LAdd(f[1], g[1]), LAdd(f[2], g[2]), LAdd(f[3], g[3])>>
FNeg(f)     == <<RNeg(f[1]), RNeg(f[2]), RNeg(f[3])>>
FSub(f, g)  == FAdd(f, FNeg(g))
FScale(r, f) == <<LMul(r, f[1]), LMul(r, f[2]), LMul(r, f[3])>>
FIsRat(f)   == f[2] = RZero /\ f[3] = RZero
\* square of a form without X2 component in a basis with X2 = X1^2 (Okumura-Hata only)
FSq(f)      == <<LMul(f[1], f[1]), LMul(R(2), LMul(f[1], f[2])), LMul(f[2], f[2])>>

TermLo(b, iv) == IF RSgn(b) >= 0 THEN LMul(b, iv[1]) ELSE LMul(b, iv[2])
TermHi(b, iv) == IF RSgn(b) >= 0 THEN LMul(b, iv[2]) ELSE LMul(b, iv[1])
FLo(f) == LAdd(f[1], LAdd(TermLo(f[2], Enc.x1), TermLo(f[3], Enc.x2)))
FHi(f) == LAdd(f[1], LAdd(TermHi(f[2], Enc.x1), TermHi(f[3], Enc.x2)))
\* 1 / -1: sign decided;  0: exactly zero;  2: not decided by the enclosure
FSign(f) == IF RSgn(FLo(f)) > 0 THEN 1
            ELSE IF RSgn(FHi(f)) < 0 THEN -1
            ELSE IF FIsRat(f) THEN 0 ELSE 2

(* ------------------------------------ the lattice ----------------------------------------- *)
FcVal(f)   == LMul(R(f.m), Pow10(f.e))
FcOnLat(f) == CASE Model = "freespace" -> f.m \in {1, 9}
                [] Model = "metis"     -> f.m \in {5, 9}
                [] Model = "hata"      -> f.m \in {1, 28}
                [] OTHER               -> TRUE
\* log10(fc / MHz)
LogFc(f)   == IF f.m = 1 THEN FC(R(f.e))
              ELSE IF f.m = 9 THEN FAdd(FC(R(f.e)), X2)        \* free space
              ELSE FAdd(FC(R(f.e)), X1)                        \* 28: hata
\* log10((fc / GHz) / 5)
LogFc5(f)  == IF f.m = 5 THEN FC(R(f.e - 3)) ELSE FAdd(FC(R(f.e - 3)), X1)
NoFc       == [m |-> 1, e |-> 0]

(* ----------------------------------------- state ------------------------------------------ *)
VARIABLES ph, n, fc, C, hbs, hms, area, pol, shadow, sigma, out,
          bph, bpol, bshadow     \* a BYSTANDER: a second live path-loss object (any class) with its own two option flags
vars == <<ph, n, fc, C, hbs, hms, area, pol, shadow, sigma, out, bph, bpol, bshadow>>
BV == <<bph, bpol, bshadow>>
P    == [ph |-> ph, n |-> n, fc |-> fc, fcv |-> FcVal(fc), C |-> C, hbs |-> hbs, hms |-> hms,
         area |-> area, pol |-> pol, shadow |-> shadow, sigma |-> sigma, bph |-> bph, bpol |-> bpol, bshadow |-> bshadow]
PN   == [ph |-> ph', n |-> n', fc |-> fc', fcv |-> FcVal(fc'), C |-> C', hbs |-> hbs', hms |-> hms',
         area |-> area', pol |-> pol', shadow |-> shadow', sigma |-> sigma', bph |-> bph', bpol |-> bpol', bshadow |-> bshadow']
Params == <<n, fc, C, hbs, hms, area, pol, shadow, sigma>>

Init == /\ ph = "new" /\ n = RZero /\ fc = NoFc /\ C = FZ /\ hbs = RZero /\ hms = RZero
        /\ area = "" /\ pol = FALSE /\ shadow = FALSE /\ sigma = R(8) /\ out = "init"
        /\ bph = "new" /\ bpol = FALSE /\ bshadow = FALSE

\* documented constant of the free-space class:  C = 10 n (log10(fc 1e6) - K0)
CFrom(nn, f) == FScale(LMul(R(10), nn), FSub(FAdd(LogFc(f), FC(R(6))), X1))

Live == ph = "live"
\* the expected answers of the queries do not depend on the bystander: they are emitted once, from the states without one,
\* and the replay looks them up by the object's own part of the state (so they are asked in every bystander situation)
\* (the invariants about the object's answers are likewise evaluated in the states without a bystander: they do not mention it)
QOK == bph = "new"
\* with shadowing switched on (and sigma > 0) a returned loss is det + sigma z, z a standard normal draw
Random == shadow /\ sigma # RZero
f_ok(f) == f.m > 0 /\ FcOnLat(f)
Exact == CASE Model = "freespace" -> f_ok(fc)
           [] Model = "metis"     -> FcOnLat(fc)
           [] Model = "hata"      -> FcOnLat(fc) /\ hbs = R(100) /\ area \in (AreaTypes \ {"large city"})
           [] OTHER               -> TRUE

(* -------------------------------- deterministic loss in dB -------------------------------- *)
\* what the object computes: the classes derived from PathLossGeneral use the CACHED constant C
MetisDet(k, w) ==
  IF w = 0 THEN FAdd(FC(LAdd(LMul(D(187, 10), R(k)), D(468, 10))), FScale(R(20), LogFc5(fc)))
  ELSE FAdd(FC(LAdd(LAdd(LMul(D(368, 10), R(k)), D(438, 10)), R(5 * (w - 1)))), FScale(R(20), LogFc5(fc)))

HataA == FAdd(FSub(FScale(hms, FSub(FScale(D(11, 10), LogFc(fc)), FC(D(7, 10)))),
                   FScale(D(156, 100), LogFc(fc))), FC(D(8, 10)))
HataK == CASE area = "open"     -> FAdd(FSub(FScale(D(478, 100), FSq(LogFc(fc))), FScale(D(1833, 100), LogFc(fc))),
                                        FC(D(4094, 100)))
           [] area = "suburban" -> FAdd(FScale(R(2), FSq(FSub(LogFc(fc), X1))), FC(D(54, 10)))
           [] OTHER             -> FZ
HataSlope == LSub(D(449, 10), LMul(D(655, 100), R(2)))            \* hbs = 100
HataDet(k) ==
  FSub(FAdd(FSub(FSub(FAdd(FC(D(6955, 100)), FScale(D(2616, 100), LogFc(fc))), FC(LMul(D(1382, 100), R(2)))), HataA),
            FC(LMul(HataSlope, R(k)))), HataK)

Det(k, w) == CASE Model = "metis" -> MetisDet(k, w)
               [] Model = "hata"  -> HataDet(k)
               [] OTHER           -> FAdd(FC(LMul(LMul(R(10), n), R(k))), C)

\* what the documentation of the class says for the CURRENT parameters (no cache in it)
Doc(k, w) == CASE Model = "freespace" -> FScale(LMul(R(10), n), FSub(FAdd(FC(R(k)), FAdd(LogFc(fc), FC(R(6)))), X1))
               [] Model = "3gpp1"     -> FC(LAdd(D(1281, 10), LMul(D(376, 10), R(k))))
               [] OTHER               -> Det(k, w)

\* loss increase per decade of distance (rational in every model); <<-1,1>> = not on the lattice
Slope(w) == CASE Model = "metis" -> IF w = 0 THEN D(187, 10) ELSE D(368, 10)
              [] Model = "hata"  -> IF hbs = R(100) THEN HataSlope ELSE <<-1, 1>>
              [] OTHER           -> LMul(R(10), n)

(* ------------------------------ queries (results, not actions) ---------------------------- *)
\* The distance 0 (ZK stands for "k = -infinity": d = 10^k = 0) is the extreme of "too small for the model": every
\* model's loss is -infinity dB there, so its sign is -1 and it falls under the small-distance policy like any other
\* too small distance - as a scalar and as an element of an array (the diagonal of a distance matrix).
ZK == -99
SignDet(k, w) == IF k = ZK THEN -1 ELSE FSign(Det(k, w))
Decided(k, w) == SignDet(k, w) \in {-1, 1}
Outcome(k, w) ==
  LET d == Det(k, w) IN
  IF SignDet(k, w) = -1
    THEN IF pol THEN IF Dev.ClampArrayOnly THEN [t |-> "val", f |-> d] ELSE [t |-> "zero", f |-> FZ]
                ELSE [t |-> "raise", f |-> FZ]
    ELSE [t |-> "val", f |-> d]
\* Dev.ZeroInArrayAsUnit: inside an array the logarithm of a zero distance is taken as 0 (the loss of d = 1)
ArrSign(k, w) == IF k = ZK /\ Dev.ZeroInArrayAsUnit THEN FSign(Det(0, w)) ELSE SignDet(k, w)
ArrElem(k, w) == IF ArrSign(k, w) = -1 THEN [t |-> "zero", f |-> FZ]
                 ELSE [t |-> "val", f |-> IF k = ZK THEN Det(0, w) ELSE Det(k, w)]
ArrOutcome(a) ==
  IF ~pol /\ \E i \in 1..Len(a.ks) : ArrSign(a.ks[i], a.ws[i]) = -1
    THEN [t |-> "raise", v |-> <<>>]
    ELSE [t |-> "arr", v |-> [i \in 1..Len(a.ks) |-> ArrElem(a.ks[i], a.ws[i])]]
ArrDecided(a) == \A i \in 1..Len(a.ks) : Decided(a.ks[i], a.ws[i])
\* The outcome of an array query is a function of the VALUES: it does not depend on how the caller holds them in memory.
\* Dev.ClampLostInFortranLayout: the clamp is applied through a flattened COPY for matrices that are not C-ordered.
Layouts == {"C", "Fortran", "transposed", "strided"}
ArrOutcomeL(a, lay) ==
  IF Dev.ClampLostInFortranLayout /\ lay \in {"Fortran", "transposed"} /\ pol
    THEN [t |-> "arr", v |-> [i \in 1..Len(a.ks) |-> [t |-> "val", f |-> Det(a.ks[i], a.ws[i])]]]
    ELSE ArrOutcome(a)
\* The linear query is 10^(-dB/10) of the dB query and therefore falls under the SAME small-distance policy (it raises
\* exactly when the dB query raises).  Dev.LinearArrayIgnoresRaise: an array fast path of the linear query never raises.
ArrLinT(a) == IF Dev.LinearArrayIgnoresRaise THEN "arr" ELSE ArrOutcome(a).t

\* linear value 10^(-dB/10) as an exact rational where dB/10 is an integer in 0..9
LinOf(o) == IF o.t = "zero" THEN ROne
            ELSE IF o.t = "val" /\ FIsRat(o.f) /\ IsInt(LDiv(o.f[1], R(10)))
                    /\ LDiv(o.f[1], R(10))[1] \in 0..9
                 THEN Pow10(-(LDiv(o.f[1], R(10))[1]))
                 ELSE RZero                                     \* no exact value: harness evaluates the form
\* algebraic inverse as the class computes it: d = 10^((PL - C)/(10 n)); -999 = not a decade
InvOffered == Model \in {"general", "3gpp1", "freespace"}
Inv(f) == LET q == FScale(LDiv(ROne, LMul(R(10), n)), FSub(f, C))
          IN  IF FIsRat(q) /\ IsInt(q[1]) THEN q[1][1] ELSE -999

(* ----------------------------------------- actions ---------------------------------------- *)
E(rec) == IF DoEmit /\ (EmitSel = 0 \/ (EmitSel = 1 /\ ~pol) \/ (EmitSel = 2 /\ pol)) THEN EmitEdge(rec) ELSE TRUE

\* frame conditions every call is replayed under (notes/CALL_DISCIPLINE.md); listed in every emitted record
FrameQ == {"ArgumentsUnchanged", "EarlierResultsUnchanged", "QueryIsPure", "AnyDtypeSameValue",
           "AnyLayoutSameValue",       \* C-ordered, Fortran-ordered, transposed and strided matrices hold the same distances
           "LinearAgreesWithDb",       \* linear query = 10^(-dB/10), same raise / clamp decision, for every input form
           "AnyShapeElementwise",      \* an array query is element-wise: row / column / matrix / broadcast wall vector, same elements
           "AnyScalarTypeSameValue"}   \* a scalar distance as int, numpy scalar or 0-d array is the same distance
FrameS(o) == IF o = "raise" THEN {"RejectedChangesNothing"} ELSE {}
SetRec(op, arg, o) == [kind |-> "set", op |-> op, arg |-> arg, out |-> o, pre |-> P, post |-> PN, frame |-> FrameS(o)]

Construct(i) ==
  LET a == InitArgs[i] IN
  /\ ph = "new" /\ ph' = "live" /\ pol' = FALSE /\ out' = "ok"
  /\ shadow' = FALSE /\ sigma' = R(8)                      \* use_shadow_bool = False, sigma_shadow = 8.0
  /\ bpol' = (IF Dev.FlagsSharedAcrossObjects THEN FALSE ELSE bpol)
  /\ bshadow' = (IF Dev.FlagsSharedAcrossObjects THEN FALSE ELSE bshadow) /\ UNCHANGED bph
  /\ CASE Model = "general"   -> n' = a.n /\ C' = FC(a.C) /\ UNCHANGED <<fc, hbs, hms, area>>
       [] Model = "3gpp1"     -> n' = D(376, 100) /\ C' = FC(D(1281, 10)) /\ UNCHANGED <<fc, hbs, hms, area>>
       [] Model = "freespace" -> n' = a.n /\ fc' = a.fc /\ C' = CFrom(a.n, a.fc) /\ UNCHANGED <<hbs, hms, area>>
       [] Model = "metis"     -> fc' = a.fc /\ UNCHANGED <<n, C, hbs, hms, area>>
       [] Model = "hata"      -> fc' = [m |-> 9, e |-> 2] /\ hbs' = R(30) /\ hms' = R(1) /\ area' = "suburban"
                                 /\ UNCHANGED <<n, C>>
  /\ E([kind |-> "set", op |-> "Construct", arg |-> a, out |-> "ok", pre |-> P, post |-> PN])

SetPol(b) ==
  /\ Live /\ pol' = b /\ out' = "ok"
  /\ bpol' = (IF Dev.FlagsSharedAcrossObjects /\ bph = "live" THEN b ELSE bpol) /\ UNCHANGED <<bph, bshadow>>
  /\ UNCHANGED <<shadow, sigma, ph, n, fc, C, hbs, hms, area>>
  /\ E(SetRec("SetPol", b, "ok"))

\* use_shadow_bool / sigma_shadow: public attributes of every model (log-normal shadowing, sigma in dB)
SetShadow(b) ==
  /\ Live /\ b \in ShadowVals /\ shadow' = b /\ out' = "ok"
  /\ bshadow' = (IF Dev.FlagsSharedAcrossObjects /\ bph = "live" THEN b ELSE bshadow) /\ UNCHANGED <<bph, bpol>>
  /\ UNCHANGED <<ph, n, fc, C, hbs, hms, area, pol, sigma>>
  /\ E(SetRec("SetShadow", b, "ok"))
SetSigma(i) ==
  /\ Live /\ sigma' = SigmaVals[i] /\ out' = "ok"
  /\ UNCHANGED <<ph, n, fc, C, hbs, hms, area, pol, shadow>> /\ UNCHANGED BV
  /\ E(SetRec("SetSigma", SigmaVals[i], "ok"))

\* ---- the bystander: another path-loss object alive in the same process (class c, any of the five), constructed before
\* or after the object under study and configured independently.  Each object's answers depend on its OWN settings only:
\* a bystander step leaves the object's parameters as they are, and a step of the object leaves the bystander's flags.
\*   Dev.FlagsSharedAcrossObjects: the two option flags live on the class - every constructor resets them for all
\*   objects and setting one object's flag sets everybody's
ByConstruct(c) ==
  /\ WithBy /\ bph = "new" /\ bph' = "live" /\ bpol' = FALSE /\ bshadow' = FALSE /\ out' = "by"
  /\ pol' = (IF Dev.FlagsSharedAcrossObjects THEN FALSE ELSE pol)
  /\ shadow' = (IF Dev.FlagsSharedAcrossObjects THEN FALSE ELSE shadow)
  /\ UNCHANGED <<ph, n, fc, C, hbs, hms, area, sigma>>
  /\ E([kind |-> "set", op |-> "ByConstruct", arg |-> c, out |-> "by", pre |-> P, post |-> PN, frame |-> {"BystanderUntouched"}])
BySetPol(b) ==
  /\ bph = "live" /\ bpol' = b /\ out' = "by"
  /\ pol' = (IF Dev.FlagsSharedAcrossObjects /\ Live THEN b ELSE pol)
  /\ UNCHANGED <<ph, n, fc, C, hbs, hms, area, shadow, sigma, bph, bshadow>>
  /\ E([kind |-> "set", op |-> "BySetPol", arg |-> b, out |-> "by", pre |-> P, post |-> PN, frame |-> {"BystanderUntouched"}])
BySetShadow(b) ==
  /\ bph = "live" /\ bshadow' = b /\ out' = "by"
  /\ shadow' = (IF Dev.FlagsSharedAcrossObjects /\ Live THEN b ELSE shadow)
  /\ UNCHANGED <<ph, n, fc, C, hbs, hms, area, pol, sigma, bph, bpol>>
  /\ E([kind |-> "set", op |-> "BySetShadow", arg |-> b, out |-> "by", pre |-> P, post |-> PN, frame |-> {"BystanderUntouched"}])

SetN(i) ==
  LET v == NVals[i] IN
  /\ Live /\ "SetN" \in Offers(Model)
  /\ IF fc.m > 0
       THEN /\ n' = v /\ out' = "ok"
            /\ C' = IF Dev.NSetterKeepsC THEN C ELSE CFrom(v, fc)
       ELSE /\ n' = v /\ out' = "raise" /\ C' = C           \* only reachable with FcRejectKeepsValue
  /\ UNCHANGED <<shadow, sigma, ph, fc, hbs, hms, area, pol>> /\ UNCHANGED BV
  /\ E(SetRec("SetN", v, out'))

SetFc(i) ==
  LET v == FcVals[i]
      acc == Accepts(Model, "SetFc", FcVal(v)) IN
  /\ Live /\ "SetFc" \in Offers(Model)
  /\ out' = IF acc THEN "ok" ELSE "raise"
  /\ fc' = IF acc \/ (Model = "freespace" /\ Dev.FcRejectKeepsValue) \/ (Model = "hata" /\ Dev.HataRejectAssigns)
             THEN v ELSE fc
  /\ C' = IF Model = "freespace" /\ acc /\ ~Dev.FcSetterKeepsC THEN CFrom(n, v) ELSE C
  /\ UNCHANGED <<shadow, sigma, ph, n, hbs, hms, area, pol>> /\ UNCHANGED BV
  /\ E(SetRec("SetFc", [m |-> v.m, e |-> v.e, v |-> FcVal(v)], out'))

SetHbs(i) ==
  LET v == HbsVals[i]  acc == Accepts(Model, "SetHbs", v) IN
  /\ Live /\ "SetHbs" \in Offers(Model)
  /\ out' = IF acc THEN "ok" ELSE "raise"
  /\ hbs' = IF acc \/ Dev.HataRejectAssigns THEN v ELSE hbs
  /\ UNCHANGED <<shadow, sigma, ph, n, fc, C, hms, area, pol>> /\ UNCHANGED BV
  /\ E(SetRec("SetHbs", v, out'))

SetHms(i) ==
  LET v == HmsVals[i]  acc == Accepts(Model, "SetHms", v) IN
  /\ Live /\ "SetHms" \in Offers(Model)
  /\ out' = IF acc THEN "ok" ELSE "raise"
  /\ hms' = IF acc \/ Dev.HataRejectAssigns THEN v ELSE hms
  /\ UNCHANGED <<shadow, sigma, ph, n, fc, C, hbs, area, pol>> /\ UNCHANGED BV
  /\ E(SetRec("SetHms", v, out'))

SetArea(i) ==
  LET v == AreaVals[i]  acc == Accepts(Model, "SetArea", v) IN
  /\ Live /\ "SetArea" \in Offers(Model)
  /\ out' = IF acc THEN "ok" ELSE "raise"
  /\ area' = IF acc \/ Dev.HataRejectAssigns THEN v ELSE area
  /\ UNCHANGED <<shadow, sigma, ph, n, fc, C, hbs, hms, pol>> /\ UNCHANGED BV
  /\ E(SetRec("SetArea", v, out'))

\* ---- queries: stuttering steps that emit the exact expected observable
QRec(op, k, w, exp) == [kind |-> "q", op |-> op, k |-> k, w |-> w, exp |-> exp, pre |-> P, post |-> P, frame |-> FrameQ]
WallsOf == IF Model = "metis" THEN WallVals ELSE {0}

QPLdB(k, w) ==
  /\ QOK /\ Live /\ Exact /\ ~Random /\ UNCHANGED vars
  /\ IF w < 0 THEN k # ZK /\ E(QRec("PLdB", k, w, [t |-> "raisevalue", f |-> FZ]))   \* (zero distance AND negative walls: not fixed)
     ELSE Decided(k, w) /\ E(QRec("PLdB", k, w, Outcome(k, w)))

QPL(k, w) ==
  /\ QOK /\ Live /\ Exact /\ ~Random /\ w >= 0 /\ Decided(k, w) /\ UNCHANGED vars
  /\ E(QRec("PL", k, w, [t |-> Outcome(k, w).t, f |-> Outcome(k, w).f, lin |-> LinOf(Outcome(k, w))]))

QPLdBArr(i) ==
  /\ QOK /\ Live /\ Exact /\ ~Random /\ ArrDecided(ArrSets[i]) /\ UNCHANGED vars
  /\ E([kind |-> "q", op |-> "PLdBArr", ks |-> ArrSets[i].ks,
        ws |-> IF Model = "metis" THEN ArrSets[i].ws ELSE <<>>, exp |-> ArrOutcome(ArrSets[i]), pre |-> P, post |-> P,
        \* one wall count for all distances (>= 0): the query may equally be issued with that SCALAR count
        lin |-> ArrLinT(ArrSets[i]), layouts |-> Layouts,
        scalarw |-> IF Model = "metis" /\ \A j \in 1..Len(ArrSets[i].ws) : ArrSets[i].ws[j] = ArrSets[i].ws[1]
                      THEN ArrSets[i].ws[1] ELSE -1,
        frame |-> FrameQ])

\* plot_deterministic_path_loss_in_dB(d, ax): draws the DETERMINISTIC loss (shadowing is switched off inside the
\* call) under the current small-distance policy on the axes it is given.  A query: whatever it does inside, the
\* object is as before afterwards - also when the loss query inside raises (policy raise, a too small distance).
\* `out` records the kind of step so that PlotPure can say so.  The expected curve is exact also while shadowing is on.
\*   Dev.PlotRestoresPolicyFromShadow  the policy flag is "restored" from the shadowing flag (copy-paste slip)
\*   Dev.PlotRaiseLeavesShadowOff      code as it was: no try/finally, a raising plot leaves use_shadow_bool False
PlotOK(a) == ArrDecided(a) /\ (Model = "metis" => \A j \in 1..Len(a.ws) : a.ws[j] = 0)
QPlot(i) ==
  LET a == ArrSets[i]
      o == ArrOutcome(a) IN
  /\ QOK /\ Live /\ Exact /\ PlotOK(a)
  /\ out' = IF o.t = "raise" THEN "plotraise" ELSE "plot"
  /\ pol' = IF Dev.PlotRestoresPolicyFromShadow THEN shadow ELSE pol
  /\ shadow' = IF Dev.PlotRaiseLeavesShadowOff /\ o.t = "raise" THEN FALSE ELSE shadow
  /\ UNCHANGED <<ph, n, fc, C, hbs, hms, area, sigma>> /\ UNCHANGED BV
  /\ E([kind |-> "set", op |-> "Plot", arg |-> [ks |-> a.ks], out |-> out', exp |-> o, pre |-> P, post |-> PN,
        frame |-> FrameQ \cup {"RejectedChangesNothing"}])

QWhichDistDB(k) ==
  /\ QOK /\ Live /\ Exact /\ ~Random /\ UNCHANGED vars
  /\ IF InvOffered THEN E(QRec("WhichDistDB", k, 0, [t |-> "dist", f |-> Det(k, 0), k |-> Inv(Det(k, 0))]))
                   ELSE k = KMin /\ E(QRec("WhichDistDB", k, 0, [t |-> "notoffered"]))

QWhichDist(k) ==
  /\ QOK /\ Live /\ Exact /\ ~Random /\ InvOffered /\ Decided(k, 0) /\ Outcome(k, 0).t = "val" /\ FSign(Det(k, 0)) = 1
  /\ UNCHANGED vars
  /\ E(QRec("WhichDist", k, 0, [t |-> "dist", k |-> Inv(Det(k, 0))]))

QFriis(k) ==
  /\ QOK /\ Live /\ Exact /\ ~Random /\ Model = "freespace" /\ n = R(2) /\ FSign(Det(k, 0)) = 1 /\ UNCHANGED vars
  /\ E(QRec("Friis", k, 0, [t |-> "val", f |-> Det(k, 0), tol |-> D(1, 100)]))

\* Okumura-Hata 'large city': a(hms) = 3.2 (log10(11.75 hms))^2 - 4.97 above 300 MHz, 8.29 (log10(1.54 hms))^2 - 1.10
\* below - irrational in another constant, so the specification contributes the exact rest of the formula at
\* d = 1 km, the branch that applies and hms; the harness evaluates a(hms) from the documented formula (rel)
LargeCity ==
  IF Model = "hata" /\ area = "large city" /\ FcOnLat(fc) /\ hbs = R(100)
    THEN [on |-> TRUE, hms |-> hms, above300 |-> LLt(R(300), FcVal(fc)),
          base |-> FSub(FAdd(FC(D(6955, 100)), FScale(D(2616, 100), LogFc(fc))), FC(LMul(D(1382, 100), R(2))))]
    ELSE [on |-> FALSE]

\* relation-only laws, evaluated numerically by the harness in EVERY live state (rel).
\* "QueryPure": every query above is a stuttering step - it changes neither the object NOR its arguments and may be
\* repeated: the harness issues every array query with the caller's own float64 ndarray, requires the array to be
\* bit-identical afterwards, re-uses it for a second identical call and requires the same result.
QRel ==
  /\ QOK /\ Live /\ UNCHANGED vars
  /\ E([kind |-> "q", op |-> "Rel", pre |-> P, post |-> P, exact |-> Exact, random |-> Random, frame |-> FrameQ,
        dets |-> IF Exact THEN [w \in WallsOf \ {-1} |-> [k \in Ks |-> Det(k, w)]] ELSE <<>>, kmin |-> KMin,
        slope |-> [w \in WallsOf \ {-1} |-> Slope(w)],
        lc |-> LargeCity,
        \* "DocValue": the value of the documented formula for the CURRENT rational parameters, evaluated by the harness in
        \* floating point - in every state, also off the logarithm-exact lattice (Okumura-Hata defaults, hbs # 100) (rel)
        req |-> IF Random THEN {"InUnitEveryDraw", "PolicyEveryDraw", "NoiseBounded", "ShadowingIsOn"}
                               \cup (IF InvOffered THEN {"InverseIgnoresShadow"} ELSE {})
                ELSE {"Monotone", "LinearIsDb", "InUnit", "PolicyArrayScalar", "QueryPure", "DocValue"}
                       \cup (IF InvOffered THEN {"InverseId"} ELSE {})
                       \cup (IF Model = "freespace" /\ n = R(2) THEN {"FriisClose"} ELSE {})])

Next == \/ \E i \in 1..Len(InitArgs) : Construct(i)
        \/ \E b \in BOOLEAN : SetPol(b)
        \/ \E b \in BOOLEAN : SetShadow(b)
        \/ \E c \in ByClasses : ByConstruct(c)
        \/ \E b \in BOOLEAN : BySetPol(b)
        \/ \E b \in BOOLEAN : BySetShadow(b)
        \/ \E i \in 1..Len(SigmaVals) : SetSigma(i)
        \/ \E i \in 1..Len(NVals) : SetN(i)
        \/ \E i \in 1..Len(FcVals) : SetFc(i)
        \/ \E i \in 1..Len(HbsVals) : SetHbs(i)
        \/ \E i \in 1..Len(HmsVals) : SetHms(i)
        \/ \E i \in 1..Len(AreaVals) : SetArea(i)
        \/ \E k \in Ks \cup {ZK}, w \in WallsOf : QPLdB(k, w)
        \/ \E k \in Ks \cup {ZK}, w \in WallsOf : QPL(k, w)
        \/ \E i \in PlotIdx : QPlot(i)
        \/ \E i \in 1..Len(ArrSets) : QPLdBArr(i)
        \/ \E k \in Ks : QWhichDistDB(k)
        \/ \E k \in Ks : QWhichDist(k)
        \/ \E k \in Ks : QFriis(k)
        \/ QRel

(* ---------------------------------------- the property ------------------------------------ *)
TypeOK == /\ ph \in {"new", "live"} /\ pol \in BOOLEAN /\ shadow \in BOOLEAN /\ IsRat(sigma) /\ RSgn(sigma) >= 0 /\ out \in {"init", "ok", "raise", "plot", "plotraise", "by"}
          /\ bph \in {"new", "live"} /\ bpol \in BOOLEAN /\ bshadow \in BOOLEAN
          /\ IsRat(n) /\ IsRat(hbs) /\ IsRat(hms) /\ \A i \in 1..3 : IsRat(C[i])

\* parameters stay admissible whatever was attempted (rejected values leave no trace)
ParamsValid ==
  Live => /\ Model \in {"general", "freespace"} => RSgn(n) > 0
          /\ "SetFc" \in Offers(Model) => Accepts(Model, "SetFc", FcVal(fc)) \/ (Model = "hata" /\ fc = [m |-> 9, e |-> 2])
          /\ Model = "hata" => Accepts(Model, "SetHbs", hbs) /\ Accepts(Model, "SetHms", hms) /\ area \in AreaTypes

\* history property: the cached constant follows (n, fc) after ANY sequence of setter calls
CConsistent == (Live /\ Model = "freespace" /\ fc.m > 0) => C = CFrom(n, fc)
\* ... so that the object computes what the documentation says for its current parameters
PLisDoc == (QOK /\ Live /\ Exact) => \A k \in Ks : Det(k, 0) = Doc(k, 0)

WS == WallsOf \ {-1}
\* non-decreasing in distance (strictly increasing before clamping; raise region is a prefix)
Monotone ==
  (QOK /\ Live /\ Exact) => \A w \in WS : \A k \in KMin..(KMax - 1) :
      /\ FSign(FSub(Det(k + 1, w), Det(k, w))) = 1
      /\ FSub(Det(k + 1, w), Det(k, w)) = FC(Slope(w))
      /\ (Decided(k, w) /\ Decided(k + 1, w)) =>
           /\ Outcome(k + 1, w).t = "raise" => Outcome(k, w).t = "raise"
           /\ (Outcome(k, w).t # "raise" /\ Outcome(k + 1, w).t # "raise")
                 => FSign(FSub(Outcome(k + 1, w).f, Outcome(k, w).f)) \in {0, 1}
\* the linear value 10^(-dB/10) lies in (0,1]  <=>  every returned dB value is >= 0
InUnit ==
  (QOK /\ Live /\ Exact) => \A w \in WS : \A k \in Ks :
      Decided(k, w) => /\ Outcome(k, w).t = "val" => FSign(Outcome(k, w).f) = 1
                       /\ LinOf(Outcome(k, w)) # RZero => (RSgn(LinOf(Outcome(k, w))) > 0 /\ LLe(LinOf(Outcome(k, w)), ROne))
\* small distances: raise or clamp according to the configured policy, arrays like scalars
Policy ==
  (QOK /\ Live /\ Exact) =>
    /\ \A w \in WS : \A k \in Ks : Decided(k, w) =>
          Outcome(k, w).t = (IF SignDet(k, w) = 1 THEN "val" ELSE IF pol THEN "zero" ELSE "raise")
    /\ Outcome(ZK, 0).t = (IF pol THEN "zero" ELSE "raise")
    /\ \A i \in 1..Len(ArrSets) : LET a == ArrSets[i] IN ArrDecided(a) =>
          IF \E j \in 1..Len(a.ks) : Outcome(a.ks[j], a.ws[j]).t = "raise"
            THEN ArrOutcome(a).t = "raise"
            ELSE /\ ArrOutcome(a).t = "arr"
                 /\ \A j \in 1..Len(a.ks) : ArrOutcome(a).v[j] = Outcome(a.ks[j], a.ws[j])
LayoutIndependent ==
  (QOK /\ Live /\ Exact) => \A i \in 1..Len(ArrSets) : ArrDecided(ArrSets[i]) =>
      \A lay \in Layouts : ArrOutcomeL(ArrSets[i], lay) = ArrOutcome(ArrSets[i])
LinearAgrees ==
  (QOK /\ Live /\ Exact) => \A i \in 1..Len(ArrSets) : ArrDecided(ArrSets[i]) => ArrLinT(ArrSets[i]) = ArrOutcome(ArrSets[i]).t
\* the distance-for-a-loss query is the exact inverse of the loss-for-a-distance query
InverseId == (QOK /\ Live /\ Exact /\ InvOffered) => \A k \in Ks : Inv(Det(k, 0)) = k
\* free space with exponent 2 is Friis' 20 log10(4 pi d f / c) within 0.01 dB:
\* Friis = 20 (k + log10(fc 1e6) - KF), KF = log10(c/(4000 pi)) in Enc.kf; the object has K0 in Enc.x1
FriisForm(k) == FScale(R(20), FAdd(FC(R(k)), FAdd(LogFc(fc), FC(R(6)))))        \* without the -20 KF term
FriisClose ==
  (QOK /\ Live /\ Exact /\ Model = "freespace" /\ n = R(2)) => \A k \in Ks :
      /\ FSub(Det(k, 0), FriisForm(k)) = <<RZero, R(-20), RZero>>
      /\ LLe(LMul(R(20), LSub(Enc.x1[2], Enc.kf[1])), D(1, 100))
      /\ LLe(LMul(R(20), LSub(Enc.kf[2], Enc.x1[1])), D(1, 100))

\* Shadowing: the range law holds for EVERY draw.  The draw is modelled as sigma z with z in Zs (any real z behaves
\* like one of these for the purpose of the law: only the sign of det + sigma z matters).  The policy applies to the
\* SHADOWED loss: negative -> raise / clamp to 0 dB, so a returned value is never negative (linear value in (0,1]).
\* Dev.ShadowAfterPolicy: the policy is applied to the deterministic loss and the draw is added afterwards.
Zs == -4..4
ShVal(k, w, z) == FAdd(Det(k, w), FC(LMul(sigma, R(z))))
ShOutcome(k, w, z) ==
  IF Dev.ShadowAfterPolicy
    THEN IF FSign(Det(k, w)) = -1 THEN (IF pol THEN [t |-> "val", f |-> FC(LMul(sigma, R(z)))] ELSE [t |-> "raise", f |-> FZ])
         ELSE [t |-> "val", f |-> ShVal(k, w, z)]
    ELSE IF FSign(ShVal(k, w, z)) = -1 THEN (IF pol THEN [t |-> "zero", f |-> FZ] ELSE [t |-> "raise", f |-> FZ])
         ELSE [t |-> "val", f |-> ShVal(k, w, z)]
ShadowRange ==
  (QOK /\ Live /\ Exact /\ shadow) => \A w \in WS : \A k \in Ks : \A z \in Zs :
      (FSign(ShVal(k, w, z)) # 2 /\ FSign(Det(k, w)) # 2) =>
         /\ ShOutcome(k, w, z).t = "val" => FSign(ShOutcome(k, w, z).f) \in {0, 1}
         /\ pol => ShOutcome(k, w, z).t # "raise"
         /\ (sigma = RZero /\ Decided(k, w)) => ShOutcome(k, w, z) = Outcome(k, w)

\* the plot helper is a query: it leaves the object as it was, whether it draws or raises
PlotPure == [][out' \in {"plot", "plotraise"} => Params' = Params]_vars

\* two objects in one process: a step of one never shows in the other
BystanderLaw == [][/\ out' = "by" => Params' = Params
                   /\ out' # "by" => (bph = "live" => <<bpol, bshadow>>' = <<bpol, bshadow>>)]_vars

\* a call that raises leaves the object as it was
RejectLaw == [][out' = "raise" => Params' = Params]_vars
=============================================================================
