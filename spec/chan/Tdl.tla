-------------------------------- MODULE Tdl --------------------------------
(* C03 - a tapped-delay-line channel returns the convolution with the impulse response it reports.

   Models pyphysim.channels.fading (TdlChannelProfile.get_discretize_profile, TdlChannel /
   TdlMimoChannel .generate_impulse_response / corrupt_data / corrupt_data_in_freq_domain /
   get_last_impulse_response / switched_direction), singleuser.SuChannel / SuMimoChannel
   (scalar path loss) and multiuser.MuChannel / MuMimoChannel (one SuChannel per link,
   path-loss matrix, superposition at every receiver).

   Exact arithmetic: tap delays are given in QUARTER sampling intervals (so half-sample ties
   exist), tap powers are rationals whose discretised, normalised values are squares of
   rationals (Pythagorean: 9/25 + 16/25, 1/9 + 4/9 + 4/9 ...), so every tap amplitude is
   rational; the fading generator is a TABLE of Gaussian integers indexed by
   (link, tap, rx antenna, tx antenna, absolute sample position); signals are Gaussian
   integers; DFT sizes 1, 2, 4 have twiddles in {1, -i, -1, i}, so all values are Gaussian
   rationals (GRat).  DFT size 8 is computed in Q(zeta_8): cyclotomic integers of lib/Cyc2 over
   one integer denominator (section 3a); such values are emitted as <<c0, c1, c2, c3, den>>.

   State (implementation shaped): the configuration `cid`, the generator position `gpos`
   (shared by all links: every link transmits exactly once per call), the link direction
   `dir` (switched_direction), the path-loss selection `pl` (0 = None), `has` (an impulse
   response was generated) and `op`, the descriptor of the call that produced the state.
   TLC runs with VIEW Core (= the state without `op`), so the graph has one node per
   (cid, gpos, dir, pl, has); all laws are ACTION properties (evaluated on every transition,
   also into known nodes) and the emission is an ACTION_CONSTRAINT.

   Frame conditions (FrameLaw): a transmission leaves its input array unchanged and leaves the output and
   the response returned by the PREVIOUS transmission unchanged.

   Two layers:
   * the PROPERTY layer (X...): what the statement demands, written declaratively -
     XDisc (nearest integer, ties to even, merge, normalise), XIR (the response a call
     starting at position g must report), ConvY / FreqY (time-varying convolution with /
     block-wise multiplication by the DFT of a DENSE reported response);
   * the MACHINE layer (M...): what the code does step by step - np.unique(np.round()),
     accumulate, normalise; generate n samples at the current position; sparse
     accumulate-and-shift per tap; one generated sample + (fft-1) skipped per block;
     sqrt(path loss) applied to the output and, separately, to the reported response.
   With all Dev flags FALSE the laws below (machine = property) hold on every transition.
   Dev flags switch single machine steps to what the code did before it was repaired
   (SliceBlockSizeFloorDiv, MuSetPathlossNoneRaises) or to a plausible regression (the others, e.g.
   PathlossZeroIsNone: a path loss of exactly 0 tested by truthiness); TLC must refute each.
   Path-loss amplitudes range over 0 (blocked link), ordinary values, 1 and None; tap powers over 0 too. *)
EXTENDS Integers, Sequences, FiniteSets, TLC, Emit, GRat, Cyc2

CONSTANTS Configs,   \* sequence of configuration records (see harness/props/c03.py)
          Table,     \* Table[link][tap][ra][ta][pos+1] = <<re, im>>   fading samples
          Signals,   \* Signals[s][user][antenna][m+1] = <<re, im>>    s \in {1, 2}
          MaxPos,    \* table length; the generator position never exceeds c.maxpos <= MaxPos
          Dev        \* [name |-> BOOLEAN]

NoneV == 99          \* Python None in slice fields
MaxN  == Len(Signals[1][1][1])

VARIABLES cid, gpos, dir, pl, has, ai, reqs, op, held
\* ai: index of the current antenna configuration in c.ants (set_num_antennas may change it between transmissions);
\* held (ghost, like op outside the VIEW): the last successful transmission, i.e. the arrays the caller still holds
\* reqs: the sampling intervals (indexes into c.tss) ONE shared TdlChannelProfile object has been discretised for, in order
vars == <<cid, gpos, dir, pl, has, ai, reqs, op, held>>
Core == <<cid, gpos, dir, pl, has, ai, reqs>>
NoOp == [k |-> "Init"]

\* TLC evaluates function constructors lazily and does not memoise their elements: every array
\* below is forced once with TLCEval (E), and sums run by index over forced arrays.
E(v) == TLCEval(v)
RECURSIVE GSumTo(_, _)
GSumTo(f, n) == IF n = 0 THEN GZero ELSE GAdd(GSumTo(f, n - 1), f[n])
GSum(n, f) == LET g == E(f) IN GSumTo(g, n)              \* f a function over 1..n
RECURSIVE RSumTo(_, _)
RSumTo(f, n) == IF n = 0 THEN RZero ELSE RAdd(RSumTo(f, n - 1), f[n])
RSum(n, f) == LET g == E(f) IN RSumTo(g, n)

(* ====================================================================================== *)
(* 1. Tap-profile discretisation.  A raw profile is a sequence of taps <<qd, pw>>:        *)
(*    delay qd/4 sampling intervals, linear power pw (a Rat, not necessarily normalised). *)
(* ====================================================================================== *)
RECURSIVE SortSet(_)
SortSet(S) == IF S = {} THEN <<>>
              ELSE LET m == CHOOSE x \in S : \A y \in S : x <= y IN <<m>> \o SortSet(S \ {m})

Total(prof) == RSum(Len(prof), [i \in 1..Len(prof) |-> prof[i][2]])

\* property layer: d is THE integer delay of a tap at qd/4 iff it is nearest, ties to the even one
IsRoundOf(d, qd) == LET e == Abs(4 * d - qd) IN e < 2 \/ (e = 2 /\ d % 2 = 0)
MaxQ(prof) == LET S == {prof[i][1] : i \in 1..Len(prof)} IN CHOOSE x \in S : \A y \in S : y <= x
XDisc(prof) ==
  LET ds == SortSet({d \in 0..((MaxQ(prof) \div 4) + 1) : \E i \in 1..Len(prof) : IsRoundOf(d, prof[i][1])})
      tot == Total(prof)
  IN  [delays |-> ds,
       powers |-> E([j \in 1..Len(ds) |->
                     RDiv(RSum(Len(prof), [i \in 1..Len(prof) |-> IF IsRoundOf(ds[j], prof[i][1]) THEN prof[i][2] ELSE RZero]),
                          tot)])]

\* machine layer: np.unique(np.round(delays / Ts)), powers accumulated by inverse index, normalised
MRound(qd) == IF Dev.DiscRoundHalfUp THEN (qd + 2) \div 4 ELSE RRoundHalfEven(RNorm(qd, 4))
MDisc(prof) ==
  LET n  == Len(prof)
      rd == E([i \in 1..n |-> MRound(prof[i][1])])
      ds == SortSet({rd[i] : i \in 1..n})
      acc == E([j \in 1..Len(ds) |->
                 IF Dev.DiscMergeKeepsLast
                   THEN prof[CHOOSE i \in 1..n : rd[i] = ds[j] /\ \A q \in 1..n : rd[q] = ds[j] => q <= i][2]
                   ELSE RSum(n, [i \in 1..n |-> IF rd[i] = ds[j] THEN prof[i][2] ELSE RZero])])
      tot == RSumTo(acc, Len(ds))
  IN  [delays |-> ds,
       powers |-> E([j \in 1..Len(ds) |-> IF Dev.DiscNoNormalise THEN acc[j] ELSE RDiv(acc[j], tot)])]

\* the laws the statement lists
DiscSorted(D)  == \A i, j \in 1..Len(D.delays) : i < j => D.delays[i] < D.delays[j]
DiscUnique(D)  == \A i, j \in 1..Len(D.delays) : i # j => D.delays[i] # D.delays[j]
DiscInteger(D) == /\ Len(D.delays) = Len(D.powers) /\ Len(D.delays) >= 1
                  /\ \A i \in 1..Len(D.delays) : D.delays[i] \in Nat /\ D.powers[i][1] >= 0     \* a tap of power 0 (-inf dB) is valid
DiscSumOne(D)  == RSumTo(D.powers, Len(D.powers)) = ROne
DiscMerged(prof, D) ==
  /\ \A i \in 1..Len(prof) : \E j \in 1..Len(D.delays) : IsRoundOf(D.delays[j], prof[i][1])
  /\ \A j \in 1..Len(D.delays) :
       RMul(D.powers[j], Total(prof)) =
         RSum(Len(prof), [i \in 1..Len(prof) |-> IF IsRoundOf(D.delays[j], prof[i][1]) THEN prof[i][2] ELSE RZero])
DiscLaws(prof) == LET D == MDisc(prof)  XD == XDisc(prof) IN
  /\ DiscSorted(D) /\ DiscUnique(D) /\ DiscInteger(D) /\ DiscSumOne(D) /\ DiscMerged(prof, D)
  /\ D.delays = XD.delays
  /\ \A j \in 1..Len(D.powers) : D.powers[j] = XD.powers[j]

(* ---- the same profile object discretised for SEVERAL sampling intervals.  Interval t is Ts * sc, sc = <<a, b>> = a/b ---- *)
(*      (e.g. 50001/50000: a sampling clock 20 ppm slow), so a tap at qd/4 nominal samples sits at qd b / (4 a) samples *)
PosS(qd, sc) == RNorm(qd * sc[2], 4 * sc[1])
IsRoundOfR(d, pos) == LET e == RAbs(RSub(R(d), pos)) IN RLt(e, <<1, 2>>) \/ (e = <<1, 2>> /\ d % 2 = 0)
IsTieS(qd, sc) == LET pos == PosS(qd, sc) IN pos[2] = 2
XDiscS(prof, sc) ==
  LET pos == E([i \in 1..Len(prof) |-> PosS(prof[i][1], sc)])
      top == ((MaxQ(prof) * sc[2]) \div (4 * sc[1])) + 1          \* integer bound (no cross products: 32-bit integers)
      ds == SortSet({d \in 0..top : \E i \in 1..Len(prof) : IsRoundOfR(d, pos[i])})
      tot == Total(prof)
  IN  [delays |-> ds,
       powers |-> E([j \in 1..Len(ds) |->
                     RDiv(RSum(Len(prof), [i \in 1..Len(prof) |-> IF IsRoundOfR(ds[j], pos[i]) THEN prof[i][2] ELSE RZero]), tot)])]
\* machine: np.unique(np.round(delays / Ts_t)) ... computed for the interval it is GIVEN
MDiscS(prof, sc) ==
  LET n  == Len(prof)
      rd == E([i \in 1..n |-> RRoundHalfEven(PosS(prof[i][1], sc))])
      ds == SortSet({rd[i] : i \in 1..n})
      acc == E([j \in 1..Len(ds) |-> RSum(n, [i \in 1..n |-> IF rd[i] = ds[j] THEN prof[i][2] ELSE RZero])])
      tot == RSumTo(acc, Len(ds))
  IN  [delays |-> ds, powers |-> E([j \in 1..Len(ds) |-> RDiv(acc[j], tot)])]
\* what a request for interval t returns after the requests `rq` on the same object.  Dev.DiscMemoRoundedTs: results are
\* memoised per object under the interval PRINTED with 4 significant digits (c.tkeys), so a later request whose interval
\* prints alike gets the delays computed for the earlier one
MDiscShared(c, rq, t) ==
  LET same == {u \in 1..Len(rq) : c.tkeys[rq[u]] = c.tkeys[t]}
      src == IF Dev.DiscMemoRoundedTs /\ same # {} THEN rq[CHOOSE u \in same : \A w \in same : u <= w] ELSE t
  IN  MDiscS(c.prof, c.tss[src])

NTaps(D) == Len(D.delays)
Mem(D)   == D.delays[Len(D.delays)]              \* channel memory = num_taps_with_padding - 1
ISqrt(n) == CHOOSE k \in 0..n : k * k = n
RSqrtExact(q) == <<ISqrt(q[1]), ISqrt(q[2])>>
\* tap amplitudes of a discretised profile (channel configurations have square powers)
Amps(D)  == E([i \in 1..NTaps(D) |-> RSqrtExact(D.powers[i])])

(* ====================================================================================== *)
(* 2. Geometry of a configuration                                                         *)
(*    c.kind \in {"tdl", "su", "mu", "disc"}; c.ant = <<Nr, Nt>> (<<0, 0>> = SISO);        *)
(*    c.users = <<receivers, transmitters>>; c.pls[p][ru][tu] = AMPLITUDE (sqrt of the    *)
(*    path loss handed to the API) of link tu -> ru for path-loss choice p >= 1.          *)
(* ====================================================================================== *)
CfgAt(a) == LET c0 == Configs[cid] IN [c0 EXCEPT !.ant = c0.ants[a]]
C == CfgAt(ai)                                       \* the configuration with its CURRENT antenna numbers
Siso(c) == c.ant[1] = 0
NR(c) == IF Siso(c) THEN 1 ELSE c.ant[1]
NT(c) == IF Siso(c) THEN 1 ELSE c.ant[2]
KR(c) == c.users[1]
KT(c) == c.users[2]
Lk(c, ru, tu) == (ru - 1) * KT(c) + tu             \* links are created receiver-major
\* what is input / output side for direction d (TRUE = switched)
InU(c, d)  == IF d THEN KR(c) ELSE KT(c)
OutU(c, d) == IF d THEN KT(c) ELSE KR(c)
InA(c, d)  == IF d THEN NR(c) ELSE NT(c)
OutA(c, d) == IF d THEN NT(c) ELSE NR(c)
RU(d, o, i) == IF d THEN i ELSE o                  \* receiver-side index of the pair (out, in)
TU(d, o, i) == IF d THEN o ELSE i                  \* transmitter-side index

Sg(s, iu, ia, m) == LET e == Signals[s][iu][ia][m + 1] IN G(e[1], e[2])
\* signal 3 = signal 1 + i * signal 2 (linearity)
\* signal 4 = real part of signal 1 (handed to the API with integer / real dtypes)
X(s, iu, ia, m) == IF s = 3 THEN GAdd(Sg(1, iu, ia, m), GMul(GI, Sg(2, iu, ia, m)))
                   ELSE IF s = 4 THEN G(Signals[1][iu][ia][m + 1][1], 0) ELSE Sg(s, iu, ia, m)
\* the input of a call as an array XS[iu][ia][m+1]
XArr(c, d, s, len) == E([iu \in 1..InU(c, d) |-> E([ia \in 1..InA(c, d) |-> E([m1 \in 1..len |-> X(s, iu, ia, m1 - 1)])])])

PA(c, p, ru, tu) == IF p = 0 THEN ROne ELSE c.pls[p][ru][tu]
Hs(c, ru, tu, i, ra, ta, pos) == LET e == Table[Lk(c, ru, tu)][i][ra][ta][pos + 1] IN G(e[1], e[2])

\* absolute generator position of sample m (0-based) of a call that starts at g
SPos(g, o, m) == IF o.k = "F" THEN g + m * o.fft ELSE g + m

(* ====================================================================================== *)
(* 3. Property layer of the channel                                                       *)
(* ====================================================================================== *)
\* the impulse response a call `o` starting at position g must report for link (ru, tu):
\* IR[ru][tu][tap][ra][ta][m] = sqrt(pathloss) * sqrt(tap power) * fading sample
XIR(c, D, g, p, o) ==
  LET A == Amps(D) IN
  E([ru \in 1..KR(c) |-> E([tu \in 1..KT(c) |-> E([i \in 1..NTaps(D) |-> E([ra \in 1..NR(c) |-> E([ta \in 1..NT(c) |->
     E([m \in 1..o.n |-> GScaleRat(RMul(PA(c, p, ru, tu), A[i]),
                                   Hs(c, ru, tu, i, ra, ta, SPos(g, o, m - 1)))])])])])])])

TapAt(D, d) == IF \E i \in 1..NTaps(D) : D.delays[i] = d THEN CHOOSE i \in 1..NTaps(D) : D.delays[i] = d ELSE 0
\* dense response (tap_values): one entry per delay 0..Mem, zero where the profile has no tap
DenseOf(L, D, nr, nt, ns) ==
  E([d1 \in 1..(Mem(D) + 1) |-> LET i == TapAt(D, d1 - 1) IN
     E([ra \in 1..nr |-> E([ta \in 1..nt |-> E([m \in 1..ns |-> IF i = 0 THEN GZero ELSE L[i][ra][ta][m]])])])])
DenseAll(c, D, IR, ns) == E([ru \in 1..KR(c) |-> E([tu \in 1..KT(c) |-> DenseOf(IR[ru][tu], D, NR(c), NT(c), ns)])])

\* time-varying convolution with the dense responses DN (direction d, signal s, n symbols):
\* y[ou][oa][k] = sum_{iu, ia, dl} h_dl[k - dl] x[k - dl], 0 <= k - dl < n, length n + memory
ConvY(c, D, d, DN, s, n) ==
  LET XS == XArr(c, d, s, n)  mem == Mem(D) IN
  E([ou \in 1..OutU(c, d) |-> E([oa \in 1..OutA(c, d) |-> E([k1 \in 1..(n + mem) |->
     GSum(InU(c, d), [iu \in 1..InU(c, d) |-> GSum(InA(c, d), [ia \in 1..InA(c, d) |-> GSum(mem + 1, [d1 \in 1..(mem + 1) |->
        LET m == (k1 - 1) - (d1 - 1) IN
        IF m < 0 \/ m >= n THEN GZero
        ELSE GMul(DN[RU(d, ou, iu)][TU(d, ou, iu)][d1][RU(d, oa, ia)][TU(d, oa, ia)][m + 1], XS[iu][ia][m + 1])])])])])])])

\* e-th power of the DFT twiddle exp(-2 pi i / fft), fft \in {1, 2, 4}  (fft = 8: section 3a)
W(fft, e) == LET q == (e * (4 \div fft)) % 4 IN
             IF q = 0 THEN GOne ELSE IF q = 1 THEN G(0, -1) ELSE IF q = 2 THEN G(-1, 0) ELSE G(0, 1)
\* DFT over the delay axis of a dense response: FR[k+1][ra][ta][b]
FreqOfDense(DL, fft, nr, nt, nb) ==
  E([k1 \in 1..fft |-> E([ra \in 1..nr |-> E([ta \in 1..nt |-> E([b \in 1..nb |->
     GSum(Len(DL), [d1 \in 1..Len(DL) |-> GMul(DL[d1][ra][ta][b], W(fft, (k1 - 1) * (d1 - 1)))])])])])])
FreqAll(c, DN, fft, nb) == E([ru \in 1..KR(c) |-> E([tu \in 1..KT(c) |-> FreqOfDense(DN[ru][tu], fft, NR(c), NT(c), nb)])])

\* Python semantics of slice(start, stop, step).indices(N) and of indexing with it
SliceNorm(v, N, lo, hi, dflt) == IF v = NoneV THEN dflt
                                 ELSE IF v < 0 THEN (IF v + N < lo THEN lo ELSE v + N)
                                 ELSE (IF v > hi THEN hi ELSE v)
SliceTriple(sl, N) ==
  LET step == IF sl[3] = NoneV THEN 1 ELSE sl[3]
      lo == IF step > 0 THEN 0 ELSE -1
      hi == IF step > 0 THEN N ELSE N - 1
  IN  <<SliceNorm(sl[1], N, lo, hi, IF step > 0 THEN lo ELSE hi),
        SliceNorm(sl[2], N, lo, hi, IF step > 0 THEN hi ELSE lo), step>>
RECURSIVE RangeSeq(_, _, _)
RangeSeq(a, b, st) == IF (st > 0 /\ a >= b) \/ (st < 0 /\ a <= b) THEN <<>> ELSE <<a>> \o RangeSeq(a + st, b, st)
\* the selected subcarriers (0-based) of a frequency-domain call
SelIdx(o) == IF o.sk = "none" THEN E([j \in 1..o.fft |-> j - 1])
             ELSE IF o.sk = "slice" THEN LET t == SliceTriple(o.sel, o.fft) IN RangeSeq(t[1], t[2], t[3])
             ELSE E([j \in 1..Len(o.sel) |-> IF o.sel[j] < 0 THEN o.sel[j] + o.fft ELSE o.sel[j]])
\* (stop - start) // step as Python computes it (floor division, also for negative steps)
FloorDivBS(o) == LET t == SliceTriple(o.sel, o.fft) IN
                 IF t[3] > 0 THEN (t[2] - t[1]) \div t[3] ELSE (t[1] - t[2]) \div (-t[3])

\* block-wise multiplication: block b of `cnt` symbols is multiplied by the frequency response of
\* sample b of the reported response at the selected subcarriers
FreqY(c, d, FR, sel, s, nb) ==
  LET cnt == Len(sel)  XS == XArr(c, d, s, nb * cnt) IN
  E([ou \in 1..OutU(c, d) |-> E([oa \in 1..OutA(c, d) |-> E([k1 \in 1..(nb * cnt) |->
     LET b == (k1 - 1) \div cnt  j == (k1 - 1) % cnt IN
     GSum(InU(c, d), [iu \in 1..InU(c, d) |-> GSum(InA(c, d), [ia \in 1..InA(c, d) |->
        GMul(FR[RU(d, ou, iu)][TU(d, ou, iu)][sel[j + 1] + 1][RU(d, oa, ia)][TU(d, oa, ia)][b + 1],
             XS[iu][ia][k1])])])])])])


(* ---- 3a. Q(zeta_8) for DFT size 8: <<c0, c1, c2, c3, den>> = (c0 + c1 z + c2 z^2 + c3 z^3) / den, ---- *)
(*      z = exp(2 pi i / 8); numerators are elements of Z[zeta_8] (lib/Cyc2), den > 0, gcd 1: canonical   *)
CRMake(a, d) ==
  LET s == IF d < 0 THEN -1 ELSE 1
      g == Gcd(Gcd(Gcd(Abs(a[1]), Abs(a[2])), Gcd(Abs(a[3]), Abs(a[4]))), Abs(d))
  IN  IF a[1] = 0 /\ a[2] = 0 /\ a[3] = 0 /\ a[4] = 0 THEN <<0, 0, 0, 0, 1>>
      ELSE <<(s * a[1]) \div g, (s * a[2]) \div g, (s * a[3]) \div g, (s * a[4]) \div g, (s * d) \div g>>
CRZero == <<0, 0, 0, 0, 1>>
CRNum(x) == <<x[1], x[2], x[3], x[4]>>
CRFromG(g) == CRMake(CyFromG(8, <<g[1], g[2]>>), g[3])
CRAdd(x, y) == CRMake(CyAdd(CyScale(y[5], CRNum(x)), CyScale(x[5], CRNum(y))), x[5] * y[5])
CRMulG(g, x) == CRMake(CyMulG(<<g[1], g[2]>>, CRNum(x)), g[3] * x[5])          \* Gaussian rational times x
CRMulZeta(x, k) == CRMake(CyMulZeta(CRNum(x), k), x[5])                          \* zeta_8^k times x, any integer k
CRScaleRat(q, x) == CRMake(CyScale(q[1], CRNum(x)), q[2] * x[5])
RECURSIVE CRSumTo(_, _)
CRSumTo(f, n) == IF n = 0 THEN CRZero ELSE CRAdd(CRSumTo(f, n - 1), f[n])
CRSum(n, f) == LET g == E(f) IN CRSumTo(g, n)

\* 8-point DFT of a dense response (twiddle exp(-2 pi i k d / 8) = zeta_8^(-k d)) and the block-wise product
FreqOfDense8(DL, nr, nt, nb) ==
  E([k1 \in 1..8 |-> E([ra \in 1..nr |-> E([ta \in 1..nt |-> E([b \in 1..nb |->
     CRSum(Len(DL), [d1 \in 1..Len(DL) |-> CRMulZeta(CRFromG(DL[d1][ra][ta][b]), -((k1 - 1) * (d1 - 1)))])])])])])
FreqAll8(c, DN, nb) == E([ru \in 1..KR(c) |-> E([tu \in 1..KT(c) |-> FreqOfDense8(DN[ru][tu], NR(c), NT(c), nb)])])
FreqY8(c, d, FR, sel, s, nb) ==
  LET cnt == Len(sel)  XS == XArr(c, d, s, nb * cnt) IN
  E([ou \in 1..OutU(c, d) |-> E([oa \in 1..OutA(c, d) |-> E([k1 \in 1..(nb * cnt) |->
     LET b == (k1 - 1) \div cnt  j == (k1 - 1) % cnt IN
     CRSum(InU(c, d), [iu \in 1..InU(c, d) |-> CRSum(InA(c, d), [ia \in 1..InA(c, d) |->
        CRMulG(XS[iu][ia][k1],
               FR[RU(d, ou, iu)][TU(d, ou, iu)][sel[j + 1] + 1][RU(d, oa, ia)][TU(d, oa, ia)][b + 1])])])])])])

XTimeY(c, D, IR, d, o) == ConvY(c, D, d, DenseAll(c, D, IR, o.n), o.s, o.n)
XFreqY(c, FR, d, o) == FreqY(c, d, FR, SelIdx(o), o.s, o.n)

(* ====================================================================================== *)
(* 4. Machine layer of the channel (with deviations)                                      *)
(* ====================================================================================== *)
\* generate_impulse_response: samples at the current generator position, scaled by sqrt(tap power);
\* in the frequency domain one sample per block, then fft-1 samples are skipped
MPos(g, o, m) == IF o.k = "F" /\ Dev.NoSkipBetweenBlocks THEN g + m ELSE SPos(g, o, m)
MTdlIR(c, D, g, o) ==                                     \* TdlChannel._last_impulse_response, per link
  LET A == Amps(D) IN
  E([ru \in 1..KR(c) |-> E([tu \in 1..KT(c) |-> E([i \in 1..NTaps(D) |-> E([ra \in 1..NR(c) |-> E([ta \in 1..NT(c) |->
     E([m \in 1..o.n |-> GScaleRat(A[i], Hs(c, ru, tu, i, ra, ta, MPos(g, o, m - 1)))])])])])])])
ScaleIR(c, p, IR) ==
  E([ru \in 1..KR(c) |-> E([tu \in 1..KT(c) |-> E([i \in 1..Len(IR[ru][tu]) |-> E([ra \in 1..NR(c) |-> E([ta \in 1..NT(c) |->
     E([m \in 1..Len(IR[ru][tu][i][ra][ta]) |-> GScaleRat(PA(c, p, ru, tu), IR[ru][tu][i][ra][ta][m])])])])])])])
\* what get_last_impulse_response returns (wrappers scale by sqrt(path loss))
MRep(c, p, T) == IF Dev.PathlossNotInReported THEN T ELSE ScaleIR(c, p, T)

\* corrupt_data: for every sparse tap i at delay d_i: output[d_i : d_i + n] += tap_i * signal, then the
\* wrapper multiplies the output by sqrt(path loss), the multi-user class adds the links up
MDelay(D, i) == IF Dev.ShiftByTapIndex THEN i - 1 ELSE D.delays[i]
MRa(d, oa, ia) == IF Dev.SwitchedNotTransposed THEN oa ELSE RU(d, oa, ia)
MTa(d, oa, ia) == IF Dev.SwitchedNotTransposed THEN ia ELSE TU(d, oa, ia)
\* the factor the wrapper applies to the time-domain output; a path loss of exactly 0 (blocked link, e.g. the
\* off-diagonal entries of an identity path-loss matrix) is falsy in Python but NOT "no path loss"
MPAt(c, p, ru, tu) == IF Dev.PathlossZeroIsNone /\ PA(c, p, ru, tu) = RZero THEN ROne ELSE PA(c, p, ru, tu)
MTimeY(c, D, T, d, p, n, s) ==
  LET len == IF Dev.TailDropped THEN n ELSE n + Mem(D)
      XS == XArr(c, d, s, n)
  IN  E([ou \in 1..OutU(c, d) |-> E([oa \in 1..OutA(c, d) |-> E([k1 \in 1..len |->
         GSum(InU(c, d), [iu \in 1..InU(c, d) |->
            GScaleRat(MPAt(c, p, RU(d, ou, iu), TU(d, ou, iu)),
               GSum(NTaps(D), [i \in 1..NTaps(D) |-> GSum(InA(c, d), [ia \in 1..InA(c, d) |->
                  LET m == (k1 - 1) - MDelay(D, i) IN
                  IF m < 0 \/ m >= n THEN GZero
                  ELSE GMul(T[RU(d, ou, iu)][TU(d, ou, iu)][i][MRa(d, oa, ia)][MTa(d, oa, ia)][m + 1],
                            XS[iu][ia][m + 1])])]))])])])])

\* corrupt_data_in_freq_domain
MBlock(o) == IF o.sk = "none" THEN o.fft
             ELSE IF o.sk = "slice" THEN (IF Dev.SliceBlockSizeFloorDiv THEN FloorDivBS(o) ELSE Len(SelIdx(o)))
             ELSE Len(o.sel)
\* outcome of the call: "ok", or where the code stops when its block size is not the selection size
FOutcome(o) == LET bs == MBlock(o)  cnt == Len(SelIdx(o)) IN
               IF bs = cnt THEN "ok"
               ELSE IF bs = 0 THEN "raises-before"                  \* num_symbols % 0
               ELSE IF (o.n * cnt) % bs # 0 THEN "raises-before"    \* "must be a multiple"
               ELSE "raises-in-block"                               \* broadcast error after the first sample
\* sparse DFT: sum_i tap_i W^(k d_i)  (np.fft.fft of the zero-padded taps; a delay >= fft ALIASES onto d mod fft,
\* as the DFT of the reported response demands - W is periodic - so the memory may exceed the fft size)
MFreqY(c, D, T, d, p, o, s) ==
  LET sel == SelIdx(o)
      cnt == Len(sel)
      XS == XArr(c, d, s, o.n * cnt)
  IN  E([ou \in 1..OutU(c, d) |-> E([oa \in 1..OutA(c, d) |-> E([k1 \in 1..(o.n * cnt) |->
         LET b == (k1 - 1) \div cnt  j == (k1 - 1) % cnt IN
         GSum(InU(c, d), [iu \in 1..InU(c, d) |->
            GScaleRat(PA(c, p, RU(d, ou, iu), TU(d, ou, iu)),
               GSum(InA(c, d), [ia \in 1..InA(c, d) |-> GMul(
                  GSum(NTaps(D), [i \in 1..NTaps(D) |->
                     GMul(T[RU(d, ou, iu)][TU(d, ou, iu)][i][MRa(d, oa, ia)][MTa(d, oa, ia)][b + 1],
                          W(o.fft, sel[j + 1] * D.delays[i]))]),
                  XS[iu][ia][k1])]))])])])])

\* the same with an 8-point transform (values in Q(zeta_8))
MFreqY8(c, D, T, d, p, o, s) ==
  LET sel == SelIdx(o)
      cnt == Len(sel)
      XS == XArr(c, d, s, o.n * cnt)
  IN  E([ou \in 1..OutU(c, d) |-> E([oa \in 1..OutA(c, d) |-> E([k1 \in 1..(o.n * cnt) |->
         LET b == (k1 - 1) \div cnt  j == (k1 - 1) % cnt IN
         CRSum(InU(c, d), [iu \in 1..InU(c, d) |->
            CRScaleRat(PA(c, p, RU(d, ou, iu), TU(d, ou, iu)),
               CRSum(InA(c, d), [ia \in 1..InA(c, d) |-> CRMulG(XS[iu][ia][k1],
                  CRSum(NTaps(D), [i \in 1..NTaps(D) |->
                     CRMulZeta(CRFromG(T[RU(d, ou, iu)][TU(d, ou, iu)][i][MRa(d, oa, ia)][MTa(d, oa, ia)][b + 1]),
                               -(sel[j + 1] * D.delays[i]))]))]))])])])])

(* ====================================================================================== *)
(* 5. Actions: one per public call                                                        *)
(* ====================================================================================== *)
NoHeld == [o |-> NoOp]
Init == /\ cid \in 1..Len(Configs) /\ gpos = 0 /\ dir = FALSE /\ pl = 0 /\ has = FALSE /\ ai = 1 /\ reqs = <<>> /\ op = NoOp /\ held = NoHeld
Hold(o) == [g |-> gpos, d |-> dir, p |-> pl, a |-> ai, o |-> o]

\* corrupt_data(signal o.s of o.n symbols); o.n = 0 (empty input) is a valid call: memory zeros, 0 samples
Transmit ==
  \E j \in 1..Len(C.ops) : LET o == C.ops[j] IN
    /\ o.k = "T" /\ o.n >= 0 /\ o.n <= MaxN /\ gpos + o.n <= C.maxpos
    /\ gpos' = gpos + o.n /\ has' = TRUE /\ op' = o /\ held' = Hold(o)
    /\ UNCHANGED <<cid, dir, pl, ai, reqs>>

\* corrupt_data_in_freq_domain(signal o.s of o.n blocks, o.fft, selection o.sk / o.sel)
TransmitFreq ==
  \E j \in 1..Len(C.ops) : LET o == C.ops[j] IN
    /\ o.k = "F" /\ o.n >= 1              \* zero blocks are rejected by the code (nothing to concatenate)
    /\ LET sel == SelIdx(o) IN /\ Len(sel) >= 1 /\ o.n * Len(sel) <= MaxN
                               /\ \A q \in 1..Len(sel) : sel[q] \in 0..(o.fft - 1)
    /\ gpos + o.n * o.fft <= C.maxpos
    /\ LET out == FOutcome(o) IN
         /\ gpos' = (IF out = "ok" THEN (IF Dev.NoSkipBetweenBlocks THEN gpos + o.n ELSE gpos + o.n * o.fft)
                     ELSE IF out = "raises-in-block" THEN gpos + 1 ELSE gpos)
         /\ has' = (has \/ out # "raises-before")
         /\ held' = (IF out = "ok" THEN Hold(o) ELSE held)
    /\ op' = o
    /\ UNCHANGED <<cid, dir, pl, ai, reqs>>

\* TdlChannel.generate_impulse_response(o.n)
GenerateIR ==
  \E j \in 1..Len(C.ops) : LET o == C.ops[j] IN
    /\ o.k = "Gen" /\ C.kind = "tdl" /\ gpos + o.n <= C.maxpos
    /\ gpos' = gpos + o.n /\ has' = TRUE /\ op' = o
    /\ UNCHANGED <<cid, dir, pl, ai, held, reqs>>

\* switched_direction = (o.n = 1)
SetDirection ==
  \E j \in 1..Len(C.ops) : LET o == C.ops[j] IN
    /\ o.k = "Dir" /\ dir # (o.n = 1)
    /\ dir' = (o.n = 1) /\ op' = o
    /\ UNCHANGED <<cid, gpos, pl, has, ai, held, reqs>>

\* set_pathloss(value o.n; 0 = None).  MuChannel.set_pathloss(None) raises today (documented as valid).
PlNoneRaises(c, o) == Dev.MuSetPathlossNoneRaises /\ c.kind = "mu" /\ o.n = 0
SetPathloss ==
  \E j \in 1..Len(C.ops) : LET o == C.ops[j] IN
    /\ o.k = "PL" /\ C.kind \in {"su", "mu"} /\ o.n \in 0..Len(C.pls) /\ pl # o.n
    /\ pl' = (IF PlNoneRaises(C, o) THEN pl ELSE o.n) /\ op' = o
    /\ UNCHANGED <<cid, gpos, dir, has, ai, held, reqs>>

\* set_num_antennas(Nr, Nt) of TdlChannel / SuChannel, also AFTER transmissions ((None, None) = back to SISO): the
\* generator position, the direction, the path loss and the last response persist; only the antenna numbers change
SetAntennas ==
  \E j \in 1..Len(C.ops) : LET o == C.ops[j] IN
    /\ o.k = "Ant" /\ C.kind \in {"tdl", "su"} /\ o.n \in 1..Len(C.ants) /\ o.n # ai
    /\ ai' = o.n /\ op' = o
    /\ UNCHANGED <<cid, gpos, dir, pl, has, held, reqs>>

\* TdlChannelProfile.get_discretize_profile for one profile of the enumerated domain
ProfDomain(c) == {p \in [1..c.ntaps -> c.qds \X c.pws] : p[1][1] \in c.q1 /\ RIsPos(Total(p))}   \* some tap has power
DiscretizeCase ==
  /\ C.kind = "disc"
  /\ \E p \in ProfDomain(C) : op' = [k |-> "Disc", prof |-> p]
  /\ UNCHANGED <<cid, gpos, dir, pl, has, ai, held, reqs>>

\* get_discretize_profile(Ts * c.tss[t]) - directly or through a channel constructor - on ONE profile object shared by all
\* the requests of the history (module-level profiles such as COST259_TUx are shared by every channel of a process).
\* Exact half-sample ties are admitted only for the nominal interval (sc = 1: dyadic, exact in floating point).
DiscretizeShared ==
  /\ C.kind = "dhist" /\ Len(reqs) < C.maxreq
  /\ \E t \in 1..Len(C.tss) :
       /\ (C.tss[t] = <<1, 1>> \/ \A i \in 1..Len(C.prof) : ~IsTieS(C.prof[i][1], C.tss[t]))
       /\ reqs' = Append(reqs, t) /\ op' = [k |-> "DiscS", t |-> t]
  /\ UNCHANGED <<cid, gpos, dir, pl, has, ai, held>>

Next == DiscretizeShared \/ Transmit \/ TransmitFreq \/ GenerateIR \/ SetDirection \/ SetPathloss \/ SetAntennas \/ DiscretizeCase
Spec == Init /\ [][Next]_vars

(* ====================================================================================== *)
(* 6. Properties                                                                          *)
(* ====================================================================================== *)
TypeOK == /\ cid \in 1..Len(Configs) /\ ai \in 1..Len(Configs[cid].ants) /\ gpos \in 0..MaxPos /\ C.maxpos <= MaxPos /\ dir \in BOOLEAN /\ has \in BOOLEAN
          /\ pl \in 0..(IF C.kind \in {"su", "mu"} THEN Len(C.pls) ELSE 0)

\* the profile every channel is built on obeys the discretisation laws; so does every enumerated profile
DiscStep == IF op'.k = "Disc" THEN DiscLaws(op'.prof) ELSE (C.kind \notin {"disc", "dhist"} => DiscLaws(C.prof))

\* the generator advances by n per time-domain call and by fft per frequency-domain block
PosStep == /\ op'.k \in {"T", "Gen"} => gpos' = gpos + op'.n
           /\ op'.k = "F" => gpos' = gpos + op'.n * op'.fft
           /\ op'.k \in {"Dir", "PL", "Ant", "Disc", "DiscS"} => gpos' = gpos
\* setters set exactly their own attribute (None included)
SetStep == /\ op'.k = "PL" => (pl' = op'.n /\ dir' = dir /\ ai' = ai)
           /\ op'.k = "Dir" => (dir' = (op'.n = 1) /\ pl' = pl /\ ai' = ai)
           /\ op'.k = "Ant" => (ai' = op'.n /\ dir' = dir /\ pl' = pl /\ has' = has)

\* the block size is the number of selected subcarriers, whatever way they are selected
BlockStep == op'.k = "F" => (MBlock(op') = Len(SelIdx(op')) /\ FOutcome(op') = "ok")

GLin(A, B) == E([ou \in 1..Len(A) |-> E([oa \in 1..Len(A[ou]) |-> E([k \in 1..Len(A[ou][oa]) |->
                 GAdd(A[ou][oa][k], GMul(GI, B[ou][oa][k]))])])])
LenOK(y, c, d, len) == /\ Len(y) = OutU(c, d)
                       /\ \A ou \in 1..Len(y) : /\ Len(y[ou]) = OutA(c, d)
                                                /\ \A oa \in 1..Len(y[ou]) : Len(y[ou][oa]) = len

\* a failing law names itself on TLC's output (the harness reads the LAWFAIL line)
Chk(name, b) == IF b THEN TRUE ELSE (PrintT(<<"LAWFAIL", name>>) /\ FALSE)

\* the exact observables of call o made in configuration c at generator position g, direction d, path loss p
ExpectedAt(c, g, d, p, o) ==
  LET D == XDisc(c.prof) IN
  IF o.k = "T" THEN LET IR == XIR(c, D, g, p, o) IN
       [y |-> XTimeY(c, D, IR, d, o), ir |-> IR, delays |-> D.delays, mem |-> Mem(D)]
  ELSE IF o.k = "F" THEN
       LET IR == XIR(c, D, g, p, o)
           DN == DenseAll(c, D, IR, o.n)
           FR == IF o.fft = 8 THEN FreqAll8(c, DN, o.n) ELSE FreqAll(c, DN, o.fft, o.n) IN
       [y |-> IF o.fft = 8 THEN FreqY8(c, d, FR, SelIdx(o), o.s, o.n) ELSE XFreqY(c, FR, d, o),
        ir |-> IR, delays |-> D.delays, mem |-> Mem(D),
        fr |-> FR, sel |-> SelIdx(o),
        fdbs |-> IF o.sk = "slice" THEN FloorDivBS(o) ELSE Len(SelIdx(o))]
  ELSE IF o.k = "Gen" THEN [ir |-> XIR(c, D, g, p, o), delays |-> D.delays, mem |-> Mem(D)]
  ELSE IF o.k = "Disc" THEN [disc |-> XDisc(o.prof)]
  ELSE IF o.k = "DiscS" THEN [disc |-> XDiscS(c.prof, c.tss[o.t])]
  ELSE [none |-> 0]

(* ---- frame conditions on the calls (notes/CALL_DISCIPLINE.md 1, 2) ---- *)
\* ArgumentsUnchanged: the input array handed to a transmission holds the same values afterwards.
\* (Dev.ArgumentScaledInPlace: the wrapper's in-place "output *= sqrt(path loss)" hits a result that aliases the argument)
MInputAfter(c, d, p, o, len) ==
  LET XS == XArr(c, d, o.s, len) IN
  IF Dev.ArgumentScaledInPlace /\ p # 0
    THEN E([iu \in 1..Len(XS) |-> E([ia \in 1..Len(XS[iu]) |-> E([m \in 1..Len(XS[iu][ia]) |->
            GScaleRat(PA(c, p, 1, 1), XS[iu][ia][m])])])])
    ELSE XS
\* EarlierResultsUnchanged: the output and the response object the caller holds from the previous transmission still have
\* the values they had when they were returned (Dev.OutputBufferReused: a same-shaped transmission writes its output into
\* the array returned before)
SameShape(h, o) == o.k = h.o.k /\ o.n = h.o.n /\ o.fft = h.o.fft /\ o.sk = h.o.sk /\ o.sel = h.o.sel /\ h.d = dir /\ h.a = ai
MHeldAfter(then, h, o) == IF Dev.OutputBufferReused /\ SameShape(h, o)
                            THEN [then EXCEPT !.y = ExpectedAt(C, gpos, dir, pl, o).y] ELSE then
FrameStep ==
  op'.k \in {"T", "F"} =>
    LET o == op'
        len == IF o.k = "T" THEN o.n ELSE o.n * Len(SelIdx(o))
    IN  /\ Chk("ArgumentsUnchanged", MInputAfter(C, dir, pl, o, len) = XArr(C, dir, o.s, len))
        /\ held.o.k \in {"T", "F"} =>
             LET then == ExpectedAt(CfgAt(held.a), held.g, held.d, held.p, held.o) IN
             Chk("EarlierResultsUnchanged", MHeldAfter(then, held, o) = then)
FrameLaw == [][FrameStep]_vars


\* time domain (and generate_impulse_response):
\*   Reported: the reported response is the one the property demands (right samples, right scaling)
\*   Conv:     output = time-varying convolution of the input with the REPORTED response
\*   Len:      output length = input + channel memory on every output antenna of every receiver
\*   Linear:   the response to x1 + i x2 is the response to x1 plus i times the response to x2
TimeStep(o) ==
  LET c == C
      D == MDisc(c.prof)
      XD == XDisc(c.prof)
      T == MTdlIR(c, D, gpos, o)
      Rep == MRep(c, pl, T)
      y == MTimeY(c, D, T, dir, pl, o.n, o.s)
  IN  /\ Chk("Reported", Rep = XIR(c, XD, gpos, pl, o))
      /\ o.k = "T" => /\ Chk("Len", LenOK(y, c, dir, o.n + Mem(XD)))
                      /\ Chk("Conv", y = ConvY(c, D, dir, DenseAll(c, D, Rep, o.n), o.s, o.n))
                      /\ o.s = 3 => Chk("Linear", y = GLin(MTimeY(c, D, T, dir, pl, o.n, 1), MTimeY(c, D, T, dir, pl, o.n, 2)))
\* frequency domain: per block, multiplication by the DFT of the reported response at the selected carriers
GLin8(A, B) == E([ou \in 1..Len(A) |-> E([oa \in 1..Len(A[ou]) |-> E([k \in 1..Len(A[ou][oa]) |->
                 CRAdd(A[ou][oa][k], CRMulZeta(B[ou][oa][k], 2))])])])             \* i = zeta_8^2
FreqStep(o) ==
  LET c == C
      D == MDisc(c.prof)
      XD == XDisc(c.prof)
      T == MTdlIR(c, D, gpos, o)
      Rep == MRep(c, pl, T)
      DN == DenseAll(c, D, Rep, o.n)
  IN  /\ Chk("Reported", Rep = XIR(c, XD, gpos, pl, o))
      /\ IF o.fft = 8
           THEN LET y == MFreqY8(c, D, T, dir, pl, o, o.s) IN
                /\ Chk("Len", LenOK(y, c, dir, o.n * Len(SelIdx(o))))
                /\ Chk("Freq", y = FreqY8(c, dir, FreqAll8(c, DN, o.n), SelIdx(o), o.s, o.n))
                /\ o.s = 3 => Chk("Linear", y = GLin8(MFreqY8(c, D, T, dir, pl, o, 1), MFreqY8(c, D, T, dir, pl, o, 2)))
           ELSE LET y == MFreqY(c, D, T, dir, pl, o, o.s) IN
                /\ Chk("Len", LenOK(y, c, dir, o.n * Len(SelIdx(o))))
                /\ Chk("Freq", y = FreqY(c, dir, FreqAll(c, DN, o.fft, o.n), SelIdx(o), o.s, o.n))
                /\ o.s = 3 => Chk("Linear", y = GLin(MFreqY(c, D, T, dir, pl, o, 1), MFreqY(c, D, T, dir, pl, o, 2)))

ChanStep == /\ op'.k \in {"T", "Gen"} => TimeStep(op')
            /\ (op'.k = "F" /\ FOutcome(op') = "ok") => FreqStep(op')

\* a discretisation depends on the profile and on the interval it is asked for - not on what the same object was
\* discretised for before (nor on the order of the requests) - and obeys the discretisation laws for THAT interval
SharedStep == op'.k = "DiscS" =>
  LET D == MDiscShared(C, reqs, op'.t)  XD == XDiscS(C.prof, C.tss[op'.t]) IN
  /\ DiscSorted(D) /\ DiscUnique(D) /\ DiscInteger(D) /\ DiscSumOne(D)
  /\ D.delays = XD.delays /\ \A j \in 1..Len(D.powers) : D.powers[j] = XD.powers[j]
  /\ (C.tss[op'.t] = <<1, 1>> => XD.delays = XDisc(C.prof).delays)
SharedLaw == [][SharedStep]_vars
DiscLaw  == [][DiscStep]_vars
PosLaw   == [][PosStep]_vars
SetLaw   == [][SetStep]_vars
BlockLaw == [][BlockStep]_vars
ChanLaw  == [][ChanStep]_vars

(* ====================================================================================== *)
(* 7. Emission: every transition with the exact observables the property demands          *)
(* ====================================================================================== *)
StateRec  == [gpos |-> gpos, dir |-> dir, pl |-> pl, has |-> has, ai |-> ai, reqs |-> reqs]
StateRecP == [gpos |-> gpos', dir |-> dir', pl |-> pl', has |-> has', ai |-> ai', reqs |-> reqs']
Expected(o) == ExpectedAt(C, gpos, dir, pl, o)
\* pre/post: the machine's states (graph nodes)
Emit == EmitEdge([cid |-> C.id, pre |-> StateRec, post |-> StateRecP, op |-> op', exp |-> Expected(op')])
=============================================================================
