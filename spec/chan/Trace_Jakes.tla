---------------------------- MODULE Trace_Jakes ----------------------------
(* Stage T of C14: request sequences RECORDED on real generators are replayed through the actions of
   Jakes.tla; all traces of a run are validated in one TLC run (tid chosen in Init).

   A trace is [ev |-> <<event, ...>>].  Events (written by harness/props/c14.py, integers only):
     [op |-> "construct", sh, count, shape, first, last, ph, inner]
     [op |-> "gen" | "gendefault", g, n, raised, count, shape, first, last, ph, inner]
     [op |-> "skip", g, n, same]      [op |-> "skipbig", g, r, same]      [op |-> "setshape", g, sh, same]
     [op |-> "similar", g, count, shape, first, last, ph, inner, same]
   count/shape are those of the array get_samples() returned; first/last are the sample indexes
   (limbs <<hi, lo>>, <<-1, -1>> = not identified) the recorder IDENTIFIED for the first and the last
   returned sample by matching their values against the Jakes sum; ph is the phase draw whose sum
   matched; inner says that every sample in between matched at first + j; same says that the stored
   block of every other generator (and of this one for non-generating calls) did not change; kept says
   that EVERY array returned by an earlier call (held by the recorder, not copied) still has the values
   it was returned with.
   The request sizes n are arbitrary (1 .. 10^5), not restricted to an alphabet.

   mismatch = <<>> until the first event whose logged observation differs from what the machine
   demands (`exp` of the action); it then holds <<tid, event index, field>>.  Every mismatch is also
   emitted so that a run with -continue lists all of them.                                         *)
EXTENDS Jakes, IOUtils

Traces == JsonDeserialize(IOEnv.TRACE_FILE)

VARIABLES tid, i, mismatch
tvars == <<gens, draws, nbuf, len, ret, tid, i, mismatch>>

TInit == /\ Init
         /\ tid \in 1..Len(Traces)
         /\ i = 1
         /\ mismatch = <<>>

Ev == Traces[tid].ev[i]

\* the first field in which the logged block differs from the demanded block b ("" = conforms)
BlockDiff(e, b) ==
  IF e.count # b.n THEN "count"
  ELSE IF e.shape # BlockShape(b) THEN "shape"
  ELSE IF e.first # b.first THEN "first"
  ELSE IF e.last # LPred(LAddSmall(b.first, b.n)) THEN "last"
  ELSE IF e.ph # b.ph THEN "phases"
  ELSE IF ~e.inner THEN "inner"
  ELSE ""

Diff(e, r) ==
  IF ~e.kept THEN "earlier"        \* EarlierBlocksUnchanged: an array returned by an earlier call changed
  ELSE IF e.op \in {"gen", "gendefault"} THEN (IF e.raised THEN "raised" ELSE BlockDiff(e, r.exp))
  ELSE IF e.op = "construct" THEN BlockDiff(e, r.exp)
  ELSE IF e.op = "similar" THEN (IF ~e.same THEN "same" ELSE BlockDiff(e, r.exp))
  ELSE IF ~e.same THEN "same" ELSE ""

WellFormed(e) ==
  \/ e.op = "construct" /\ gens = <<>>
  \/ e.op \in {"gen", "gendefault", "skip", "skipbig", "setshape", "similar"} /\ e.g \in 1..NG
               /\ (e.op = "similar" => NG < MaxGens)

Apply(e) ==
  \/ e.op = "construct"  /\ Construct(e.sh, 0)
  \/ e.op = "gen"        /\ Generate(e.g, e.n)
  \/ e.op = "gendefault" /\ GenerateDefault(e.g)
  \/ e.op = "skip"       /\ Skip(e.g, e.n)
  \/ e.op = "skipbig"    /\ SkipBig(e.g, e.r)
  \/ e.op = "setshape"   /\ SetShape(e.g, e.sh)
  \/ e.op = "similar"    /\ Similar(e.g)

Note(m) == IF m = <<>> THEN TRUE ELSE EmitCase([tid |-> m[1], ev |-> m[2], field |-> m[3]])

Step ==
  /\ i <= Len(Traces[tid].ev)
  /\ mismatch = <<>>
  /\ IF WellFormed(Ev)
       THEN /\ Apply(Ev)
            /\ LET d == Diff(Ev, ret') IN
                 mismatch' = IF d = "" THEN <<>> ELSE <<tid, i, d>>
       ELSE /\ mismatch' = <<tid, i, "malformed">>
            /\ UNCHANGED vars
  /\ Note(mismatch')
  /\ i' = i + 1
  /\ UNCHANGED tid

Done == /\ (i > Len(Traces[tid].ev) \/ mismatch # <<>>)
        /\ UNCHANGED tvars

TNext == Step \/ Done

Conforms == mismatch = <<>>
=============================================================================
