--------------------------- MODULE Trace_PathLoss ---------------------------
(* C13, stage T: histories RECORDED on the real path-loss objects (random rational parameter values,
   not restricted to the logarithm-exact lattice of PathLoss.tla) are validated against the
   state-machine part of the specification: which setter calls are accepted / rejected
   (PathLossParams!Accepts, the documented ranges), what the public parameters are after every
   call (a rejected call leaves the object unchanged), and that every law of the property, which
   the recorder evaluated numerically on a distance grid after the call, was logged TRUE (rel).

   All traces are validated in ONE run: `tid` is chosen in Init; `mismatch` records the first
   event of the trace that does not conform (trace id, event index, failing clause).

   Trace file (JSON): [ { model, init: {n, fc, hbs, hms, area, pol, shadow, sigma, bpol, bshadow},
                          ev: [ {op, arg, out, post: {..model's public parameters..}, preds: {name: bool}} ] } ]
   numbers are normalised rationals [p, q].                                                    *)
EXTENDS Integers, Sequences, TLC, Json, IOUtils, PathLossParams

Traces == JsonDeserialize(IOEnv.TRACE_FILE)

VARIABLES tid, i, st, mismatch
vars == <<tid, i, st, mismatch>>

T == Traces[tid]
Init == /\ tid \in 1..Len(Traces) /\ i = 0 /\ mismatch = <<>>
        /\ st = Traces[tid].init

Field(op) == CASE op = "SetPol" -> "pol" [] op = "SetShadow" -> "shadow" [] op = "SetSigma" -> "sigma"
               [] op = "BySetPol" -> "bpol" [] op = "BySetShadow" -> "bshadow"
               [] op = "SetN" -> "n" [] op = "SetFc" -> "fc"
               [] op = "SetHbs" -> "hbs" [] op = "SetHms" -> "hms" [] op = "SetArea" -> "area"

\* the specification's successor for one logged call
\* ("Plot" is the plot helper: a query - it may draw or raise, the parameters stay as they are)
\* ("By.." are steps of ANOTHER live object: they only change that object's flags bpol / bshadow, a new one starts with both off)
Succ(s, e) == IF e.op = "ByConstruct" THEN [s EXCEPT !.bpol = FALSE, !.bshadow = FALSE]
              ELSE IF e.op # "Plot" /\ e.op \in Offers(T.model) /\ Accepts(T.model, e.op, e.arg)
                THEN [s EXCEPT ![Field(e.op)] = e.arg] ELSE s
ExpOut(e)  == IF e.op \in Offers(T.model) /\ Accepts(T.model, e.op, e.arg) THEN "ok" ELSE "raise"

FirstBad(e, s2) ==
  IF e.op # "Plot" /\ e.out # ExpOut(e) THEN <<tid, i + 1, "outcome">>
  ELSE IF \E f \in DOMAIN e.post : e.post[f] # s2[f]
    THEN <<tid, i + 1, "parameter " \o (CHOOSE f \in DOMAIN e.post : e.post[f] # s2[f])>>
  ELSE IF \E p \in DOMAIN e.preds : e.preds[p] # TRUE
    THEN <<tid, i + 1, "law " \o (CHOOSE p \in DOMAIN e.preds : e.preds[p] # TRUE)>>
  ELSE <<>>

Step == /\ i < Len(T.ev)
        /\ LET e == T.ev[i + 1]
               s2 == Succ(st, e)
           IN /\ st' = s2
              /\ mismatch' = IF mismatch # <<>> THEN mismatch ELSE FirstBad(e, s2)
        /\ i' = i + 1 /\ UNCHANGED tid
Done == i = Len(T.ev) /\ UNCHANGED vars
Next == Step \/ Done

Conforms == mismatch = <<>>
\* the parameters of the specification's state stay admissible along every validated history
StateValid == /\ st.pol \in BOOLEAN /\ st.shadow \in BOOLEAN /\ RSgn(st.sigma) >= 0
              /\ T.model = "freespace" => RSgn(st.n) > 0 /\ RSgn(st.fc) > 0
              /\ T.model = "hata" => /\ st.area \in AreaTypes /\ LLe(R(30), st.hbs) /\ LLe(st.hbs, R(200))
                                     /\ LLe(R(1), st.hms) /\ LLe(st.hms, R(10))
                                     /\ LLe(R(150), st.fc) /\ LLe(st.fc, R(1500))
=============================================================================
