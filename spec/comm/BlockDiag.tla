------------------------------ MODULE BlockDiag ------------------------------
(* C09 - block diagonalization nulls inter-user interference within the power budget.

   WHAT THIS MODULE DECIDES AND WHAT IT DOES NOT.  Every clause of the property is a statement about
   null spaces, singular vectors and water-filled singular values of generic complex matrices; none
   of it has an exact value a model checker could compute.  The specification therefore is the
   CONFIGURATION / CALL-HISTORY MACHINE of pyphysim.comm.blockdiagonalization and, for every state of
   that machine, the SET OF PREDICATES of the property that must hold for what was last computed
   (operator Required).  TLC enumerates every configuration and every call sequence of the machine,
   checks the machine's own laws and emits every transition; the harness (harness/props/c09.py)
   drives the real classes along the emitted transitions on seeded generic complex channels and
   evaluates the predicates named in Required NUMERICALLY, from first principles, on the public
   return values only - sub-claims "(rel)", tolerance 1e-7 relative.  The water-filling allocation
   itself is decided under C12 (spec/comm/WaterFilling.tla) and is not redone here.

   Objects       BlockDiagonalizer ("BD"), WhiteningBD ("WBD"), EnhancedBD ("EBD"); constructor
                 configuration [K users, per-user power p, noise variance nv, ext. int. power pe].
   metric        the EnhancedBD stream-reduction metric with the extra arguments it stores:
                 None | naive(ns) | fixed(ns) | capacity | effective_throughput(mod, plen)
   chan          the channel in use: N antennas per user at both ends (total tx = total rx = K*N),
                 rE = rank of the external interference channel (0: plain matrix, no ext. int. object)
   last          what was last computed: which call, the stream rule in force, for which channel
   alias         the object keeps a reference to the dictionary the caller passed (deviation only)

   Actions = public calls:  Construct, SetAttr (assignment to the public attributes iPu / noise_var / pe of
   the LIVE object; every later solve must obey the current values), SetMetric(name, supplied args) - accepted or REJECTED
   (AttributeError; the object must be unchanged) -, EditDict (the caller changes the dictionary it
   passed earlier), NewChannel, SolveBD(block_diagonalize | block_diagonalize_no_waterfilling | the
   module-level block_diagonalize), SolveExt (block_diagonalize_no_waterfilling(mu_channel) of
   WhiteningBD / EnhancedBD), CalcWhitening (calc_whitening_matrices of the same two classes),
   CalcReceiveFilter (static method | module function), CalcFilterUserK (calc_receive_filter_user_k as a public
   static method with a caller-chosen P), Scribble (the caller overwrites the arrays it
   got back).

   Sweep = TRUE  restricts the machine to the canonical order Construct, SetMetric?, NewChannel,
                 Solve, CalcReceiveFilter? : one path per configuration (the configuration sweep).
   Sweep = FALSE is the history machine: every interleaving, repeated solves with another channel /
                 another metric on the same object.

   Deviation flags (each must be refuted by TLC):
     RejectedMetricCommitted   a rejected set_ext_int_handling_metric has already stored the new name
     NaiveKeepsCallerDict      the "naive" branch stores the caller's dictionary itself
     ReturnedNsAliasesChannel  the stream counts returned without stream reduction are the channel's
                               own Nt array
     ArgsNotResetOnMetricChange  extra arguments of the previous metric survive a metric change
     StaleStreamCounts         a solve reports the stream rule of the previous solve
     SolveStoresDecision       a solve with a deciding metric turns the object into a fixed-stream one
     AbsoluteRankTolerance     the rank of the other users' channel is decided with an absolute tolerance
                               (a full-rank channel of amplitude 1e-7 is taken as rank deficient)
     MetricArgsSharedByClass   the extra metric arguments live in a class-level dictionary: configuring another object
                               re-configures this one
     PowerCachedAtConstruction the paths that divide the power equally (no water-filling, no stream
                               reduction) use sqrt(iPu) computed in the constructor               *)
EXTENDS Integers, Sequences, FiniteSets, TLC, Emit

CONSTANTS Classes,     \* subset of {"BD", "WBD", "EBD"}
          Ks,          \* numbers of users
          Ants,        \* antennas per user (Nr_k = Nt_k = N)
          Ranks,       \* ranks of the external interference channel (>= 1)
          Scales,      \* channel-scale regimes: decimal exponents e, every coefficient of [H | He] is multiplied by 10^e
                       \* (path loss / units: the property is about generic full-rank channels of ANY magnitude)
          PLabels,     \* labels of PowerVal
          NvLabels,    \* labels of NoiseVal
          PeLabels,    \* labels of ExtPowerVal ("zero" = no external interference power)
          StreamNs,    \* num_streams values
          Mods,        \* modulators of the effective throughput metric
          PLens,       \* packet lengths
          Extras,      \* BOOLEAN: also supply superfluous arguments to set_ext_int_handling_metric
          Acts,        \* enabled action names
          Sweep,       \* BOOLEAN, see above
          Dev          \* record of BOOLEAN deviation flags

VARIABLES obj, metric, alias, chan, last, ret
vars == <<obj, metric, alias, chan, last, ret>>
view == <<obj, metric, alias, chan, last>>

\* exact values of the labels (num, den); the harness converts them to floats
PowerVal    == [lo |-> <<1, 10>>, hi |-> <<5, 1>>, mid |-> <<3, 2>>]
\* zero: noise_var = 0 is a valid value of the attribute (water-filling degenerates to equal power); the channel OBJECT of the
\* ext-int classes keeps a positive noise variance then (harness), else its covariance would be singular
NoiseVal    == [lo |-> <<1, 10000>>, hi |-> <<2, 1>>, mid |-> <<1, 10>>, zero |-> <<0, 1>>]
\* tiny: interference far below the noise (removal is still required exactly); huge: dominant interference (a deciding
\* metric is then certain to sacrifice streams)
ExtPowerVal == [zero |-> <<0, 1>>, lo |-> <<1, 2>>, hi |-> <<8, 1>>, na |-> <<0, 1>>, tiny |-> <<1, 10000>>, huge |-> <<1000000, 1>>,
                micro |-> <<1, 10000000>>]    \* micro: with noise O(1) the covariance is a scaled identity up to 1e-7 - removal still required

MetricNames == {"None", "naive", "fixed", "capacity", "effective_throughput"}
NoMetric == [name |-> "None", ns |-> 0, mod |-> "none", plen |-> 0]
NoArgs   == [ns |-> 0, mod |-> "none", plen |-> 0]
NoObj    == [cls |-> "none", K |-> 0, p |-> "na", nv |-> "na", pe |-> "na", p0 |-> "na"]
NoChan   == [N |-> 0, rE |-> 0, src |-> 0, sc |-> 0, intact |-> TRUE]
NoLast   == [op |-> "none", kind |-> "none", n |-> 0, mname |-> "None", N |-> 0, rE |-> 0, filt |-> FALSE, onCur |-> FALSE,
             pe |-> "na", cur |-> TRUE, rankok |-> TRUE]

BDops  == {"bd_wf", "bd_nowf", "mod_bd_wf"}
ExtOps == {"wbd", "ebd"}

Configs == {[cls |-> c, K |-> k, p |-> p, nv |-> n, pe |-> IF c = "BD" THEN "na" ELSE e] :
              c \in Classes, k \in Ks, p \in PLabels, n \in NvLabels, e \in PeLabels}

Init == /\ obj = NoObj /\ metric = NoMetric /\ alias = FALSE /\ chan = NoChan /\ last = NoLast
        /\ ret = [op |-> "none", a |-> <<>>, out |-> "ok"]

Step(op, a, out) == ret' = [op |-> op, a |-> a, out |-> out]

(* ---------------------------------- construction ---------------------------------------------- *)
\* the exact values of the public attributes iPu, noise_var, pe of an object (carried by every call that uses them)
CfgVals(o) == [p |-> PowerVal[o.p], nv |-> NoiseVal[o.nv], pe |-> ExtPowerVal[o.pe]]
Construct(c) ==
  /\ "Construct" \in Acts /\ obj = NoObj
  \* p0: the power given at construction (remembered only to express the deviation PowerCachedAtConstruction)
  /\ obj' = [cls |-> c.cls, K |-> c.K, p |-> c.p, nv |-> c.nv, pe |-> c.pe, p0 |-> IF Dev.PowerCachedAtConstruction THEN c.p ELSE "na"]
  /\ UNCHANGED <<metric, alias, chan, last>>
  /\ Step("Construct", [cls |-> c.cls, K |-> c.K, p |-> PowerVal[c.p], nv |-> NoiseVal[c.nv], pe |-> ExtPowerVal[c.pe]], "ok")

\* iPu, noise_var and pe are plain public attributes: a user assigns them on the LIVE object between solves (power
\* sweeps).  Every later solve must obey the current values.
SetAttr(attr, lab) ==
  /\ "SetAttr" \in Acts /\ ~Sweep /\ obj # NoObj
  /\ attr = "pe" => obj.cls # "BD"
  /\ obj' = CASE attr = "iPu"       -> [obj EXCEPT !.p = lab]
               [] attr = "noise_var" -> [obj EXCEPT !.nv = lab]
               [] OTHER              -> [obj EXCEPT !.pe = lab]
  /\ UNCHANGED <<metric, alias, chan, last>>
  /\ Step("SetAttr", [attr |-> attr, value |-> CASE attr = "iPu" -> PowerVal[lab] [] attr = "noise_var" -> NoiseVal[lab] [] OTHER -> ExtPowerVal[lab]], "ok")

(* ---------------------------------- set_ext_int_handling_metric ------------------------------- *)
\* what set_ext_int_handling_metric requires / stores.  a = the supplied dictionary (absent key: 0 / "none")
Accepted(name, a) ==
  CASE name \in {"None", "capacity"}   -> TRUE
    [] name \in {"naive", "fixed"}     -> a.ns > 0
    [] name = "effective_throughput"   -> a.mod # "none" /\ a.plen > 0
    [] OTHER                           -> FALSE
Stored(name, a) ==
  CASE name \in {"None", "capacity"}   -> [name |-> name, ns |-> 0, mod |-> "none", plen |-> 0]
    [] name \in {"naive", "fixed"}     -> [name |-> name, ns |-> a.ns, mod |-> "none", plen |-> 0]
    [] OTHER                           -> [name |-> name, ns |-> 0, mod |-> a.mod, plen |-> a.plen]
\* deviation: only the supplied keys overwrite, the rest is left from the previous metric
StoredKeeping(name, a) ==
  [name |-> name, ns |-> IF a.ns > 0 THEN a.ns ELSE metric.ns,
   mod |-> IF a.mod # "none" THEN a.mod ELSE metric.mod, plen |-> IF a.plen > 0 THEN a.plen ELSE metric.plen]

\* the argument dictionaries tried for each metric name (all the ways to miss a required key, the exact keys,
\* and with Extras superfluous keys that must be ignored)
AnyMod  == CHOOSE m \in Mods : TRUE
AnyPLen == CHOOSE l \in PLens : TRUE
AnyNs   == CHOOSE n \in StreamNs : TRUE
Supplied(name) ==
  CASE name \in {"None", "capacity", "lala"} ->
         {NoArgs} \cup (IF Extras THEN {[NoArgs EXCEPT !.ns = AnyNs], [NoArgs EXCEPT !.mod = AnyMod, !.plen = AnyPLen]} ELSE {})
    [] name \in {"naive", "fixed"} ->
         {[NoArgs EXCEPT !.ns = n] : n \in StreamNs} \cup {NoArgs, [NoArgs EXCEPT !.mod = AnyMod, !.plen = AnyPLen]}
         \cup (IF Extras THEN {[ns |-> n, mod |-> AnyMod, plen |-> 0] : n \in StreamNs} ELSE {})
    [] OTHER ->
         {[ns |-> 0, mod |-> m, plen |-> l] : m \in Mods, l \in PLens}
         \cup {NoArgs, [NoArgs EXCEPT !.mod = AnyMod], [NoArgs EXCEPT !.plen = AnyPLen], [NoArgs EXCEPT !.ns = AnyNs]}
         \cup (IF Extras THEN {[ns |-> AnyNs, mod |-> m, plen |-> AnyPLen] : m \in Mods} ELSE {})

SetMetric(name, a) ==
  /\ "SetMetric" \in Acts /\ obj.cls = "EBD"
  /\ Sweep => (chan = NoChan /\ metric = NoMetric /\ Accepted(name, a) /\ ret.op = "Construct")
  /\ IF Accepted(name, a)
       THEN /\ metric' = IF Dev.ArgsNotResetOnMetricChange THEN StoredKeeping(name, a) ELSE Stored(name, a)
            /\ alias' = (Dev.NaiveKeepsCallerDict /\ name = "naive")
            /\ Step("SetMetric", [name |-> name, args |-> a], "ok")
       ELSE /\ IF Dev.RejectedMetricCommitted /\ name \in MetricNames
                 THEN metric' = [metric EXCEPT !.name = name]
                 ELSE UNCHANGED metric
            /\ UNCHANGED alias
            /\ Step("SetMetric", [name |-> name, args |-> a], "rejected")
  /\ UNCHANGED <<obj, chan, last>>

\* ANOTHER live object of the same class is constructed and configured with (name, a): the object under test must not notice
\* (two objects in one process: class-level / module-level state)
Bystander(name, a) ==
  /\ "Bystander" \in Acts /\ ~Sweep /\ obj.cls = "EBD" /\ Accepted(name, a)
  /\ chan.N > 0 /\ metric.ns <= chan.N
  /\ metric' = IF Dev.MetricArgsSharedByClass
                 THEN [metric EXCEPT !.ns = Stored(name, a).ns, !.mod = Stored(name, a).mod, !.plen = Stored(name, a).plen]
                 ELSE metric
  /\ UNCHANGED <<obj, alias, chan, last>>
  /\ Step("Bystander", [name |-> name, args |-> a], "ok")

\* the caller changes the dictionary it handed over in the call just made: the object must not notice
EditDict ==
  /\ "EditDict" \in Acts /\ ~Sweep
  /\ ret.op = "SetMetric" /\ ret.out = "ok" /\ ret.a.args.ns > 0
  /\ chan.N > 0 /\ metric.ns <= chan.N          \* (a solve is possible: the harness probes one on a copy)
  /\ metric' = IF alias THEN [metric EXCEPT !.ns = (metric.ns % Cardinality(StreamNs)) + 1] ELSE metric
  /\ UNCHANGED <<obj, alias, chan, last>>
  /\ Step("EditDict", <<>>, "ok")

(* ---------------------------------- channels --------------------------------------------------- *)
\* a new generic channel: N antennas per user; rE = 0 is a plain matrix (BlockDiagonalizer only),
\* rE >= 1 a MultiUserChannelMatrixExtInt with an external interference source of that rank
\* sc: the whole matrix [H | He] is scaled by 10^sc; the noise variance given to the channel OBJECT scales with it
\* (10^(2 sc) nv: the same scenario in other units), the object's own noise_var attribute does not.
\* src: the number of external interference SOURCES the rank rE is split over (NtE = <<rE>> or <<rE \div 2, rE - rE \div 2>>)
NewChannel(N, rE, sc, src) ==
  /\ "NewChannel" \in Acts /\ obj # NoObj
  /\ (rE = 0) = (obj.cls = "BD")
  /\ IF rE = 0 THEN src = 0 ELSE src \in 1..2 /\ src <= rE
  /\ Sweep => (chan = NoChan)
  /\ chan' = [N |-> N, rE |-> rE, src |-> src, sc |-> sc, intact |-> TRUE]
  /\ last' = [last EXCEPT !.onCur = FALSE]
  /\ UNCHANGED <<obj, metric, alias>>
  /\ Step("NewChannel", [N |-> N, rE |-> rE, sc |-> sc, nte |-> IF src <= 1 THEN <<rE>> ELSE <<rE \div 2, rE - (rE \div 2)>>], "ok")

(* ---------------------------------- solves ------------------------------------------------------ *)
\* block_diagonalize(H) (every class inherits it), block_diagonalize_no_waterfilling(H) of the plain class,
\* and the module-level block_diagonalize(H, K, iPu, noise_var)
BDResult(op, c) == [op |-> op, kind |-> "all", n |-> c.N, mname |-> "None", N |-> c.N, rE |-> c.rE, filt |-> FALSE, onCur |-> TRUE,
                    pe |-> "na", cur |-> TRUE, rankok |-> TRUE]
\* deviation: the rank of the other users' channel is decided with an ABSOLUTE tolerance: a weak channel looks rank deficient
RankMisjudged(c) == Dev.AbsoluteRankTolerance /\ c.sc < -5
\* deviation: the paths that divide the power equally use the amplitude computed at construction
CachedPowerStale(o) == Dev.PowerCachedAtConstruction /\ o.p0 # o.p
SolveBD(op) ==
  /\ "SolveBD" \in Acts /\ obj # NoObj /\ chan.N > 0
  /\ op = "bd_nowf" => obj.cls = "BD"
  /\ Sweep => (last = NoLast /\ metric = NoMetric)   \* (the interplay with the metric is in the history machine)
  /\ last' = [BDResult(op, chan) EXCEPT !.cur = ~(op = "bd_nowf" /\ CachedPowerStale(obj)), !.rankok = ~RankMisjudged(chan)]
  /\ UNCHANGED <<obj, metric, alias, chan>>
  /\ Step("SolveBD", [op |-> op, cfg |-> CfgVals(obj)], "ok")

\* the stream rule a solve with this metric on N antennas must follow
RuleOf(m, N) ==
  CASE m.name = "None"              -> [kind |-> "all", n |-> N]
    [] m.name \in {"naive", "fixed"} -> [kind |-> "fixed", n |-> m.ns]
    [] OTHER                        -> [kind |-> "decided", n |-> 0]

\* block_diagonalize_no_waterfilling(mu_channel) of WhiteningBD / EnhancedBD: what is computed by an object o with
\* metric m for the channel c (the intended design: from the CURRENT metric and the CURRENT channel only)
ExtResult(o, m, c) ==
  LET mm == IF o.cls = "WBD" THEN NoMetric ELSE m
      r == RuleOf(mm, c.N)
  IN [op |-> IF o.cls = "WBD" THEN "wbd" ELSE "ebd", kind |-> r.kind, n |-> r.n, mname |-> mm.name,
      N |-> c.N, rE |-> c.rE, filt |-> TRUE, onCur |-> TRUE, pe |-> o.pe, cur |-> TRUE, rankok |-> TRUE]
ExtEnabled(o, m, c) == o.cls \in {"WBD", "EBD"} /\ c.N > 0 /\ c.rE > 0
                       /\ m.ns <= c.N           \* num_streams beyond the antennas is outside the quantifier

SolveExt ==
  /\ "SolveExt" \in Acts /\ ExtEnabled(obj, metric, chan)
  /\ Sweep => last = NoLast
  /\ LET good == ExtResult(obj, metric, chan)
         stale == Dev.StaleStreamCounts /\ last.op \in ExtOps /\ last.n <= chan.N
         res == IF stale THEN [good EXCEPT !.kind = last.kind, !.n = IF last.kind = "all" THEN chan.N ELSE last.n] ELSE good
     IN /\ last' = [res EXCEPT !.cur = ~(res.kind = "all" /\ CachedPowerStale(obj)), !.rankok = ~RankMisjudged(chan)]
        /\ metric' = IF Dev.SolveStoresDecision /\ good.kind = "decided" THEN [NoMetric EXCEPT !.name = "fixed", !.ns = 1] ELSE metric
  /\ UNCHANGED <<obj, alias, chan>>
  /\ Step("SolveExt", [cfg |-> CfgVals(obj)], "ok")

\* calc_whitening_matrices(mu_channel) of the classes that handle external interference
WhitenResult(c) == [NoLast EXCEPT !.op = "whiten", !.N = c.N, !.rE = c.rE, !.onCur = TRUE]   \* (uses pe of the object, noise of the channel)
CalcWhitening ==
  /\ "CalcWhitening" \in Acts /\ obj.cls \in {"WBD", "EBD"} /\ chan.N > 0 /\ chan.rE > 0
  /\ Sweep => (last = NoLast /\ metric = NoMetric)
  /\ last' = WhitenResult(chan)
  /\ UNCHANGED <<obj, metric, alias, chan>>
  /\ Step("CalcWhitening", [cfg |-> CfgVals(obj)], "ok")

\* EnhancedBD.calc_receive_filter_user_k(Heq_k_P, P) called directly as the public static method, with a caller-chosen generic
\* full-column-rank P of ns columns (ns = 0: P = None) and a generic equivalent channel
FilterKResult(c, ns) == [NoLast EXCEPT !.op = "filterk", !.n = ns, !.N = c.N, !.onCur = TRUE]
CalcFilterUserK(ns) ==
  /\ "CalcFilterUserK" \in Acts /\ obj.cls = "EBD" /\ chan.N > 0 /\ ns <= chan.N
  /\ Sweep => (last = NoLast /\ metric = NoMetric)
  /\ last' = FilterKResult(chan, ns)
  /\ UNCHANGED <<obj, metric, alias, chan>>
  /\ Step("CalcFilterUserK", [ns |-> ns], "ok")

\* calc_receive_filter(newH) on the effective channel returned by the last plain solve
CalcReceiveFilter(how) ==
  /\ "CalcReceiveFilter" \in Acts /\ last.op \in BDops
  /\ Sweep => ~last.filt
  /\ last' = [last EXCEPT !.filt = TRUE]
  /\ UNCHANGED <<obj, metric, alias, chan>>
  /\ Step("CalcReceiveFilter", [how |-> how], "ok")

\* the caller overwrites the arrays the last ext-int solve returned (they are the caller's): the channel
\* object it solved for must not notice
Scribble ==
  /\ "Scribble" \in Acts /\ ~Sweep /\ last.op \in ExtOps /\ last.onCur
  /\ chan' = [chan EXCEPT !.intact = ~(Dev.ReturnedNsAliasesChannel /\ last.op = "ebd" /\ last.kind = "all")]
  /\ last' = [last EXCEPT !.onCur = FALSE]      \* the returned arrays are gone
  /\ UNCHANGED <<obj, metric, alias>>
  /\ Step("Scribble", <<>>, "ok")

DoConstruct == \E c \in Configs : Construct(c)
DoSetMetric == obj.cls = "EBD" /\ \E name \in MetricNames \cup {"lala"} : \E a \in Supplied(name) : SetMetric(name, a)
DoNewChannel == obj # NoObj /\ \E N \in Ants : \E rE \in Ranks \cup {0} : \E sc \in Scales : \E src \in 0..2 : NewChannel(N, rE, sc, src)
DoSolveBD == \E op \in BDops : SolveBD(op)
DoSetAttr == /\ obj # NoObj /\ ~Sweep
             /\ \/ \E lab \in PLabels : SetAttr("iPu", lab)
                \/ \E lab \in NvLabels : SetAttr("noise_var", lab)
                \/ \E lab \in PeLabels : SetAttr("pe", lab)
DoCalcReceiveFilter == \E how \in {"static", "module"} : CalcReceiveFilter(how)
DoBystander == obj.cls = "EBD" /\ \E name \in MetricNames : \E a \in Supplied(name) : Bystander(name, a)
DoCalcFilterUserK == obj.cls = "EBD" /\ \E ns \in 0..3 : CalcFilterUserK(ns)
Next == DoBystander \/ DoCalcFilterUserK \/ DoConstruct \/ DoSetAttr \/ DoSetMetric \/ EditDict \/ DoNewChannel \/ DoSolveBD \/ SolveExt \/ CalcWhitening \/ DoCalcReceiveFilter \/ Scribble
Spec == Init /\ [][Next]_vars

(* ---------------------------------- what the property requires --------------------------------- *)
\* the predicates of the property that must hold for what was last computed (evaluated numerically, (rel))
ReqOf(o, l) ==
  IF l.op = "none" THEN {}
  ELSE IF l.op = "filterk" THEN {"FilterInvertsInsideSpanOfP", "InputsUntouched", "EarlierResultsUnchanged"}
                                 \cup (IF l.n > 0 /\ l.n < l.N THEN {"FilterIgnoresOutsideSpanOfP"} ELSE {})
  ELSE IF l.op = "whiten" THEN {"WhiteningFiltersWhitenExtIntPlusNoise", "InputsUntouched", "EarlierResultsUnchanged"}
  ELSE IF l.op \in BDops THEN
         {"EffectiveChannelBlockDiagonal", "ReturnedChannelIsChannelTimesPrecoder", "PowerLePerUser", "SameAsFreshObject", "InputsUntouched",
          "EarlierResultsUnchanged", "EffectiveStreamsOrthogonal"}      \* (beyond the statement: the streams of a user are the eigenmodes of its channel)
         \* with water-filling: at most the power per user, reached by one; the powered streams share one water level
         \* for the total power K * p (the interplay of the global water-filling with the normalisation; the allocation
         \* rule itself is C12's)
         \cup (IF l.op = "bd_nowf" THEN {"PowerEqPerUser"} ELSE {"PowerReachedByOne", "WaterLevelCommonOnPoweredStreams"})
         \cup (IF l.filt THEN {"ReceiveFilterInvertsOnPoweredStreams"} ELSE {})
  ELSE {"InterUserNullWithExtInt", "PowerEqPerUser", "StreamCountsMatchPrecoders", "ReceiveFilterInvertsOnPoweredStreams",
        "SameAsFreshObject", "InputsUntouched", "EarlierResultsUnchanged"}
       \cup (CASE l.kind = "all"   -> {"AllStreamsKept"}
               [] l.kind = "fixed" -> {"StreamCountIsNumStreams"}
               [] OTHER            -> {"StreamCountInRange"})
       \* interference-aware reductions (fixed and the deciding metrics; "naive" drops streams blindly) remove the
       \* external interference at every user that keeps at most N - rE streams
       \cup (IF /\ l.pe \notin {"zero", "na"}
                /\ l.mname \in {"fixed", "capacity", "effective_throughput"}
                /\ l.N - l.rE >= 1
                /\ l.kind = "fixed" => l.n <= l.N - l.rE
             THEN {"ExtIntRemovedWhenEnoughStreamsSacrificed"} ELSE {})
       \* (a law "under dominant interference a deciding metric keeps at most N - rE streams" was required here for one round;
       \* it is no theorem - the interference-free direction may carry a weaker signal than a direction inside the
       \* interference subspace, and the metric then rightly prefers two streams - and it demanded more than the statement:
       \* withdrawn, see notes/C09.md)
Required == ReqOf(obj, last)

(* ---------------------------------- laws of the machine ----------------------------------------- *)
ArgRecs == [ns : 0..3, mod : {"none"} \cup Mods, plen : {0} \cup PLens]
TypeOK ==
  /\ obj = NoObj \/ [cls |-> obj.cls, K |-> obj.K, p |-> obj.p, nv |-> obj.nv, pe |-> obj.pe] \in Configs
  /\ metric \in [name : MetricNames, ns : 0..3, mod : {"none"} \cup Mods, plen : {0} \cup PLens]
  /\ alias \in BOOLEAN
  /\ chan \in [N : {0} \cup Ants, rE : {0} \cup Ranks, src : 0..2, sc : {0} \cup Scales, intact : BOOLEAN]
  /\ last.op \in {"none", "whiten", "filterk"} \cup BDops \cup ExtOps /\ last.kind \in {"none", "all", "fixed", "decided"}
  /\ obj.cls # "EBD" => metric = NoMetric

\* the stored extra arguments are exactly the ones the metric needs
MetricArgsConsistent ==
  /\ metric.name \in {"None", "capacity"} => metric.ns = 0 /\ metric.mod = "none" /\ metric.plen = 0
  /\ metric.name \in {"naive", "fixed"} => metric.ns \in StreamNs /\ metric.mod = "none" /\ metric.plen = 0
  /\ metric.name = "effective_throughput" => metric.ns = 0 /\ metric.mod \in Mods /\ metric.plen \in PLens

ChannelIntact == chan.intact
\* every result was computed with the attribute values current at the time of the call
ResultObeysCurrentAttributes == last.cur
\* the number of streams / the null space follow the true rank of the channel, whatever its magnitude
RankIsScaleFree == last.rankok
NoSharedDict == ~alias

PowerRules == {"PowerEqPerUser", "PowerReachedByOne"}
RequiredAfterSolve ==
  last.op # "none" =>
    /\ Required # {}
    /\ last.op \notin {"whiten", "filterk"} => Cardinality(Required \cap PowerRules) = 1
    /\ last.op \notin {"whiten", "filterk"} => Cardinality(Required \cap {"EffectiveChannelBlockDiagonal", "InterUserNullWithExtInt"}) = 1
    /\ last.op \in ExtOps => Cardinality(Required \cap {"AllStreamsKept", "StreamCountIsNumStreams", "StreamCountInRange"}) = 1
    /\ "ExtIntRemovedWhenEnoughStreamsSacrificed" \in Required =>
         last.op = "ebd" /\ last.mname # "naive" /\ last.kind # "all" /\ last.N > last.rE
    /\ last.kind = "fixed" => last.n \in 1..last.N

\* action properties (checked on every transition)
RejectedLeavesUnchanged == [][ret'.out = "rejected" => UNCHANGED view]_vars
OnlySetMetricChangesMetric == [][metric' # metric => (ret'.op = "SetMetric" /\ ret'.out = "ok")]_vars
SolveUsesCurrentMetric ==
  [][ret'.op = "SolveExt" =>
       /\ last'.N = chan.N /\ last'.rE = chan.rE
       /\ last' = ExtResult(obj, metric, chan)]_vars
OnlySettersChangeObject == [][obj' # obj => ret'.op \in {"Construct", "SetAttr"}]_vars
SetAttrChangesOnlyThat == [][ret'.op = "SetAttr" => (UNCHANGED <<metric, alias, chan, last>> /\ obj'.cls = obj.cls /\ obj'.K = obj.K)]_vars
SolveLeavesConfig == [][ret'.op \in {"SolveExt", "SolveBD", "CalcReceiveFilter", "CalcWhitening", "CalcFilterUserK"} => UNCHANGED <<obj, metric, alias, chan>>]_vars

(* ---------------------------------- emission ------------------------------------------------------ *)
StateRec  == [obj |-> obj, metric |-> metric, alias |-> alias, chan |-> chan, last |-> last]
StateRecP == [obj |-> obj', metric |-> metric', alias |-> alias', chan |-> chan', last |-> last']
\* what a solve in the post-state would have to satisfy (the harness probes it on a copy of the object after the
\* steps that must not change the object: rejected calls, EditDict, Scribble, and after accepted metric changes)
ProbeOf(o, m, c) == IF ExtEnabled(o, m, c)
                      THEN [ok |-> TRUE, last |-> ExtResult(o, m, c), req |-> ReqOf(o, ExtResult(o, m, c)), cfg |-> CfgVals(o)]
                      ELSE [ok |-> FALSE]
\* frame conditions of the call just made (general call discipline; the harness checks them with the probe, the held
\* earlier results and the argument copies)
FrameOf(r) == {"ArgumentsUnchanged", "EarlierResultsUnchanged"}
              \cup (IF r.out = "rejected" THEN {"RejectedChangesNothing"} ELSE {})
              \cup (IF r.op \in {"CalcWhitening", "CalcReceiveFilter", "CalcFilterUserK"} THEN {"QueryIsPure"} ELSE {})
              \cup (IF r.op = "Bystander" THEN {"OtherObjectsDoNotMatter"} ELSE {})
              \cup (IF r.op = "SetAttr" THEN {"LaterSolvesObeyCurrentAttributes"} ELSE {})
Emit == EmitEdge([pre |-> StateRec, post |-> StateRecP, ret |-> ret', req |-> ReqOf(obj', last'),
                  probe |-> ProbeOf(obj', metric', chan'), frame |-> FrameOf(ret')])
=============================================================================
