---------------------------- MODULE WaterFilling ----------------------------
(* C12 - water-filling returns the capacity-optimal power allocation.

   Models pyphysim.comm.waterfilling.doWF(vtChannels, dPt, noiseVar, Es) -> (vtOptP, mu).

   Part 1 is a DECLARATIVE definition of the optimum, written from the property statement and
   sharing nothing with the algorithm (no sort, no loop): the water level is the unique number
   m with  SUM_i max(0, m - N0/(Es g_i)) = P  (KKT conditions of the concave problem
   max SUM log2(1 + g_i Es p_i / N0) s.t. p >= 0, SUM p = P); it is picked from the finite
   candidate set { (P + SUM_{i in S} N0/(Es g_i)) / |S| : S a non-empty set of channels }.

   Part 2 is the ALGORITHM of the code as a machine, one action per code step:
       Pick -> Sort -> Level -> DropWorst* -> Spread -> Unsort -> Mu -> (done)
   over exact rationals (Rat pairs <<n, d>>; additions and comparisons go through the least
   common denominator so that gains spanning 2^-10 .. 2^10 stay inside TLC's 32-bit integers).

   Part 3 states the property as invariants of the machine: NonNeg, SumIsP, KKT (for the
   RETURNED mu), MatchesOptimum, Optimal (exact product comparison with every allocation on
   the P/GridN grid), ExchangeOptimal, PermutationEquivariant, plus loop lemmas.

   LEMMA (KKT suffices).  f(p) = SUM_i log2(1 + a_i p_i), a_i = g_i Es / N0 > 0, is strictly
   concave and separable, the feasible set {p >= 0, SUM p = P} is convex and compact.  Hence p is
   the unique maximiser iff there is m with  a_i/(1 + a_i p_i) = 1/m  when p_i > 0  and
   a_i <= 1/m  when p_i = 0, i.e.  p_i = max(0, m - 1/a_i), SUM p = P.  `Optimal` checks the
   conclusion directly (exact products) only where the products fit 32 bits (length n <=
   Len(Opt.OptAMax), a_i <= Opt.OptAMax[n]); for longer vectors optimality rests on KKT + this lemma.
   `ExchangeOptimal` (moving power between two channels never helps) involves two factors only and is
   checked for every length; for separable concave f it is equivalent to global optimality.

   SCALING LAWS (derived from the definition, stated as invariants `ScaleLaws`, `ScaleLawsOptimum`).
   The data enter the problem only through the vessel bottoms b_i = N0/(Es g_i) and through P:
     (g, N0) -> (k g, k N0)   leaves every b_i unchanged:  same powers, same water level;
     (N0, Es) -> (k N0, k Es) leaves every b_i unchanged:  same powers, same water level;
     (g, Es) -> (k g, Es / k) leaves every b_i unchanged:  same powers, same water level;
     (P, N0) -> (k P, k N0)   multiplies every b_i and P by k:  SUM max(0, k m - k b_i) = k P, so the
                              water level and every power are multiplied by k (homogeneous of degree 1).
   There is no absolute scale in the problem: gains of 1e-15 with noise 1e-15 are the same problem as
   gains of 1 with noise 1.  The harness replays every case at common scales 1e-30 .. 1e+30 on the
   strength of these laws (the exact expected values are those of the unscaled case).
   Dev.AbsGainFloor (gains below an absolute threshold are raised to it - a "division guard") is invisible
   on a domain whose gains lie above the threshold; it is refuted by `ScaleLaws` only.

   Dev.MuIgnoresEs is the known defect of the code (returned mu = p_best + N0/g_best, Es missing).
   The other Dev fields are plausible regressions; each is refuted by one of the invariants, which
   shows that no invariant is vacuous.  Opt.DropOnTie replaces the drop test `>` by `>=`; the
   invariants still hold (that mutant is equivalent - proved here on the whole domain).            *)
EXTENDS Integers, Sequences, FiniteSets, TLC, Emit, Rat

CONSTANTS Gains,       \* set of Rat: alphabet of channel power gains
          FirstGains,  \* subset of Gains: the first gain of the vector (partition key for parallel runs)
          Lens,        \* set of vector lengths
          Powers, Noises, Energies,   \* sets of Rat (all > 0)
          Dev,         \* [MuIgnoresEs, SpreadOverAll, AscendingSort, NoUnsort, StopEarly, EsDroppedInLoop,
                       \*  AbsGainFloor, SortOrderCached, TinyLevelUniform : BOOLEAN]
          Opt          \* [AllTieBreaks, DropOnTie, PermAll, Reuse : BOOLEAN, GridN, ExN : Nat, ExAMax : Rat,
                       \*  DeadGains : set of Rat, DeadCount : up to that many of them are inserted by DeadChannelLaw
                       \*  while the vector stays within length DeadMaxLen <= 4,
                       \*  LiveGains : set of Rat, LiveMaxLen (LiveChannelLaw), TinyLevel : Rat (Dev.TinyLevelUniform),
                       \*  Reps : set of replication factors, RepMaxLen <= 4 (ReplicationLaw),
                       \*  Scales : set of Rat (factors k of the scaling laws), GainFloor : Rat (Dev.AbsGainFloor),
                       \*  OptAMax : Seq(Rat)]  OptAMax[n] bounds a_i = g_i Es/N0 for which `Optimal` is
                       \*  evaluated on vectors of length n (<<0,1>>: never; longer than the sequence: never)

(* ------------------------------------------------------------------------------------------ *)
(* Rational helpers through the least common denominator (magnitudes stay ~ value * lcm).     *)
Lcm(a, b)     == (a \div Gcd(a, b)) * b
QAdd(a, b)    == LET l == Lcm(a[2], b[2]) IN RNorm(a[1] * (l \div a[2]) + b[1] * (l \div b[2]), l)
QSub(a, b)    == QAdd(a, RNeg(b))
QLt(a, b)     == LET l == Lcm(a[2], b[2]) IN a[1] * (l \div a[2]) < b[1] * (l \div b[2])
QLe(a, b)     == LET l == Lcm(a[2], b[2]) IN a[1] * (l \div a[2]) <= b[1] * (l \div b[2])
QDivInt(a, k) == RNorm(a[1], a[2] * k)
QMulInt(a, k) == RNorm(a[1] * k, a[2])
RECURSIVE QSum(_)
QSum(s)       == IF s = <<>> THEN RZero ELSE QAdd(Head(s), QSum(Tail(s)))

N(c)          == Len(c.g)
Idx(c)        == 1..Len(c.g)
\* N0 / (Es g): the bottom of the vessel of a channel with gain g
Bottom(c, g)  == RDiv(c.n0, RMul(c.es, g))

(* ========================== Part 1: the optimum, declaratively ============================ *)
Pour(c, m)    == [i \in Idx(c) |-> IF QLt(Bottom(c, c.g[i]), m) THEN QSub(m, Bottom(c, c.g[i])) ELSE RZero]
IsWaterLevel(c, m) == QSum(Pour(c, m)) = c.p
RECURSIVE SumBottoms(_, _)
SumBottoms(c, S) == IF S = {} THEN RZero
                    ELSE LET i == CHOOSE x \in S : TRUE IN QAdd(Bottom(c, c.g[i]), SumBottoms(c, S \ {i}))
LevelFor(c, S) == QDivInt(QAdd(c.p, SumBottoms(c, S)), Cardinality(S))
Candidates(c)  == {LevelFor(c, S) : S \in (SUBSET Idx(c)) \ {{}}}
OptMu(c)       == CHOOSE m \in Candidates(c) : IsWaterLevel(c, m)
OptP(c)        == Pour(c, OptMu(c))

\* a channel sits exactly at the water level (p_i = 0 with equality): the drop test is a tie there
TieCase(c)     == \E i \in Idx(c) : Bottom(c, c.g[i]) = OptMu(c)

\* rate as a product: SUM log2(1 + a_i q_i) is monotone in PROD (1 + a_i q_i)
A(c, i)        == RDiv(RMul(c.g[i], c.es), c.n0)
Factor(c, i, x) == QAdd(ROne, RMul(A(c, i), x))
RateProd(c, q) == RProdSeq([i \in Idx(c) |-> Factor(c, i, q[i])])
RECURSIVE IntSum(_)
IntSum(s)      == IF s = <<>> THEN 0 ELSE Head(s) + IntSum(Tail(s))
GridOf(c)      == IF N(c) >= 4 THEN 2 ELSE Opt.GridN          \* length 4: coarse grid P/2 (products of four factors)
GridAllocs(c)  == {[i \in Idx(c) |-> RNorm(c.p[1] * k[i], c.p[2] * GridOf(c))] :
                     k \in {kk \in [Idx(c) -> 0..GridOf(c)] : IntSum(kk) = GridOf(c)}}

(* ========================== Part 2: the algorithm as a machine ============================ *)
VARIABLES pc, inp, ord, gs, rem, lvl, ps, aux, pw, mu
vars == <<pc, inp, ord, gs, rem, lvl, ps, aux, pw, mu>>

BijOf(n)       == {o \in [1..n -> 1..n] : \A a, b \in 1..n : a # b => o[a] # o[b]}
\* permutations of 1..n as a table: a constant TLC evaluates once (BijOf inside the invariants was
\* measured to dominate the run time for n = 4)
BijTab         == [n \in 1..4 |-> BijOf(n)]
Bij(n)         == BijTab[n]
Descending(g, o) == \A k \in 1..(Len(g) - 1) : ~QLt(g[o[k]], g[o[k + 1]])
Ascending(g, o)  == \A k \in 1..(Len(g) - 1) : ~QLt(g[o[k + 1]], g[o[k]])
SortOrders(g)  == {o \in Bij(Len(g)) : IF Dev.AscendingSort THEN Ascending(g, o) ELSE Descending(g, o)}
\* the order numpy produces, argsort(g)[::-1]: equal gains appear in descending index order
NumpyOrder(g)  == CHOOSE o \in SortOrders(g) : \A k \in 1..(Len(g) - 1) : g[o[k]] = g[o[k + 1]] => o[k] > o[k + 1]

\* the sorted gains as the code sees them (a regression floors them at an absolute threshold)
Seen(g)        == IF Dev.AbsGainFloor /\ QLt(g, Opt.GainFloor) THEN Opt.GainFloor ELSE g

\* code: BottomLoop is the in-loop minMu (a regression drops Es there)
BottomLoop(c, g) == IF Dev.EsDroppedInLoop THEN RDiv(c.n0, g) ELSE Bottom(c, g)
PsAt(c, s, r)  == LET n == Len(s)
                      top == IF r = 0 THEN Bottom(c, s[n]) ELSE BottomLoop(c, s[n - r])
                  IN  [i \in 1..(n - r) |-> QSub(top, Bottom(c, s[i]))]
LevelAt(c, s, r) == IF r = 0 THEN Bottom(c, s[Len(s)]) ELSE BottomLoop(c, s[Len(s) - r])
LoopBound(c)   == IF Dev.StopEarly THEN N(c) - 2 ELSE N(c)
NeedDrop(c, q, r) == /\ r < LoopBound(c)
                     /\ \/ QLt(c.p, QSum(q))
                        \/ Opt.DropOnTie /\ QSum(q) = c.p
SpreadOp(c, q, k) == LET d == QDivInt(QSub(c.p, QSum(q)), k) IN [i \in 1..Len(q) |-> QAdd(q[i], d)]
UnsortOp(o, a, n) == IF Dev.NoUnsort THEN [i \in 1..n |-> IF i <= Len(a) THEN a[i] ELSE RZero]
                     ELSE [i \in 1..n |-> IF \E k \in 1..Len(a) : o[k] = i
                                          THEN a[CHOOSE k \in 1..Len(a) : o[k] = i] ELSE RZero]
\* a regression: when some vessel bottom is "too small to compute" the power is split equally
Fallback(c, v) == IF Dev.TinyLevelUniform /\ \E i \in Idx(c) : QLt(Bottom(c, c.g[i]), Opt.TinyLevel)
                  THEN [i \in Idx(c) |-> QDivInt(c.p, N(c))] ELSE v
MuWithEs(c, s, a) == QAdd(a[1], Bottom(c, s[1]))
MuNoEs(c, s, a)   == QAdd(a[1], RDiv(c.n0, s[1]))
MuOp(c, s, a)     == IF Dev.MuIgnoresEs THEN MuNoEs(c, s, a) ELSE MuWithEs(c, s, a)

Init == /\ pc = "idle" /\ inp = <<>> /\ ord = <<>> /\ gs = <<>> /\ rem = 0 /\ lvl = RZero
        /\ ps = <<>> /\ aux = <<>> /\ pw = <<>> /\ mu = RZero

Pick == /\ pc = "idle"
        /\ \E n \in Lens : \E g \in [1..n -> Gains] : \E p \in Powers : \E n0 \in Noises : \E es \in Energies :
             /\ g[1] \in FirstGains
             /\ inp' = [g |-> g, p |-> p, n0 |-> n0, es |-> es]
        /\ pc' = "sort"
        /\ UNCHANGED <<ord, gs, rem, lvl, ps, aux, pw, mu>>

\* vtChannelsSortIndexes = argsort(vtChannels)[::-1]; any order that sorts is allowed when
\* Opt.AllTieBreaks (the property must not depend on how ties are broken)
Sort == /\ pc = "sort"
        /\ \E o \in (IF Dev.SortOrderCached /\ ord # <<>> THEN {ord}
                     ELSE IF Opt.AllTieBreaks THEN SortOrders(inp.g) ELSE {NumpyOrder(inp.g)}) :
             /\ ord' = o
             /\ gs' = [k \in Idx(inp) |-> Seen(inp.g[o[k]])]
        /\ pc' = "level"
        /\ UNCHANGED <<inp, rem, lvl, ps, aux, pw, mu>>

\* water level touching the worst channel, powers at that level
Level == /\ pc = "level"
         /\ rem' = 0
         /\ lvl' = LevelAt(inp, gs, 0)
         /\ ps' = PsAt(inp, gs, 0)
         /\ pc' = "loop"
         /\ UNCHANGED <<inp, ord, gs, aux, pw, mu>>

\* while sum(Ps) > dPt and dRemoveChannels < dNChannels: remove the worst channel
DropWorst == /\ pc = "loop"
             /\ NeedDrop(inp, ps, rem)
             /\ rem' = rem + 1
             /\ lvl' = LevelAt(inp, gs, rem + 1)
             /\ ps' = PsAt(inp, gs, rem + 1)
             /\ UNCHANGED <<pc, inp, ord, gs, aux, pw, mu>>

\* distribute the remaining power among the remaining channels
Spread == /\ pc = "loop"
          /\ ~NeedDrop(inp, ps, rem)
          /\ aux' = SpreadOp(inp, ps, IF Dev.SpreadOverAll THEN N(inp) ELSE N(inp) - rem)
          /\ pc' = "unsort"
          /\ UNCHANGED <<inp, ord, gs, rem, lvl, ps, pw, mu>>

Unsort == /\ pc = "unsort"
          /\ pw' = Fallback(inp, UnsortOp(ord, aux, N(inp)))
          /\ pc' = "mu"
          /\ UNCHANGED <<inp, ord, gs, rem, lvl, ps, aux, mu>>

Mu == /\ pc = "mu"
      /\ mu' = MuOp(inp, gs, aux)
      /\ pc' = "done"
      /\ UNCHANGED <<inp, ord, gs, rem, lvl, ps, aux, pw>>

\* The caller overwrites the SAME gains array in place (here: reverses or rotates its contents - a new channel
\* realisation in a reused buffer) and calls doWF again.  doWF has no state of its own: everything is recomputed
\* from the current contents.  `ord` survives in the model only as what a hidden cache could still hold; with
\* Dev.SortOrderCached the second call sorts with that stale order.  All invariants are evaluated on the second
\* call too.  The harness replays this as calls on one reused buffer per length.
Rewrites(g) == {[i \in 1..Len(g) |-> g[Len(g) + 1 - i]], [i \in 1..Len(g) |-> g[(i % Len(g)) + 1]]}
Reuse == /\ Opt.Reuse /\ pc = "done"
         /\ \E g2 \in Rewrites(inp.g) : g2 # inp.g /\ inp' = [inp EXCEPT !.g = g2]
         /\ pc' = "sort"
         /\ gs' = <<>> /\ rem' = 0 /\ lvl' = RZero /\ ps' = <<>> /\ aux' = <<>> /\ pw' = <<>> /\ mu' = RZero
         /\ UNCHANGED ord

Next == Pick \/ Sort \/ Level \/ DropWorst \/ Spread \/ Unsort \/ Mu \/ Reuse

\* the same steps composed as a function (used for PermutationEquivariant and RunAgrees)
RECURSIVE DropCount(_, _, _)
DropCount(c, s, r) == IF NeedDrop(c, PsAt(c, s, r), r) THEN DropCount(c, s, r + 1) ELSE r
Run(c, o) == LET s == [k \in Idx(c) |-> Seen(c.g[o[k]])]
                 r == DropCount(c, s, 0)
                 a == SpreadOp(c, PsAt(c, s, r), IF Dev.SpreadOverAll THEN N(c) ELSE N(c) - r)
             IN  [pw |-> Fallback(c, UnsortOp(o, a, N(c))), mu |-> MuOp(c, s, a), rem |-> r]

(* ================================ Part 3: the property ==================================== *)
Done == pc = "done"
TypeOK == pc \in {"idle", "sort", "level", "loop", "unsort", "mu", "done"}

NonNeg  == Done => \A i \in Idx(inp) : pw[i][1] >= 0
SumIsP  == Done => QSum(pw) = inp.p
\* the allocation is max(0, mu - N0/(Es g_i)) for the RETURNED water level
KKT     == Done => pw = Pour(inp, mu)
MatchesOptimum == Done => pw = OptP(inp) /\ mu = OptMu(inp)
WaterLevelUnique == Done => \A m \in Candidates(inp) : IsWaterLevel(inp, m) => m = OptMu(inp)

\* magnitude guard for the product comparisons: every a_i = g_i Es / N0 lies in [1/lim, lim]
\* (lim = 0: never evaluated).  Found by running: outside it the exact products leave 32 bits.
ASmall(c, lim) == lim[1] > 0 /\ \A i \in Idx(c) : QLe(A(c, i), lim) /\ QLe(RInv(A(c, i)), lim)
\* no allocation on the P/GridN grid reaches the product of the returned allocation (strictly, unless equal)
Optimal == (Done /\ N(inp) <= Len(Opt.OptAMax) /\ ASmall(inp, Opt.OptAMax[N(inp)])) =>
             LET best == RateProd(inp, pw)
             IN  \A q \in GridAllocs(inp) : IF q = pw THEN TRUE ELSE QLt(RateProd(inp, q), best)
\* moving t/ExN of channel i's power to channel j strictly lowers the two-factor product
ExchangeOptimal == (Done /\ ASmall(inp, Opt.ExAMax)) =>
             \A i, j \in Idx(inp) : (i # j /\ pw[i][1] > 0) =>
               \A t \in 1..Opt.ExN :
                 LET d == QDivInt(QMulInt(pw[i], t), Opt.ExN)
                 IN  QLt(RMul(Factor(inp, i, QSub(pw[i], d)), Factor(inp, j, QAdd(pw[j], d))),
                         RMul(Factor(inp, i, pw[i]), Factor(inp, j, pw[j])))

Permuted(c, s) == [c EXCEPT !.g = [i \in Idx(c) |-> c.g[s[i]]]]
PermSet(n)     == IF Opt.PermAll \/ n <= 2 THEN Bij(n)
                  ELSE {[i \in 1..n |-> IF i = 1 THEN 2 ELSE IF i = 2 THEN 1 ELSE i],     \* generators of S_n
                        [i \in 1..n |-> IF i = n THEN 1 ELSE i + 1]}
PermutationEquivariant ==
    Done => \A s \in PermSet(N(inp)) :
               LET c2 == Permuted(inp, s)
                   r2 == Run(c2, NumpyOrder(c2.g))
               IN  r2.pw = [i \in Idx(inp) |-> pw[s[i]]] /\ r2.mu = mu
RunAgrees == Done => LET r == Run(inp, ord) IN r.pw = pw /\ r.mu = mu /\ r.rem = rem

\* scaling laws (see the header): kg, kp, kn, ke multiply gains, total power, noise, symbol energy
Scaled(c, kg, kp, kn, ke) == [g |-> [i \in Idx(c) |-> RMul(c.g[i], kg)], p |-> RMul(c.p, kp),
                              n0 |-> RMul(c.n0, kn), es |-> RMul(c.es, ke)]
RunOf(c)   == Run(c, NumpyOrder(c.g))
Same(r)    == r.pw = pw /\ r.mu = mu
Times(r, k) == r.pw = [i \in Idx(inp) |-> RMul(pw[i], k)] /\ r.mu = RMul(mu, k)
ScaleLaws  == Done => \A k \in Opt.Scales :
                /\ Same(RunOf(Scaled(inp, k, ROne, k, ROne)))             \* gains and noise by a common factor
                /\ Same(RunOf(Scaled(inp, ROne, ROne, k, k)))             \* only N0/Es matters
                /\ Same(RunOf(Scaled(inp, k, ROne, ROne, RInv(k))))       \* only g*Es matters
                /\ Times(RunOf(Scaled(inp, ROne, k, k, ROne)), k)         \* homogeneous of degree 1 in (P, N0)
\* the same laws for the declaratively defined optimum (they are laws of the problem, not of the algorithm):
\* the returned allocation and level (scaled where the law says so) satisfy the KKT conditions of every scaled
\* problem; KKT determines the optimum uniquely (WaterLevelUnique), so this is OptMu/OptP of the scaled problem
KktOf(c, q, m) == q = Pour(c, m) /\ QSum(q) = c.p
ScaleLawsOptimum == Done => \A k \in Opt.Scales :
                /\ KktOf(Scaled(inp, k, ROne, k, ROne), pw, mu)
                /\ KktOf(Scaled(inp, ROne, ROne, k, k), pw, mu)
                /\ KktOf(Scaled(inp, k, ROne, ROne, RInv(k)), pw, mu)
                /\ KktOf(Scaled(inp, ROne, k, k, ROne), [i \in Idx(inp) |-> RMul(pw[i], k)], RMul(mu, k))

\* a channel whose vessel bottom is not below the water level is irrelevant: adding such channels (one or several,
\* equal or distinct, at the front, in the middle or at the end of the vector) leaves every other power and the
\* level unchanged and gives them power 0.  The harness uses this law to add up to ten channels that are 20 .. 300
\* orders of magnitude weaker than the weakest one (long drop sequences in one call).
DeadSeqs   == UNION {[1..j -> Opt.DeadGains] : j \in 1..Opt.DeadCount}
Inserted(q, k, x) == SubSeq(q, 1, k) \o x \o SubSeq(q, k + 1, Len(q))
DeadChannelLaw == Done => \A ds \in DeadSeqs :
                    (N(inp) + Len(ds) <= Opt.DeadMaxLen /\ \A j \in 1..Len(ds) : ~QLt(Bottom(inp, ds[j]), mu)) =>
                       \A k \in 0..N(inp) :
                          LET r == RunOf([inp EXCEPT !.g = Inserted(inp.g, k, ds)])
                          IN  r.pw = Inserted(pw, k, [j \in 1..Len(ds) |-> RZero]) /\ r.mu = mu

\* LIVE-CHANNEL LAW.  Add a channel whose vessel bottom b is below the water level mu and raise the total power by
\* mu - b: at the SAME level the new channel takes mu - b and every other channel what it had, together
\* P + (mu - b): KKT holds, so level and old powers are unchanged.  With b -> 0 this is "an arbitrarily strong
\* channel joins and brings its own power mu".  The harness uses it, combined with the scaling laws, for gains /
\* noise at the ends of the floating-point range (b = N0/(Es g) a subnormal number: gain 1.5e308, or gain 1e160
\* with noise 1e-150) - the expected values stay those of the moderate-scale case.
LiveChannelLaw == Done => \A d \in Opt.LiveGains :
                    (N(inp) + 1 <= Opt.LiveMaxLen /\ QLt(Bottom(inp, d), mu)) =>
                       \A k \in 0..N(inp) :
                          LET own == QSub(mu, Bottom(inp, d))
                              c2  == [inp EXCEPT !.g = Inserted(inp.g, k, <<d>>), !.p = QAdd(inp.p, own)]
                              r   == RunOf(c2)
                          IN  /\ r.pw = Inserted(pw, k, <<own>>) /\ r.mu = mu
                              /\ KktOf(c2, Inserted(pw, k, <<own>>), mu)

\* REPLICATION LAW.  Let g^m be g repeated m times (blocked: g1 g1 .. g2 g2 .., or tiled: g1 g2 .. g1 g2 ..) and
\* the total power m P.  At the level mu of the original problem every copy of channel i takes max(0, mu - b_i),
\* together m * SUM_i max(0, mu - b_i) = m P: the KKT conditions hold, so by uniqueness the optimum of the
\* replicated problem is the original allocation repeated and the SAME level.  ReplicationLawOptimum states
\* this for the declarative optimum at every length; ReplicationLaw re-runs the algorithm machine on the
\* replicated vector where it stays within length Opt.RepMaxLen.  The harness replays every case replicated
\* up to 67 times (length 201/268: equal gains in long vectors, introsort path of argsort, long drop runs).
Tiled(q, m)   == [i \in 1..(Len(q) * m) |-> q[((i - 1) % Len(q)) + 1]]
Blocked(q, m) == [i \in 1..(Len(q) * m) |-> q[((i - 1) \div m) + 1]]
RepOf(c, q, m) == [c EXCEPT !.g = q, !.p = QMulInt(c.p, m)]
ReplicationLawOptimum == Done => \A m \in Opt.Reps :
                /\ KktOf(RepOf(inp, Tiled(inp.g, m), m), Tiled(pw, m), mu)
                /\ KktOf(RepOf(inp, Blocked(inp.g, m), m), Blocked(pw, m), mu)
ReplicationLaw == Done => \A m \in Opt.Reps : (N(inp) * m <= Opt.RepMaxLen) =>
                /\ LET r == RunOf(RepOf(inp, Tiled(inp.g, m), m)) IN r.pw = Tiled(pw, m) /\ r.mu = mu
                /\ LET r == RunOf(RepOf(inp, Blocked(inp.g, m), m)) IN r.pw = Blocked(pw, m) /\ r.mu = mu

\* loop lemmas
KeepsOne  == pc \in {"loop", "unsort", "mu", "done"} => rem < N(inp)
PsNonNeg  == pc = "loop" => \A i \in 1..Len(ps) : ps[i][1] >= 0
\* (evaluated once, when the loop has ended: every channel the loop removed is off in the optimum,
\*  and the level at which the loop stopped does not exceed the optimal water level)
DropSound == pc = "unsort" =>
               \A k \in (N(inp) - rem + 1)..N(inp) : OptP(inp)[ord[k]] = RZero
StopSound == pc = "unsort" => QLe(lvl, OptMu(inp))

(* ================================== emission ============================================== *)
Emit == IF pc = "mu" /\ pc' = "done"
        THEN EmitCase([g |-> inp.g, p |-> inp.p, n0 |-> inp.n0, es |-> inp.es,
                       pw |-> OptP(inp), mu |-> OptMu(inp),                  \* exp: what the property demands
                       mpw |-> pw', mmu |-> mu',                             \* asis: what the machine returns
                       munoes |-> MuNoEs(inp, gs, aux),                      \* signature of Dev.MuIgnoresEs
                       rem |-> rem, tie |-> TieCase(inp)])
        ELSE TRUE
=============================================================================
