--------------------------- MODULE Trace_BlockDiag ---------------------------
(* C09, stage T - recorded random configurations and call sequences of the real classes validated
   against the machine of BlockDiag.tla (the direction implementation -> specification, and inputs
   beyond the enumerated alphabet: K up to 5, up to 4 antennas per user, ext. int. rank up to 3,
   random powers / noise variances, four modulators, several packet lengths).

   The harness (harness/props/c09_trace.py) drives real objects with seeded random calls and logs for
   every call what it OBSERVED on the public interface:
     Construct     cls, K, pe ("zero" | "hi")
     SetAttr       attr (iPu | noise_var | pe) assigned on the live object, pe ("zero" | "hi") after it
     SetMetric     name, supplied keys (ns, mod, plen; 0 / "none" = absent), out = "ok" | "rejected"
                   (AttributeError), name_after = metric_name after the call
     NewChannel    N, rE, sc (decimal exponent of the channel scale)
     SolveBD / SolveExt / CalcWhitening / CalcReceiveFilter
                   raised (exception text or ""), ns = reported stream counts, evaluated = the predicate
                   names the recorder evaluated numerically, holds = those that held ((rel), 1e-7)
   All traces are in one JSON file (IOEnv.TRACE_FILE); one TLC run validates them: the machine state
   is advanced with the operators of BlockDiag.tla (Accepted, Stored, ExtResult, BDResult, ReqOf) and
   every logged observation is compared with what the specification requires in that state.  The
   first discrepancy of a trace is stored in `mismatch`; Conforms (mismatch = <<>>) is the invariant,
   Emit names every mismatching trace.                                                          *)
EXTENDS BlockDiag, IOUtils

Traces == JsonDeserialize(IOEnv.TRACE_FILE)

VARIABLES tid, pos, mismatch
tvars == <<obj, metric, alias, chan, last, ret, tid, pos, mismatch>>

RulePreds == {"AllStreamsKept", "StreamCountIsNumStreams", "StreamCountInRange"}
NotRecorded == {"SameAsFreshObject"}          \* needs the abstract metric: only the replay stage evaluates it
SeqSet(q) == {q[i] : i \in 1..Len(q)}

\* the requirement check of a logged solve: everything required was evaluated, and held
Judge(ev, l2) ==
  LET need == (ReqOf(obj, l2) \ RulePreds) \ NotRecorded
  IN IF ev.raised # "" THEN <<"raised", ev.raised>>
     ELSE IF need \ SeqSet(ev.evaluated) # {} THEN <<"not evaluated", need \ SeqSet(ev.evaluated)>>
     ELSE IF need \ SeqSet(ev.holds) # {} THEN <<"required predicate does not hold", need \ SeqSet(ev.holds)>>
     ELSE <<>>

\* state after the logged call and the first discrepancy
After(ev) ==
  LET same == [obj |-> obj, metric |-> metric, chan |-> chan, last |-> last, mm |-> <<>>]
  IN
  CASE ev.op = "Construct" ->
         [same EXCEPT !.obj = [cls |-> ev.cls, K |-> ev.K, p |-> "hi", nv |-> "lo", pe |-> IF ev.cls = "BD" THEN "na" ELSE ev.pe, p0 |-> "na"],
                      !.mm = IF obj # NoObj THEN <<"second construct">> ELSE <<>>]
    [] ev.op = "SetAttr" ->          \* only pe = 0 / pe > 0 matters to the machine
         [same EXCEPT !.obj = IF ev.attr = "pe" THEN [obj EXCEPT !.pe = ev.pe] ELSE obj,
                      !.mm = IF obj = NoObj \/ (ev.attr = "pe" /\ obj.cls = "BD") THEN <<"not enabled">> ELSE <<>>]
    [] ev.op = "SetMetric" ->
         LET a == [ns |-> ev.ns, mod |-> ev.mod, plen |-> ev.plen]
             acc == Accepted(ev.name, a)
             m2 == IF acc THEN Stored(ev.name, a) ELSE metric
         IN [same EXCEPT !.metric = m2,
                         !.mm = IF obj.cls # "EBD" THEN <<"not enabled">>
                                ELSE IF (ev.out = "ok") # acc THEN <<"outcome", ev.out, acc>>
                                ELSE IF ev.name_after # m2.name THEN <<"metric_name", ev.name_after, m2.name>>
                                ELSE <<>>]
    [] ev.op = "NewChannel" ->
         [same EXCEPT !.chan = [N |-> ev.N, rE |-> ev.rE, src |-> ev.src, sc |-> ev.sc, intact |-> TRUE], !.last = [last EXCEPT !.onCur = FALSE],
                      !.mm = IF obj = NoObj \/ ((ev.rE = 0) # (obj.cls = "BD")) THEN <<"not enabled">> ELSE <<>>]
    [] ev.op = "SolveBD" ->
         LET l2 == BDResult(ev.which, chan)
         IN [same EXCEPT !.last = l2,
                         !.mm = IF obj = NoObj \/ chan.N = 0 \/ (ev.which = "bd_nowf" /\ obj.cls # "BD") THEN <<"not enabled">>
                                ELSE Judge(ev, l2)]
    [] ev.op = "SolveExt" ->
         IF ~ExtEnabled(obj, metric, chan) THEN [same EXCEPT !.mm = <<"not enabled">>]
         ELSE LET l2 == ExtResult(obj, metric, chan)
                  okRule == /\ Len(ev.ns) = obj.K
                            /\ \A k \in 1..Len(ev.ns) :
                                 CASE l2.kind = "all"   -> ev.ns[k] = chan.N
                                   [] l2.kind = "fixed" -> ev.ns[k] = l2.n
                                   [] OTHER             -> ev.ns[k] \in 1..chan.N
              IN [same EXCEPT !.last = l2,
                              !.mm = IF ev.raised # "" THEN <<"raised", ev.raised>>
                                     ELSE IF ~okRule THEN <<"stream counts", ev.ns, l2.kind, l2.n>>
                                     ELSE Judge(ev, l2)]
    [] ev.op = "CalcWhitening" ->
         LET l2 == WhitenResult(chan)
         IN [same EXCEPT !.last = l2,
                         !.mm = IF obj.cls \notin {"WBD", "EBD"} \/ chan.N = 0 THEN <<"not enabled">> ELSE Judge(ev, l2)]
    [] ev.op = "CalcReceiveFilter" ->
         LET l2 == [last EXCEPT !.filt = TRUE]
         IN [same EXCEPT !.last = l2, !.mm = IF last.op \notin BDops THEN <<"not enabled">> ELSE Judge(ev, l2)]
    [] OTHER -> [same EXCEPT !.mm = <<"unknown call", ev.op>>]

TInit == /\ tid \in 1..Len(Traces) /\ pos = 0 /\ mismatch = <<>> /\ Init
TStep == /\ mismatch = <<>> /\ pos < Len(Traces[tid])
         /\ LET r == After(Traces[tid][pos + 1])
            IN /\ obj' = r.obj /\ metric' = r.metric /\ chan' = r.chan /\ last' = r.last
               /\ mismatch' = r.mm
         /\ pos' = pos + 1
         /\ ret' = [op |-> Traces[tid][pos + 1].op, a |-> <<>>, out |-> "ok"]
         /\ UNCHANGED <<tid, alias>>
TNext == TStep
tview == <<obj, metric, chan, last, tid, pos, mismatch>>

Conforms == mismatch = <<>>
\* the machine's own laws also hold along every recorded behaviour
TraceLaws ==
  /\ metric.name \in {"None", "capacity"} => metric.ns = 0 /\ metric.mod = "none" /\ metric.plen = 0
  /\ metric.name \in {"naive", "fixed"} => metric.ns > 0 /\ metric.mod = "none" /\ metric.plen = 0
  /\ metric.name = "effective_throughput" => metric.ns = 0 /\ metric.mod # "none" /\ metric.plen > 0
TEmit == IF mismatch' # <<>> THEN EmitCase([tid |-> tid', pos |-> pos', mismatch |-> mismatch']) ELSE TRUE
=============================================================================
