------------------------- MODULE Trace_WaterFilling -------------------------
(* C12, stage T - validation of recorded calls of the real doWF against the KKT conditions.

   The harness records calls doWF(g, P, N0, Es) with random RATIONAL inputs that are not on
   the alphabet enumerated by WaterFilling.tla, converts the returned floats to exact
   rationals (fractions.Fraction(x).limit_denominator(10^6), round trip checked to 1e-12)
   and writes all calls to one JSON file (IOEnv.TRACE_FILE):
       [ {g: [[n,d],..], p: [n,d], n0: [n,d], es: [n,d], outcome: "ok" | "raised:<T>",
          pw: [[n,d],..], mu: [n,d], exact: BOOLEAN}, ... ]
   One TLC run validates all of them: Init leaves tid = 0, Validate(t) computes the verdict
   of call t; `Conforms` (mismatch = <<>>) is the invariant, mismatching calls are also
   emitted (tid + first failing clause) so that the harness can name every one of them.

   The verdict is computed in INTEGER arithmetic in units of 1/U, U = |S| * lcm of the
   denominators of P, N0/(Es g_i) and N0/g_i, where S is the set of channels with a positive
   recorded power (vectors of any length: the harness also records vectors of 20..100 channels).
   LEMMA: if the recorded result is right, S is the active set and
   mu = (P + SUM_{i in S} N0/(Es g_i)) / |S|, so level and powers are integer multiples of 1/U.
   A recorded value whose denominator does not divide U therefore cannot be right (clause
   "den"), and for all others the KKT conditions are integer equations - no overflow, whatever
   the implementation returned.

   Clauses, in this order:  raised, shape, inexact, den, nonneg, sum, kkt(i).  When only the
   water level fails KKT and  mu - N0/g_best + N0/(Es g_best)  does satisfy it, the clause is
   "MuIgnoresEs" (signature of the known defect).                                             *)
EXTENDS Integers, Sequences, FiniteSets, TLC, Json, IOUtils, Rat, Emit

Traces == JsonDeserialize(IOEnv.TRACE_FILE)

VARIABLES tid, mismatch
vars == <<tid, mismatch>>

Lcm(a, b) == (a \div Gcd(a, b)) * b
RECURSIVE LcmUpTo(_)
LcmUpTo(n) == IF n <= 1 THEN 1 ELSE Lcm(n, LcmUpTo(n - 1))
RECURSIVE LcmDen(_)
LcmDen(s) == IF s = <<>> THEN 1 ELSE Lcm(Head(s)[2], LcmDen(Tail(s)))
RECURSIVE ISum(_)
ISum(s) == IF s = <<>> THEN 0 ELSE Head(s) + ISum(Tail(s))

Q(x) == RNorm(x[1], x[2])                       \* JSON [n, d] -> Rat

Verdict(t) ==
  LET n   == Len(t.g)
      g   == [i \in 1..n |-> Q(t.g[i])]
      P   == Q(t.p)
      N0  == Q(t.n0)
      Es  == Q(t.es)
      B   == [i \in 1..n |-> RDiv(N0, RMul(Es, g[i]))]        \* N0/(Es g_i)
      B1  == [i \in 1..n |-> RDiv(N0, g[i])]                  \* N0/g_i (defect signature only)
      pw0 == [i \in 1..n |-> Q(t.pw[i])]
      nS  == Cardinality({i \in 1..n : pw0[i][1] > 0})                 \* size of the recorded active set
      U   == (IF nS = 0 THEN 1 ELSE nS) * Lcm(P[2], Lcm(LcmDen(B), LcmDen(B1)))
      S(q) == q[1] * (U \div q[2])                            \* q in units of 1/U (q[2] divides U)
      pw  == pw0
      mu  == Q(t.mu)
      best == CHOOSE i \in 1..n : \A j \in 1..n : ~RLt(g[i], g[j])
      Pos(x) == IF x > 0 THEN x ELSE 0
      KktAt(m, i) == S(pw[i]) = Pos(m - S(B[i]))              \* m: water level in units of 1/U
      muFix == S(mu) - S(B1[best]) + S(B[best])
  IN  IF t.outcome # "ok" THEN <<"raised", t.outcome>>
      ELSE IF Len(t.pw) # n THEN <<"shape", Len(t.pw)>>
      ELSE IF ~t.exact THEN <<"inexact">>
      ELSE IF \E i \in 1..n : U % pw[i][2] # 0 THEN <<"den", "pw">>
      ELSE IF U % mu[2] # 0 THEN <<"den", "mu">>
      ELSE IF \E i \in 1..n : pw[i][1] < 0 THEN <<"nonneg", CHOOSE i \in 1..n : pw[i][1] < 0>>
      ELSE IF ISum([i \in 1..n |-> S(pw[i])]) # S(P) THEN <<"sum">>
      ELSE IF \A i \in 1..n : KktAt(S(mu), i) THEN <<>>
      ELSE IF \A i \in 1..n : KktAt(muFix, i) THEN <<"MuIgnoresEs">>
      ELSE <<"kkt", CHOOSE i \in 1..n : ~KktAt(S(mu), i)>>

Init == tid = 0 /\ mismatch = <<>>
Validate(t) == /\ tid = 0
               /\ tid' = t
               /\ mismatch' = Verdict(Traces[t])
Next == \E t \in 1..Len(Traces) : Validate(t)

Conforms == mismatch = <<>>
Emit == IF mismatch' # <<>> THEN EmitCase([tid |-> tid', mismatch |-> mismatch']) ELSE TRUE
=============================================================================
