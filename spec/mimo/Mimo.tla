------------------------------- MODULE Mimo -------------------------------
(* C04 - MIMO schemes recover the data over any full-rank channel within the power budget.

   Models the noise-free link of pyphysim.mimo.mimo for the six schemes
       Blast (zero forcing / MMSE), MRC, MRT, SVDMimo, GMDMimo, Alamouti
   as a small machine with one action per public call:

       idle --SetChannel--> chan --Encode(d)--> enc --Transmit--> rx --(SetNoiseVar(a) | Decode)*--> dec
                             |--Filters--> flt          (receive filters, post-processing SINR)
                             |--EncodeBadLength--> bad  (block length not a multiple of Nt)

   The receiver is a HISTORY on one object: after Transmit every interleaving of
   set_noise_var(None | 0 | 1/q) and decode() up to HistLen steps is explored (all orders; the
   last step is a decode).  The machine carries `cache`, the noise setting the receive filter in
   use was computed for (the current code recomputes the filter in every decode, i.e. the cache is
   always empty); `FilterFresh` demands that every decode uses the filter of the CURRENT setting.
   The histories also contain the two kinds of call that must not matter (general call discipline):
     Query     getNumberOfLayers / Nt / Nr / calc_linear_SINRs / calc_SINRs       -> QueryIsPure
     Rejected  every call the scheme refuses with ValueError (channel of a shape the scheme does not
               accept, negative noise variance, block length not a multiple of Nt) -> RejectedChangesNothing
   Both are frame conditions (action properties): nothing the later decodes depend on may change.
   Blast / MRC interleave them with SetNoiseVar and Decode in all orders; the schemes without receiver
   state run the canonical history  decode, query, decode, rejected, decode.  Every emitted case lists
   the frame laws each step has to obey (`laws`): ArgumentsUnchanged, EarlierResultsUnchanged,
   RejectedChangesNothing, QueryIsPure.

   Everything is exact.  Channels are Gaussian-integer matrices drawn by the in-spec LCG from
   a small alphabet (so the run is reproducible from `Seed`), data blocks are drawn from
   {+-1, +-i, 1+i}.  A signal is a pair  [m, s2]  standing for  sqrt(s2) * m  with m a matrix
   of Gaussian rationals and s2 a rational: the 1/sqrt(Nt) power split of the transmitter and
   the sqrt(Nt) of the receiver are irrational one by one, their product is not.
   Filters are kept fraction free (Gaussian-integer numerator matrix over ONE integer
   denominator:  Inv(A) = adj(A) / det(A) ), which keeps every intermediate value inside
   TLC's 32-bit integers for the alphabets used (bounds in notes/C04.md); the few sums of
   squares that do not fit are done in BigNat.

   What is exact and what is a relation:
     * Alamouti, Blast/MRC (ZF and MMSE), MRT: every intermediate signal, the decoded block,
       the filters and the post-processing SINRs are emitted as exact values.
     * SVDMimo, GMDMimo: singular vectors are irrational, so the specification is the IDEAL
       LINK  (`Decode(H * Encode(x)) = x`, `EnergyPreserved`)  and the emitted case carries
       the required relations by name (`req`); the harness evaluates them numerically (rel).
   Channels for which the decompositions are ill conditioned are excluded HERE
   (`GoodMimo`): rank deficient, (Hermitian-)symmetric square matrices, repeated singular
   values, and - for Nt = 3 - a singular value equal to the geometric mean of all three
   (a tie inside the geometric mean decomposition).

   Large channels (Nt >= 4; SVDMimo / GMDMimo only, relation-only): monomial matrices
   P diag(profile) with a seeded singular-value profile, the same times a unit upper-triangular
   Gaussian-integer mix, and generic alphabet matrices; full column rank is established by an
   elimination modulo the prime 32749 (i -> 15645) on the top Nt x Nt block, tall channels get
   extra alphabet rows.

   Channel gain and degenerate channels.  The channel handed to the implementation is 10^sc * H with
   the exponent sc taken from `Scales` (a sweep 1e-7 .. 1e7 over the channel index); all exact values
   of the machine are those of the unit-gain channel H.  The property is gain equivariant: encode does
   not depend on the gain, the received signal scales with 10^sc, the receive filters with 10^-sc, and
   with the noise variance given as 10^(2 sc)/q the decoded block and the SINRs do not depend on sc
   (`ScaleLaw`, checked exactly for the gain 2).  Every IsoEvery-th channel of Blast / SVD / GMD is a
   scaled ISOMETRY c * P * diag(phases) (identity, antenna swap, exactly unitary; tall: stacked on zero
   rows): full rank, condition number 1, all singular values exactly equal - the degenerate-but-valid
   corner of the domain (they bypass the genericity filter `GoodMimo`).

   Audit round: SVDMimo / GMDMimo inherit set_noise_var, so their canonical history is
   decode, set_noise_var(1/q), decode, set_noise_var(None), decode, query, decode, rejected, decode
   (SVD ignores the setting: still x; GMD: the MMSE estimate on the equivalent channel H P sqrt(Nt), a
   relation `relmmse` evaluated numerically).  Blast with Nt >= 4 runs on the large-channel family with
   exact encoder / channel output and relation-only receiver.  Blocks have 1, 2, 3 or 5 channel uses.
   Every 4th MRT / MRC / Alamouti channel is real valued.  High noise (sigma^2 = 4, 16) is part of the
   exact filter record (`HighNoiseDefining`).

   Ill-conditioned but valid channels: every CgEvery-th Blast / SVD / GMD channel (Nt >= 2) is handed over
   as H D with the column gains D = diag(10^-e_j), e = 0,2,4,1,3,... (condition number up to 10^4 cond(H)).
   The law is exact: ZF(H D) = D^-1 ZF(H) (`ColumnScaleLaw`, checked for D = diag(1,2,3)), the transmitted
   signal does not change, the channel output is H D tx and the zero-forcing decode still returns x.
   The MMSE side of those channels is relation-only.

   Near-isometries: every other isometry channel (k % (2 IsoEvery) = 0, c = 1, unit gain) gets the column gains
   1 + n_j 2^-18 (n_j in -3..3, i.e. deviations of 4e-6 .. 1.1e-5 from unity, exactly representable): columns
   orthogonal, gains almost but not exactly one.  They go through the same exact column-gain machinery
   (gains are rationals cg[j]/cgl): the zero-forcing filter is D^-1 H^H, NOT H^H.

   Named deviations (fields of Dev) switch single steps to what the code does / did:
     SvdNeedsSquare           SVDMimo.decode raises for Nr > Nt (full SVD, diag(1/S) U^H shape)
     SinrCoherentInterference calc_post_processing_linear_SINRs adds the interfering streams
                              coherently ( |sum e_kj|^2 instead of sum |e_kj|^2 )
     NvNoneKeepsFilter        (plausible regression) a cached receive filter survives
                              set_noise_var(None)
     ZfShortcutNearUnitary    (plausible regression) the pseudo-inverse is replaced by H^H when H^H H is close to I
     GmdAbsoluteTol           (plausible regression) GMD drops singular values below an ABSOLUTE threshold:
                              a well conditioned channel of small gain loses streams
     GmdTieBreaks             (plausible regression) GMD cannot handle exactly equal singular values
     QuerySetsNoiseVar        (plausible regression) a SINR query configures the receiver with its argument
     RejectedKeepsEffect      (plausible regression) a refused channel update stays installed
   With all flags FALSE every invariant below holds.                                        *)
EXTENDS Integers, Sequences, FiniteSets, TLC, Emit, CMat, BigNat

CONSTANTS Schemes,   \* subset of {"blast","mrc","mrt","svd","gmd","alamouti"}
          Shapes,    \* set of <<Nr, Nt>>
          KLo, KHi,  \* channel indexes handled by this run (partition of the case space)
          Seed,      \* seeds the LCG
          Alpha,     \* channel alphabet: sequence of <<re, im>>
          Pyth,      \* Pythagorean alphabet for MRT (|h| integral): sequence of <<re, im>>
          Syms,      \* data alphabet: sequence of <<re, im>>
          NData,     \* data blocks per channel
          Qs,        \* Qs[nt] = sequence of inverse noise variances q (sigma^2 = 1/q), increasing
          DecQs,     \* DecQs[nt] = sequence of q > 0 offered to set_noise_var for blast/mrc
          HistEvery, \* channels with k % HistEvery = 0 get receiver histories of length HistDeep (others 2)
          HistDeep,
          Scales,    \* sequence of gain exponents: channel k is handed over as 10^Scales[k % Len + 1] * H
          IsoEvery,  \* every IsoEvery-th channel of blast / svd / gmd is a scaled isometry
          CgEvery,   \* channels with k % CgEvery = 3 get column gains (ill conditioned)
          HiNoise,   \* sequence of integer noise variances > 1 (high-noise regime of the MMSE filter)
          QueryQ,    \* the SINR queries inside the histories ask for sigma^2 = 1/QueryQ
          Vanish,    \* sequence of exponents e: noise variances 10^-e along which MMSE -> ZF is followed (rel)
          Dev        \* [name |-> BOOLEAN]

VARIABLES stage, cs, x, tx, rx, q, out, flt, hist, decs, cache, chanOK, dn
vars == <<stage, cs, x, tx, rx, q, out, flt, hist, decs, cache, chanOK, dn>>
None == <<>>

(* TLC builds [i \in S |-> e] lazily and re-evaluates e at every application; matrices that are
   read many times (determinants, products) are forced once.                                 *)
Eager(M) == TLCEval([i \in 1..Len(M) |-> TLCEval([j \in 1..Len(M[i]) |-> TLCEval(M[i][j])])])
EagerSeq(v) == TLCEval([n \in 1..Len(v) |-> TLCEval(v[n])])

(* ------------------------------ pseudo-random choice ------------------------------------ *)
RECURSIVE LcgSeq(_, _)
LcgSeq(s, n) == IF n = 0 THEN <<>> ELSE LET y == LcgNext(s) IN <<y>> \o LcgSeq(y, n - 1)
\* the LCG is linear, so streams started from neighbouring seeds are correlated; the choice goes
\* through a non-linear mix of the state (all products stay below 2^27)
Mix(y) == ((((y % 1021) + 1) * ((y \div 61) + 3)) + (y \div 7) * 13 + y) % 65521
Pick(alpha, y) == alpha[((Mix(y) \div 3) % Len(alpha)) + 1]
\* idx < 2^31; every term stays below 2^30
Start(idx) == LcgIter((((Seed % 65536) * 7919 + (idx % 65521) * 257 + (idx \div 65521) * 12345) % 65536) + 1, 3)

Fam(sch) == CASE sch \in {"blast", "svd", "gmd"} -> 1
              [] sch = "mrc" -> 2  [] sch = "mrt" -> 3  [] OTHER -> 4

(* ------------------------------ admissible channels ------------------------------------- *)
ShapeOK(sch, nr, nt) == CASE sch = "alamouti" -> nt = 2
                          [] sch = "mrt"      -> nr = 1
                          [] sch = "mrc"      -> nt = 1
                          [] sch = "blast"    -> nr >= nt /\ (nt >= 4 \/ nr <= 3 \/ nt <= 2)   \* Nt <= 3: exact filters inside 32 bits; Nt >= 4: (rel)
                          [] OTHER            -> nr >= nt

Ints(H) == Eager(MFromInts(H))
HasComplex(H) == \E i \in 1..Len(H) : \E j \in 1..Len(H[i]) : H[i][j][2] # 0
Frob2Int(H)   == LET f == MFrob2(Ints(H)) IN f[1]          \* integer entries: denominator 1

\* Gram matrix and the coefficients of its characteristic polynomial  l^n - c2 l^2 + c1 l - c0
Gram(H) == LET Hm == Ints(H) IN Eager(MMul(MHerm(Hm), Hm))
Re(g)   == g[1]
GramOK(Gm) == \A i \in 1..Len(Gm) : \A j \in 1..Len(Gm) : Gm[i][j][3] = 1
C2(Gm) == Re(MTrace(Gm))
C0(Gm) == Re(MDet(Gm))
C1(Gm) == Re(GSumSeq([i \in 1..3 |-> MDet(MMinor(Gm, i, i))]))       \* 3 x 3 only
DistinctSingular(Gm) ==
    CASE Len(Gm) = 1 -> TRUE
      [] Len(Gm) = 2 -> C2(Gm) * C2(Gm) - 4 * C0(Gm) # 0
      [] OTHER -> LET a == TLCEval(C2(Gm))  b == TLCEval(C1(Gm))  c == TLCEval(C0(Gm))
                  IN  a * a * b * b - 4 * b * b * b - 4 * a * a * a * c - 27 * c * c + 18 * a * b * c # 0
\* sigma_2 = geometric mean  <=>  c1/c2 is an eigenvalue whose cube is c0  <=>  c1^3 = c0 * c2^3
NoGeoMeanTie(Gm) == Len(Gm) < 3 \/ LET a == TLCEval(C2(Gm))  b == TLCEval(C1(Gm))  c == TLCEval(C0(Gm)) IN b * b * b # c * a * a * a

GoodMimo(H) == LET Hm == Ints(H)  Gm == Gram(H)
               IN  /\ C0(Gm) # 0                                              \* full column rank
                   /\ (Len(H) = Len(H[1]) /\ Len(H) > 1) => (Hm # MTrans(Hm) /\ Hm # MHerm(Hm))
                   /\ DistinctSingular(Gm)
                   /\ NoGeoMeanTie(Gm)

(* Large channels.  Rank is decided modulo the prime PP: a + b i -> a + RI b with RI^2 = -1 (mod PP) is a
   ring homomorphism, so a non-zero determinant modulo PP proves a non-zero determinant.  The
   elimination is division free (cross multiplication); PP^2 < 2^30.                            *)
PP == 32749
RI == 15645
ModP(h) == (h[1] + RI * h[2]) % PP
RECURSIVE NonSingP(_)
NonSingP(M) ==
    LET n == Len(M)
        rows == {i \in 1..n : M[i][1] # 0}
    IN  IF rows = {} THEN FALSE
        ELSE IF n = 1 THEN TRUE
        ELSE LET pr == CHOOSE i \in rows : \A m \in rows : i <= m
                 Row(i) == IF i = 1 THEN M[pr] ELSE IF i = pr THEN M[1] ELSE M[i]
             IN  NonSingP(Eager([i \in 1..(n - 1) |-> [j \in 1..(n - 1) |->
                     (Row(1)[1] * Row(i + 1)[j + 1] - Row(i + 1)[1] * Row(1)[j + 1]) % PP]]))
TopNonSingular(H) == LET n == Len(H[1]) IN NonSingP(Eager([i \in 1..n |-> [j \in 1..n |-> ModP(H[i][j])]]))

IntsOf(M) == [i \in 1..MRows(M) |-> [j \in 1..MCols(M) |-> <<M[i][j][1], M[i][j][2]>>]]
Units == <<<<1, 0>>, <<-1, 0>>, <<0, 1>>, <<0, -1>>>>
\* rank of key i among the keys (ties by index): a permutation of 1..Len(ys)
RankOf(ys, i) == 1 + Cardinality({m \in 1..Len(ys) : ys[m] < ys[i] \/ (ys[m] = ys[i] /\ m < i)})
BigChannel(nr, nt, k, s) ==
    LET kind == k % 3
        ys   == TLCEval(LcgSeq(s, 3 * nt + nt * nt + nr * nt))
        prof == [j \in 1..nt |-> 1 + (Mix(ys[j]) % 12)]                       \* singular-value profile
        ph   == [j \in 1..nt |-> Pick(Units, ys[nt + j])]
        keys == [j \in 1..nt |-> ys[2 * nt + j]]
        Mono == Eager([i \in 1..nt |-> [j \in 1..nt |->
                    IF RankOf(keys, j) = i THEN <<prof[j] * ph[j][1], prof[j] * ph[j][2]>> ELSE <<0, 0>>]])
        Mixm == Eager([i \in 1..nt |-> [j \in 1..nt |->
                    IF i = j THEN <<1, 0>> ELSE IF i > j THEN <<0, 0>> ELSE Pick(Alpha, ys[3 * nt + (i - 1) * nt + j])]])
        Gen  == [i \in 1..nt |-> [j \in 1..nt |-> Pick(Alpha, ys[3 * nt + (i - 1) * nt + j])]]
        Top  == CASE kind = 0 -> Mono
                  [] kind = 1 -> Gen
                  [] OTHER    -> IntsOf(Eager(MMul(Ints(Mono), Ints(Mixm))))
    IN  Eager([i \in 1..nr |-> [j \in 1..nt |->
            IF i <= nt THEN Top[i][j] ELSE Pick(Alpha, ys[3 * nt + nt * nt + (i - 1) * nt + j])]])
RECURSIVE PickBig(_, _, _, _, _)
PickBig(nr, nt, k, s, tries) ==
    LET H == BigChannel(nr, nt, k, s)
    IN  IF tries = 0 \/ TopNonSingular(H) THEN H ELSE PickBig(nr, nt, k, LcgIter(s, 7), tries - 1)

\* every 4th MRT / MRC / Alamouti channel is real valued (handed over as int64 / float64 arrays by the harness)
RealOnly(sch, k) == sch \in {"mrt", "mrc", "alamouti"} /\ k % 4 = 0
IsReal(H) == ~HasComplex(H)
ValidFor(sch, H) == CASE sch \in {"blast", "svd", "gmd"} /\ Len(H[1]) >= 4 -> TopNonSingular(H)
                      [] sch \in {"blast", "svd", "gmd"} -> GoodMimo(H)
                      \* not null; exact zeros (blocked paths) are allowed
                      [] sch = "mrt"      -> Frob2Int(H) # 0 /\ (IsReal(H) \/ HasComplex(H))
                      [] sch = "mrc"      -> Frob2Int(H) # 0
                      [] OTHER            -> Frob2Int(H) # 0 /\ H[1][1] # H[1][2]

\* re = TRUE: real parts only; re = FALSE: at least one complex entry for the single-stream schemes
RECURSIVE PickChan(_, _, _, _, _, _, _)
PickChan(sch, alpha, nr, nt, s, tries, re) ==
    LET ys == TLCEval(LcgSeq(s, nr * nt))
        E(y) == IF re THEN <<Pick(alpha, y)[1], 0>> ELSE Pick(alpha, y)
        H  == Eager([i \in 1..nr |-> [j \in 1..nt |-> E(ys[(i - 1) * nt + j])]])
        ok == ValidFor(sch, H) /\ (re \/ sch \in {"blast", "svd", "gmd"} \/ HasComplex(H) \/ (sch = "mrc" /\ nr = 1))
    IN  IF tries = 0 \/ ok THEN H
        ELSE PickChan(sch, alpha, nr, nt, ys[nr * nt], tries - 1, re)

\* scaled isometry  c * P * diag(phases), zero rows below for tall shapes: all singular values equal c
IsIso(sch, k) == sch \in {"blast", "svd", "gmd"} /\ k % IsoEvery = 0
IsoChannel(nr, nt, k, s) ==
    LET ys   == TLCEval(LcgSeq(s, 2 * nt + 1))
        c    == IF k % (2 * IsoEvery) = 0 THEN 1 ELSE 1 + (Mix(ys[2 * nt + 1]) % 2)      \* near-isometries: c = 1
        ph   == [j \in 1..nt |-> IF k % (4 * IsoEvery) = IsoEvery THEN <<1, 0>> ELSE Pick(Units, ys[j])]
        keys == [j \in 1..nt |-> IF k % (4 * IsoEvery) = IsoEvery THEN j ELSE ys[nt + j]]       \* c * identity now and then
    IN  Eager([i \in 1..nr |-> [j \in 1..nt |->
            IF i <= nt /\ RankOf(keys, j) = i THEN <<c * ph[j][1], c * ph[j][2]>> ELSE <<0, 0>>]])
ScaleOf(k) == Scales[(k % Len(Scales)) + 1]
\* column gain exponents e_j (the channel is H diag(10^-e_j)); all zero for the ordinary channels
HasColGain(sch, nt, k) == sch \in {"blast", "svd", "gmd"} /\ nt >= 2 /\ k % CgEvery = 3 /\ ~IsIso(sch, k)
NearIso(sch, k) == IsIso(sch, k) /\ k % (2 * IsoEvery) = 0          \* even k: handed over at unit gain (Scales)
NearEps == <<1, -2, 2, -1, 3, -3, 1, 2>>
RECURSIVE TenPow(_)
TenPow(n) == IF n = 0 THEN 1 ELSE 10 * TenPow(n - 1)
\* column gains as rationals cg[j] / cgl  (all equal to 1 for the ordinary channels)
ColGainDen(sch, nt, k) == IF NearIso(sch, k) THEN 262144 ELSE IF HasColGain(sch, nt, k) THEN 10000 ELSE 1
ColGainOf(sch, nt, k) == [j \in 1..nt |-> IF NearIso(sch, k) THEN 262144 + NearEps[j]
                                          ELSE IF HasColGain(sch, nt, k) THEN TenPow(4 - ((2 * (j - 1)) % 5)) ELSE 1]
HasCg(c) == \E j \in 1..c.nt : c.cg[j] # c.cgl
\* 10^4 * H D X  as an integer matrix (X Gaussian integer):  H (X_j 10^(4 - e_j))
RxTimes1e4(c, X) == Eager(MMul(Ints(c.H), Eager([j \in 1..c.nt |-> [t \in 1..MCols(X) |-> GMul(G(c.cg[j], 0), X[j][t])]])))   \* cgl * H D X

ChannelFor(sch, nr, nt, k) ==
    IF IsIso(sch, k) THEN IsoChannel(nr, nt, k, Start((((k * 16 + nr) * 16 + nt) * 5) + 4)) ELSE
    IF sch \in {"blast", "svd", "gmd"} /\ nt >= 4 THEN PickBig(nr, nt, k, Start((((k * 16 + nr) * 16 + nt) * 5) + 3), 20) ELSE
    PickChan(sch, IF sch = "mrt" THEN Pyth ELSE Alpha, nr, nt,
             Start((((k * 5 + nr) * 4 + nt) * 5) + Fam(sch)), 40, RealOnly(sch, k))

\* one-dimensional channel arguments are accepted by MRT (Nr = 1), MRC (Nt = 1), Alamouti (Nr = 1)
FormFor(sch, nr, nt, k) ==
    IF k % 2 = 0 /\ ((sch = "mrt") \/ (sch = "mrc") \/ (sch = "alamouti" /\ nr = 1))
    THEN "1d" ELSE "2d"

(* ------------------------------ data blocks --------------------------------------------- *)
Layers(c) == IF c.sch \in {"blast", "svd", "gmd"} THEN c.nt ELSE 1
\* distinguishing blocks: complex, and such that row- and column-major layouts differ
GoodData(v) == /\ \E i \in 1..Len(v) : v[i][2] # 0
               /\ IF Len(v) >= 4 THEN v[2] # v[3] ELSE IF Len(v) = 1 THEN TRUE ELSE v[1] # v[2]
RECURSIVE PickData(_, _, _)
PickData(n, s, tries) ==
    LET ys == TLCEval(LcgSeq(s, n))
        v  == EagerSeq([i \in 1..n |-> Pick(Syms, ys[i])])
    IN  IF tries = 0 \/ GoodData(v) THEN v ELSE PickData(n, ys[n], tries - 1)
\* channel uses per block: 1 (a single column), 2, 3, 5 - chosen by channel and block index
BlockUses == <<2, 1, 3, 5>>
UsesOf(c, d) == BlockUses[((c.k + d) % Len(BlockUses)) + 1]
BlockLen(c, d) == IF c.sch = "alamouti" THEN 2 * UsesOf(c, d) ELSE UsesOf(c, d) * Layers(c)
DataFor(c, d)  == PickData(BlockLen(c, d), Start(7 + 11 * ((((c.k * 5 + c.nr) * 4 + c.nt) * 5 + Fam(c.sch)) * 4 + d)), 40)

Vec(v)   == [n \in 1..Len(v) |-> G(v[n][1], v[n][2])]
Energy(v) == RSumSeq([n \in 1..Len(v) |-> GAbs2(v[n])])                    \* sum |x_n|^2
\* serial to parallel: the r symbols of one channel use are consecutive
ColMajor(v, r)  == [i \in 1..r |-> [t \in 1..(Len(v) \div r) |-> v[(t - 1) * r + i]]]
UnColMajor(M)   == [n \in 1..(MRows(M) * MCols(M)) |-> M[((n - 1) % MRows(M)) + 1][((n - 1) \div MRows(M)) + 1]]

(* ------------------------------ the schemes --------------------------------------------- *)
Exact(m, s2) == [kind |-> "exact", m |-> m, s2 |-> s2]
Rel          == [kind |-> "rel", m |-> None, s2 |-> ROne]

\* --- MRT: every antenna co-phases the symbol, 1/Nt of the power each
ISqrt(n)    == CHOOSE r \in 0..n : r * r = n
AbsPyth(h)  == ISqrt(h[1] * h[1] + h[2] * h[2])
\* exp(-j arg h) = conj(h) / |h|; a zero coefficient has phase 0: its antenna still radiates 1/Nt of the power
Phase(h)    == IF h[1] = 0 /\ h[2] = 0 THEN GOne ELSE GNorm(h[1], -h[2], AbsPyth(h))
RECURSIVE SumAbsFrom(_, _)
SumAbsFrom(hs, i) == IF i > Len(hs) THEN 0 ELSE AbsPyth(hs[i]) + SumAbsFrom(hs, i + 1)
SumAbs(hs)  == SumAbsFrom(hs, 1)
MrtEncode(hs, v) == Exact([a \in 1..Len(hs) |-> [n \in 1..Len(v) |-> GMul(Phase(hs[a]), v[n])]], <<1, Len(hs)>>)
MrtDecode(hs, r) == [n \in 1..MCols(r) |-> GMul(r[1][n], GNorm(1, 0, SumAbs(hs)))]      \* times sqrt(Nt)

\* --- Alamouti: codeword [[s1, -s2*], [s2, s1*]] / sqrt(2), rows = antennas, columns = time
AlaCode(v) == [a \in 1..2 |-> [n \in 1..Len(v) |->
                 IF a = 1 THEN (IF n % 2 = 1 THEN v[n] ELSE GNeg(GConj(v[n])))
                          ELSE (IF n % 2 = 1 THEN v[n + 1] ELSE GConj(v[n - 1]))]]
AlaEncode(v) == Exact(AlaCode(v), <<1, 2>>)
\* matched combiner: s1^ = h1^H y1 + h2^T y2*,  s2^ = h2^H y1 - h1^T y2*,  gain ||H||_F^2
AlaDecode(Hm, r) ==
    LET nr == MRows(Hm)
        g  == GNorm(1, 0, Re(MFrob2(Hm)))
        S1(n) == GSumSeq([a \in 1..nr |-> GAdd(GMul(GConj(Hm[a][1]), r[a][n]), GMul(Hm[a][2], GConj(r[a][n + 1])))])
        S2(n) == GSumSeq([a \in 1..nr |-> GSub(GMul(GConj(Hm[a][2]), r[a][n]), GMul(Hm[a][1], GConj(r[a][n + 1])))])
    IN  [n \in 1..MCols(r) |-> GMul(g, IF n % 2 = 1 THEN S1(n) ELSE S2(n - 1))]

\* --- Blast / MRC: fraction-free receive filters  F = num / den
ZfOf(Hm)  == LET HH == Eager(MHerm(Hm))  Gm == Eager(MMul(HH, Hm))
             IN  [num |-> Eager(MMul(Eager(MAdj(Gm)), HH)), den |-> Re(MDet(Gm))]                 \* (H^H H)^-1 H^H
MmseOf(Hm, qv) ==                                                                    \* (H^H H + I/q)^-1 H^H
    LET HH == Eager(MHerm(Hm))  Gm == Eager(MMul(HH, Hm))
        A  == Eager(MAdd(MScale(G(qv, 0), Gm), MIdent(MCols(Hm))))                   \* q G + I
    IN  [num |-> Eager(MScale(G(qv, 0), MMul(Eager(MAdj(A)), HH))), den |-> Re(MDet(A)), a |-> A]
FilterOf(Hm, qv) == IF qv = 0 THEN ZfOf(Hm) ELSE MmseOf(Hm, qv)
BlastEncode(nt, v) == Exact(ColMajor(v, nt), <<1, nt>>)
BlastDecode(Hm, r, qv) == LET F == FilterOf(Hm, qv)
                          IN  UnColMajor(Eager(MScale(GNorm(1, 0, F.den), MMul(F.num, r))))    \* times sqrt(Nt)

EncodeOf(c, v) == CASE c.sch \in {"blast", "mrc"} -> BlastEncode(c.nt, v)
                    [] c.sch = "mrt"      -> MrtEncode(c.H[1], v)
                    [] c.sch = "alamouti" -> AlaEncode(v)
                    [] OTHER              -> Rel                                  \* svd, gmd: unitary / sqrt(Nt)

DecodeOf(c, r, v, qv) ==
    CASE c.sch \in {"blast", "mrc"} /\ c.nt <= 3 /\ ~HasCg(c) -> [kind |-> "exact", v |-> BlastDecode(Ints(c.H), r.m, qv)]
      \* column gains: ZF(H D) = D^-1 ZF(H) applied to H D tx (integers times 10^-4); row j is divided by 10^-e_j
      [] c.sch = "blast" /\ c.nt <= 3 /\ qv = 0 ->
             LET Z == ZfOf(Ints(c.H))
                 Y == Eager(MMul(Z.num, RxTimes1e4(c, ColMajor(v, c.nt))))
             IN  [kind |-> "exact", v |-> UnColMajor(Eager([j \in 1..c.nt |-> [t \in 1..MCols(Y) |->
                                             GNorm(Y[j][t][1], Y[j][t][2],
                                                   Z.den * (IF Dev.ZfShortcutNearUnitary /\ NearIso(c.sch, c.k) THEN c.cgl ELSE c.cg[j]))]]))]
      [] c.sch = "mrt"      -> [kind |-> "exact", v |-> MrtDecode(c.H[1], r.m)]
      [] c.sch = "alamouti" -> [kind |-> "exact", v |-> AlaDecode(Ints(c.H), r.m)]
      [] c.sch = "svd" /\ Dev.SvdNeedsSquare /\ c.nr > c.nt -> [kind |-> "raised", v |-> None]
      [] c.sch = "gmd" /\ Dev.GmdAbsoluteTol /\ c.sc <= -6    -> [kind |-> "raised", v |-> None]
      [] c.sch = "gmd" /\ Dev.GmdTieBreaks /\ c.iso /\ c.nt >= 2 -> [kind |-> "raised", v |-> None]
      \* MMSE estimate on the equivalent channel H W sqrt(Nt) (W = I/sqrt(Nt) for Blast, P/sqrt(Nt) for GMD): (rel)
      [] c.sch \in {"blast", "gmd"} /\ qv > 0 -> [kind |-> "relmmse", v |-> v]
      [] OTHER              -> [kind |-> "rel", v |-> v]                          \* ideal link (SVD ignores the noise setting)

\* receiver scale^2 of each scheme (the transmitter's is tx.s2)
RxScale2(c) == CASE c.sch \in {"blast", "mrc", "svd", "gmd", "mrt"} -> <<c.nt, 1>>  [] OTHER -> <<2, 1>>

(* ------------------------------ filters and SINR ---------------------------------------- *)
BAbs2(g)  == BAdd(BSq(g[1]), BSq(g[2]))                                   \* |g|^2, g Gaussian integer
BSumSq(M) == BSumSeq([n \in 1..(MRows(M) * MCols(M)) |-> BAbs2(M[((n - 1) \div MCols(M)) + 1][((n - 1) % MCols(M)) + 1])])
BRowSq(M, k) == BSumSeq([j \in 1..MCols(M) |-> BAbs2(M[k][j])])
BOffSq(M, k) == BSumSeq([j \in 1..MCols(M) |-> IF j = k THEN <<>> ELSE BAbs2(M[k][j])])
BOffCoh(M, k) == BAbs2(GSumSeq([j \in 1..MCols(M) |-> IF j = k THEN GZero ELSE M[k][j]]))

(* Post-processing SINR of stream k for unit-energy independent symbols, precoder I/sqrt(Nt),
   receive filter sqrt(Nt) F with F = N/den, noise variance 1/q.  With E = F H = En/den:
       SINR_k = |E_kk|^2 / ( sum_{j # k} |E_kj|^2 + (1/q) Nt ||F_k||^2 )
              = q |En_kk|^2 / ( q sum_{j # k} |En_kj|^2 + Nt ||N_k||^2 )          (den^2 cancels) *)
SinrB(qv, nt, En, N, k, coherent) ==
    [num |-> BScale(qv, BAbs2(En[k][k])),
     den |-> BAdd(BScale(qv, IF coherent THEN BOffCoh(En, k) ELSE BOffSq(En, k)), BScale(nt, BRowSq(N, k)))]

BlastFilters(c) ==
    LET Hm == Ints(c.H)  HH == Eager(MHerm(Hm))  Gm == Eager(MMul(HH, Hm))
        Z  == ZfOf(Hm)
        Ez == Eager(MMul(Z.num, Hm))
        H2 == Eager(MScale(G(2, 0), Hm))                  \* the channel with gain 2
        Z2g == ZfOf(H2)
        A2 == BSumSq(Eager(MAdj(Gm)))                     \* ||G^-1||_F^2 = A2 / den_z^2
        Z2 == BSumSq(Z.num)                               \* ||ZF||_F^2   = Z2 / den_z^2
        PerQ(qv) ==
            LET F  == MmseOf(Hm, qv)
                Dn == Eager(MSub(MScale(G(Z.den, 0), F.num), MScale(G(F.den, 0), Z.num)))   \* (MMSE - ZF) den_m den_z
                En == Eager(MMul(F.num, Hm))
            IN  [q |-> qv, num |-> IntsOf(F.num), den |-> F.den,
                 defOK |-> MMul(F.a, F.num) = MScale(G(qv * F.den, 0), HH),           \* (G + I/q) MMSE = H^H
                 S |-> BSumSq(Dn), den2 |-> BSq(F.den),
                 \* ||MMSE - ZF||_F <= (1/q) ||G^-1||_F ||ZF||_F :   S q^2 den_z^2 <= A2 Z2 den_m^2
                 bndOK |-> ~BLt(BMul(BMul(A2, Z2), BSq(F.den)), BMul(BMul(BSumSq(Dn), BSq(qv)), BSq(Z.den))),
                 sinrZf  |-> [k \in 1..c.nt |-> SinrB(qv, c.nt, Ez, Z.num, k, FALSE)],
                 sinrMm  |-> [k \in 1..c.nt |-> SinrB(qv, c.nt, En, F.num, k, FALSE)],
                 sinrCoh |-> [k \in 1..c.nt |-> SinrB(qv, c.nt, En, F.num, k, TRUE)],       \* as-is prediction
                 sinrUse |-> [k \in 1..c.nt |-> SinrB(qv, c.nt, En, F.num, k, Dev.SinrCoherentInterference)]]
        qs == Qs[c.nt]
        \* high noise  sigma^2 = sn > 1:  (G + sn I)^-1 H^H = adj(G + sn I) H^H / det(G + sn I)
        PerS(sn) == LET A == Eager(MAdd(Gm, MScale(G(sn, 0), MIdent(c.nt))))
                        N == Eager(MMul(Eager(MAdj(A)), HH))
                        dA == Re(MDet(A))
                    IN  [s |-> sn, num |-> IntsOf(N), den |-> dA, defOK |-> MMul(A, N) = MScale(G(dA, 0), HH)]
    IN  [kind |-> "blast",
         hn |-> [i \in 1..Len(HiNoise) |-> PerS(HiNoise[i])],
         zf |-> [num |-> IntsOf(Z.num), den |-> Z.den],
         zfLeft |-> (Ez = MScale(G(Z.den, 0), MIdent(c.nt))),                         \* ZF H = I
         zfDef  |-> (MMul(Gm, Z.num) = MScale(G(Z.den, 0), HH)),                      \* (H^H H) ZF = H^H
         \* gain law:  ZF(2H) = ZF(H)/2  and  MMSE(2H, 4 s) = MMSE(H, s)/2  (s = 1/4)
         \* column gain law  ZF(H D) = D^-1 ZF(H)  for D = diag(1, 2, 3):   D Zd.num Z.den = Z.num Zd.den
         zfCol |-> LET Dm == Eager([i \in 1..c.nt |-> [j \in 1..c.nt |-> IF i = j THEN G(i, 0) ELSE GZero]])
                       Zd == ZfOf(Eager(MMul(Hm, Dm)))
                   IN  MScale(G(Z.den, 0), MMul(Dm, Zd.num)) = MScale(G(Zd.den, 0), Z.num),
         zfGain |-> (MScale(G(2 * Z.den, 0), Z2g.num) = MScale(G(Z2g.den, 0), Z.num)),
         mmGain |-> LET F1 == MmseOf(Hm, 4)  F2 == MmseOf(H2, 1)
                    IN  MScale(G(2 * F1.den, 0), F2.num) = MScale(G(F2.den, 0), F1.num),
         ginv2 |-> [num |-> A2, den |-> BSq(Z.den)], zf2 |-> [num |-> Z2, den |-> BSq(Z.den)],
         vanish |-> Vanish, req |-> <<"MmseWithinBoundOfZf">>,
         mm |-> [i \in 1..Len(qs) |-> PerQ(qs[i])]]

\* MRT: equivalent channel g h W = 1, noise amplified by g^2 = Nt / (sum |h_k|)^2
MrtFilters(c) == LET sa == SumAbs(c.H[1])  qs == Qs[c.nt]
                 IN  [kind |-> "mrt", gain |-> sa, phases |-> [a \in 1..c.nt |-> Phase(c.H[1][a])],
                      coph |-> GSumSeq([a \in 1..c.nt |-> GMul(G(c.H[1][a][1], c.H[1][a][2]), Phase(c.H[1][a]))]),
                      sinr |-> [i \in 1..Len(qs) |-> [q |-> qs[i], v |-> RNorm(qs[i] * sa * sa, c.nt)]]]
\* Alamouti: gain ||H||^2 / sqrt(2) per symbol, combined noise variance ||H||^2 / q
AlaFilters(c) == LET f == Frob2Int(c.H)  qs == Qs[2]
                 IN  [kind |-> "alamouti", frob2 |-> f,
                      sinr |-> [i \in 1..Len(qs) |-> [q |-> qs[i], v |-> RNorm(qs[i] * f, 2)]]]

(* ------------------------------ the machine --------------------------------------------- *)
NoCache == -9
Init == /\ stage = "idle" /\ cs = None /\ x = None /\ tx = None /\ rx = None /\ q = 0 /\ out = None /\ flt = None
        /\ hist = <<>> /\ decs = <<>> /\ cache = NoCache /\ chanOK = TRUE /\ dn = 0

SetChannel(sch, nr, nt, k) ==
    /\ stage = "idle"
    /\ ShapeOK(sch, nr, nt)
    /\ LET H == ChannelFor(sch, nr, nt, k)
       IN  /\ IsIso(sch, k) \/ ValidFor(sch, H)
           /\ cs' = [sch |-> sch, nr |-> nr, nt |-> nt, k |-> k, H |-> H, form |-> FormFor(sch, nr, nt, k),
                     sc |-> ScaleOf(k), iso |-> IsIso(sch, k), cg |-> ColGainOf(sch, nt, k), cgl |-> ColGainDen(sch, nt, k)]
    /\ stage' = "chan"
    /\ UNCHANGED <<x, tx, rx, q, out, flt, hist, decs, cache, chanOK, dn>>

Encode(d) ==
    /\ stage = "chan"
    /\ LET v == DataFor(cs, d)
       IN  /\ GoodData(v)
           /\ x' = v
           /\ tx' = EncodeOf(cs, Vec(v))
    /\ stage' = "enc" /\ dn' = d
    /\ UNCHANGED <<cs, rx, q, out, flt, hist, decs, cache, chanOK>>

\* noise settings of the receiver: 0 = zero forcing, q > 0 = MMSE with sigma^2 = 1/q
DecQsOf(c) == DecQs[IF c.nt > Len(DecQs) THEN Len(DecQs) ELSE c.nt]
HasNoiseSetting(c) == c.sch \in {"blast", "mrc", "svd", "gmd"}            \* the classes with set_noise_var
DecSeq(c)  == IF c.sch = "blast" /\ c.nt <= 3 /\ HasCg(c) THEN <<0>>            \* exact side of H D: zero forcing only
              ELSE IF c.sch \in {"blast", "mrc"} THEN <<0>> \o DecQsOf(c)
              ELSE IF HasNoiseSetting(c) THEN <<0, DecQsOf(c)[1]>> ELSE <<0>>
\* arguments of set_noise_var: -1 = None, 0 = 0.0, q > 0 = 1/q
NvArgs(c)  == {-1, 0} \cup {DecSeq(c)[i] : i \in 1..Len(DecSeq(c))}
NvAll      == {-1, 0} \cup UNION {{DecQs[n][i] : i \in 1..Len(DecQs[n])} : n \in DOMAIN DecQs}
\* step kinds in a history:  -1 / 0 / q>0 set_noise_var,  -2 decode,  -3 query bundle,  -6 rejected bundle
Canon == <<-2, -3, -2, -6, -2>>                     \* schemes without receiver state: one canonical history
Stateful(c) == c.sch \in {"blast", "mrc"}
\* SVD / GMD: the inherited noise setting is part of the canonical history
CanonOf(c) == IF c.sch \in {"svd", "gmd"} THEN <<-2, DecQsOf(c)[1], -2, -1, -2, -3, -2, -6, -2>> ELSE Canon
HistLenOf(c, d) == IF Stateful(c) THEN (IF c.k % HistEvery = 0 /\ d = 1 /\ c.nt <= 3 THEN HistDeep ELSE 2) ELSE Len(CanonOf(c))
HistLen(c) == HistLenOf(c, dn)
StepOK(a)  == Stateful(cs) \/ a = CanonOf(cs)[Len(hist) + 1]
OutFor(qq) == LET i == CHOOSE i \in 1..Len(decs) : decs[i].q = qq IN decs[i].out

\* the channel output; what a decode must return for every noise setting is fixed here (a pure function
\* of channel, data and setting), the history below only selects
Transmit ==
    /\ stage = "enc"
    /\ LET r  == IF tx.kind # "exact" THEN Rel
                 ELSE IF HasCg(cs)
                      THEN LET Y == RxTimes1e4(cs, tx.m)
                           IN  Exact(Eager([i \in 1..MRows(Y) |-> [t \in 1..MCols(Y) |-> GNorm(Y[i][t][1], Y[i][t][2], cs.cgl)]]), tx.s2)
                      ELSE Exact(Eager(MMul(Ints(cs.H), tx.m)), tx.s2)
           ds == DecSeq(cs)
       IN  /\ rx' = r
           /\ decs' = [i \in 1..Len(ds) |-> [q |-> ds[i], out |-> DecodeOf(cs, r, Vec(x), ds[i])]]
    /\ stage' = "rx" /\ hist' = <<>> /\ q' = 0 /\ cache' = NoCache
    /\ UNCHANGED <<cs, x, tx, out, flt, chanOK, dn>>

\* set_noise_var(None | 0.0 | 1/a) on the object that has decoded before (or not)
SetNoiseVar(a) ==
    /\ stage \in {"rx", "dec"}
    /\ HasNoiseSetting(cs)
    /\ a \in NvArgs(cs)
    /\ Len(hist) < HistLen(cs) - 1                                  \* a history ends with a decode
    /\ StepOK(a)
    /\ q' = IF a <= 0 THEN 0 ELSE a
    /\ cache' = IF a = -1 /\ Dev.NvNoneKeepsFilter THEN cache ELSE NoCache
    /\ hist' = Append(hist, [a |-> a, q |-> q'])
    /\ stage' = "rx"
    /\ UNCHANGED <<cs, x, tx, rx, out, flt, decs, chanOK, dn>>

\* getNumberOfLayers, Nt, Nr, calc_linear_SINRs(1/QueryQ), calc_SINRs(1/QueryQ): answers only
Query ==
    /\ stage \in {"rx", "dec"}
    /\ Len(hist) < HistLen(cs) - 1
    /\ StepOK(-3)
    /\ q' = IF Dev.QuerySetsNoiseVar /\ Stateful(cs) THEN DecQsOf(cs)[1] ELSE q
    /\ cache' = IF Dev.QuerySetsNoiseVar /\ Stateful(cs) THEN NoCache ELSE cache
    /\ hist' = Append(hist, [a |-> -3, q |-> q'])
    /\ stage' = "rx"
    /\ UNCHANGED <<cs, x, tx, rx, out, flt, decs, chanOK, dn>>

\* every call the scheme refuses (ValueError): the object keeps channel, noise setting and filter
Rejected ==
    /\ stage \in {"rx", "dec"}
    /\ Len(hist) < HistLen(cs) - 1
    /\ StepOK(-6)
    /\ chanOK' = IF Dev.RejectedKeepsEffect THEN FALSE ELSE chanOK
    /\ hist' = Append(hist, [a |-> -6, q |-> q])
    /\ stage' = "rx"
    /\ UNCHANGED <<cs, x, tx, rx, q, out, flt, decs, cache, dn>>

\* decode(channel output) with the receive filter in use
Decode ==
    /\ stage \in {"rx", "dec"}
    /\ Len(hist) < HistLen(cs)
    /\ StepOK(-2)
    /\ LET used == IF cache = NoCache THEN q ELSE cache
       IN  /\ out' = IF chanOK THEN OutFor(used) ELSE [kind |-> "raised", v |-> None]
           /\ cache' = used
    /\ hist' = Append(hist, [a |-> -2, q |-> q])
    /\ stage' = "dec"
    /\ UNCHANGED <<cs, x, tx, rx, q, flt, decs, chanOK, dn>>

Filters ==
    /\ stage = "chan"
    /\ cs.sch \in {"blast", "mrc", "mrt", "alamouti", "gmd"}
    /\ flt' = CASE cs.sch = "mrt" -> MrtFilters(cs)
                [] cs.sch = "alamouti" -> AlaFilters(cs)
                \* GMD and Blast with Nt >= 4: the receive filter on the equivalent channel Heq = H W sqrt(Nt),
                \* observed column by column through decode; the relations are evaluated numerically (rel)
                [] cs.sch = "gmd" \/ cs.nt >= 4 \/ HasCg(cs) ->
                       [kind |-> "rel",
                        zfx |-> IF cs.sch = "blast" /\ cs.nt <= 3
                                THEN LET Z == ZfOf(Ints(cs.H)) IN [num |-> IntsOf(Z.num), den |-> Z.den] ELSE None, qs |-> Qs[IF cs.nt > Len(Qs) THEN Len(Qs) ELSE cs.nt], hn |-> HiNoise, vanish |-> Vanish,
                        req |-> <<"ZfLeftInverseOnEquivalentChannel", "MmseDefiningOnEquivalentChannel", "MmseWithinBoundOfZf">>]
                [] OTHER -> BlastFilters(cs)
    /\ stage' = "flt"
    /\ UNCHANGED <<cs, x, tx, rx, q, out, hist, decs, cache, chanOK, dn>>

\* encode() of the multi-layer schemes rejects blocks whose length is not a multiple of Nt
EncodeBadLength ==
    /\ stage = "chan"
    /\ cs.sch \in {"blast", "svd", "gmd"} /\ cs.nt >= 2
    /\ x' = PickData(2 * cs.nt + 1, Start(3 + cs.k), 0)
    /\ out' = [kind |-> "raised", v |-> None]
    /\ stage' = "bad"
    /\ UNCHANGED <<cs, tx, rx, q, flt, hist, decs, cache, chanOK, dn>>

Next == \/ \E sch \in Schemes, sh \in Shapes, k \in KLo..KHi : SetChannel(sch, sh[1], sh[2], k)
        \/ \E d \in 1..NData : Encode(d)
        \/ Transmit
        \/ \E a \in NvAll : SetNoiseVar(a)
        \/ Decode
        \/ Query
        \/ Rejected
        \/ Filters
        \/ EncodeBadLength

(* ------------------------------ the property -------------------------------------------- *)
\* decoding the noise-free channel output of the encoded data returns the data exactly
RoundTrip == (stage = "dec" /\ q = 0) => (out.kind # "raised" /\ out.v = Vec(x))
\* whatever the receiver was configured with before: a decode uses the filter of the current setting
FilterFresh == stage = "dec" => (cache = q /\ (chanOK => out = OutFor(q)))
\* frame conditions of the calls that must not matter (action properties, checked on every transition)
Stepped(a) == Len(hist') = Len(hist) + 1 /\ hist'[Len(hist')].a = a
Frame == q' = q /\ cache' = cache /\ chanOK' = chanOK /\ cs' = cs /\ decs' = decs /\ rx' = rx /\ x' = x
QueryIsPure == [][Stepped(-3) => Frame]_vars
RejectedChangesNothing == [][Stepped(-6) => Frame]_vars
Laws == <<"ArgumentsUnchanged", "EarlierResultsUnchanged", "RejectedChangesNothing", "QueryIsPure">>
\* transmitter and receiver scales cancel
ScalesCancel == (stage = "dec" /\ tx.kind = "exact") => RMul(RxScale2(cs), rx.s2) = ROne
\* average transmitted energy per channel use = mean symbol energy
TxEnergy     == RMul(tx.s2, MFrob2(tx.m))
EnergyPreserved == (stage \in {"enc", "rx", "dec"} /\ tx.kind = "exact") =>
                       RMul(TxEnergy, <<Len(x), 1>>) = RMul(Energy(Vec(x)), <<MCols(tx.m), 1>>)
\* one block of Layers symbols per channel use (Alamouti and MRT: rate one)
ChannelUses == (stage \in {"enc", "rx", "dec"} /\ tx.kind = "exact") =>
                   (MCols(tx.m) * Layers(cs) = Len(x) /\ MRows(tx.m) = cs.nt)
\* Alamouti codewords are orthogonal designs:  C C^H = (|s1|^2 + |s2|^2) I   per codeword
AlamoutiOrthogonal ==
    (stage = "enc" /\ cs.sch = "alamouti") =>
        \A p \in 1..(Len(x) \div 2) :
            LET C == MBlock(tx.m, 1, 2, 2 * p - 1, 2 * p)
                e == GAdd(GFromRat(GAbs2(Vec(x)[2 * p - 1])), GFromRat(GAbs2(Vec(x)[2 * p])))
            IN  MMul(C, MHerm(C)) = MScale(e, MIdent(2))
\* the filters satisfy their defining equations
ZfDefining   == (stage = "flt" /\ flt.kind = "blast") => (flt.zfLeft /\ flt.zfDef)
MmseDefining == (stage = "flt" /\ flt.kind = "blast") => \A i \in 1..Len(flt.mm) : flt.mm[i].defOK
\* ||MMSE(1/q) - ZF||_F^2 = S / (den_m den_z)^2 is positive and strictly decreasing along increasing q
MmseTendsToZf ==
    (stage = "flt" /\ flt.kind = "blast") =>
        /\ \A i \in 1..Len(flt.mm) : ~BIsZero(flt.mm[i].S)
        /\ \A i \in 1..(Len(flt.mm) - 1) :
               BLt(BMul(flt.mm[i + 1].S, flt.mm[i].den2), BMul(flt.mm[i].S, flt.mm[i + 1].den2))
HighNoiseDefining == (stage = "flt" /\ flt.kind = "blast") => \A i \in 1..Len(flt.hn) : flt.hn[i].defOK
ScaleLaw == (stage = "flt" /\ flt.kind = "blast") => (flt.zfGain /\ flt.mmGain)
ColumnScaleLaw == (stage = "flt" /\ flt.kind = "blast") => flt.zfCol
\* the quantitative form of "tends to": ||MMSE(s) - ZF||_F <= s ||(H^H H)^-1||_F ||ZF||_F for every s > 0
\* (from MMSE - ZF = -s (G + s I)^-1 ZF); a theorem of the definitions, checked here on the enumerated s and
\* handed to the harness as the relation it follows down to s = 10^-16 (flt.vanish)
MmseBound ==
    (stage = "flt" /\ flt.kind = "blast") => \A i \in 1..Len(flt.mm) : flt.mm[i].bndOK
\* MRT: the co-phased sum is the sum of the magnitudes (real, positive)
MrtCophased  == (stage = "flt" /\ flt.kind = "mrt") => flt.coph = G(flt.gain, 0)
\* the SINR the code reports is the first-principles one (independent streams)
SinrFirstPrinciples ==
    (stage = "flt" /\ flt.kind = "blast") => \A i \in 1..Len(flt.mm) : flt.mm[i].sinrUse = flt.mm[i].sinrMm
\* zero forcing leaves no interference:  SINR_k = q / (Nt [ (H^H H)^-1 ]_kk)
ZfSinrClosedForm ==
    (stage = "flt" /\ flt.kind = "blast") =>
        LET Gi == MInv(Gram(cs.H))
        IN  \A i \in 1..Len(flt.mm) : \A k \in 1..cs.nt :
                LET s == flt.mm[i].sinrZf[k]
                    r == RDiv(<<flt.mm[i].q, cs.nt>>, GRe(Gi[k][k]))
                IN  BMul(s.num, BOf(r[2])) = BMul(s.den, BOf(r[1]))
BadLengthRaises == stage = "bad" => (out.kind = "raised" /\ Len(x) % cs.nt # 0)

(* ------------------------------ emission ------------------------------------------------ *)
Emit ==
    IF stage' = "dec" /\ Len(hist') = HistLenOf(cs', dn') THEN
        EmitCase([op |-> "link", sch |-> cs'.sch, nr |-> cs'.nr, nt |-> cs'.nt, k |-> cs'.k, form |-> cs'.form, sc |-> cs'.sc, iso |-> cs'.iso, cg |-> cs'.cg, cgl |-> cs'.cgl,
                  H |-> cs'.H, x |-> x', layers |-> Layers(cs'), tx |-> tx', rx |-> rx', steps |-> hist', decs |-> decs', laws |-> Laws, qq |-> QueryQ,
                  energy |-> RDiv(Energy(Vec(x')), <<Len(x'), 1>>),
                  req |-> IF tx'.kind = "rel" THEN <<"DecodeEqualsData", "EnergyPreserved">> ELSE <<>>])
    ELSE IF stage' = "flt" THEN
        EmitCase([op |-> "filters", sch |-> cs'.sch, nr |-> cs'.nr, nt |-> cs'.nt, k |-> cs'.k, form |-> cs'.form, sc |-> cs'.sc, iso |-> cs'.iso, cg |-> cs'.cg, cgl |-> cs'.cgl,
                  H |-> cs'.H, flt |-> flt'])
    ELSE IF stage' = "bad" THEN
        EmitCase([op |-> "badlen", sch |-> cs'.sch, nr |-> cs'.nr, nt |-> cs'.nt, k |-> cs'.k, form |-> cs'.form, sc |-> cs'.sc, iso |-> cs'.iso, cg |-> cs'.cg, cgl |-> cs'.cgl,
                  H |-> cs'.H, x |-> x', out |-> out'])
    ELSE TRUE
=============================================================================
