------------------------------- MODULE BigNat -------------------------------
(* Naturals of arbitrary size for the few places of Mimo.tla where squares of 32-bit
   quantities have to be added and compared exactly (squared Frobenius distances, SINR
   numerators / denominators).  A number is a little-endian sequence of base-10^4 digits
   without a most-significant zero; zero is the empty sequence, so the representation is
   canonical and equality of values is equality of sequences.

   Bounds: digit products are < 10^8; a column of the schoolbook product sums at most
   Len digits products, so operands up to 20 digits (10^80) stay far inside 32 bits.      *)
EXTENDS Integers, Sequences

BBase == 10000

RECURSIVE BOf(_)
BOf(n) == IF n = 0 THEN <<>> ELSE <<n % BBase>> \o BOf(n \div BBase)        \* TLC integer n >= 0

RECURSIVE BTrim(_)
BTrim(s) == IF s = <<>> THEN s
            ELSE IF s[Len(s)] = 0 THEN BTrim(SubSeq(s, 1, Len(s) - 1)) ELSE s

\* carry propagation over a little-endian sequence of non-negative column sums
RECURSIVE BCarry(_, _)
BCarry(s, c) == IF s = <<>> THEN BOf(c)
                ELSE LET t == Head(s) + c IN <<t % BBase>> \o BCarry(Tail(s), t \div BBase)

BDigit(a, i) == IF i >= 1 /\ i <= Len(a) THEN a[i] ELSE 0
BMaxLen(a, b) == IF Len(a) < Len(b) THEN Len(b) ELSE Len(a)

BAdd(a, b) == BTrim(BCarry([i \in 1..BMaxLen(a, b) |-> BDigit(a, i) + BDigit(b, i)], 0))

RECURSIVE BColSum(_, _, _, _)
BColSum(a, b, k, i) == IF i > Len(a) THEN 0
                       ELSE a[i] * BDigit(b, k - i + 1) + BColSum(a, b, k, i + 1)
BMul(a, b) == IF a = <<>> \/ b = <<>> THEN <<>>
              ELSE BTrim(BCarry([k \in 1..(Len(a) + Len(b) - 1) |-> BColSum(a, b, k, 1)], 0))

\* comparison from the most significant digit
RECURSIVE BLtFrom(_, _, _)
BLtFrom(a, b, i) == IF i = 0 THEN FALSE
                    ELSE IF a[i] # b[i] THEN a[i] < b[i] ELSE BLtFrom(a, b, i - 1)
BLt(a, b) == IF Len(a) # Len(b) THEN Len(a) < Len(b) ELSE BLtFrom(a, b, Len(a))
BIsZero(a) == a = <<>>

BAbsInt(n)   == IF n < 0 THEN -n ELSE n
BSq(n)       == BMul(BOf(BAbsInt(n)), BOf(BAbsInt(n)))        \* n any TLC integer
BScale(k, a) == BMul(BOf(k), a)                               \* k >= 0

RECURSIVE BSumSeq(_)
BSumSeq(s) == IF s = <<>> THEN <<>> ELSE BAdd(Head(s), BSumSeq(Tail(s)))
=============================================================================
