------------------------------- MODULE Ofdm -------------------------------
(* C02 - OFDM round trip and exact one-tap equalisation when the cyclic prefix covers the channel.

   Models pyphysim.modulators.ofdm.OFDM / OfdmOneTapEqualizer and the static tapped-delay-line
   part of pyphysim.channels.fading (TdlChannel.corrupt_data, TdlImpulseResponse.get_freq_response).
   One action per step of the code:

     Choose      a configuration <<fft N, prefix cp, used u>>, a data length L and a data pattern
     Pad         OFDM._prepare_input_signal, first half: zero padding to ceil(L/u) symbols
     Map         OFDM._prepare_input_signal, second half: data -> FFT bins through the sub-carrier
                 index map (get_used_subcarrier_indexes: skip DC, centre the band)
     Ifft        np.fft.ifft times sqrt(power scale)          (OFDM.modulate)
     AddCP       OFDM._add_CP + flatten                       (OFDM.modulate returns here)
     Loop        no channel: the receiver is fed with the emitted signal
     Channel     TdlChannel.corrupt_data with a time-invariant tap layout (Gaussian-integer taps at
                 integer delays, memory <= cp); output has `memory` extra samples
     Crop        the user drops those extra samples (OFDM._remove_CP needs a multiple of N + cp)
     RemoveCP    OFDM._remove_CP
     Fft         np.fft.fft divided by sqrt(power scale)      (OFDM.demodulate)
     Unmap       OFDM._prepare_decoded_signal                 (OFDM.demodulate returns here)
     Equalize    OfdmOneTapEqualizer.equalize_data with the impulse response the channel reports
     Construct / SetParameters / UseObj   HISTORY of one live OFDM object: OFDM(c), then calls
                 set_parameters(c) - accepted (valid c) or rejected with ValueError (invalid c: the object
                 must stay exactly as it was) - and USES <<"use", L, k>>: modulate(x) with a fresh data
                 vector of length L followed by the rest of the chain.  Every configuration call is followed
                 by 1..UseMax uses (different lengths: full, partial, same symbol count) before the next
                 one; at most HistMax configuration calls.  From every state that ends with a use a full
                 chain (StartLive) runs with the parameters the object holds and must satisfy every law for
                 the configuration the history DEMANDS (`want`).  Ghost state of the as-is object: `obj`
                 (parameters actually stored), `memo` (which used-counts have had their sub-carrier numbers
                 computed, and in which branch), `prev` (layout and content of the IFFT input of the last
                 modulate call).
     LONG INPUTS.  LongCase (star): one very long input (lengths just above 2^12 .. 2^17, used counts that do not divide the
                 power of two): the number of symbols, the emitted length and the POSITION of every data element in the
                 padded stream (element j at position j: `LongLaw`) - judged on the real code by length + round trip (rel).
     PIPELINING.  After two or more uses in one configuration the frame EMITTED BY AN EARLIER use (kept by the caller) is
                 demodulated again on the live object (`StartRe`, `cfg.re` = position of that use): demodulate is a function
                 of its argument and the current parameters only, whatever was modulated in between (`RoundTrip` on the
                 re-demodulation chain).
     LISTING ORDER.  A raw profile may be listed in any order (`Orders`: sorted, reversed, split = the two coincident taps far
                 apart and the largest delay first): discretisation merges ALL taps that round to one sample.
     REALISATIONS.  A live chain (a use of a history) is sent through the layout of its configuration (the same channel object
                 from use to use) AND through a realisation of its own (keyed by the position of the use), while ONE
                 equaliser object lives through the whole history: the equalised symbols depend only on the arguments of
                 the call (`RepeatableCall`), not on earlier impulse responses.
     CALL FORMS.  A parameter set <<N, cp, -1>> stands for the TWO-argument call OFDM(N, cp) / set_parameters(N, cp):
                 the used count defaults to N (`EffU`), so the call is valid for even N (all carriers, DC used) and
                 must be rejected for odd N.  It occurs in ParamCase stars and in histories.
     CHANNEL ROUTES.  `chan.raw` / `chan.route`: how the channel object is built.  "int": integer delays, Ts = 1 (arrays).
                 Otherwise the profile is given RAW, in quarter samples (`raw`, delays q Ts / 4, never an exact half), as
                 arrays, as a `channel_profile=` object or as an already discretised profile, with Ts # 1; rounding
                 and MERGING of raw taps decide the discretised delays and hence the memory the hypothesis
                 "memory <= cp" speaks about (`DiscLaw`: the discretised delays are exactly the layout's delays).
     PARAMETER REGIMES.  (a) `cfg.pt`: the integer scalar type the parameters are passed as ("int" = Python int,
                 "int8" ... "uint64" = NumPy scalars).  The behaviour must not depend on it (ScaleLaw and every other
                 law are stated on the VALUES); admitted whenever every size the API exposes - N, cp, u, N + cp, the
                 padded length and the emitted length - is representable in the type (`Fits`).  ScaleCase (star)
                 does the same for sizes at the 16/32-bit overflow thresholds of N^2 (256, 65536), too large for
                 chains.  In a history every configuration call carries a type chosen by rotation (`CallPType`).
                 (b) `chan.g`: the channel gain 10^g, g in Gains (the property quantifies over ALL static
                 realisations: the equaliser must be exact for a channel of any overall scale, 1e-7 .. 1e7); the
                 gain is carried symbolically in `sc.g`.
     FRAME LAWS (notes/CALL_DISCIPLINE.md): ArgumentsUnchanged (data after modulate; the received array - values
                 AND scale `rxe` - after demodulate), EarlierResultsUnchanged (the emitted signal after the
                 receiver ran), RejectedChangesNothing (= ObjectCoherent after a rejected call), RepeatableCall
                 (every step is a FUNCTION of its arguments and `want`: holds by construction of the machine).
                 Every emitted step lists the frame laws the replay must enforce on that call (`req`).
     MapCase     (star) the index map alone, for fft sizes up to 64 and every even u
     ParamCase   (star) OFDM.set_parameters: which <<N, cp, u>> are accepted

   TWO LAYERS.  Every signal has an INDEX layer (labels: which data element sits in which bin, which
   body sample <<symbol, t>> sits at which position of the emitted stream, which bin a demodulated
   element was read from) that is defined for every fft size, and a VALUE layer in the cyclotomic
   integers Z[zeta_M], M = max(N, 4) (module Cyc2), defined for N in {2, 4, 8, 16} (`Exact`).
   Values are exact: sample = numerator * sqrt(ps)^e / div  with the numerator in Z[zeta_M], ps the
   power scale N^2/(u+cp) kept as a rational and <<e, div>> carried in the variable `sc` (numpy's
   ifft divides by N, which is `div`).  For other fft sizes (6, 12, 60 ...) the value variables are
   empty; the index-layer laws still hold and the harness evaluates the numerics (rel).

   LINEARITY.  Every step is Z-linear in the data and the channel output is bilinear in (taps, data),
   so the laws for ALL Gaussian-integer data of a given length follow from the laws on the unit
   patterns <<"unit", j, v>> (1 or i at position j); PatMode = "basis" enumerates these completely,
   LayMode = "basis" does the same for the taps (a unit tap 1 or i at every delay 0..cp).

   EXTENSION beyond the statement: Block = TRUE adds block-static channels (the taps seen by OFDM symbol
   s are the layout times i^s).  With memory <= cp every sample the window of symbol s sees was
   filtered by the taps of symbol s, so the equaliser (per-symbol mean response) is still exact.

   EMISSION.  `Emit` is a state predicate (always TRUE) listed as an INVARIANT: one line per distinct
   state carrying what the step that led there produced, the scale bookkeeping and, for the final
   steps, `exp` (what the property demands: the padded data) and `asis` (the fraction the as-is
   equaliser computes in the corner cp = N = memory).

   Deviation flags (record Dev): with all flags FALSE the laws below are invariants.
     FreqResponseTruncates  get_freq_response(N) drops taps at delay >= N (np.fft.fft crops) instead of
                            aliasing them: wrong in the corner cp = N = memory   (observed in the code)
     DcNotSkipped, MapOffByOne, CpFromHead, ScaleNotInverted, SymbolsFloor, MemoryExceedsCp,
     MemoNumbersByUsedOnly (sub-carrier numbers cached per object keyed by the used count only: stale when
     the all-carriers branch and the centred branch meet the same count at different fft sizes),
     RejectedSetHalfUpdates (set_parameters stores fft/cp before it validates the used count),
     ScaleWrapsNarrowInt (fft_size^2 formed in the parameters' own narrow integer type wraps),
     EqSkipsTinyResponse (the equaliser does not divide where |H| is below an ABSOLUTE threshold 1e-6),
     ModulateInBlocks (inputs longer than 65536 symbols are cut into independently zero-padded blocks),
     EqMemoByIdentity (the equaliser re-uses the mean response of an EARLIER impulse response of the same fft size and
     symbol count - what a cache keyed by the identity of a dropped object does when the address is recycled),
     DemodZeroesLastPadding (demodulate blanks the positions the LAST modulate call padded, when the sizes agree),
     MergeNeighboursOnly (discretisation merges coincident taps only when they are neighbours in the listing),
     PadKeepsOldData (the zero-padded IFFT input is kept between modulate calls and re-zeroed only when its
     layout <<symbols, fft, used>> changes), DemodScalesArgument (demodulate removes the scale in place on
     the caller's array)
                            plausible regressions / a dropped hypothesis; each is refuted by TLC, which
                            shows that the laws are not vacuous.                                      *)
EXTENDS Integers, Sequences, FiniteSets, TLC, Emit, Cyc2

CONSTANTS Configs,   \* set of <<N, cp, u>> for which pipeline cases are generated
          MapFfts,   \* set of fft sizes whose index map is checked alone (for every even u <= N)
          ParamFfts, \* set of fft sizes for which parameter validation is checked (cp -1..N+1, u 0..N+2)
                     \* "long" : {4u+1, 5u} (five symbols);  "all" also contains the EMPTY input (0 symbols; no channel)
          Orders,    \* set of listing orders of a raw profile: "sorted" | "reversed" | "split"
          Routes,    \* set of channel construction routes: "int" | "arrays" | "profile" | "discrete"
          LenMode,   \* "isi" | "two" | "three" | "all" : data lengths {u+1} | {u-1, 2u+1} | + 2u | 1..2u+1
                     \* "pair" | "uses" : {2u, u+1} | {u-1, u+1, 2u}  (same symbol count, full and partial)
          PatMode,   \* "dense" | "basis"       : + all unit patterns at the longest length
          NDense,    \* number of pseudo-random dense data patterns per length
          LayMode,   \* "none" | "one" | "three" | "basis" | "all3" : tap layouts per configuration
          Block,     \* BOOLEAN: also block-static channels (taps of OFDM symbol s multiplied by i^s)
          CallTypes, \* sequence of scalar types the configuration calls of a history rotate through
          PTypes,    \* set of parameter scalar types for the chains of fresh objects ({"int"} = Python ints only)
          LongCases, \* set of <<N, cp, u, L>> : star cases for one very long input
          ScaleCases,\* set of <<N, cp, u, pt>> : star cases for sizes too large for chains
          Gains,     \* set of exponents g: every channel is also run with its taps scaled by 10^g
          HistFirst, \* set of valid <<N, cp, u>> a live object is constructed with (partitions the histories)
          HistValid, \* set of valid <<N, cp, u>> a live object is re-configured to
          HistBad,   \* set of invalid <<N, cp, u>> passed to set_parameters (must be rejected, object unchanged)
          HistMax,   \* number of configuration calls in a history (constructor included)
          OwnReal,   \* BOOLEAN: every use of a live object is also sent through a channel realisation of its own
          UseMax,    \* number of consecutive uses (modulate ... chains) after a configuration call
          Seed,      \* seeds the in-spec LCG
          Dev        \* [flag |-> BOOLEAN]

ASSUME CySelfTest(8)

VARIABLES pc, cfg, ns, data, chan, sc, padded, grid, gridi, body, tx, txi, rxfull, rx, win, wini,
          freq, dem, demi, eq,
          psq,                           \* fft_size^2 as the as-is modulator formed it
          hist, want, obj, memo, prev,   \* the live object: calls so far, demanded / stored parameters, caches
          rxe                            \* exponent of sqrt(ps) carried by the CALLER's received array
live == <<hist, want, obj, memo, prev>>
vars == <<pc, cfg, ns, data, chan, sc, padded, grid, gridi, body, tx, txi, rxfull, rx, win, wini,
          freq, dem, demi, eq, psq, hist, want, obj, memo, prev, rxe>>

GZ == <<0, 0>>
Exact(N) == N \in {2, 4, 8, 16}
NoChan == [taps |-> <<>>, block |-> FALSE, g |-> 0, route |-> "int", raw |-> <<>>]
NoObj  == [N |-> 0, cp |-> 0, u |-> 0]
NoUse  == <<0, 0, 0, 0, 0>>                       \* <<N, cp, u, symbols, position>> of a use
NoPrev == [ns |-> 0, N |-> 0, u |-> 0, L |-> 0, pad |-> <<>>, cur |-> NoUse, old |-> NoUse]
NoCfg  == [N |-> 0, cp |-> 0, u |-> 0, L |-> 0, pat |-> <<"none", 0, 0>>, pt |-> "int", re |-> 0]
N0 == cfg.N
CP == cfg.cp
U  == cfg.u
MM == CyRing(cfg.N)
BlkLen == cfg.N + cfg.cp
Min(a, b) == IF a < b THEN a ELSE b

(* ===================================== the intended design ===================================== *)
\* the configurations the property quantifies over (everything else must be rejected)
Valid(N, cp, u) == cp \in 0..N /\ u \in 2..N /\ u % 2 = 0
\* the used count of a call: -1 = argument omitted = all carriers
EffU(N, u) == IF u = -1 THEN N ELSE u
ValidCall(N, cp, u) == u # 0 /\ Valid(N, cp, EffU(N, u))
\* number of OFDM symbols needed for L data elements
NSym(L, u) == (L + u - 1) \div u
\* the power scale applied by the modulator and removed by the demodulator (as a rational <<n, d>>):
\* with it the u used carriers of unit power give emitted samples of mean power u/(u+cp)
\* Emitted in ROOT form <<N, u + cp>> = N^2 / (u + cp), so that sizes up to 2^31 do not overflow TLC's integers.
PowerScale(N, cp, u) == <<N, u + cp>>

\* ---- parameter scalar types ----
AllPTypes == <<"int", "int8", "uint8", "int16", "uint16", "int32", "uint32", "int64", "uint64">>
\* largest value of the type as far as it matters here (TLC integers are 32-bit; every size here is below 2^31)
PMax(pt) == IF pt = "int8" THEN 127 ELSE IF pt = "uint8" THEN 255 ELSE IF pt = "int16" THEN 32767
            ELSE IF pt = "uint16" THEN 65535 ELSE 2147483647
\* every size the API exposes for this case is representable in the type
Fits(pt, c, L) == LET nsx == (L + c[3] - 1) \div c[3]
                  IN  /\ c[1] <= PMax(pt) /\ c[2] <= PMax(pt) /\ c[3] <= PMax(pt)
                      /\ c[1] + c[2] <= PMax(pt) /\ nsx * c[3] <= PMax(pt) /\ nsx * (c[1] + c[2]) <= PMax(pt)
\* two's complement wrap of x into an 8/16-bit type
WrapInto(x, pt) == IF pt = "int8" THEN ((x + 128) % 256) - 128 ELSE IF pt = "uint8" THEN x % 256
                   ELSE IF pt = "int16" THEN ((x + 32768) % 65536) - 32768 ELSE IF pt = "uint16" THEN x % 65536 ELSE x
\* fft_size^2 as the modulator forms it (sizes of chains are far below 46341)
SquareAsIs(N, pt) == IF Dev.ScaleWrapsNarrowInt THEN WrapInto(N * N, pt) ELSE N * N
\* the type a configuration call of a history is made with: rotates with the position of the call
RECURSIVE FitTypes(_, _)
FitTypes(c, i) == IF i > Len(CallTypes) THEN <<>>
                  ELSE (IF Fits(CallTypes[i], c, 1) THEN <<CallTypes[i]>> ELSE <<>>) \o FitTypes(c, i + 1)
CallPType(pos, c0) == LET c == <<c0[1], c0[2], EffU(c0[1], c0[3])>> IN
                     IF c[1] < 1 \/ c[2] < 0 \/ c[3] < 1 THEN "int"
                     ELSE LET ts == FitTypes(c, 1) IN IF ts = <<>> THEN "int" ELSE ts[((pos + c[1] + c[2] + c[3]) % Len(ts)) + 1]

\* Sub-carrier NUMBER (signed frequency) that carries data position j in 1..u: ascending frequency,
\* centred band, DC skipped unless every carrier is used.
ScNumber(N, u, j) == IF u = N THEN j - 1 - (N \div 2)
                     ELSE IF j <= u \div 2 THEN j - 1 - (u \div 2) ELSE j - (u \div 2)
ScNumberAsIs(N, u, j) ==
    IF u = N THEN j - 1 - (N \div 2)
    ELSE IF j <= u \div 2 THEN (IF Dev.MapOffByOne THEN j - 2 - (u \div 2) ELSE j - 1 - (u \div 2))
    ELSE (IF Dev.DcNotSkipped THEN j - 1 - (u \div 2) ELSE j - (u \div 2))
\* FFT bin (0-based) of data position j
UsedIdx(N, u)     == [j \in 1..u |-> ScNumber(N, u, j) % N]
UsedIdxAsIs(N, u) == [j \in 1..u |-> ScNumberAsIs(N, u, j) % N]
\* The map the live object uses: with the numbers cache keyed by the used count alone, an entry made in
\* the other branch (all carriers / centred band) is stale.  memo is a set of <<u, computed with u = N>>.
NumbersBranch(u, all, j) == IF all THEN j - 1 - (u \div 2)
                            ELSE IF j <= u \div 2 THEN j - 1 - (u \div 2) ELSE j - (u \div 2)
UsedIdxLive(N, u) == IF Dev.MemoNumbersByUsedOnly /\ \E e \in memo : e[1] = u
                       THEN LET e == CHOOSE e \in memo : e[1] = u IN [j \in 1..u |-> NumbersBranch(u, e[2], j) % N]
                       ELSE UsedIdxAsIs(N, u)
Signed(N, k) == IF 2 * k < N THEN k ELSE k - N
\* data position (1..u) written to bin k (0-based), 0 if none; on a collision the last write wins
InvIdx(idx, N) == [k1 \in 1..N |-> LET js == {j \in 1..Len(idx) : idx[j] = k1 - 1}
                                   IN  IF js = {} THEN 0 ELSE CHOOSE j \in js : \A j2 \in js : j2 <= j]

\* the laws of the index map, written from the property statement (they determine it uniquely)
MapLaws(N, u, idx) ==
    /\ Len(idx) = u
    /\ \A j \in 1..u : idx[j] \in 0..(N - 1)
    /\ \A j1, j2 \in 1..u : j1 # j2 => idx[j1] # idx[j2]
    /\ \A j1, j2 \in 1..u : j1 < j2 => Signed(N, idx[j1]) < Signed(N, idx[j2])      \* ascending frequency
    /\ u < N => \A j \in 1..u : idx[j] # 0                                           \* DC unused
    /\ u < N => \A j \in 1..u : Min(idx[j], N - idx[j]) <= u \div 2                  \* guard bands unused
    /\ u < N => \A j \in 1..u : \E j2 \in 1..u : idx[j2] = (N - idx[j]) % N         \* centred

(* ========================================= case generation ====================================== *)
Vals    == << <<1, 0>>, <<0, 1>>, <<-1, 0>>, <<0, -1>>, <<1, 1>>, <<2, -1>>, <<0, 0>> >>
TapVals == << <<1, 0>>, <<0, 1>>, <<-1, 0>>, <<1, 1>>, <<2, -1>>, <<1, -2>>, <<0, -1>>, <<-1, 2>> >>
KeyOf(c, L) == ((((c[1] * 17 + c[2]) * 17 + c[3]) * 40) + L) % 9973
Rnd(k, i)   == LcgIter(LcgStart(Seed, k), i)

Lengths(u) == IF LenMode = "all" THEN 0..(2 * u + 1)
              ELSE IF LenMode = "long" THEN {4 * u + 1, 5 * u}
              ELSE IF LenMode = "three" THEN {u - 1, 2 * u, 2 * u + 1}
              ELSE IF LenMode = "isi" THEN {u + 1}
              ELSE IF LenMode = "pair" THEN {2 * u, u + 1}
              ELSE IF LenMode = "uses" THEN {u - 1, u + 1, 2 * u} ELSE {u - 1, 2 * u + 1}
Patterns(u, L) == {<<"dense", s, 0>> : s \in 0..(NDense - 1)}
                  \cup (IF PatMode = "basis" /\ L = 2 * u + 1
                          THEN {<<"unit", j, v>> : j \in 1..L, v \in 1..2} ELSE {})
DataOf(pat, L, k) ==
    IF pat[1] = "unit"
      THEN [j \in 1..L |-> IF j = pat[2] THEN (IF pat[3] = 1 THEN <<1, 0>> ELSE <<0, 1>>) ELSE GZ]
      ELSE LET s0 == LcgStart(Seed, (k + 31 * pat[2]) % 9973)
           IN  [j \in 1..L |-> Vals[(LcgIter(s0, j) % 7) + 1]]

TV(k, i) == TapVals[(Rnd(k, i) % 8) + 1]
\* three layouts per configuration: full memory two-tap; three taps (or a pure delay); first tap late
LayoutA(c, k) == IF c[2] = 0 THEN << <<0, TV(k, 1)>> >> ELSE << <<0, TV(k, 1)>>, <<c[2], TV(k, 2)>> >>
ThreeLayouts(c, k) ==
    LET cp == c[2]
        A == LayoutA(c, k)
        B == IF cp <= 1 THEN << <<cp, TV(k, 3)>> >>
             ELSE << <<0, TV(k, 4)>>, <<1 + (Rnd(k, 5) % (cp - 1)), TV(k, 6)>>, <<cp, TV(k, 7)>> >>
        d1 == IF cp = 0 THEN 0 ELSE 1 + (Rnd(k, 8) % cp)
        C == IF d1 < cp THEN << <<d1, TV(k, 9)>>, <<d1 + 1 + (Rnd(k, 10) % (cp - d1)), TV(k, 11)>> >>
             ELSE << <<d1, TV(k, 12)>> >>
    IN  IF LayMode = "one" THEN {A} ELSE {A, B, C}
BasisLayouts(c) == {<< <<d, v>> >> : d \in 0..c[2], v \in {<<1, 0>>, <<0, 1>>}}
All3Layouts(c, k) ==
    LET D == 0..c[2]
        val(a, q) == TapVals[(Rnd((k + 7 * a) % 9973, q) % 8) + 1]
    IN  {<< <<a, val(a, 1)>> >> : a \in D}
        \cup {<< <<p[1], val(p[1], 2)>>, <<p[2], val(p[2], 3)>> >> : p \in {p \in D \X D : p[1] < p[2]}}
        \cup {<< <<p[1], val(p[1], 4)>>, <<p[2], val(p[2], 5)>>, <<p[3], val(p[3], 6)>> >> :
                 p \in {p \in D \X D \X D : p[1] < p[2] /\ p[2] < p[3]}}
RawLayouts(c, k) == IF LayMode = "none" THEN {}
                    ELSE IF LayMode \in {"one", "three"} THEN ThreeLayouts(c, k)
                    ELSE IF LayMode = "basis" THEN ThreeLayouts(c, k) \cup BasisLayouts(c)
                    ELSE All3Layouts(c, k) \cup ThreeLayouts(c, k)

\* frequency response of a tap layout at the N bins (aliasing) / as the code computes it (cropping)
TapsBelow(taps, N) == SelectSeq(taps, LAMBDA t : t[1] < N)
FreqResp(taps, N)      == CyDftTaps(taps, N, CyRing(N))
FreqRespTrunc(taps, N) == CyDftTaps(TapsBelow(taps, N), N, CyRing(N))
Corner(taps, N) == \E q \in 1..Len(taps) : taps[q][1] >= N
\* the equaliser divides by the response at the used bins: it must not vanish there.  Exact sizes decide
\* this in the ring; otherwise (and as a repair of a vanishing layout) the first tap is made dominant:
\* |5| > 2 * sqrt(5) >= sum of the other (at most two) taps, so no bin can vanish.
Equalizable(taps, N, u) == LET H == FreqResp(taps, N)  idx == UsedIdx(N, u)
                           IN  \A j \in 1..u : H[idx[j] + 1] # CyZero(CyRing(N))
Dominant(taps) == [taps EXCEPT ![1] = <<taps[1][1], <<5, 0>>>>]
FixLayout(taps, N, u) == IF Exact(N) /\ Equalizable(taps, N, u) THEN taps ELSE Dominant(taps)
\* A RAW profile for a layout, in quarter samples: tap i sits at 4 d_i + o_i with o_i in {-1, 0, 1} (never an exact half,
\* where rounding would be a tie), and the last tap is given TWICE (4 d + 1 and 4 d - 1, or 4 d and 4 d + 1 at delay 0):
\* two raw taps that merge into one.  Nearest sample of a quarter delay q that is not an exact half:
Near(q) == (q + 2) \div 4
RawOf(taps, k) ==
    LET n == Len(taps)
        off(i) == IF taps[i][1] = 0 THEN Rnd((k + 3 * i) % 9973, 2) % 2 ELSE (Rnd((k + 3 * i) % 9973, 2) % 3) - 1
        last == taps[n][1]
    IN  [i \in 1..(n + 1) |-> IF i < n THEN 4 * taps[i][1] + off(i)
                               ELSE IF last = 0 THEN i - n ELSE 4 * last + (IF i = n THEN -1 ELSE 1)]
\* listing orders of a raw profile r (sorted by construction, the two coincident taps last)
Reorder(r, ord) == LET n == Len(r)
                   IN  IF ord = "reversed" THEN [i \in 1..n |-> r[n + 1 - i]]
                       ELSE IF ord = "split" THEN [i \in 1..n |-> IF i = 1 THEN r[n] ELSE r[i - 1]]
                       ELSE r
\* the discretised delays as the as-is code forms them: a new tap wherever the nearest sample CHANGES along the listing
MergedAsIs(r) == IF Dev.MergeNeighboursOnly
                   THEN Cardinality({i \in 1..Len(r) : i = 1 \/ Near(r[i]) # Near(r[i - 1])})
                   ELSE Cardinality({Near(r[i]) : i \in 1..Len(r)})
\* discretisation: nearest sample of every raw tap, merged and sorted = the delays of the layout
DiscOk(ch) == ch.route = "int" \/
              ( /\ \A i \in 1..Len(ch.raw) : ch.raw[i] % 4 # 2 /\ ch.raw[i] >= 0
                /\ {Near(ch.raw[i]) : i \in 1..Len(ch.raw)} = {ch.taps[q][1] : q \in 1..Len(ch.taps)}
                /\ Len(ch.raw) > Len(ch.taps)
                /\ MergedAsIs(ch.raw) = Len(ch.taps) )
Channels(c, k) ==
    LET lays == {FixLayout(t, c[1], c[3]) : t \in RawLayouts(c, k)}
        ext  == IF Dev.MemoryExceedsCp THEN {<< <<0, <<1, 0>>>>, <<c[2] + 1, <<0, 1>>>> >>} ELSE {}
    IN  {[taps |-> t, block |-> b, g |-> g, route |-> r[1], raw |-> IF r[1] = "int" THEN <<>> ELSE Reorder(RawOf(t, k), r[2])] :
            t \in lays \cup ext, b \in (IF Block THEN BOOLEAN ELSE {FALSE}), g \in Gains,
            r \in {<<x, "sorted">> : x \in Routes \cap {"int"}} \cup ((Routes \ {"int"}) \X Orders)}

(* ============================================ the machine ======================================= *)
Init == /\ pc = "idle" /\ cfg = NoCfg /\ ns = 0 /\ data = <<>> /\ chan = NoChan
        /\ sc = [e |-> 0, div |-> 1, g |-> 0] /\ psq = 0
        /\ padded = <<>> /\ grid = <<>> /\ gridi = <<>> /\ body = <<>> /\ tx = <<>> /\ txi = <<>>
        /\ rxfull = <<>> /\ rx = <<>> /\ win = <<>> /\ wini = <<>> /\ freq = <<>> /\ dem = <<>>
        /\ demi = <<>> /\ eq = <<>>
        /\ hist = <<>> /\ want = NoObj /\ obj = NoObj /\ memo = {} /\ prev = NoPrev /\ rxe = 0

ChooseRe(c, L, pat, pt, re) ==
    /\ pc = "idle" /\ pc' = "input"
    /\ cfg' = [N |-> c[1], cp |-> c[2], u |-> c[3], L |-> L, pat |-> pat, pt |-> pt, re |-> re]
    /\ data' = DataOf(pat, L, KeyOf(c, L))
    /\ UNCHANGED live /\ UNCHANGED psq /\ UNCHANGED rxe
    /\ UNCHANGED <<ns, chan, sc, padded, grid, gridi, body, tx, txi, rxfull, rx, win, wini, freq, dem, demi, eq>>

Choose(c, L, pat, pt) == ChooseRe(c, L, pat, pt, 0)

MapCase(N, u) ==
    /\ pc = "idle" /\ pc' = "mapcase"
    /\ cfg' = [NoCfg EXCEPT !.N = N, !.u = u]
    /\ UNCHANGED live /\ UNCHANGED psq /\ UNCHANGED rxe
    /\ UNCHANGED <<ns, data, chan, sc, padded, grid, gridi, body, tx, txi, rxfull, rx, win, wini, freq, dem, demi, eq>>

ParamCase(N, cp, u) ==
    /\ pc = "idle" /\ pc' = "param"
    /\ cfg' = [NoCfg EXCEPT !.N = N, !.cp = cp, !.u = u]
    /\ UNCHANGED live /\ UNCHANGED psq /\ UNCHANGED rxe
    /\ UNCHANGED <<ns, data, chan, sc, padded, grid, gridi, body, tx, txi, rxfull, rx, win, wini, freq, dem, demi, eq>>

Pad ==
    /\ pc = "input" /\ pc' = "pad"
    /\ ns' = IF Dev.SymbolsFloor THEN (IF cfg.L < U THEN 1 ELSE cfg.L \div U) ELSE NSym(cfg.L, U)
    /\ padded' = IF hist # <<>> /\ cfg.re = 0 THEN prev.pad   \* live object: the IFFT input as the use left it (UseObj)
                  ELSE [j \in 1..(ns' * U) |-> IF j <= cfg.L THEN data[j] ELSE GZ]
    /\ UNCHANGED live /\ UNCHANGED psq /\ UNCHANGED rxe
    /\ UNCHANGED <<cfg, data, chan, sc, grid, gridi, body, tx, txi, rxfull, rx, win, wini, freq, dem, demi, eq>>

Map ==
    /\ pc = "pad" /\ pc' = "map"
    /\ LET inv == InvIdx(UsedIdxLive(N0, U), N0)
       IN  /\ gridi' = [s \in 1..ns |-> [k1 \in 1..N0 |-> IF inv[k1] = 0 THEN 0 ELSE (s - 1) * U + inv[k1]]]
           /\ grid'  = [s \in 1..ns |-> [k1 \in 1..N0 |-> IF inv[k1] = 0 THEN GZ ELSE padded[(s - 1) * U + inv[k1]]]]
    /\ UNCHANGED live /\ UNCHANGED psq /\ UNCHANGED rxe
    /\ UNCHANGED <<cfg, ns, data, chan, sc, padded, body, tx, txi, rxfull, rx, win, wini, freq, dem, demi, eq>>

Ifft ==
    /\ pc = "map" /\ pc' = "ifft"
    /\ body' = IF Exact(N0) THEN [s \in 1..ns |-> CyIdftNG(grid[s], MM)] ELSE <<>>
    /\ sc' = [e |-> 1, div |-> N0, g |-> 0]
    /\ psq' = SquareAsIs(N0, cfg.pt)
    /\ UNCHANGED live /\ UNCHANGED rxe
    /\ UNCHANGED <<cfg, ns, data, chan, padded, grid, gridi, tx, txi, rxfull, rx, win, wini, freq, dem, demi, eq>>

\* body sample carried at offset o (0-based) of a block of N + cp emitted samples
TLabel(o) == IF o < CP THEN (IF Dev.CpFromHead THEN o ELSE N0 - CP + o) ELSE o - CP
AddCP ==
    /\ pc = "ifft" /\ pc' = "cp"
    /\ txi' = [p1 \in 1..(ns * BlkLen) |-> <<(p1 - 1) \div BlkLen, TLabel((p1 - 1) % BlkLen)>>]
    /\ tx'  = IF Exact(N0) THEN [p1 \in 1..(ns * BlkLen) |-> body[((p1 - 1) \div BlkLen) + 1][TLabel((p1 - 1) % BlkLen) + 1]]
              ELSE <<>>
    /\ UNCHANGED live /\ UNCHANGED psq /\ UNCHANGED rxe
    /\ UNCHANGED <<cfg, ns, data, chan, sc, padded, grid, gridi, body, rxfull, rx, win, wini, freq, dem, demi, eq>>

Loop ==
    /\ pc = "cp" /\ pc' = "rx"
    /\ chan' = NoChan /\ rx' = tx /\ rxe' = sc.e
    /\ UNCHANGED live /\ UNCHANGED psq
    /\ UNCHANGED <<cfg, ns, data, sc, padded, grid, gridi, body, tx, txi, rxfull, win, wini, freq, dem, demi, eq>>

\* multiplication of a Gaussian integer by i^k
GRot(g, k) == LET r == k % 4 IN IF r = 0 THEN g ELSE IF r = 1 THEN <<-g[2], g[1]>>
                                ELSE IF r = 2 THEN <<-g[1], -g[2]>> ELSE <<g[2], -g[1]>>
Memory(taps) == taps[Len(taps)][1]
\* tap q as seen by the input sample at stream position src (0-based): static, or rotated per OFDM symbol
TapAt(ch, q, src) == IF ch.block THEN GRot(ch.taps[q][2], src \div BlkLen) ELSE ch.taps[q][2]
Channel(ch) ==
    /\ pc = "cp" /\ pc' = "chan"
    /\ chan' = ch
    /\ rxfull' = IF Exact(N0)
                   THEN LET n == Len(tx) IN
                        [p1 \in 1..(n + Memory(ch.taps)) |->
                           CySum([q \in 1..Len(ch.taps) |->
                                    LET src == p1 - 1 - ch.taps[q][1]
                                    IN  IF src < 0 \/ src >= n THEN CyZero(MM)
                                        ELSE CyMulG(TapAt(ch, q, src), tx[src + 1])], MM)]
                   ELSE <<>>
    /\ sc' = [sc EXCEPT !.g = ch.g]              \* every tap, hence every received sample, carries the gain 10^g
    /\ UNCHANGED live /\ UNCHANGED psq /\ UNCHANGED rxe
    /\ UNCHANGED <<cfg, ns, data, padded, grid, gridi, body, tx, txi, rx, win, wini, freq, dem, demi, eq>>

Crop ==
    /\ pc = "chan" /\ pc' = "rx"
    /\ rx' = IF Exact(N0) THEN SubSeq(rxfull, 1, Len(tx)) ELSE <<>>
    /\ rxe' = sc.e
    /\ UNCHANGED live /\ UNCHANGED psq
    /\ UNCHANGED <<cfg, ns, data, chan, sc, padded, grid, gridi, body, tx, txi, rxfull, win, wini, freq, dem, demi, eq>>

RemoveCP ==
    /\ pc = "rx" /\ pc' = "nocp"
    /\ wini' = [s \in 1..ns |-> [w1 \in 1..N0 |-> txi[(s - 1) * BlkLen + CP + w1]]]
    /\ win'  = IF Exact(N0) THEN [s \in 1..ns |-> [w1 \in 1..N0 |-> rx[(s - 1) * BlkLen + CP + w1]]] ELSE <<>>
    /\ UNCHANGED live /\ UNCHANGED psq /\ UNCHANGED rxe
    /\ UNCHANGED <<cfg, ns, data, chan, sc, padded, grid, gridi, body, tx, txi, rxfull, rx, freq, dem, demi, eq>>

Fft ==
    /\ pc = "nocp" /\ pc' = "fft"
    /\ freq' = IF Exact(N0) THEN [s \in 1..ns |-> CyDft(win[s], MM)] ELSE <<>>
    /\ sc' = [e |-> IF Dev.ScaleNotInverted THEN sc.e + 1 ELSE sc.e - 1, div |-> sc.div, g |-> sc.g]
    /\ rxe' = IF Dev.DemodScalesArgument THEN rxe - 1 ELSE rxe       \* the caller's array is an input only
    /\ UNCHANGED live /\ UNCHANGED psq
    /\ UNCHANGED <<cfg, ns, data, chan, padded, grid, gridi, body, tx, txi, rxfull, rx, win, wini, dem, demi, eq>>

Unmap ==
    /\ pc = "fft" /\ pc' = "dem"
    /\ LET idx == UsedIdxLive(N0, U)
       IN  /\ demi' = [j \in 1..(ns * U) |-> <<(j - 1) \div U, idx[((j - 1) % U) + 1]>>]
           \* as-is with the remembered padding of the LAST modulate call of the live object
           /\ LET zeros == prev.ns * prev.u - prev.L
                  blank == Dev.DemodZeroesLastPadding /\ hist # <<>> /\ zeros > 0 /\ ns * U = prev.ns * prev.u
              IN  dem' = IF Exact(N0) THEN [j \in 1..(ns * U) |-> IF blank /\ j > ns * U - zeros THEN CyZero(MM)
                                                                   ELSE freq[((j - 1) \div U) + 1][idx[((j - 1) % U) + 1] + 1]]
                         ELSE <<>>
    /\ UNCHANGED live /\ UNCHANGED psq /\ UNCHANGED rxe
    /\ UNCHANGED <<cfg, ns, data, chan, sc, padded, grid, gridi, body, tx, txi, rxfull, rx, win, wini, freq, eq>>

\* the equalised value of element j is the exact fraction num/den (den = div * H_s[bin]); H_s is the
\* response of OFDM symbol s (= H for a static channel, i^s H for the block-static extension)
EqDen(H, j) == LET s == (j - 1) \div U  k == demi[j][2]
               IN  CyScale(sc.div, IF chan.block THEN CyMulZeta(H[k + 1], s * (MM \div 4)) ELSE H[k + 1])
Equalize ==
    /\ pc = "dem" /\ chan # NoChan /\ pc' = "eq"
    /\ LET skip == Dev.EqSkipsTinyResponse /\ chan.g <= -7      \* |10^g H| below the absolute threshold: not divided
       IN  /\ eq' = IF Exact(N0)
                      THEN LET stale == Dev.EqMemoByIdentity /\ hist # <<>> /\ prev.old[1] = N0 /\ prev.old[4] = ns
                               oc == <<prev.old[1], prev.old[2], prev.old[3]>>
                               H == IF stale THEN FreqResp(FixLayout(LayoutA(oc, KeyOf(oc, prev.old[5])), oc[1], oc[3]), N0)
                                    ELSE IF Dev.FreqResponseTruncates THEN FreqRespTrunc(chan.taps, N0) ELSE FreqResp(chan.taps, N0)
                           IN  [j \in 1..Len(dem) |-> [num |-> dem[j], den |-> IF skip THEN CyScale(sc.div, CyOne(MM)) ELSE EqDen(H, j)]]
                      ELSE <<>>
           \* dividing by the reported response 10^g H cancels the gain carried by the demodulated samples
           /\ sc' = [sc EXCEPT !.g = IF skip THEN sc.g ELSE 0]
    /\ UNCHANGED live /\ UNCHANGED psq /\ UNCHANGED rxe
    /\ UNCHANGED <<cfg, ns, data, chan, padded, grid, gridi, body, tx, txi, rxfull, rx, win, wini, freq, dem, demi>>

\* ---- history of one live object (pc stays "idle"; the chains branch off every such state) ----
AsRec(c) == [N |-> c[1], cp |-> c[2], u |-> c[3]]
Eff(c) == <<c[1], c[2], EffU(c[1], c[3])>>
Pipeline == <<cfg, ns, data, chan, sc, padded, grid, gridi, body, tx, txi, rxfull, rx, win, wini, freq, dem, demi, eq, psq>>
\* the object has been used in its current configuration (a chain ran): its numbers are cached
Used(o, m) == IF \E e \in m : e[1] = o.u THEN m ELSE m \cup {<<o.u, o.u = o.N>>}
IsUse(e) == e[1] = "use"
RECURSIVE CfgCalls(_)
CfgCalls(h) == IF h = <<>> THEN 0 ELSE (IF IsUse(h[Len(h)]) THEN 0 ELSE 1) + CfgCalls(SubSeq(h, 1, Len(h) - 1))
RECURSIVE TrailingUses(_)
TrailingUses(h) == IF h = <<>> \/ ~IsUse(h[Len(h)]) THEN 0 ELSE 1 + TrailingUses(SubSeq(h, 1, Len(h) - 1))
LastIsUse == hist # <<>> /\ IsUse(hist[Len(hist)])
Construct(c) ==
    /\ pc = "idle" /\ hist = <<>>
    /\ ValidCall(c[1], c[2], c[3])
    /\ hist' = << <<"cfg", c[1], c[2], c[3]>> >> /\ want' = AsRec(Eff(c)) /\ obj' = AsRec(Eff(c)) /\ memo' = {} /\ prev' = NoPrev
    /\ UNCHANGED pc /\ UNCHANGED Pipeline /\ UNCHANGED rxe
SetParameters(c) ==
    /\ pc = "idle" /\ LastIsUse /\ CfgCalls(hist) < HistMax
    /\ hist' = Append(hist, <<"cfg", c[1], c[2], c[3]>>)
    /\ memo' = Used(obj, memo)
    /\ IF ValidCall(c[1], c[2], c[3])
         THEN want' = AsRec(Eff(c)) /\ obj' = AsRec(Eff(c))
         ELSE /\ want' = want                                     \* raises ValueError: nothing may change
              /\ obj' = IF Dev.RejectedSetHalfUpdates /\ c[2] \in 0..c[1]
                          THEN [obj EXCEPT !.N = c[1], !.cp = c[2]] ELSE obj
    /\ UNCHANGED pc /\ UNCHANGED Pipeline /\ UNCHANGED <<prev, rxe>>
\* modulate(x), x the dense pattern number k = position of the call in the history (so consecutive uses carry
\* different data) of length L.  The IFFT input the as-is object builds: the data, then zeros - or, with the
\* buffer kept between calls of the same layout, whatever the previous call left behind the data.
UseData(L, k) == DataOf(<<"dense", k, 0>>, L, KeyOf(<<obj.N, obj.cp, obj.u>>, L))
UseObj(L) ==
    /\ pc = "idle" /\ hist # <<>> /\ obj = want /\ TrailingUses(hist) < UseMax
    /\ LET k   == Len(hist)
           d   == UseData(L, k)
           nsx == NSym(L, obj.u)
           stale == Dev.PadKeepsOldData /\ prev.ns = nsx /\ prev.N = obj.N /\ prev.u = obj.u
       IN  /\ hist' = Append(hist, <<"use", L, k, 0>>)
           /\ prev' = [ns |-> nsx, N |-> obj.N, u |-> obj.u, L |-> L,
                       pad |-> [j \in 1..(nsx * obj.u) |-> IF j <= L THEN d[j] ELSE IF stale THEN prev.pad[j] ELSE GZ],
                       cur |-> <<obj.N, obj.cp, obj.u, nsx, k>>, old |-> prev.cur]
    /\ UNCHANGED pc /\ UNCHANGED Pipeline /\ UNCHANGED <<want, obj, memo, rxe>>
NewObject   == \E c \in HistFirst : Construct(c)
Reconfigure == \E c \in HistValid \cup HistBad : SetParameters(c)
UseLive     == pc = "idle" /\ hist # <<>> /\ \E L \in Lengths(obj.u) : UseObj(L)
StartLive   == pc = "idle" /\ LastIsUse /\ obj = want
               /\ Choose(<<obj.N, obj.cp, obj.u>>, hist[Len(hist)][2], <<"dense", hist[Len(hist)][3], 0>>, "int")

\* the frame emitted by an EARLIER use of the current run of uses is demodulated again (loopback only)
StartRe     == pc = "idle" /\ LastIsUse /\ obj = want /\ TrailingUses(hist) >= 2
               /\ \E p \in (Len(hist) - TrailingUses(hist) + 1)..(Len(hist) - 1) :
                     ChooseRe(<<obj.N, obj.cp, obj.u>>, hist[p][2], <<"dense", hist[p][3], 0>>, "int", p)
Start    == pc = "idle" /\ hist = <<>> /\ \E c \in Configs : \E L \in Lengths(c[3]) : \E pat \in Patterns(c[3], L) :
                \E pt \in {t \in PTypes : Fits(t, c, L)} : Choose(c, L, pat, pt)
ScaleCase(k) ==
    /\ pc = "idle" /\ pc' = "scalecase"
    /\ cfg' = [NoCfg EXCEPT !.N = k[1], !.cp = k[2], !.u = k[3], !.L = 1, !.pt = k[4]]
    /\ UNCHANGED <<ns, data, chan, sc, padded, grid, gridi, body, tx, txi, rxfull, rx, win, wini, freq, dem, demi, eq>>
    /\ UNCHANGED live /\ UNCHANGED psq /\ UNCHANGED rxe
ScaleStar == pc = "idle" /\ hist = <<>> /\ \E k \in ScaleCases : ScaleCase(k)
MapStar  == pc = "idle" /\ hist = <<>> /\ \E N \in MapFfts : \E h \in 1..(N \div 2) : MapCase(N, 2 * h)
ParamStar == pc = "idle" /\ hist = <<>> /\ \E N \in ParamFfts : \E cp \in -1..(N + 1) : \E u \in -1..(N + 2) : ParamCase(N, cp, u)
\* the layouts of the configuration and, for a use of a live object, a realisation of its own (cfg.pat[2] = position of the use)
Transmit == pc = "cp" /\ ns > 0 /\ cfg.re = 0
            /\ LET c == <<cfg.N, cfg.cp, cfg.u>>
               IN  \E ch \in Channels(c, KeyOf(c, 0)) \cup (IF hist # <<>> /\ OwnReal THEN Channels(c, KeyOf(c, cfg.pat[2])) ELSE {}) : Channel(ch)
\* one very long input: <<N, cp, u, L>>
BlockLimit == 65536
RECURSIVE BlocksBefore(_, _)       \* padded length of the complete blocks in front of data element j (as-is, in blocks)
BlocksBefore(j, u) == IF j <= BlockLimit THEN 0 ELSE NSym(BlockLimit, u) * u + BlocksBefore(j - BlockLimit, u)
PosAsIs(j, u) == IF Dev.ModulateInBlocks THEN BlocksBefore(j, u) + ((j - 1) % BlockLimit) + 1 ELSE j
RECURSIVE NSymBlocks(_, _)
NSymBlocks(L, u) == IF L <= BlockLimit THEN NSym(L, u) ELSE NSym(BlockLimit, u) + NSymBlocks(L - BlockLimit, u)
NSymAsIs(L, u) == IF Dev.ModulateInBlocks THEN NSymBlocks(L, u) ELSE NSym(L, u)
LongCase(k) ==
    /\ pc = "idle" /\ pc' = "longcase"
    /\ cfg' = [NoCfg EXCEPT !.N = k[1], !.cp = k[2], !.u = k[3], !.L = k[4]]
    /\ UNCHANGED <<ns, data, chan, sc, padded, grid, gridi, body, tx, txi, rxfull, rx, win, wini, freq, dem, demi, eq>>
    /\ UNCHANGED live /\ UNCHANGED psq /\ UNCHANGED rxe
LongStar == pc = "idle" /\ hist = <<>> /\ \E k \in LongCases : LongCase(k)
Next == LongStar \/ ScaleStar \/ NewObject \/ Reconfigure \/ UseLive \/ StartLive \/ StartRe \/ Start \/ MapStar \/ ParamStar \/ Pad \/ Map \/ Ifft \/ AddCP \/ Loop \/ Transmit
        \/ Crop \/ RemoveCP \/ Fft \/ Unmap \/ Equalize

(* ============================================= the laws ========================================= *)
\* Every law is evaluated in the state reached by the step it speaks about; all later steps leave the
\* variables it mentions UNCHANGED, so it then holds in every later state of the chain as well.
CG(g) == CyFromG(MM, g)

\* the index map (star cases for all fft sizes, and the map of every pipeline configuration)
IndexMap == /\ pc = "mapcase" => MapLaws(N0, U, UsedIdxAsIs(N0, U))
            /\ pc = "map"     => MapLaws(N0, U, UsedIdxLive(N0, U)) /\ UsedIdxLive(N0, U) = UsedIdx(N0, U)

\* ---- frame laws ----
\* arguments are inputs only: the data after the modulator ran, the received array (values and scale) after
\* the demodulator ran
IntendedData == DataOf(cfg.pat, cfg.L, KeyOf(<<cfg.N, cfg.cp, cfg.u>>, cfg.L))
ArgumentsUnchanged ==
    /\ pc = "cp" => data = IntendedData
    /\ pc \in {"fft", "dem", "eq"} => rxe = 1
    /\ pc = "dem" /\ Exact(N0) => rx = IF chan = NoChan THEN tx ELSE SubSeq(rxfull, 1, Len(tx))
\* results stay results: the emitted signal is still prefix + body of every symbol after the receiver ran
EarlierResultsUnchanged ==
    pc = "dem" /\ Exact(N0) =>
        \A p1 \in 1..Len(tx) : tx[p1] = body[txi[p1][1] + 1][txi[p1][2] + 1]

\* the live object holds exactly the parameters its history demands: the last ACCEPTED call
ObjectCoherent == hist # <<>> => /\ obj = want
                                 /\ Valid(want.N, want.cp, want.u)
                                 /\ pc # "idle" => <<cfg.N, cfg.cp, cfg.u>> = <<want.N, want.cp, want.u>>
RejectedChangesNothing == ObjectCoherent

\* every valid configuration has a well-formed index map and a positive power scale
ParamLaw == pc = "param" /\ ValidCall(N0, CP, U) =>
                LET u == EffU(N0, U) IN /\ MapLaws(N0, u, UsedIdx(N0, u))
                                        /\ PowerScale(N0, CP, u)[2] > 0 /\ NSym(1, u) = 1
\* the channel object the route builds has exactly the layout's delays (memory = last discretised delay <= cp)
DiscLaw == pc = "chan" => DiscOk(chan) /\ (~Dev.MemoryExceedsCp => Memory(chan.taps) <= CP)

\* the power scale does not depend on the integer type the parameters were passed as
ScaleLaw == /\ pc = "ifft" => psq = N0 * N0
            /\ pc = "scalecase" => /\ Valid(N0, CP, U) /\ Fits(cfg.pt, <<N0, CP, U>>, 1)
                                   /\ MapLaws(N0, U, UsedIdx(N0, U))

\* one very long input: ceil(L/u) symbols and every data element at its own position of the padded stream
LongLaw == pc = "longcase" =>
    /\ Valid(N0, CP, U)
    /\ NSymAsIs(cfg.L, U) = NSym(cfg.L, U)
    /\ (NSym(cfg.L, U) - 1) * U < cfg.L /\ cfg.L <= NSym(cfg.L, U) * U
    /\ \A j \in {1, cfg.L} \cup {b * BlockLimit + 1 : b \in 1..(cfg.L \div BlockLimit)} : j <= cfg.L => PosAsIs(j, U) = j

\* zero padding: the data followed only by zeros, up to a whole number of symbols
PadLaw == pc = "pad" =>
            /\ Len(padded) = NSym(cfg.L, U) * U
            /\ \A j \in 1..Len(padded) : padded[j] = IF j <= cfg.L THEN data[j] ELSE GZ

\* (fft + cp) samples per symbol, ceil(L/u) symbols
LenLaw == /\ pc = "pad" => ns = NSym(cfg.L, U)
          /\ pc = "cp"  => /\ Len(txi) = NSym(cfg.L, U) * (N0 + CP)
                           /\ Exact(N0) => Len(tx) = Len(txi)
          /\ pc = "chan" /\ Exact(N0) => Len(rxfull) = Len(tx) + Memory(chan.taps)
          /\ pc = "dem" => Len(demi) = NSym(cfg.L, U) * U

\* each prefix is an exact copy of the tail of its symbol (labels and values)
PrefixIsTail == pc = "cp" =>
    \A s \in 0..(ns - 1) : \A o \in 0..(CP - 1) :
        /\ txi[s * BlkLen + o + 1] = <<s, N0 - CP + o>>
        /\ txi[s * BlkLen + o + 1] = txi[s * BlkLen + N0 + o + 1]
        /\ Exact(N0) => tx[s * BlkLen + o + 1] = tx[s * BlkLen + N0 + o + 1]

\* DC and guard bins are empty in the grid, and (value layer) carry no energy in the emitted symbol
\* body; Parseval: all the energy of the body is the energy of the grid
DcAndGuardsEmpty ==
    /\ pc = "map" /\ U < N0 =>
          \A s \in 1..ns : \A k \in 0..(N0 - 1) :
              (k = 0 \/ Min(k, N0 - k) > U \div 2) => (grid[s][k + 1] = GZ /\ gridi[s][k + 1] = 0)
    /\ pc = "ifft" /\ Exact(N0) =>
          \A s \in 1..ns :
            LET B == CyDft(body[s], MM)
            IN  /\ \A k \in 0..(N0 - 1) : B[k + 1] = CyScale(N0, CG(grid[s][k + 1]))
                /\ CySum([n \in 1..N0 |-> CyMul(body[s][n], CyConj(body[s][n]))], MM)
                     = CyScale(N0, CySum([k \in 1..N0 |-> CyMul(CG(grid[s][k]), CyConj(CG(grid[s][k])))], MM))

\* index level: every sample the FFT window of symbol s sees through a tap of delay d is the body sample
\* (w - d) mod N of the SAME symbol - the linear convolution is a circular one
CircularUnderCP == pc = "chan" =>
    \A s \in 0..(ns - 1) : \A w \in 0..(N0 - 1) : \A q \in 1..Len(chan.taps) :
        LET p == s * BlkLen + CP + w - chan.taps[q][1]
        IN  /\ p >= s * BlkLen
            /\ txi[p + 1] = <<s, (w - chan.taps[q][1]) % N0>>

\* the receiver window is aligned with the body, and Unmap reads the bin Map wrote
WindowAligned == pc = "nocp" =>
    \A s \in 1..ns : \A w1 \in 1..N0 : wini[s][w1] = <<s - 1, w1 - 1>>
UnmapReadsMap == pc = "dem" =>
    \A j \in 1..Len(demi) : gridi[demi[j][1] + 1][demi[j][2] + 1] = j

\* value layer: after the FFT every bin is (response of that symbol) x (grid) x N
FreqIsHTimesX == pc = "fft" /\ Exact(N0) =>
    LET H == IF chan = NoChan THEN [k \in 1..N0 |-> CyOne(MM)] ELSE FreqResp(chan.taps, N0)
    IN  \A s \in 1..ns : \A k \in 1..N0 :
          freq[s][k] = CyMul(IF chan.block THEN CyMulZeta(H[k], (s - 1) * (MM \div 4)) ELSE H[k],
                             CyScale(N0, CG(grid[s][k])))

\* demodulate(modulate(x)) = x followed only by zeros: scale removed, values N * x over div = N
RoundTrip == pc = "dem" /\ chan = NoChan =>
    /\ sc = [e |-> 0, div |-> N0, g |-> 0]
    /\ Exact(N0) => /\ Len(dem) = Len(padded)
                    /\ \A j \in 1..Len(padded) : dem[j] = CyScale(sc.div, CG(padded[j]))

\* equalisation with the reported response recovers the symbols exactly: num = den * x, den # 0
OneTapExact == pc = "eq" =>
    /\ sc.e = 0 /\ sc.g = 0                                     \* for a channel of ANY overall gain
    /\ Exact(N0) => /\ Len(eq) = Len(padded)
                    /\ \A j \in 1..Len(padded) : /\ eq[j].den # CyZero(MM)
                                                /\ eq[j].num = CyMul(eq[j].den, CG(padded[j]))

(* ============================================ emission ========================================== *)
\* What the step that led to the current state produced.  Emission is a state predicate (always TRUE) listed
\* as an INVARIANT: TLC evaluates it once per distinct state, after the state has been fingerprinted, i.e. on
\* concrete values (as an ACTION_CONSTRAINT on primed variables the lazily built sequences were re-evaluated
\* element by element by ToJson: 30 ms per edge instead of 3).
StepOut ==
    CASE pc = "input"   -> [data |-> data]
      [] pc = "mapcase" -> [idx |-> UsedIdx(N0, U)]
      [] pc = "param"   -> [valid |-> ValidCall(N0, CP, U)]
      [] pc = "longcase" -> [ns |-> NSym(cfg.L, U), txlen |-> NSym(cfg.L, U) * (N0 + CP), pad |-> NSym(cfg.L, U) * U - cfg.L]
      [] pc = "scalecase" -> [idx |-> UsedIdx(N0, U), ns |-> 1, padded |-> [j \in 1..U |-> IF j = 1 THEN <<1, 0>> ELSE GZ]]
      [] pc = "pad"     -> [padded |-> padded, ns |-> ns]
      [] pc = "map"     -> [grid |-> grid, gridi |-> gridi, idx |-> UsedIdx(N0, U)]
      [] pc = "ifft"    -> [body |-> body]
      [] pc = "cp"      -> [tx |-> tx, txi |-> txi]
      [] pc = "chan"    -> [rxfull |-> rxfull, mem |-> Memory(chan.taps), corner |-> Corner(chan.taps, N0),
                            H |-> IF Exact(N0) THEN FreqResp(chan.taps, N0) ELSE <<>>,
                            Htrunc |-> IF Exact(N0) /\ Corner(chan.taps, N0) THEN FreqRespTrunc(chan.taps, N0) ELSE <<>>]
      [] pc = "rx"      -> [n |-> Len(txi)]
      [] pc = "nocp"    -> [win |-> win, wini |-> wini]
      [] pc = "fft"     -> [freq |-> freq]
      [] pc = "dem"     -> [dem |-> dem, demi |-> demi, exp |-> IF chan = NoChan THEN padded ELSE <<>>]
      [] pc = "eq"      -> [exp |-> padded, corner |-> Corner(chan.taps, N0),
                            asis |-> IF Exact(N0) /\ Corner(chan.taps, N0)
                                       THEN LET H == FreqRespTrunc(chan.taps, N0)
                                            IN  [j \in 1..Len(dem) |-> [num |-> dem[j], den |-> EqDen(H, j)]]
                                       ELSE <<>>]
      [] pc = "idle"    -> [call |-> hist[Len(hist)],
                            pt |-> IF LastIsUse THEN "int"
                                   ELSE CallPType(Len(hist), <<hist[Len(hist)][2], hist[Len(hist)][3], hist[Len(hist)][4]>>),
                            accepted |-> LastIsUse \/ ValidCall(hist[Len(hist)][2], hist[Len(hist)][3], hist[Len(hist)][4]),
                            want |-> <<want.N, want.cp, want.u>>]
      [] OTHER          -> [none |-> 0]
\* the frame laws the replay must enforce on the public call that ends with this step
StepReq ==
    CASE pc = "cp"   -> {"ArgumentsUnchanged", "RepeatableCall", "EarlierResultsUnchanged"}      \* modulate
      [] pc = "chan" -> {"ArgumentsUnchanged", "EarlierResultsUnchanged"}                        \* corrupt_data
      [] pc = "dem"  -> {"ArgumentsUnchanged", "RepeatableCall", "EarlierResultsUnchanged"}      \* demodulate
      [] pc = "eq"   -> {"ArgumentsUnchanged", "RepeatableCall", "EarlierResultsUnchanged"}      \* equalize_data
      [] pc = "idle" -> IF LastIsUse THEN {} ELSE {"RejectedChangesNothing"}                     \* set_parameters
      [] OTHER       -> {}
Emit == (pc # "idle" \/ hist # <<>>) =>
        EmitEdge([step |-> IF pc = "idle" THEN "call" ELSE pc, hist |-> hist, id |-> <<cfg.N, cfg.cp, cfg.u, cfg.L, cfg.pat>>, pt |-> cfg.pt, re |-> cfg.re, ch |-> chan,
                  sc |-> sc, ps |-> PowerScale(cfg.N, cfg.cp, cfg.u), exact |-> Exact(cfg.N),
                  req |-> StepReq, out |-> StepOut])
=============================================================================
