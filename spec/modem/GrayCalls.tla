------------------------------ MODULE GrayCalls ------------------------------
(* C15 - HISTORIES of conversion calls in one process.

   binary2gray / gray2binary are functions of their argument: what a call returns may not depend on
   which calls were made before it in the same interpreter (tables grown on demand, memoised
   results, warmed module state ...).  Gray.tla says WHAT every call returns; this machine
   enumerates the ORDER in which calls of different sizes arrive, starting from a fresh process.

   State
     warm      history abstraction: the number of bits of the largest ARRAY argument converted so
               far in this process (0 = nothing yet; a fresh interpreter).  Kept in the intended
               instance as well, so that a transition cover reaches every call both before and
               after larger / smaller arrays were converted (ascending and descending orders).
     ret       [op, ok]
     lab       label of the last call (not part of the state identity: VIEW)
   Action  Conv(fn, form, k, top)
     fn   in {"g2b", "b2g"},  form in {"array", "scalar"},  k in Ks,
     top  says where the LARGEST value of the argument lies relative to the power of two 2^k:
          "below" 2^k - 1,  "pow2" exactly 2^k,  "above" 2^k + 1
     (the harness builds the argument from values for which Gray.tla emitted the exact result: all
     integers below min(2^k, 4096), and 2^j - 1, 2^j, 2^j + 1 for every j <= k, shuffled; a scalar
     call passes the largest value alone)
   Property  ArgumentOnly: every call returns the value Gray.tla prescribes for its argument (ret.ok).
             ArgumentsUnchanged, EarlierResultsUnchanged: frame laws of every call (Dev.ConvInPlace,
             Dev.ResultBufferReused), observed by the replay around every call.
   Deviation Dev.MemoTableOneShort: a lookup table grown on demand is sized for the largest VALUE
     instead of the number of values: an array whose maximum is exactly 2^k is converted wrongly
     unless an earlier call has already grown the table beyond 2^k.  TLC finds the first call of a
     fresh process; after a larger array the same call is right.
   Emission: every transition as an edge pre/post = [warm], label [fn, form, k, top].              *)
EXTENDS Integers, TLC, Emit

CONSTANTS Ks,       \* set of exponents k
          Fns, Forms, Tops,
          Dev

VARIABLES warm, ret, lab,
          frame    \* frame observations of the last call (call discipline): [args, held] - the argument is as it was
                   \* passed; the arrays returned by the earlier calls of the history still hold what they held
vars == <<warm, ret, lab, frame>>
View == <<warm, ret, frame>>
FrameOk == [args |-> TRUE, held |-> TRUE]

Bits(k, top) == IF top = "below" THEN k ELSE k + 1        \* bits needed by the largest value
MaxI(a, b) == IF a > b THEN a ELSE b

Init == warm = 0 /\ frame = FrameOk /\ ret = [op |-> "none", ok |-> TRUE] /\ lab = [fn |-> "none", form |-> "none", k |-> 0, top |-> "none"]

Conv(fn, form, k, top) ==
  LET tableBits == warm                                  \* as-is: the table holds 2^warm entries
      wrong == /\ Dev.MemoTableOneShort /\ fn = "g2b" /\ form = "array" /\ top = "pow2" /\ k <= 15
               /\ tableBits <= k                         \* sized for the codes 0 .. 2^k - 1 only
  IN /\ ret' = [op |-> "conv", ok |-> ~wrong]
     /\ lab' = [fn |-> fn, form |-> form, k |-> k, top |-> top]
     /\ frame' = [args |-> ~(Dev.ConvInPlace /\ form = "array"),
                  held |-> ~(Dev.ResultBufferReused /\ form = "array" /\ ret.op = "conv")]
     /\ warm' = IF form = "array" THEN MaxI(warm, IF wrong THEN k ELSE Bits(k, top)) ELSE warm

Next == \E fn \in Fns : \E form \in Forms : \E k \in Ks : \E top \in Tops : Conv(fn, form, k, top)

ArgumentOnly == ret.ok
\* frame laws (notes/CALL_DISCIPLINE.md)
ArgumentsUnchanged == frame.args
EarlierResultsUnchanged == frame.held
TypeOK == warm \in 0..64 /\ ret.op \in {"none", "conv"}

Emit == EmitEdge([pre |-> [warm |-> warm], post |-> [warm |-> warm'],
                  fn |-> lab'.fn, form |-> lab'.form, k |-> lab'.k, top |-> lab'.top])
=============================================================================
