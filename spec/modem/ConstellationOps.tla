-------------------------- MODULE ConstellationOps --------------------------
(* Exact geometry of the constellations of pyphysim.modulators.fundamental and the predicates of
   properties C01 / C15 / C16, as pure operators (no constants, no variables) so that both the
   machine (Constellation.tla) and the trace validator (Trace_Constellation.tla) use the same
   definitions.

   A geometry is a record g = [kind, m, lx, ly, k]:
     kind = "QAM"   m = lx*ly points on the odd-integer lattice, x in {-(lx-1), -(lx-3) .. lx-1},
                    y likewise (lx = ly = sqrt m).  One "lattice unit" is half the point spacing.
     kind = "BPSK"  the 1-dimensional case lx = 2, ly = 1: points (-1,0), (+1,0).
     kind = "PSK"   m points on a circle, ring index 0..m-1 = angle/(2 pi/m) after the phase offset
                    has been undone.
   Points are addressed by a POSITION p in 1..m (row-major for the lattice, ring index + 1 for PSK).
   A TABLE t is the sequence label -> raw coordinate (t[i+1] belongs to label i): <<x, y>> for the
   lattice kinds, the ring index for PSK.  Tables come either from the reference construction in
   Constellation.tla or are RECORDED from the implementation (coordinates obtained by undoing
   scale and phase offset and rounding after an integrality check at 1e-9).

   Lemmas used (stated here, checked by TLC where they are arithmetic):
   * lattice: the pairs at minimum Euclidean distance are exactly the horizontal / vertical
     lattice neighbours (distance 2 units) - `NeighbourLemma` (brute force, small m).
   * PSK: all points and the sample's projection lie on circles around 0;
     |r e^{ia} - e^{ib}|^2 = r^2 + 1 - 2 r cos(a-b) is strictly increasing in the circular distance
     |a-b| in [0, pi] for every r > 0.  Hence (1) ring neighbours are the minimum-distance pairs and
     (2) the Euclidean-nearest point of a sample with angle index u on the lattice of m*d angle
     steps is the point with the smallest circular index distance, whatever the radius.
     (Not expressible in integer arithmetic; it is the only non-arithmetic step.)              *)
EXTENDS Integers, Sequences, FiniteSets, FiniteSetsExt, TLC, Rat

IsPow2(n) == n >= 1 /\ \E j \in 0..30 : 2 ^ j = n
Log2(n)   == CHOOSE j \in 0..30 : 2 ^ j = n
ISqrt(n)  == CHOOSE l \in 1..128 : l * l = n

\* cardinalities the classes must accept; everything else must be rejected by an exception.
\* PSK: every power of two; the degenerate one-point constellation 2^0 is tolerated (it satisfies every
\* predicate below).  QAM: even powers of two from 4 (a single point at the origin cannot have unit energy).
Supported(kind, m) ==
  CASE kind = "PSK"  -> m >= 1 /\ IsPow2(m)
    [] kind = "QAM"  -> m >= 4 /\ IsPow2(m) /\ Log2(m) % 2 = 0
    [] kind = "BPSK" -> m = 2

\* cx, cy: coordinates of every position, tabulated once (the geometry is a constant or a state
\* variable of the users of this module, so the look-up costs nothing per evaluation)
Geo(kind, m) ==
  LET lx == IF kind = "QAM" THEN ISqrt(m) ELSE IF kind = "BPSK" THEN 2 ELSE 1
      ly == IF kind = "QAM" THEN ISqrt(m) ELSE 1
  IN [kind |-> kind, m |-> m, k |-> Log2(m), lx |-> lx, ly |-> ly,
      cx |-> [p \in 1..m |-> 2 * ((p - 1) % lx) - (lx - 1)],
      cy |-> [p \in 1..m |-> 2 * ((p - 1) \div lx) - (ly - 1)]]
IsLattice(g) == g.kind # "PSK"
Pos(g) == 1..g.m

(* ------------------------------------ positions ------------------------------------------- *)
Col(g, p) == (p - 1) % g.lx
Row(g, p) == (p - 1) \div g.lx
PX(g, p)  == g.cx[p]
PY(g, p)  == g.cy[p]
Coord(g, p) == IF IsLattice(g) THEN <<PX(g, p), PY(g, p)>> ELSE p - 1

IsPoint(g, c) ==
  IF IsLattice(g)
  THEN /\ c \in Int \X Int
       /\ c[1] \in (-(g.lx - 1))..(g.lx - 1) /\ (c[1] + g.lx - 1) % 2 = 0
       /\ c[2] \in (-(g.ly - 1))..(g.ly - 1) /\ (c[2] + g.ly - 1) % 2 = 0
  ELSE c \in Int
PosOf(g, c) ==
  IF IsLattice(g) THEN ((c[2] + g.ly - 1) \div 2) * g.lx + ((c[1] + g.lx - 1) \div 2) + 1
  ELSE (c % g.m) + 1

\* positions at minimum distance from position p
Nbrs(g, p) ==
  IF IsLattice(g)
  THEN (IF Col(g, p) < g.lx - 1 THEN {p + 1} ELSE {}) \cup (IF Col(g, p) > 0 THEN {p - 1} ELSE {})
       \cup (IF Row(g, p) < g.ly - 1 THEN {p + g.lx} ELSE {}) \cup (IF Row(g, p) > 0 THEN {p - g.lx} ELSE {})
  ELSE {(p % g.m) + 1, ((p - 2) % g.m) + 1} \ {p}

Dist2(g, p, q) == (PX(g, p) - PX(g, q)) * (PX(g, p) - PX(g, q)) + (PY(g, p) - PY(g, q)) * (PY(g, p) - PY(g, q))
NeighbourLemma(g) ==      \* lattice kinds, brute force
  \A p \in Pos(g) : \A q \in Pos(g) \ {p} :
     /\ Dist2(g, p, q) >= 4
     /\ (Dist2(g, p, q) = 4) <=> (q \in Nbrs(g, p))

(* -------------------------------------- tables -------------------------------------------- *)
WellFormed(g, t) == Len(t) = g.m /\ \A i \in 1..g.m : IsPoint(g, t[i])
PosTab(g, t)     == [i \in 1..g.m |-> PosOf(g, t[i])]
\* M distinct points, all of them points of the geometry
Bijective(g, t)  == WellFormed(g, t) /\ Cardinality({PosOf(g, t[i]) : i \in 1..g.m}) = g.m
\* position -> label + 1 (0 where no label sits); linear number of steps through a Java-evaluated fold
InvTab(g, t) == LET pt == PosTab(g, t) IN
                FoldSet(LAMBDA i, f : [f EXCEPT ![pt[i]] = i], [p \in Pos(g) |-> 0], 1..g.m)

BitOf(n, j) == (n \div (2 ^ j)) % 2
HamInt(a, b, k) == Cardinality({j \in 0..(k - 1) : BitOf(a, j) # BitOf(b, j)})

\* C15: any two symbols at minimum distance carry labels that differ in exactly one bit.
\* inv is InvTab(g, t) of a bijective table.
GrayBadPairs(g, inv) == UNION {{<<p, q>> : q \in {x \in Nbrs(g, p) : p < x /\ HamInt(inv[p] - 1, inv[x] - 1, g.k) # 1}} : p \in Pos(g)}
GrayAdjacentInv(g, inv) == \A p \in Pos(g) : \A q \in Nbrs(g, p) : HamInt(inv[p] - 1, inv[q] - 1, g.k) = 1
GrayAdjacent(g, t) == Bijective(g, t) /\ GrayAdjacentInv(g, InvTab(g, t))

(* ------------------------------------- energy --------------------------------------------- *)
\* sum over the labels of |t[i]|^2 in lattice units (lattice kinds)
TabEnergySum(g, t) == FoldSet(LAMBDA i, acc : acc + t[i][1] * t[i][1] + t[i][2] * t[i][2], 0, 1..g.m)
\* C01: unit mean energy of what is emitted.  scale = <<n, d>> is the exact rational (emitted
\* amplitude per lattice unit)^2 for the lattice kinds, radius^2 for PSK (scaleOk: the recorder found
\* such a rational within 1e-9).
UnitEnergy(g, t, scale, scaleOk) ==
  /\ scaleOk
  /\ IF IsLattice(g) THEN RMul(scale, RNorm(TabEnergySum(g, t), g.m)) = ROne
     ELSE scale = ROne
\* the law 2(M-1)/3 for square QAM
QamEnergyLaw(g, t) == g.kind = "QAM" => 3 * TabEnergySum(g, t) = 2 * g.m * (g.m - 1)

(* ------------------------------------ detection ------------------------------------------- *)
\* A sample is <<X, Y>> meaning (X + iY)/d lattice units (lattice kinds) or <<u, r>> meaning angle
\* 2 pi u/(m d) beyond the phase offset and radius number r (PSK; the radius does not matter, see
\* the lemma).  Metric(g, d, s, p) is an integer that orders the positions by Euclidean distance.
Metric(g, d, s, p) ==
  IF IsLattice(g)
  THEN LET dx == s[1] - d * g.cx[p]  dy == s[2] - d * g.cy[p] IN dx * dx + dy * dy
  ELSE LET a == (s[1] - d * (p - 1)) % (g.m * d) IN IF a <= g.m * d - a THEN a ELSE g.m * d - a

\* <<position of a minimiser, minimum, number of minimisers>> in one pass
ArgMin(g, d, s) ==
  FoldSet(LAMBDA p, acc : LET e == Metric(g, d, s, p) IN
                          IF acc[3] = 0 \/ e < acc[2] THEN <<p, e, 1>>
                          ELSE IF e = acc[2] THEN <<acc[1], e, acc[3] + 1>> ELSE acc,
          <<0, 0, 0>>, Pos(g))
\* the unique nearest position, 0 when the sample is equidistant from several (ties are excluded)
Nearest(g, d, s) == LET a == ArgMin(g, d, s) IN IF a[3] = 1 THEN a[1] ELSE 0
\* the definition of maximum-likelihood detection, to cross-check the fold
IsNearest(g, d, s, p) == LET mp == Metric(g, d, s, p) IN \A q \in Pos(g) : q = p \/ mp < Metric(g, d, s, q)
\* mv is the minimum (nothing is closer) and it is attained at two or more positions
IsTieWith(g, d, s, mv) == /\ \A p \in Pos(g) : Metric(g, d, s, p) >= mv
                          /\ Cardinality({p \in Pos(g) : Metric(g, d, s, p) = mv}) >= 2
IsTie(g, d, s) == IsTieWith(g, d, s, ArgMin(g, d, s)[2])
\* the sample that is exactly the point at position p
PointSample(g, d, p) == IF IsLattice(g) THEN <<d * PX(g, p), d * PY(g, p)>> ELSE <<d * (p - 1), 2>>

(* ------------------------- detection at extreme scale ratios (lattice kinds) ----------------------- *)
\* A SCALED sample is <<x0, x1, ex, y0, y1, ey>>:  x = x0 + x1*10^ex,  y = y0 + y1*10^ey  lattice units (integers
\* x0, x1, y0, y1; exponents from a list whose members are pairwise equal or at least 7 apart).  It reaches
\* samples 1e-200 from a decision boundary next to a quadrature component of 1e100 - far outside 32-bit
\* integers - because the comparison of two distances is LINEAR in the sample:
\*     |s-p|^2 - |s-q|^2 = (|p|^2 - |q|^2) - 2 x (px - qx) - 2 y (py - qy)
\* i.e. a sum of at most three terms  coef * 10^exp  with |coef| < 10^6.  Terms of equal exponent are added; the
\* sign of the sum is the sign of the non-zero coefficient of the LARGEST exponent (the others together are below
\* 2 * 10^6 * 10^(e-7) < 10^e): exact, no rounding anywhere.
DiffTerms(g, s, p, q) ==
  LET dx == g.cx[p] - g.cx[q]  dy == g.cy[p] - g.cy[q]
      c0 == g.cx[p] * g.cx[p] + g.cy[p] * g.cy[p] - g.cx[q] * g.cx[q] - g.cy[q] * g.cy[q] - 2 * s[1] * dx - 2 * s[4] * dy
  IN  << <<c0, 0>>, <<-2 * s[2] * dx, s[3]>>, <<-2 * s[5] * dy, s[6]>> >>
CoefAt(ts, e) == FoldSet(LAMBDA i, acc : IF ts[i][2] = e THEN acc + ts[i][1] ELSE acc, 0, DOMAIN ts)
SignTerms(ts) ==
  LET es == {ts[i][2] : i \in DOMAIN ts}
      nz == {e \in es : CoefAt(ts, e) # 0}
  IN  IF nz = {} THEN 0
      ELSE LET top == CHOOSE e \in nz : \A f \in nz : f <= e IN Sgn(CoefAt(ts, top))
\* < 0: p is nearer than q
SignDiff(g, s, p, q) == SignTerms(DiffTerms(g, s, p, q))
\* the regime in which the dominance argument is valid
ScaledRegime(g, s, exps) ==
  /\ s[3] \in exps /\ s[6] \in exps /\ 0 \in exps
  /\ \A e \in exps : \A f \in exps : e = f \/ e - f >= 7 \/ f - e >= 7
  /\ \A v \in {s[1], s[2], s[4], s[5]} : v \in -999..999
  /\ 2 * 999 * 2 * (g.lx + g.ly) + 4 * (g.lx * g.lx + g.ly * g.ly) < 300000
ArgMinScaled(g, s) ==      \* <<a minimiser, number of minimisers>>
  FoldSet(LAMBDA p, acc : IF acc[1] = 0 THEN <<p, 1>>
                          ELSE LET sg == SignDiff(g, s, p, acc[1]) IN
                               IF sg < 0 THEN <<p, 1>> ELSE IF sg = 0 THEN <<acc[1], acc[2] + 1>> ELSE acc,
          <<0, 0>>, Pos(g))
NearestScaled(g, s) == LET a == ArgMinScaled(g, s) IN IF a[2] = 1 THEN a[1] ELSE 0
IsNearestScaled(g, s, p) == \A q \in Pos(g) : q = p \/ SignDiff(g, s, p, q) < 0
IsTieScaled(g, s) == \E p \in Pos(g) : /\ \A q \in Pos(g) : SignDiff(g, s, p, q) <= 0
                                       /\ \E q \in Pos(g) \ {p} : SignDiff(g, s, p, q) = 0
\* on plain integer samples the scaled comparison is the integer metric (cross-check of the two oracles)
ScaledLemma(g) == \A x \in (-(g.lx + 1))..(g.lx + 1) : \A y \in (-(g.ly + 1))..(g.ly + 1) :
                     /\ NearestScaled(g, <<x, 0, 0, y, 0, 0>>) = Nearest(g, 1, <<x, y>>)
                     /\ NearestScaled(g, <<0, x, 0, 0, y, 0>>) = Nearest(g, 1, <<x, y>>)

(* ------------------------------ error-rate parameters (C16) -------------------------------- *)
\* Derived from a TABLE (what the modulator emits) and its scale.  With noise variance N0 = 1/snr
\* (sigma^2 = 1/(2 snr) per real dimension) a decision boundary at distance dmin/2 is crossed
\* with probability Q(dmin/(2 sigma)) = Q(sqrt(b snr)),  b = dmin^2/2 in emitted units.
\* Lattice kinds: the point set is a product grid, the two carriers are independent:
\*     Psc = a Q(sqrt(b snr)),  a = (ordered nearest-neighbour pairs in one dimension)/levels,
\*     SER = 1 - (1 - Psc)^dims   (exact),   BER = dims Psc / k  (one bit per carrier error: Gray)
\* PSK: two boundaries of the decision wedge at distance r sin(pi sep):
\*     SER ~ a Q(sqrt(b snr)), a = 2, b = 2 r^2 sin^2(pi sep)  (sep = 1/m is emitted; Python takes the sine)
LevelsX(g, t) == {t[i][1] : i \in 1..g.m}
LevelsY(g, t) == {t[i][2] : i \in 1..g.m}
IsProductGrid(g, t) == {t[i] : i \in 1..g.m} = LevelsX(g, t) \X LevelsY(g, t)
MinGap(S) == CHOOSE e \in 1..(2 * 128) : (\E a \in S : a + e \in S) /\ \A f \in 1..(e - 1) : \A a \in S : a + f \notin S
AdjPairs(S) == Cardinality({<<a, b>> \in S \X S : b - a = MinGap(S) \/ a - b = MinGap(S)})
RingSet(g, t) == {t[i] % g.m : i \in 1..g.m}
RingMinGap(g, t) == LET S == RingSet(g, t) IN
                    CHOOSE e \in 1..g.m : (\E a \in S : (a + e) % g.m \in S) /\ \A f \in 1..(e - 1) : \A a \in S : (a + f) % g.m \notin S
SerParams(g, t, scale) ==
  IF IsLattice(g)
  THEN LET sx == LevelsX(g, t)  sy == LevelsY(g, t)
           dimsX == IF Cardinality(sx) > 1 THEN 1 ELSE 0
           dimsY == IF Cardinality(sy) > 1 THEN 1 ELSE 0
           gap == MinGap(sx)
       IN [form |-> "product", dims |-> dimsX + dimsY, k |-> g.k,
           a |-> RNorm(AdjPairs(sx), Cardinality(sx)),
           b |-> RMul(scale, <<gap * gap, 2>>),
           sep |-> RZero,
           \* both carriers must have the same structure for the single (a, b) pair to describe them
           sym |-> (dimsY = 0 \/ (Cardinality(sy) = Cardinality(sx) /\ MinGap(sy) = gap))
                   /\ IsProductGrid(g, t)]
  ELSE [form |-> "psk", dims |-> 1, k |-> g.k, a |-> <<2, 1>>, b |-> scale,
        sep |-> RNorm(RingMinGap(g, t), g.m), sym |-> TRUE]

\* Composition laws of the forms, on exact rationals: q stands for the value of Q(.) in [0, 1/2]
SerOf(pr, q) == LET psc == RMul(pr.a, q) IN
                IF pr.form = "product" THEN RSub(ROne, IF pr.dims = 2 THEN RSq(RSub(ROne, psc)) ELSE RSub(ROne, psc))
                ELSE psc
BerOf(pr, q) == LET psc == RMul(pr.a, q) IN
                IF pr.form = "product" THEN RDiv(RMul(R(pr.dims), psc), R(pr.k)) ELSE RDiv(psc, R(pr.k))
RECURSIVE RPow(_, _)
RPow(x, n) == IF n = 0 THEN ROne ELSE RMul(x, RPow(x, n - 1))
PerOf(pr, q, len) == RSub(ROne, RPow(RSub(ROne, BerOf(pr, q)), len))
SeOf(pr, q, len)  == RMul(R(pr.k), RSub(ROne, PerOf(pr, q, len)))
\* (coarser grid for the largest constellations: cross-multiplication must stay below 2^31)
QGrid(pr) == IF pr.a[2] > 16 THEN {<<0, 1>>, <<1, 4>>, <<1, 2>>} ELSE {<<0, 1>>, <<1, 8>>, <<1, 4>>, <<3, 8>>, <<1, 2>>}
CompositionLaws(pr) ==
  \A q \in QGrid(pr) :
    LET ser == SerOf(pr, q)  ber == BerOf(pr, q) IN
    /\ RLe(RZero, ber) /\ RLe(ber, ser) /\ RLe(ser, RMul(R(pr.k), ber)) /\ RLe(ser, ROne)
    /\ \A q2 \in QGrid(pr) : RLe(q, q2) => RLe(ser, SerOf(pr, q2)) /\ RLe(ber, BerOf(pr, q2))
    /\ \A len \in 1..2 :
         LET per == PerOf(pr, q, len) IN
         /\ RLe(ber, per) /\ RLe(per, RMul(R(len), ber)) /\ RLe(per, ROne)
         /\ RLe(RZero, SeOf(pr, q, len)) /\ RLe(SeOf(pr, q, len), R(pr.k))
         /\ (len = 1 => per = ber)
    /\ (q = RZero => ser = RZero /\ ber = RZero)
=============================================================================
