------------------------------ MODULE ErrQuery ------------------------------
(* C16 - HISTORIES of error-rate queries on ONE modulator object.

   The property says that calcTheoreticalSER / BER / PER / SpectralEfficiency are functions of the
   SNR VALUES passed in.  A caller typically keeps one SNR buffer (an ndarray) and advances it in
   place between queries (snr += step); it also mixes scalar, array, list and view arguments.
   This machine enumerates every such history of a small alphabet; what a query must return is
   the curve evaluated at the CURRENT contents of the argument, whatever was asked before.

   State
     shift       the caller's buffer holds  Base[i] + shift  (Base is an integer dB vector chosen
                 by the harness; the machine only needs the shift)
     lastObj,    history abstraction shaped after an implementation that remembers its last
     lastShift   argument: which OBJECT was passed to the last evaluated query ("buffer" = the
                 caller's buffer itself, "fresh" = any object created for that call: copy, view,
                 list, scalar) and what the buffer held then.  Tracked in the intended instance too,
                 so that a transition cover reaches "buffer queried - advanced in place - buffer
                 queried again" (the state before the last step differs from a fresh start).
     ret         [op, at, exp]: the query returned the curve evaluated at Base + at; exp = shift
     lab         [fn, how, d] label of the last step (excluded from the state identity by VIEW)
   Actions
     Advance(d)       buf += d  in place (same object, new contents)
     Query(fn, how)   fn in Fns (SER, BER, PER, SE with packet length, SE0 without), how in
                      buffer | copy | view | list | scalar | int
   Property
     PureFunction     every query returns the curve AT THE CURRENT CONTENTS:  ret.at = ret.exp
   Deviation
     QueryIsPure, ArgumentsUnchanged, EarlierResultsUnchanged   frame laws of every query (the replay
                      observes them around every call: symbol table, argument, previously returned array)
     RejectedChangesNothing   a refused call (action Refused) leaves the object as it was (Dev.RefusedCallHalfUpdates)
     element-wise     the caller's values are unsorted: an array result is the curve at each value, in the caller's order
                      (part of PureFunction; Dev.MonotoneEnvelope: a running maximum along the array for SE)
   Deviations
     Dev.QueryTouchesTable / QueryWritesArgument / ResultBufferReused   one per frame law
     Dev.CachesByIdentity   the last single-carrier value is reused whenever the argument `is` the
                      object seen last (the contents are not compared): TLC finds
                      Query(buffer) - Advance - Query(buffer).
   Emission: every transition as an edge  pre/post = [shift, lastObj, lastShift], label lab, and the
   shift `at` at which the expected curve is to be evaluated (stage R evaluates the forms whose
   parameters TLC derived from the recorded table at Base + at: (rel)).                          *)
EXTENDS Integers, Sequences, TLC, Emit

CONSTANTS Steps,     \* set of in-place increments in dB
          MaxShift,  \* bound on the accumulated shift
          Fns,       \* set of query kinds
          Hows,      \* set of argument kinds
          Refusals,  \* set of calls the object refuses with an exception (names; see Refused)
          Dev

VARIABLES shift, lastObj, lastShift, ret, lab,
          frame     \* frame observations of the last step (call discipline): [table, args, held] - the symbol table
                    \* is as before the query, the argument is as it was passed, the array returned by the previous
                    \* query still holds what it held
vars == <<shift, lastObj, lastShift, ret, lab, frame>>
View == <<shift, lastObj, lastShift, ret, frame>>
FrameOk == [table |-> TRUE, args |-> TRUE, held |-> TRUE]

Init == /\ shift = 0 /\ lastObj = "none" /\ lastShift = 0
        /\ ret = [op |-> "none", at |-> 0, exp |-> 0]
        /\ lab = [fn |-> "none", how |-> "none", d |-> 0]
        /\ frame = FrameOk

Advance(d) ==
  /\ shift + d <= MaxShift
  /\ shift' = shift + d
  /\ ret' = [op |-> "advance", at |-> shift + d, exp |-> shift + d]
  /\ lab' = [fn |-> "advance", how |-> "inplace", d |-> d]
  /\ frame' = FrameOk
  /\ UNCHANGED <<lastObj, lastShift>>

Query(fn, how) ==
  LET obj == IF how = "buffer" THEN "buffer" ELSE "fresh"
      hit == Dev.CachesByIdentity /\ obj = "buffer" /\ lastObj = "buffer"
      \* the caller's values are NOT sorted (Base is an unsorted vector): an array result is the element-wise curve
      env == Dev.MonotoneEnvelope /\ fn \in {"SE", "SE0"} /\ how \notin {"scalar", "int", "0d", "list"}
      at  == IF env THEN -1 ELSE IF hit THEN lastShift ELSE shift
  IN /\ ret' = [op |-> "query", at |-> at, exp |-> shift]
     /\ lab' = [fn |-> fn, how |-> how, d |-> 0]
     /\ lastObj' = obj
     /\ lastShift' = IF hit THEN lastShift ELSE shift
     /\ frame' = [table |-> ~Dev.QueryTouchesTable,
                  args  |-> ~(Dev.QueryWritesArgument /\ how \in {"buffer", "copy", "view", "intarray", "0d", "strided"}),
                  held  |-> ~(Dev.ResultBufferReused /\ ret.op = "query")]
     /\ UNCHANGED shift

\* a call that the object REFUSES (raises): a table of 3 symbols / a 2-d table / an empty table handed to
\* setConstellation, an index >= M handed to modulate, a packet length that is not a number ...  Whatever is refused
\* must leave the object exactly as it was (the replay only judges calls that really raise).
Refused(which) ==
  /\ ret' = [op |-> "refused", at |-> shift, exp |-> shift]
  /\ lab' = [fn |-> "refused", how |-> which, d |-> 0]
  /\ frame' = [table |-> ~Dev.RefusedCallHalfUpdates, args |-> TRUE, held |-> TRUE]
  /\ UNCHANGED <<shift, lastObj, lastShift>>
RefusedAny == \E which \in Refusals : Refused(which)

AdvanceAny == \E d \in Steps : Advance(d)
QueryAny   == \E fn \in Fns : \E how \in Hows : Query(fn, how)
Next == AdvanceAny \/ QueryAny \/ RefusedAny

PureFunction == ret.op = "query" => ret.at = ret.exp
\* frame laws (notes/CALL_DISCIPLINE.md): a query leaves the modulator as it was, its argument as it was passed,
\* and the result of the previous query as it was returned
QueryIsPure == ret.op = "query" => frame.table
RejectedChangesNothing == ret.op = "refused" => frame.table
ArgumentsUnchanged == frame.args
EarlierResultsUnchanged == frame.held
TypeOK == /\ shift \in 0..MaxShift /\ lastShift \in 0..MaxShift
          /\ lastObj \in {"none", "buffer", "fresh"}
          /\ ret.op \in {"none", "advance", "query", "refused"}

Emit == EmitEdge([pre  |-> [shift |-> shift, lastObj |-> lastObj, lastShift |-> lastShift],
                  post |-> [shift |-> shift', lastObj |-> lastObj', lastShift |-> lastShift'],
                  fn |-> lab'.fn, how |-> lab'.how, d |-> lab'.d, at |-> ret'.at])
=============================================================================
