-------------------------------- MODULE Gray --------------------------------
(* C15 (second half) - binary <-> Gray conversion and bit-error counting.

   Models pyphysim.util.conversion.binary2gray / gray2binary and
   pyphysim.util.misc.count_bits / count_bit_errors on W-bit non-negative integers.
   TLC integers are 32-bit, the property speaks about all integers in [0, 2^62): values
   are therefore BIT VECTORS  v \in [1..W -> {0,1}],  v[k] = bit k-1 (least significant
   first).  Nothing in this module uses an integer larger than 2^13.

   What the property demands (written from the statement, not from the code):
     G2BDef   the inverse of the reflected Gray code is the prefix parity
              b[k] = g[k] (+) g[k+1] (+) ... (+) g[W]
     B2G      g = b (+) (b >> 1); `ReflectedLaw` checks for W <= 12 that this is THE reflected
              binary Gray code (list G(n+1) = G(n) ++ (2^n + reverse G(n))).
     Ham      number of positions in which two vectors differ.

   The machine has one action per public call and one action per CODE STEP of gray2binary,
   which is a cascade  t := t (+) (t >> s)  for s in `Shifts` (descending powers of two).
   Loop invariant `CascadeLoopInv`: after the shifts S1 > S2 > ... > s have been applied
        t[k] = (+){ g[k + j*s] : 0 <= j < 2*S1/s, k + j*s <= W }
   so after s = 1 the window has 2*S1 positions: the cascade equals G2BDef exactly when
   2*S1 >= W.  Shifts = <<32,16,8,4,2,1>> covers 64 >= 62 bits.  The code has <<8,4,2,1>>
   (window 16): deviation Dev.G2BOnly16Bits, first wrong input 2^16.

   LINEARITY ARGUMENT (why a basis suffices for W = 62).  Over GF(2), with S the shift matrix
   (S v)[k] = v[k+1]:  B2G = I + S,  G2BDef = I + S + S^2 + ... + S^(W-1),  one cascade step is
   I + S^s.  All are linear maps of GF(2)^W, so are their compositions; two linear maps that agree
   on the W one-hot vectors agree on all 2^W vectors.  Moreover (I + S)(I + S + ... + S^(W-1)) =
   I + S^W = I because S^W = 0: the inverse law is an identity of the definitions.  TLC
   checks `Additive` (f(u (+) v) = f(u) (+) f(v)) on all pairs for small W and on seeded pairs
   for W = 62, the inverse laws exhaustively for W <= 12, and for W = 62 on the one-hot basis,
   the carry chains 2^k - 1 and seeded vectors.

   Arrays: CallErrMat(o, layout, axis) = count_bit_errors of two 2 x 3 index arrays lying in memory in row-major
   ("C") or column-major ("F", e.g. a transposed view) order, summed along an axis; `AxisLaw`: the counts are taken
   position by position of the LOGICAL index whatever the layout, also when the second operand is a row vector
   broadcast over the first (bc = "row"); the sum over an empty array is 0 (Dev.CountsInMemoryOrder: read in memory order,
   written in row-major order).

   Long frames: CallErrLong(n) and `TotalLaw` - the total over n positions is the sum of the per-position counts for
   every n (Dev.BlockTailTwice: block-wise counting whose tail slice is the whole array when n is a multiple of the block).

   Modes:  "exh"   every v in 0 .. 2^W - 1  (W <= 12): calls b2g(v), g2b(v)
           "pairs" every pair (u, v) (W <= 6): additivity, err(u, v)
           (every mode also pairs a BINARY-VALUED operand - 0 / 1 only - with an M-ary / wide one: HammingLaw is
           about each value pair, whatever the other entries of the arrays look like)
           "basis" W-bit (W = 62) one-hot, 2^k - 1, 2^k + 1, all-ones and NRand seeded vectors; err on
                   seeded pairs, incl. pairs of DIFFERENT widths (v mod 2^w against v, w a storage
                   width 7/8/15/16/31) - the count is about values, not about how they are stored
   Emission (stage R): one VCASE line per returned call with argument(s) and exact result. *)
EXTENDS Integers, Sequences, FiniteSets, FiniteSetsExt, TLC, Emit

CONSTANTS W,       \* width in bits
          Mode,    \* "exh" | "pairs" | "basis"
          Shifts,  \* intended cascade of gray2binary
          NRand,   \* number of seeded vectors (mode "basis")
          Seed,
          Dev      \* [G2BOnly16Bits, B2GShiftMissing, ErrCountsFirstOperand, CountsInMemoryOrder, BlockTailTwice |-> BOOLEAN]

Idx  == 1..W
Zero == [k \in Idx |-> 0]
Xor(u, v) == [k \in Idx |-> (u[k] + v[k]) % 2]
ShR(v, s) == [k \in Idx |-> IF k + s <= W THEN v[k + s] ELSE 0]
Pop(v)    == Cardinality({k \in Idx : v[k] = 1})
Ham(u, v) == Cardinality({k \in Idx : u[k] # v[k]})
OfInt(n)  == [k \in Idx |-> (n \div (2 ^ (k - 1))) % 2]          \* n < 2^W, W <= 30
ToInt(v)  == FoldSet(LAMBDA k, acc : acc + v[k] * (2 ^ (k - 1)), 0, Idx)   \* W <= 30
OneHot(j) == [k \in Idx |-> IF k = j THEN 1 ELSE 0]
LowOnes(j) == [k \in Idx |-> IF k <= j THEN 1 ELSE 0]             \* 2^j - 1
AllOnes   == LowOnes(W)
\* v + 1 (ripple carry); only used when v # AllOnes
Inc(v) == LET z == CHOOSE k \in Idx : v[k] = 0 /\ \A j \in 1..(k - 1) : v[j] = 1
          IN  [k \in Idx |-> IF k < z THEN 0 ELSE IF k = z THEN 1 ELSE v[k]]

(* ------------------------------ what the property demands ------------------------------ *)
B2G(v)    == Xor(v, ShR(v, 1))
G2BDef(g) == [k \in Idx |-> Cardinality({j \in k..W : g[j] = 1}) % 2]

\* the reflected binary Gray code as a list of integers (definition by reflection)
RECURSIVE Reflected(_)
Reflected(n) == IF n = 0 THEN <<0>>
                ELSE LET r == Reflected(n - 1)  m == Len(r)
                     IN  [i \in 1..(2 * m) |-> IF i <= m THEN r[i] ELSE (2 ^ (n - 1)) + r[2 * m + 1 - i]]

(* ------------------------------ what the code does -------------------------------------- *)
Sh == IF Dev.G2BOnly16Bits THEN <<8, 4, 2, 1>> ELSE Shifts
B2GCode(v) == IF Dev.B2GShiftMissing THEN v ELSE Xor(v, ShR(v, 1))
ErrCode(u, v) == IF Dev.ErrCountsFirstOperand THEN Pop(u) ELSE Pop(Xor(u, v))

RandVec(n) ==   \* seeded W-bit vector number n: 16 bits from each of four Lehmer draws
  LET x0 == LcgStart(Seed, n)
      dr == [j \in 1..4 |-> LcgIter(x0, j) - 1]
  IN  [k \in Idx |-> (dr[((k - 1) \div 16) + 1] \div (2 ^ ((k - 1) % 16))) % 2]

Domain ==
  CASE Mode = "exh"   -> {OfInt(n) : n \in 0..(2 ^ W - 1)}
    [] Mode = "pairs" -> {OfInt(n) : n \in 0..(2 ^ W - 1)}
    [] Mode = "basis" -> {OneHot(j) : j \in Idx} \cup {LowOnes(j) : j \in Idx} \cup {Zero}
                         \cup {Xor(OneHot(j), OneHot(1)) : j \in Idx}          \* 2^(j-1) + 1
                         \cup {RandVec(n) : n \in 1..NRand}
Trunc(v, w) == [k \in Idx |-> IF k <= w THEN v[k] ELSE 0]     \* v mod 2^w
Widths == {7, 8, 15, 16, 31} \cap Idx                         \* storage widths of the usual integer types
PairDomain ==
  CASE Mode = "pairs" -> Domain \X Domain
    [] Mode = "exh"   -> {<<OfInt(n), OfInt((n * 37 + 11) % (2 ^ W))>> : n \in 0..(2 ^ W - 1)}
                         \cup {<<OfInt(n), Zero>> : n \in 0..(2 ^ W - 1)}
                         \* one operand BINARY-VALUED (0 / 1: bits, an all-zero block), the other M-ary
                         \cup {<<OfInt(n % 2), OfInt(n)>> : n \in 0..(2 ^ W - 1)}
                         \cup {<<OfInt((n \div 2) % 2), OfInt(n)>> : n \in 0..(2 ^ W - 1)}
    [] Mode = "basis" -> {<<RandVec(n), RandVec(n + 1)>> : n \in 1..NRand}
                         \cup {<<OneHot(j), RandVec(1 + (j % NRand))>> : j \in Idx}
                         \cup {<<AllOnes, LowOnes(j)>> : j \in Idx}
                         \cup {<<LowOnes(j), Zero>> : j \in Idx} \cup {<<RandVec(n), Zero>> : n \in 1..NRand}
                         \* one operand binary-valued (0 / 1), the other wide
                         \cup {<<OneHot(1), RandVec(n)>> : n \in 1..NRand} \cup {<<Zero, OneHot(j)>> : j \in Idx}
                         \cup {<<OneHot(1), LowOnes(j)>> : j \in Idx} \cup {<<OneHot(1), OneHot(j)>> : j \in Idx}
                         \* operands of different widths: the low w bits of a vector against the whole vector
                         \cup {<<Trunc(RandVec(n), w), RandVec(n)>> : n \in 1..NRand, w \in Widths}
                         \cup {<<Trunc(RandVec(n), w), Trunc(RandVec(n + 1), 2 * w)>> : n \in 1..NRand, w \in Widths}

(* ----------------------- bit errors of index ARRAYS, summed along an axis ------------------- *)
\* count_bit_errors(first, second, axis) for 2 x 3 arrays.  The property speaks about the arrays position by
\* position (logical index); `layout` says how the caller's arrays lie in memory ("C" row-major, "F" column-major,
\* e.g. a transposed view) and must not matter.  axis = -1: total, 0: sum over rows, 1: sum over columns.
Vec(n) == IF Mode = "basis" THEN RandVec(n) ELSE OfInt(n % (2 ^ W))
MatU(o) == [i \in 1..2 |-> [j \in 1..3 |-> Vec(o + 3 * (i - 1) + j)]]
MatV(o) == [i \in 1..2 |-> [j \in 1..3 |-> Vec(o + 11 + 5 * (i - 1) + 2 * j)]]
\* bc = "full": second operand is the 2 x 3 array MatV;  bc = "row": it is the single row MatV[1], broadcast over the rows
CountAtB(o, bc, i, j) == Ham(MatU(o)[i][j], MatV(o)[IF bc = "row" THEN 1 ELSE i][j])
CountAt(o, i, j) == CountAtB(o, "full", i, j)
AxisSums(cnt, axis) ==
  CASE axis = -1 -> << cnt[1][1] + cnt[1][2] + cnt[1][3] + cnt[2][1] + cnt[2][2] + cnt[2][3] >>
    [] axis = 0  -> [j \in 1..3 |-> cnt[1][j] + cnt[2][j]]
    [] axis = 1  -> [i \in 1..2 |-> cnt[i][1] + cnt[i][2] + cnt[i][3]]
\* as-is under Dev.CountsInMemoryOrder: the elements are READ in memory order but the counts are WRITTEN in row-major
\* order - for a column-major operand the count stored at row-major position k belongs to the k-th element in memory
CodeCount(o, bc, layout, i, j) ==
  IF Dev.CountsInMemoryOrder /\ layout = "F"
  THEN LET k == 3 * (i - 1) + (j - 1) IN CountAtB(o, bc, (k % 2) + 1, (k \div 2) + 1)
  ELSE CountAtB(o, bc, i, j)
MatOffsets == IF Mode = "exh" THEN {} ELSE 0..2

\* LONG frames: n pairs (the pairs LongU/LongV repeated cyclically); the total is the sum of the per-pair counts whatever
\* n is.  As-is under Dev.BlockTailTwice: counted in blocks of LongBlock, the last incomplete block taken as
\* flat[-remainder:] - which is the WHOLE array when the remainder is 0.
LongBlock == 4
LongU(i) == Vec(1 + (i % 5))
LongV(i) == Vec(7 + (i % 3))
LongTotal(n) == FoldSet(LAMBDA i, acc : acc + Ham(LongU(i), LongV(i)), 0, 1..n)
LongCode(n) == IF Dev.BlockTailTwice /\ n > LongBlock /\ n % LongBlock = 0 THEN 2 * LongTotal(n) ELSE LongTotal(n)
LongLens == IF Mode = "exh" THEN {} ELSE 1..13

(* ------------------------------------- machine ------------------------------------------ *)
VARIABLES pc,    \* 0 idle, 1..Len(Sh) next cascade step, -1 returned
          call,  \* [op, u, v]
          t,     \* temp of gray2binary
          ret    \* returned value (bit vector, or integer for err)
vars == <<pc, call, t, ret>>

Init == pc = 0 /\ call = [op |-> "none", u |-> Zero, v |-> Zero] /\ t = Zero /\ ret = Zero

CallB2G(v) == /\ pc = 0
              /\ call' = [op |-> "b2g", u |-> Zero, v |-> v]
              /\ ret' = B2GCode(v) /\ pc' = -1 /\ UNCHANGED t
CallG2B(g) == /\ pc = 0
              /\ call' = [op |-> "g2b", u |-> Zero, v |-> g]
              /\ t' = g /\ pc' = 1 /\ UNCHANGED ret
Step       == /\ pc \in 1..Len(Sh)
              /\ t' = Xor(t, ShR(t, Sh[pc]))
              /\ pc' = pc + 1 /\ UNCHANGED <<call, ret>>
Return     == /\ pc = Len(Sh) + 1
              /\ ret' = t /\ pc' = -1 /\ UNCHANGED <<call, t>>
CallErr(u, v) == /\ pc = 0
                 /\ call' = [op |-> "err", u |-> u, v |-> v]
                 /\ ret' = ErrCode(u, v) /\ pc' = -1 /\ UNCHANGED t

CallErrMat(o, bc, layout, axis) ==
  /\ pc = 0
  /\ call' = [op |-> "errmat", u |-> Zero, v |-> Zero, o |-> o, bc |-> bc, layout |-> layout, axis |-> axis]
  /\ ret' = AxisSums([i \in 1..2 |-> [j \in 1..3 |-> CodeCount(o, bc, layout, i, j)]], axis)
  /\ pc' = -1 /\ UNCHANGED t

CallErrLong(n) ==
  /\ pc = 0
  /\ call' = [op |-> "errlong", u |-> Zero, v |-> Zero, n |-> n]
  /\ ret' = LongCode(n) /\ pc' = -1 /\ UNCHANGED t

\* the guard pc = 0 stands outside the quantifiers so that TLC does not enumerate the domain in
\* every cascade state
Calls == /\ pc = 0
         /\ \/ \E v \in Domain : CallB2G(v) \/ CallG2B(v)
            \/ \E p \in PairDomain : CallErr(p[1], p[2])
            \/ \E o \in MatOffsets : \E bc \in {"full", "row"} : \E layout \in {"C", "F"} : \E axis \in {-1, 0, 1} :
                  CallErrMat(o, bc, layout, axis)
Next == Calls \/ (pc = 0 /\ \E n \in LongLens : CallErrLong(n)) \/ Step \/ Return

(* ------------------------------------ properties ---------------------------------------- *)
Done(op) == pc = -1 /\ call.op = op

\* g2b o b2g = id  and  b2g o g2b = id, against the definitions and against the code cascade
InverseLaw ==
  /\ Done("b2g") => /\ ret = B2G(call.v)
                    /\ G2BDef(ret) = call.v
  /\ Done("g2b") => /\ ret = G2BDef(call.v)
                    /\ B2G(ret) = call.v

\* consecutive integers map to code words one bit apart
AdjacentLaw == Done("b2g") /\ call.v # AllOnes => Ham(ret, B2G(Inc(call.v))) = 1

\* B2G is THE reflected binary Gray code (definition by reflection), widths that fit an integer
ReflW == IF W <= 12 THEN Reflected(W) ELSE <<>>      \* constant: evaluated once
ReflectedLaw == Done("b2g") /\ W <= 12 => ToInt(ret) = ReflW[ToInt(call.v) + 1]

\* loop invariant of the cascade (see header)
Window(k, s, n) == {k + j * s : j \in 0..(n - 1)} \cap Idx
CascadeLoopInv ==
  (pc \in 2..(Len(Sh) + 1) /\ call.op = "g2b") =>
     LET s == Sh[pc - 1]  n == (2 * Sh[1]) \div s
     IN  \A k \in Idx : t[k] = Cardinality({i \in Window(k, s, n) : call.v[i] = 1}) % 2

\* bit-error count = Hamming distance
HammingLaw == Done("err") => ret = Ham(call.u, call.v)

\* arrays: the counts are taken position by position (logical index) and summed along the axis, whatever the memory layout
AxisLaw == Done("errmat") =>
  ret = AxisSums([i \in 1..2 |-> [j \in 1..3 |-> CountAtB(call.o, call.bc, i, j)]], call.axis)

\* a frame of any length: the total is the sum of the per-position counts (no block structure shows)
TotalLaw == Done("errlong") => ret = LongTotal(call.n)

\* the count does not depend on the order of the two operands
SymmetryLaw == Done("err") => ret = ErrCode(call.v, call.u)

\* GF(2)-linearity of the three maps (all pairs of the domain: use with small W / few vectors)
RECURSIVE CascadeFrom(_, _)
CascadeFrom(x, i) == IF i > Len(Sh) THEN x ELSE CascadeFrom(Xor(x, ShR(x, Sh[i])), i + 1)
Additive ==
  Done("err") => LET u == call.u  v == call.v  x == Xor(u, v) IN
                 /\ B2G(x) = Xor(B2G(u), B2G(v))
                 /\ G2BDef(x) = Xor(G2BDef(u), G2BDef(v))
                 /\ CascadeFrom(x, 1) = Xor(CascadeFrom(u, 1), CascadeFrom(v, 1))

TypeOK == /\ pc \in -1..(Len(Sh) + 1)
          /\ t \in [Idx -> {0, 1}]
          /\ call.op \in {"none", "b2g", "g2b", "err", "errmat", "errlong"}

(* ------------------------------------- emission ----------------------------------------- *)
\* widths that fit a TLC integer are printed as integers, wider vectors as sequences of bits (least
\* significant first; Python rebuilds the int)
Enc(x) == IF W <= 30 THEN ToInt(x) ELSE x
EncMat(m) == [i \in 1..2 |-> [j \in 1..3 |-> Enc(m[i][j])]]
Emit == IF pc' = -1 /\ call'.op = "errlong" THEN TRUE
        ELSE IF pc' = -1 /\ call'.op = "errmat"
        THEN EmitCase([op |-> "errmat", w |-> W, u |-> EncMat(MatU(call'.o)), v |-> EncMat(MatV(call'.o)),
                       bc |-> call'.bc, layout |-> call'.layout, axis |-> call'.axis, ret |-> ret'])
        ELSE IF pc' = -1
        THEN EmitCase([op |-> call'.op, w |-> W, u |-> Enc(call'.u), v |-> Enc(call'.v),
                       ret |-> IF call'.op = "err" THEN ret' ELSE Enc(ret')])
        ELSE TRUE
=============================================================================
