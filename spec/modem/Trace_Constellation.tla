------------------------- MODULE Trace_Constellation -------------------------
(* Stage T for C01 / C15 / C16: histories RECORDED from the real modulator objects are validated
   against the predicates of ConstellationOps.  All traces of a run are in one JSON file
   (IOEnv.TRACE_FILE), one TLC run validates them all (tid chosen by the first step).

   A trace  [kind, m, d, frac, events]  is the history of ONE object (frac: the cardinality handed to the constructor was
   NOT an integer - m is its integer part - and must be rejected whatever m is):
     construct  [out, tab, tabok, scale, scaleok, kok]   constructor call (kok: the object reports M points and K = log2 M bits); out = "ok" | "raised:<Type>";
                tab = recorded table label -> integer coordinate (tabok: all coordinates were
                integral at 1e-9), scale = exact rational (amplitude per lattice unit)^2 resp. radius^2
     setoff     [tab, tabok, scale, scaleok]        PSK.setPhaseOffset; table recorded after the call
     mod        [idx, out, pts, ptsok, shapeok]     modulate(index array): flattened indexes, outcome,
                emitted points as integer coordinates, output shape = input shape
     demod      [a, b, lab, shapeok]                demodulate(samples): samples (a[c], b[c]) on the
                rational grid of resolution d (see ConstellationOps.Metric), returned labels
     roundtrip  [idx, lab, shapeok]                 demodulate(modulate(idx))
     copy       [how, out, tab, tabok, scale, scaleok, mok]   a copy of the object made by `how` (pickle round trip,
                copy.copy, copy.deepcopy): its recorded table / scale, mok: it reports the same M and K
     recheck    [of, now, nowok]                    the object RETURNED by event number `of` (a mod, demod
                or roundtrip event whose result the caller kept by reference) read again after later
                calls: now = its present contents in the coordinates of that event
     every call event also carries the frame observations of the call discipline:
                argsok (every array argument is bit-identical after the call), mod: ownok (the result
                shares no memory with the object's symbol table), frameok (after a REJECTED call the
                symbol table is bit-identical to what it was before)
   Arrays of every event are listed POSITION BY POSITION in row-major order of the logical index;
   the harness hands the real object the same logical array in different memory layouts
   (C, Fortran order, transposed view, strided slice, negative stride, 0-d) - the layout is not part
   of the event because nothing may depend on it.
   What is demanded of every event is the property text, NOT a particular labelling:
     construct  raises  iff  the cardinality is unsupported; an accepted construction has a table
                that is WellFormed, Bijective (M distinct points), GrayAdjacent, UnitEnergy
     setoff     the same four predicates
     mod        idx < m everywhere: out = ok, pts[j] = tab[idx[j]] and the shape is kept;
                some idx >= m: out = raised:ValueError
     demod      every sample with a unique nearest point: lab = the label the CURRENT table gives
                that point; shape kept
     roundtrip  lab = idx
     copy       CopyIsEqual: the copy can be made and has the table and scale of the original at that moment
     recheck    EarlierResultsUnchanged: now = what event `of` returned (pts resp. lab)
     all calls  ArgumentsUnchanged (argsok), ResultNotAliased (ownok), RejectedChangesNothing (frameok)
   Each step appends the mismatches of its event to mm and emits one VCASE line
   [tid, ev, op, checked, mm, params]; params (on table events) are the error-rate parameters
   ConstellationOps.SerParams derives from the recorded table (consumed by C16).
   A mismatch carries sig = the name of the known deviation whose AS-IS prediction the observation
   equals exactly (the as-is tables are computed here, in TLA+), "none" otherwise:
     SetPhaseOffsetDropsGray  setoff, PSK, m >= 4, table = natural order (ring index = label)
     QamGrayIndexInverted     construct, QAM, m >= 64, table = position (b2g(r), b2g(c)) for label (r, c)
     QamAcceptsOne            construct, QAM, m = 1 accepted
   INVARIANT Conforms: every mismatch of a kind in Care has a signature listed in Tolerate (the
   open findings).                                                                              *)
EXTENDS ConstellationOps, Emit, Json, IOUtils

CONSTANTS Tolerate,    \* set of deviation names that are listed as open findings
          Care         \* the mismatch kinds (what) the running check judges (C01, C15, C16 differ)

Traces == JsonDeserialize(IOEnv.TRACE_FILE)

VARIABLES tid, pos, g, tab, inv, scale, good, mm, checked, params
vars == <<tid, pos, g, tab, inv, scale, good, mm, checked, params>>

NoGeo == [kind |-> "none"]
Init == /\ tid = 0 /\ pos = 0 /\ g = NoGeo /\ tab = <<>> /\ inv = <<>> /\ scale = RZero /\ good = FALSE
        /\ mm = <<>> /\ checked = 0 /\ params = <<>>

Mis(what, sig, at, exp, got) == [what |-> what, sig |-> sig, at |-> at, exp |-> exp, got |-> got]

(* ----------------------------- as-is predictions (known deviations) ------------------------- *)
XorI(a, b, k) == FoldSet(LAMBDA j, acc : acc + ((BitOf(a, j) + BitOf(b, j)) % 2) * (2 ^ j), 0, 0..(k - 1))
B2GI(n, k) == XorI(n, n \div 2, k)
NaturalTab(gg)  == [i \in 1..gg.m |-> i - 1]
\* orientation free: the rows / columns may run either way, so compare Gray-coded row and column
\* NUMBERS up to reflection:  row number of label (r, c) is b2g(r) or lx-1-b2g(r)
IsInvertedQam(gg, t) ==
  LET h == gg.k \div 2
      colOf(c) == (c[1] + gg.lx - 1) \div 2
      rowOf(c) == (c[2] + gg.ly - 1) \div 2
      okc(f) == \A i \in 1..gg.m : colOf(t[i]) = (IF f THEN gg.lx - 1 - B2GI((i - 1) % gg.lx, h) ELSE B2GI((i - 1) % gg.lx, h))
      okr(f) == \A i \in 1..gg.m : rowOf(t[i]) = (IF f THEN gg.ly - 1 - B2GI((i - 1) \div gg.lx, h) ELSE B2GI((i - 1) \div gg.lx, h))
  IN  (okc(FALSE) \/ okc(TRUE)) /\ (okr(FALSE) \/ okr(TRUE))

GraySig(op, gg, t) ==
  IF op = "setoff" /\ gg.kind = "PSK" /\ gg.m >= 4 /\ [i \in 1..gg.m |-> t[i] % gg.m] = NaturalTab(gg)
    THEN "SetPhaseOffsetDropsGray"
  ELSE IF op = "construct" /\ gg.kind = "QAM" /\ gg.m >= 64 /\ IsInvertedQam(gg, t)
    THEN "QamGrayIndexInverted"
  ELSE "none"

(* ------------------------------------ table events ------------------------------------------ *)
\* mismatches of a recorded table; a table that is not even bijective makes the later events of the
\* trace uncheckable (good = FALSE)
TableMis(op, gg, e) ==
  IF ~e.tabok \/ ~WellFormed(gg, e.tab) THEN <<Mis("WellFormed", "none", 0, "integer coordinates of the geometry", "other")>>
  ELSE IF ~Bijective(gg, e.tab) THEN <<Mis("Bijective", "none", 0, gg.m, Cardinality({PosOf(gg, e.tab[i]) : i \in 1..gg.m}))>>
  ELSE LET iv == InvTab(gg, e.tab)
           bad == GrayBadPairs(gg, iv)
       IN (IF bad = {} THEN <<>>
           ELSE LET b == CHOOSE x \in bad : TRUE IN
                <<Mis("GrayAdjacent", GraySig(op, gg, e.tab), Cardinality(bad), iv[b[1]] - 1, iv[b[2]] - 1)>>)
          \o (IF UnitEnergy(gg, e.tab, e.scale, e.scaleok) /\ QamEnergyLaw(gg, e.tab) THEN <<>>
              ELSE <<Mis("UnitEnergy", "none", 0, "mean energy 1", e.scale)>>)
TableGood(gg, e) == e.tabok /\ Bijective(gg, e.tab)

Accepted(t) == (Supported(t.kind, t.m) \/ (t.kind = "QAM" /\ t.m = 1))

DoConstruct(t, e) ==
  LET sup == Supported(t.kind, t.m) /\ ~t.frac      \* frac: the requested cardinality was not an integer (m = its integer part)
      okc == e.out = "ok"
      gg  == IF Accepted(t) THEN Geo(t.kind, t.m) ELSE NoGeo
      gd  == okc /\ Accepted(t) /\ TableGood(gg, e)
  IN /\ g' = gg
     /\ good' = gd
     /\ tab' = IF gd THEN e.tab ELSE <<>>
     /\ inv' = IF gd THEN InvTab(gg, e.tab) ELSE <<>>
     /\ scale' = IF gd THEN e.scale ELSE RZero
     /\ params' = IF gd /\ t.m > 1 THEN SerParams(gg, e.tab, e.scale) ELSE <<>>
     /\ mm' = IF ~sup /\ okc
                THEN <<Mis("Rejects", IF t.kind = "QAM" /\ t.m = 1 THEN "QamAcceptsOne" ELSE "none", 0, "raised", e.out)>>
              ELSE IF sup /\ ~okc THEN <<Mis("Accepts", "none", 0, "ok", e.out)>>
              ELSE IF sup THEN TableMis("construct", gg, e)
                               \o (IF e.kok THEN <<>> ELSE <<Mis("BitsPerSymbol", "none", 0, Log2(t.m), "other")>>)
              ELSE <<>>
     /\ checked' = IF sup /\ okc THEN 4 ELSE 1

DoSetOff(t, e) ==
  LET gd == TableGood(g, e) IN
  /\ good' = gd
  /\ tab' = IF gd THEN e.tab ELSE <<>>
  /\ inv' = IF gd THEN InvTab(g, e.tab) ELSE <<>>
  /\ scale' = IF gd THEN e.scale ELSE RZero
  /\ params' = IF gd THEN SerParams(g, e.tab, e.scale) ELSE <<>>
  /\ mm' = TableMis("setoff", g, e)
  /\ checked' = 4
  /\ UNCHANGED g

(* ------------------------------------ call events ------------------------------------------- *)
First(S) == CHOOSE c \in S : \A x \in S : c <= x

\* frame laws of the call discipline, from the observations every call event carries
Frame(e) == (IF e.argsok THEN <<>> ELSE <<Mis("ArgumentsUnchanged", "none", 0, "arguments as passed", "modified")>>)
            \o (IF e.op = "mod" /\ ~e.ownok THEN <<Mis("ResultNotAliased", "none", 0, "a result of its own", "shares memory with the symbol table")>> ELSE <<>>)
            \o (IF e.op = "mod" /\ ~e.frameok THEN <<Mis("RejectedChangesNothing", "none", 0, "symbol table as before the rejected call", "changed")>> ELSE <<>>)

\* The laws are about index VALUES; dt records the integer type the harness stored them in (int8 .. uint64, bool,
\* pyint) only so that a known deviation can be recognised by its argument class:
\*   BpskUnsignedIndexWraps   BPSK, unsigned index type, an index 1 present (1 - 2*1 wraps in unsigned arithmetic)
IdxSig(t, e) == IF t.kind = "BPSK" /\ e.dt \in {"uint8", "uint16", "uint32", "uint64"} /\ (\E j \in 1..Len(e.idx) : e.idx[j] = 1)
                THEN "BpskUnsignedIndexWraps" ELSE "none"
DoMod(t, e) ==
  LET n == Len(e.idx)
      over == \E j \in 1..n : e.idx[j] >= g.m
      bad == IF over \/ e.out # "ok" THEN {} ELSE {j \in 1..n : ~e.ptsok \/ e.pts[j] # tab[e.idx[j] + 1]}
  IN /\ mm' = (IF over /\ e.out # "raised:ValueError" THEN <<Mis("IndexRaises", "none", 0, "raised:ValueError", e.out)>>
               ELSE IF ~over /\ e.out # "ok" THEN <<Mis("ModulateOk", "none", 0, "ok", e.out)>>
               ELSE <<>>)
              \o (IF bad = {} THEN <<>> ELSE <<Mis("ModulateLaw", IdxSig(t, e), First(bad), tab[e.idx[First(bad)] + 1],
                                                   IF e.ptsok THEN e.pts[First(bad)] ELSE "not a point")>>)
              \o (IF ~over /\ e.out = "ok" /\ ~e.shapeok THEN <<Mis("ShapeKept", "none", 0, "input shape", "other")>> ELSE <<>>)
              \o Frame(e)
     /\ checked' = n + 4
     /\ UNCHANGED <<g, tab, inv, scale, good, params>>

ExpLabel(a, b) == LET p == Nearest(g, Traces[tid].d, <<a, b>>) IN IF p = 0 THEN -1 ELSE inv[p] - 1
DoDemod(t, e) ==
  LET n == Len(e.a)
      ex == [c \in 1..n |-> ExpLabel(e.a[c], e.b[c])]
      bad == {c \in 1..n : ex[c] # -1 /\ ex[c] # e.lab[c]}
  IN /\ mm' = (IF bad = {} THEN <<>> ELSE <<Mis("MLDetection", "none", First(bad), ex[First(bad)], e.lab[First(bad)]),
                                          Mis("MLDetectionCount", "none", Cardinality(bad), 0, 0)>>)
              \o (IF ~e.shapeok THEN <<Mis("ShapeKept", "none", 0, "input shape", "other")>> ELSE <<>>)
              \o Frame(e)
     /\ checked' = Cardinality({c \in 1..n : ex[c] # -1}) + 2
     /\ UNCHANGED <<g, tab, inv, scale, good, params>>

DoRoundTrip(t, e) ==
  LET n == Len(e.idx)
      bad == {j \in 1..n : e.lab[j] # e.idx[j]}
  IN /\ mm' = (IF bad = {} THEN <<>> ELSE <<Mis("RoundTrip", IdxSig(t, e), First(bad), e.idx[First(bad)], e.lab[First(bad)])>>)
              \o (IF ~e.shapeok THEN <<Mis("ShapeKept", "none", 0, "input shape", "other")>> ELSE <<>>)
              \o Frame(e)
     /\ checked' = n + 2
     /\ UNCHANGED <<g, tab, inv, scale, good, params>>

\* EarlierResultsUnchanged: the result object of event e.of, still held by the caller, read again now
DoRecheck(t, e) ==
  LET o == t.events[e.of]
      then == IF o.op = "mod" THEN o.pts ELSE o.lab
      bad == IF ~e.nowok \/ Len(e.now) # Len(then) THEN {0} ELSE {j \in 1..Len(then) : e.now[j] # then[j]}
  IN /\ mm' = IF bad = {} THEN <<>>
               ELSE <<Mis("EarlierResultsUnchanged", "none", First(bad), IF First(bad) = 0 THEN "the points returned" ELSE then[First(bad)],
                          IF First(bad) = 0 THEN "something else" ELSE e.now[First(bad)])>>
     /\ checked' = Len(then)
     /\ UNCHANGED <<g, tab, inv, scale, good, params>>

\* CopyIsEqual: a pickled / copied object is the same modulator
DoCopy(t, e) ==
  /\ mm' = IF e.out # "ok" THEN <<Mis("CopyIsEqual", "none", 0, "a copy", e.out)>>
           ELSE IF ~e.tabok \/ ~e.mok \/ e.tab # tab THEN <<Mis("CopyIsEqual", "none", 0, "the table of the original", e.how)>>
           ELSE IF ~e.scaleok \/ e.scale # scale THEN <<Mis("CopyIsEqual", "none", 1, scale, e.scale)>>
           ELSE <<>>
  /\ checked' = 2
  /\ UNCHANGED <<g, tab, inv, scale, good, params>>

\* events after a table that could not be used are reported once as unchecked
Skip(e) == /\ mm' = <<Mis("Unchecked", "none", 0, "a usable table", e.op)>> /\ checked' = 0
           /\ UNCHANGED <<g, tab, inv, scale, good, params>>

Pick == /\ tid = 0
        /\ \E i \in 1..Len(Traces) : tid' = i
        /\ UNCHANGED <<pos, g, tab, inv, scale, good, mm, checked, params>>

Event ==
  /\ tid > 0 /\ pos < Len(Traces[tid].events)
  /\ LET t == Traces[tid]  e == t.events[pos + 1] IN
     /\ pos' = pos + 1 /\ UNCHANGED tid
     /\ CASE e.op = "construct" -> DoConstruct(t, e)
          [] e.op = "setoff"    -> IF g.kind = "PSK" THEN DoSetOff(t, e) ELSE Skip(e)
          [] e.op = "mod"       -> IF good THEN DoMod(t, e) ELSE Skip(e)
          [] e.op = "demod"     -> IF good THEN DoDemod(t, e) ELSE Skip(e)
          [] e.op = "roundtrip" -> IF good THEN DoRoundTrip(t, e) ELSE Skip(e)
          [] e.op = "recheck"   -> DoRecheck(t, e)
          [] e.op = "copy"      -> IF good THEN DoCopy(t, e) ELSE Skip(e)

Next == Pick \/ Event

Conforms == \A i \in DOMAIN mm : mm[i].what \in Care => mm[i].sig \in Tolerate

Emit == IF pos' > pos
        THEN EmitCase([tid |-> tid', ev |-> pos', op |-> Traces[tid'].events[pos'].op, checked |-> checked',
                       mm |-> mm', params |-> IF Traces[tid'].events[pos'].op \in {"construct", "setoff"} THEN params' ELSE <<>>])
        ELSE TRUE
=============================================================================
