---------------------------- MODULE Constellation ----------------------------
(* C01 / C15 / C16 - the modulators of pyphysim.modulators.fundamental (Modulator, PSK, QPSK,
   BPSK, QAM) as one machine per Kind (the cardinality is chosen by the first step).

   State: st (none | ok | rejected), the geometry g of the constructed object, the symbol table tab
   (label -> point, see ConstellationOps), its inverse inv, the scale (exact rational: (amplitude
   per lattice unit)^2 resp. radius^2), the phase-offset id off (PSK) and the last return value ret.
   One action per public call:
     Construct(M)         M in Cards: PSK(M, offset 0) / QAM(M) / BPSK(): rejects unsupported cardinalities,
                          otherwise builds the table by the DOCUMENTED construction:
                            PSK  label i sits at ring index g2b(i)   (position p carries b2g(p))
                            QAM  position (R, C) carries the label  b2g(R) * sqrt(M) + b2g(C)
                            BPSK 0 -> +1, 1 -> -1
                          and normalises to unit mean energy.
     SetPhaseOffset(j)    PSK only: rotates the constellation; the labelling must stay Gray.
     Modulate(i)          table lookup; i >= M raises ValueError.
     Demodulate(r)        a ROW of received samples on a rational grid -> for every sample the
                          unique nearest point (exact integer comparison), 0 for ties.
   Modulate / Demodulate return into leaf states (no successors): the graph is a chain of table
   states with a star of calls at each.

   Properties (INVARIANTs):
     Rejects       st = "rejected" iff the cardinality is unsupported
     TableOK       Bijective (M distinct points), GrayAdjacent, UnitEnergy, QamEnergyLaw - in every
                   table state, i.e. at construction and after every SetPhaseOffset
     RoundTrip     Demodulate(Modulate(i)) = i
     ModulateLaw   i < M: the point of label i;  i >= M: ValueError, nothing is emitted
     CopyIsEqual   Copy(how): a pickled / copied / deep-copied object has the same table and scale (hence the same laws)
     EarlierResultsUnchanged   a second Modulate call (Modulate2) leaves the result of the first, still held by
                   the caller, as it was (frame law; a rejected second call changes nothing either)
     MLLaw         what Demodulate returned is THE nearest point by the definition
                   (for all q # p: dist(s, p) < dist(s, q)); 0 is returned only for genuine ties
     Lemmas        NeighbourLemma (small M), CompositionLaws of the error-rate forms derived from
                   the table (C16)

   Named deviations (Dev): what /repo does (first three) and plausible regressions used to show
   that every invariant can fail:
     SetPhaseOffsetDropsGray  PSK.setPhaseOffset rebuilds the table in natural order
     QamGrayIndexInverted     QAM applies the Gray index permutation the wrong way round: position
                              (R, C) carries g2b(R), g2b(C) - not Gray from M = 64 on
     QamAcceptsOne            QAM(1) is accepted (and emits a NaN symbol)
     NoNormalisation, ModulateWraps, DetectRealOnly, GrayTwice, AbsorbsTinyTerms (a detector that compares
     rounded distances: components below 1e-16 vanish), BlockwiseRoundsDown (frames processed in blocks, the
     number of blocks rounded: the tail of a long frame keeps index 0), ModulateReusesBuffer (modulate returns
     a per-object output array that the next same-shape call overwrites), BerNotPerBit (C16: the bit error
     rate form without the division by the bits per symbol)

   Sample rows (stage R emission; `Emit` prints the samples and the nearest COORDINATE of each,
   which is independent of the labelling - the harness looks the label up in the table it
   recorded from the implementation and which Trace_Constellation validated):
     SMode = "grid"   lattice kinds: every (X, Y)/D with |X| <= D(lx+1), |Y| <= D(ly+1), one row per Y
                      PSK: every angle index 0 .. M*D-1 at five radii (1/2, 1, 3, 1e-6, 1e6), rows of RowLen
     SMode = "edge"   PSK, D large: the two samples one angle step either side of every decision
                      boundary (all boundaries when M*2 <= NRows*RowLen, seeded otherwise)
     SMode = "scaled" lattice kinds: samples x0 + x1*10^ex, y0 + y1*10^ey with exponents from Exps (e.g. -200 .. 100
                      for BPSK): a point / boundary / 0 plus a perturbation or a huge component; the nearest point
                      is found by the exact sign of a linear form (ConstellationOps.SignDiff)
     SMode = "seeded" NRows x RowLen samples from the in-spec Lehmer generator: a random point plus
                      an offset from {0, +-1, +-D/2, +-(D-1), +-(D+1), far}  (i.e. 1/D either side of a boundary)
*)
EXTENDS ConstellationOps, Emit

CONSTANTS Kind,     \* "QAM" | "PSK" | "BPSK"
          Cards,    \* set of requested cardinalities (Construct picks one; unsupported ones must be rejected)
          D,        \* sample resolution
          NOff,     \* PSK: phase-offset ids 1..NOff for SetPhaseOffset (0 = at construction)
          SMode, NRows, RowLen, Seed,
          Exps,     \* SMode = "scaled": the decimal exponents of the scaled samples (a sequence containing 0)
          Part, NParts,
          Dev

VARIABLES st,     \* "none" | "ok" | "rejected"
          g,      \* geometry of the constructed object (ConstellationOps.Geo), [kind |-> "none", m |-> requested] otherwise
          tab, inv, scale, off, ret,
          held    \* results of earlier Modulate calls the caller still holds: <<[i, then, now]>> (then = the point
                  \* returned, now = what that returned object holds at present)
vars == <<st, g, tab, inv, scale, off, ret, held>>

M == g.m

(* ------------------------- integer Gray maps on K-bit labels -------------------------------- *)
XorI(a, b, k) == FoldSet(LAMBDA j, acc : acc + ((BitOf(a, j) + BitOf(b, j)) % 2) * (2 ^ j), 0, 0..(k - 1))
B2GI(n, k) == XorI(n, n \div 2, k)
G2BI(n, k) == FoldSet(LAMBDA j, acc : acc + (Cardinality({i \in j..(k - 1) : BitOf(n, i) = 1}) % 2) * (2 ^ j), 0, 0..(k - 1))

(* ------------------------------- table constructions ---------------------------------------- *)
\* (gg: the geometry being constructed)
\* documented: position (R, C) carries b2g(R)*lx + b2g(C)  <=>  label (r, c) sits at (g2b(r), g2b(c))
QamAt(gg, rr, cc) == <<2 * cc - (gg.lx - 1), 2 * rr - (gg.ly - 1)>>
QamGrayTab(gg) == LET h == gg.k \div 2 IN
                  [i \in 1..gg.m |-> QamAt(gg, G2BI((i - 1) \div gg.lx, h), G2BI((i - 1) % gg.lx, h))]
QamInvertedTab(gg) == LET h == gg.k \div 2 IN
                  [i \in 1..gg.m |-> QamAt(gg, B2GI((i - 1) \div gg.lx, h), B2GI((i - 1) % gg.lx, h))]
PskGrayTab(gg)  == [i \in 1..gg.m |-> G2BI(i - 1, gg.k)]
PskNatTab(gg)   == [i \in 1..gg.m |-> i - 1]
PskTwiceTab(gg) == [i \in 1..gg.m |-> G2BI(G2BI(i - 1, gg.k), gg.k)]
BpskTab         == << <<1, 0>>, <<-1, 0>> >>

ConstructTab(gg) ==
  CASE Kind = "QAM"  -> IF gg.m = 1 THEN << <<0, 0>> >>
                        ELSE IF Dev.QamGrayIndexInverted THEN QamInvertedTab(gg) ELSE QamGrayTab(gg)
    [] Kind = "PSK"  -> IF Dev.GrayTwice THEN PskTwiceTab(gg) ELSE PskGrayTab(gg)
    [] Kind = "BPSK" -> BpskTab
OffsetTab(gg) == IF Dev.SetPhaseOffsetDropsGray THEN PskNatTab(gg) ELSE PskGrayTab(gg)

UnitScale(gg, t) == IF IsLattice(gg) THEN RInv(RNorm(TabEnergySum(gg, t), gg.m)) ELSE ROne
ScaleOf(gg, t)   == IF Dev.NoNormalisation \/ gg.m = 1 THEN ROne ELSE UnitScale(gg, t)

(* ----------------------------------- sample rows -------------------------------------------- *)
MD == M * D
\* (the last two entries lie OUTSIDE the hull of the constellation whatever the point: the nearest point is an edge / corner point)
OffsetSet == <<0, 1, -1, D \div 2, -(D \div 2), D - 1, -(D - 1), D + 1, -(D + 1), 3 * D + 1, -(5 * D + 3),
               (2 * g.lx + 3) * D + 1, -((2 * g.lx + 6) * D + 5)>>
\* PSK grid: five radius numbers (1/2, 1, 3 and the extremes 1e-6, 1e6 - by the lemma the radius does not matter)
GridRows == IF IsLattice(g) THEN 2 * D * (g.ly + 1) + 1 ELSE 5 * ((MD + RowLen - 1) \div RowLen)
\* rows are partitioned over NParts TLC processes (this one handles the rows = Part mod NParts)
RowIds == {r \in (IF SMode = "grid" THEN 1..GridRows ELSE 1..NRows) : r % NParts = Part}

Draw(r, c) == LcgStart(Seed + M, (r - 1) * RowLen + c)
Samples(r) ==
  CASE SMode = "grid" /\ IsLattice(g) ->
         [c \in 1..(2 * D * (g.lx + 1) + 1) |-> <<c - 1 - D * (g.lx + 1), r - 1 - D * (g.ly + 1)>>]
    [] SMode = "grid" /\ ~IsLattice(g) ->
         LET nb == (MD + RowLen - 1) \div RowLen   blk == (r - 1) % nb   rad == ((r - 1) \div nb) + 1
             n == IF (blk + 1) * RowLen <= MD THEN RowLen ELSE MD - blk * RowLen
         IN  [c \in 1..n |-> <<blk * RowLen + c - 1, rad>>]
    [] SMode = "edge" ->
         \* sample c of row r: boundary b (between ring indexes b and b+1), side, radius
         [c \in 1..RowLen |->
            LET n == (r - 1) * RowLen + c - 1
                b == IF 2 * M <= NRows * RowLen THEN (n \div 2) % M ELSE Draw(r, c) % M
                side == IF n % 2 = 0 THEN -1 ELSE 1
            IN  <<(D * b + (D \div 2) + side) % MD, (n % 3) + 1>>]
    [] SMode = "seeded" /\ IsLattice(g) ->
         [c \in 1..RowLen |->
            LET u == Draw(r, c)  v == LcgNext(u)  w == LcgNext(v)
                p == (u % M) + 1
            IN  <<D * PX(g, p) + OffsetSet[(v % Len(OffsetSet)) + 1], D * PY(g, p) + OffsetSet[(w % Len(OffsetSet)) + 1]>>]
    [] SMode = "scaled" ->      \* lattice kinds: <<x0, x1, ex, y0, y1, ey>>, see ConstellationOps (extreme scale ratios)
         [c \in 1..RowLen |->
            LET u == Draw(r, c)  v == LcgNext(u)  w == LcgNext(v)
                p == (u % M) + 1
                mant == <<-3, -1, 1, 2, 999, -999>>
            IN  << <<0, PX(g, p), PX(g, p) + 1>>[(v % 3) + 1], mant[((v \div 3) % 6) + 1], Exps[((v \div 18) % Len(Exps)) + 1],
                   <<0, PY(g, p), PY(g, p) + 1>>[(w % 3) + 1], mant[((w \div 3) % 6) + 1], Exps[((w \div 18) % Len(Exps)) + 1] >>]
    [] SMode = "seeded" /\ ~IsLattice(g) ->
         [c \in 1..RowLen |->
            LET u == Draw(r, c)  v == LcgNext(u)  w == LcgNext(v)
            IN  <<((u % M) * D + (v % D)) % MD, (w % 3) + 1>>]

(* -------------------------------------- machine --------------------------------------------- *)
NoRet == [op |-> "none"]
NoGeo(mm) == [kind |-> "none", m |-> mm]
Init == st = "none" /\ g = NoGeo(0) /\ tab = <<>> /\ inv = <<>> /\ scale = ROne /\ off = 0 /\ ret = NoRet /\ held = <<>>

Accepts(mm) == Supported(Kind, mm) \/ (Dev.QamAcceptsOne /\ Kind = "QAM" /\ mm = 1)
Construct(mm) ==
  /\ st = "none"
  /\ IF Accepts(mm)
       THEN LET gg == Geo(Kind, mm)  t == ConstructTab(gg) IN
            /\ st' = "ok" /\ g' = gg /\ tab' = t /\ inv' = InvTab(gg, t) /\ scale' = ScaleOf(gg, t)
       ELSE /\ st' = "rejected" /\ g' = NoGeo(mm) /\ UNCHANGED <<tab, inv, scale>>
  /\ off' = 0 /\ held' = <<>>
  /\ ret' = [op |-> "construct", out |-> IF Accepts(mm) THEN "ok" ELSE "raised"]
ConstructAny == \E mm \in Cards : Construct(mm)

TableState == st = "ok" /\ ret.op \in {"construct", "setoff"}

SetPhaseOffset(j) ==
  /\ TableState /\ Kind = "PSK" /\ j # off
  /\ off' = j /\ tab' = OffsetTab(g) /\ inv' = InvTab(g, OffsetTab(g)) /\ scale' = ScaleOf(g, OffsetTab(g))
  /\ ret' = [op |-> "setoff", out |-> "ok", j |-> j]
  /\ held' = <<>>
  /\ UNCHANGED <<st, g>>

ModIdx == IF M <= 64 THEN 0..(M + 2) ELSE {0, 1, M \div 2, M - 1, M, M + 1, 2 * M}
ModRet(i) == [op |-> "mod", i |-> i,
              out |-> IF i < M THEN "ok" ELSE IF Dev.ModulateWraps THEN "ok" ELSE "raised:ValueError",
              pt  |-> IF i < M THEN tab[i + 1] ELSE IF Dev.ModulateWraps THEN tab[(i % M) + 1] ELSE <<>>]
Modulate(i) ==
  /\ TableState
  /\ ret' = ModRet(i)
  /\ held' = IF i < M THEN << [i |-> i, then |-> tab[i + 1], now |-> tab[i + 1]] >> ELSE <<>>
  /\ UNCHANGED <<st, g, tab, inv, scale, off>>
\* a SECOND modulate call (same shape) while the caller still holds the first result.  A rejected call
\* (index >= M) leaves everything as it was; an accepted one must not touch the array handed out before.
ModIdx2 == {0, 1, M - 1, M}
Modulate2(j) ==
  /\ st = "ok" /\ ret.op = "mod" /\ Len(held) = 1
  /\ ret' = ModRet(j)
  /\ held' = IF j < M
              THEN << [held[1] EXCEPT !.now = IF Dev.ModulateReusesBuffer THEN tab[j + 1] ELSE @],
                      [i |-> j, then |-> tab[j + 1], now |-> tab[j + 1]] >>
              ELSE held
  /\ UNCHANGED <<st, g, tab, inv, scale, off>>

\* what the demodulator computes for one sample: the position (0 = tie)
DetMetric(s, p) == IF Dev.DetectRealOnly /\ IsLattice(g) THEN (s[1] - D * g.cx[p]) * (s[1] - D * g.cx[p])
                   ELSE Metric(g, D, s, p)
DetArgMin(s) ==
  FoldSet(LAMBDA p, acc : LET e == DetMetric(s, p) IN
                          IF acc[3] = 0 \/ e < acc[2] THEN <<p, e, 1>>
                          ELSE IF e = acc[2] THEN <<acc[1], e, acc[3] + 1>> ELSE acc,
          <<0, 0, 0>>, Pos(g))
\* as-is of a detector that compares rounded distances: terms below 1e-16 are absorbed, the first index wins ties
Absorbed(s) == <<s[1], IF s[3] <= -16 THEN 0 ELSE s[2], s[3], s[4], IF s[6] <= -16 THEN 0 ELSE s[5], s[6]>>
Detect(s) == IF SMode = "scaled"
             THEN (IF Dev.AbsorbsTinyTerms THEN ArgMinScaled(g, Absorbed(s))[1] ELSE NearestScaled(g, s))
             ELSE IF Dev.DetectRealOnly THEN DetArgMin(s)[1] ELSE Nearest(g, D, s)
\* as-is of a block-wise detector whose number of blocks is ROUNDED: the tail of a long frame keeps index 0
BlockLen == 4
Detected(ss, c) == IF Dev.BlockwiseRoundsDown /\ c > BlockLen * ((2 * Len(ss) + BlockLen) \div (2 * BlockLen))
                   THEN PosOf(g, tab[1]) ELSE Detect(ss[c])

Demodulate(r) ==
  /\ TableState
  /\ LET ss == Samples(r)
         ps == [c \in DOMAIN ss |-> Detected(ss, c)]
     IN  ret' = [op |-> "demod", row |-> r, ss |-> ss, pos |-> ps,
                 idx |-> [c \in DOMAIN ss |-> IF ps[c] = 0 THEN -1 ELSE inv[ps[c]] - 1]]
  /\ UNCHANGED <<st, g, tab, inv, scale, off, held>>

\* a copy of the object (pickle round trip, copy.copy, copy.deepcopy) is the same modulator: same table, same scale
QamNatTab(gg) == [i \in 1..gg.m |-> QamAt(gg, (i - 1) \div gg.lx, (i - 1) % gg.lx)]
Copy(how) ==
  /\ TableState
  /\ ret' = [op |-> "copy", how |-> how, scalec |-> scale,
             tabc |-> IF Dev.CopyRebuildsNatural /\ Kind = "QAM" /\ how # "copy.copy" THEN QamNatTab(g) ELSE tab]
  /\ UNCHANGED <<st, g, tab, inv, scale, off, held>>
CopyAny == TableState /\ \E how \in {"pickle", "copy.copy", "copy.deepcopy"} : Copy(how)

SetPhaseOffsetAny == TableState /\ \E j \in 1..NOff : SetPhaseOffset(j)
ModulateAny   == TableState /\ \E i \in ModIdx : Modulate(i)
Modulate2Any  == st = "ok" /\ ret.op = "mod" /\ \E j \in ModIdx2 : Modulate2(j)
DemodulateAny == TableState /\ \E r \in RowIds : Demodulate(r)
Next == ConstructAny \/ SetPhaseOffsetAny \/ ModulateAny \/ Modulate2Any \/ DemodulateAny \/ CopyAny

(* ------------------------------------- properties ------------------------------------------- *)
Rejects == st # "none" => ((st = "rejected") <=> ~Supported(Kind, g.m))

TableOK == TableState =>
  /\ Bijective(g, tab)
  /\ GrayAdjacentInv(g, inv)
  /\ UnitEnergy(g, tab, scale, TRUE)
  /\ QamEnergyLaw(g, tab)
  /\ \A p \in Pos(g) : inv[p] \in 1..M /\ PosOf(g, tab[inv[p]]) = p

RoundTripSet == IF M <= 256 THEN Pos(g) ELSE {1, 2, M \div 2, M - 1, M} \cup {(LcgStart(Seed, n) % M) + 1 : n \in 1..40}
RoundTrip == TableState =>
  \A l \in RoundTripSet : LET p == PosOf(g, tab[l]) IN
                          /\ Nearest(g, D, PointSample(g, D, p)) = p
                          /\ inv[p] = l

ModulateLaw == (st = "ok" /\ ret.op = "mod") =>
  IF ret.i < M THEN ret.out = "ok" /\ ret.pt = tab[ret.i + 1]
  ELSE ret.out = "raised:ValueError" /\ ret.pt = <<>>

\* frame law: an object that went through pickle / copy / deepcopy satisfies the same laws because it IS the same table
CopyIsEqual == (st = "ok" /\ ret.op = "copy") => (ret.tabc = tab /\ ret.scalec = scale /\ GrayAdjacent(g, ret.tabc))

\* frame law (results stay results): what was handed out by an earlier call still holds the points it held when
\* it was returned, so demodulating it still gives the indexes it was made from
EarlierResultsUnchanged ==
  \A h \in DOMAIN held : /\ held[h].now = held[h].then
                          /\ inv[PosOf(g, held[h].now)] - 1 = held[h].i

\* (every sample for M <= 16; every fourth row above - the fold is the same operator for all rows)
MLLaw == (st = "ok" /\ ret.op = "demod" /\ (M <= 16 \/ ret.row % 4 = 1)) =>
  \A c \in DOMAIN ret.ss :
     IF SMode = "scaled"
     THEN /\ ScaledRegime(g, ret.ss[c], {Exps[i] : i \in DOMAIN Exps})
          /\ IF ret.pos[c] = 0 THEN IsTieScaled(g, ret.ss[c]) ELSE IsNearestScaled(g, ret.ss[c], ret.pos[c])
     ELSE IF ret.pos[c] = 0 THEN IsTie(g, D, ret.ss[c])
     ELSE /\ IsNearest(g, D, ret.ss[c], ret.pos[c])
          /\ ret.idx[c] \in 0..(M - 1) /\ PosOf(g, tab[ret.idx[c] + 1]) = ret.pos[c]

Lemmas == TableState =>
  /\ (IsLattice(g) /\ M <= 256) => NeighbourLemma(g)
  /\ (IsLattice(g) /\ M <= 16) => ScaledLemma(g)
  /\ M > 1 => LET pr0 == SerParams(g, tab, scale)
                  pr  == IF Dev.BerNotPerBit THEN [pr0 EXCEPT !.k = 1] ELSE pr0
              IN  pr.sym /\ CompositionLaws(pr)

TypeOK == /\ st \in {"none", "ok", "rejected"}
          /\ off \in 0..NOff
          /\ ret.op \in {"none", "construct", "setoff", "mod", "demod", "copy"}

(* -------------------------------------- emission -------------------------------------------- *)
\* nearest COORDINATE per sample: <<x, y>> (lattice; <<0, 0>> = tie, never a point of an even grid)
\* or ring index (PSK; -1 = tie)
NearCoord(p) == IF IsLattice(g') THEN (IF p = 0 THEN <<0, 0>> ELSE Coord(g', p)) ELSE (IF p = 0 THEN -1 ELSE p - 1)
Emit ==
  IF ret'.op = "demod"
  THEN EmitCase([kind |-> Kind, m |-> g'.m, d |-> D, smode |-> SMode, row |-> ret'.row,
                 a |-> [c \in DOMAIN ret'.ss |-> ret'.ss[c][1]],
                 b |-> [c \in DOMAIN ret'.ss |-> ret'.ss[c][2]],
                 ss |-> IF SMode = "scaled" THEN ret'.ss ELSE <<>>,
                 near |-> [c \in DOMAIN ret'.pos |-> NearCoord(ret'.pos[c])]])
  ELSE IF ret'.op \in {"construct", "setoff"}
  THEN EmitCase([kind |-> Kind, m |-> g'.m, table |-> ret'.op, out |-> ret'.out, off |-> off',
                 scale |-> scale',
                 params |-> IF st' = "ok" /\ g'.m > 1 THEN SerParams(g', tab', scale') ELSE <<>>])
  ELSE TRUE
=============================================================================
