------------------------------- MODULE Rat --------------------------------
(* Exact rational arithmetic on pairs <<n, d>> with d > 0 and gcd(|n|, d) = 1.
   TLC integers are 32-bit; callers keep alphabets small (overflow aborts TLC and is
   reported by the harness as a machinery failure, never as a verdict).                 *)
EXTENDS Integers, Sequences

Abs(x) == IF x < 0 THEN -x ELSE x
RECURSIVE Gcd(_, _)
Gcd(a, b) == IF b = 0 THEN a ELSE Gcd(b, a % b)
Sgn(x) == IF x < 0 THEN -1 ELSE IF x = 0 THEN 0 ELSE 1

RNorm(n, d) == LET s == IF d < 0 THEN -1 ELSE 1
                   g == Gcd(Abs(n), Abs(d))
               IN  IF n = 0 THEN <<0, 1>> ELSE <<(s * n) \div g, (s * d) \div g>>
R(n)        == <<n, 1>>
RZero       == <<0, 1>>
ROne        == <<1, 1>>
IsRat(q)    == q \in Int \X Int /\ q[2] > 0 /\ Gcd(Abs(q[1]), q[2]) = 1

RAdd(a, b)  == RNorm(a[1] * b[2] + b[1] * a[2], a[2] * b[2])
RNeg(a)     == <<-a[1], a[2]>>
RSub(a, b)  == RAdd(a, RNeg(b))
RMul(a, b)  == RNorm(a[1] * b[1], a[2] * b[2])
RInv(a)     == RNorm(a[2], a[1])             \* a # 0
RDiv(a, b)  == RMul(a, RInv(b))
RLt(a, b)   == a[1] * b[2] < b[1] * a[2]
RLe(a, b)   == a[1] * b[2] <= b[1] * a[2]
REq(a, b)   == a[1] * b[2] = b[1] * a[2]
RMax(a, b)  == IF RLt(a, b) THEN b ELSE a
RMin(a, b)  == IF RLt(a, b) THEN a ELSE b
RSgn(a)     == Sgn(a[1])
RIsPos(a)   == a[1] > 0
RAbs(a)     == <<Abs(a[1]), a[2]>>
RSq(a)      == RMul(a, a)

RECURSIVE RSumSeq(_)
RSumSeq(s)  == IF s = <<>> THEN RZero ELSE RAdd(Head(s), RSumSeq(Tail(s)))
RECURSIVE RProdSeq(_)
RProdSeq(s) == IF s = <<>> THEN ROne ELSE RMul(Head(s), RProdSeq(Tail(s)))
RECURSIVE RMaxSeq(_)
RMaxSeq(s)  == IF Len(s) = 1 THEN s[1] ELSE RMax(Head(s), RMaxSeq(Tail(s)))
RECURSIVE RMinSeq(_)
RMinSeq(s)  == IF Len(s) = 1 THEN s[1] ELSE RMin(Head(s), RMinSeq(Tail(s)))

\* floor and round-half-even of a rational (to Int)
RFloor(a)   == IF a[1] >= 0 THEN a[1] \div a[2] ELSE -((-a[1] + a[2] - 1) \div a[2])
RRoundHalfEven(a) ==
    LET f == RFloor(a)
        r == RSub(a, R(f))              \* in [0,1)
        t == RSub(r, <<1, 2>>)
    IN  IF RSgn(t) < 0 THEN f
        ELSE IF RSgn(t) > 0 THEN f + 1
        ELSE IF f % 2 = 0 THEN f ELSE f + 1
=============================================================================
