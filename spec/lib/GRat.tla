------------------------------- MODULE GRat -------------------------------
(* Gaussian rationals  (re + i*im)/den  as triples <<re, im, den>> with den > 0 and
   gcd(|re|, |im|, den) = 1  (canonical, so equality is component-wise).
   32-bit integers: keep alphabets small.                                               *)
EXTENDS Integers, Sequences, Rat

GNorm(re, im, den) ==
    LET s == IF den < 0 THEN -1 ELSE 1
        g == Gcd(Gcd(Abs(re), Abs(im)), Abs(den))
    IN  IF re = 0 /\ im = 0 THEN <<0, 0, 1>>
        ELSE <<(s * re) \div g, (s * im) \div g, (s * den) \div g>>
G(re, im)   == <<re, im, 1>>
GZero       == <<0, 0, 1>>
GOne        == <<1, 0, 1>>
GI          == <<0, 1, 1>>
GFromRat(q) == <<q[1], 0, q[2]>>
GIsZero(a)  == a[1] = 0 /\ a[2] = 0

GAdd(a, b)  == GNorm(a[1] * b[3] + b[1] * a[3], a[2] * b[3] + b[2] * a[3], a[3] * b[3])
GNeg(a)     == <<-a[1], -a[2], a[3]>>
GSub(a, b)  == GAdd(a, GNeg(b))
GMul(a, b)  == GNorm(a[1] * b[1] - a[2] * b[2], a[1] * b[2] + a[2] * b[1], a[3] * b[3])
GConj(a)    == <<a[1], -a[2], a[3]>>
GAbs2(a)    == RNorm(a[1] * a[1] + a[2] * a[2], a[3] * a[3])          \* a Rat
GInv(a)     == GNorm(a[1] * a[3], -a[2] * a[3], a[1] * a[1] + a[2] * a[2])   \* a # 0
GDiv(a, b)  == GMul(a, GInv(b))
GScaleRat(q, a) == GNorm(q[1] * a[1], q[1] * a[2], q[2] * a[3])
GRe(a)      == RNorm(a[1], a[3])
GIm(a)      == RNorm(a[2], a[3])

RECURSIVE GSumSeq(_)
GSumSeq(s)  == IF s = <<>> THEN GZero ELSE GAdd(Head(s), GSumSeq(Tail(s)))
=============================================================================
