------------------------------- MODULE Emit -------------------------------
(* Emission of explored behaviours to the harness (DESIGN.md section 2, Appendix B).
   `EmitEdge(rec)` / `EmitCase(rec)` are used as conjuncts of an ACTION_CONSTRAINT (primed
   variables allowed) or of an action; they always evaluate to TRUE and print one line
       <<"VEDGE", "<json>">>
   which harness/tlc.py collects.  Emission runs use -workers 1.                        *)
EXTENDS TLC, Json, Naturals

EmitEdge(rec) == PrintT(<<"VEDGE", ToJson(rec)>>)
EmitCase(rec) == PrintT(<<"VCASE", ToJson(rec)>>)

(* A deterministic pseudo-random stream (TLC's RandomElement is not reproducible under
   -seed in BFS mode).  Lehmer generator modulo the prime 65537, multiplier 75 (ZX81).   *)
LcgNext(x) == (x * 75) % 65537
RECURSIVE LcgIter(_, _)
LcgIter(x, n) == IF n = 0 THEN x ELSE LcgIter(LcgNext(x), n - 1)
LcgStart(seed, k) == LcgIter(((seed * 7919 + k * 104729) % 65536) + 1, 3)
=============================================================================
