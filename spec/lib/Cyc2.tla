------------------------------- MODULE Cyc2 -------------------------------
(* Exact arithmetic in the cyclotomic integers  Z[zeta_M],  zeta_M = exp(2 pi i / M),
   M a power of two, M >= 4  (DESIGN.md section 2; used by C02 and C03).

   REPRESENTATION.  An element is a tuple of M/2 INTEGERS  <<c_0, ..., c_{M/2-1}>>  and denotes
         c_0 + c_1 zeta + ... + c_{M/2-1} zeta^(M/2-1).
   Because zeta^(M/2) = -1 and 1, zeta, ..., zeta^(M/2-1) is a Z-basis of the ring (the M-th
   cyclotomic polynomial is x^(M/2) + 1), the representation is CANONICAL: two elements are equal
   iff their tuples are equal, so `=` of TLA+ is equality in the ring.  The ring of an element is
   recovered from its length (`CyM(a) = 2 * Len(a)`); operators that create elements take M.
   M >= 4 guarantees  i = zeta^(M/4)  is in the ring; for a DFT of size N (a power of two,
   N divides M) the twiddle factor is  zeta_N = zeta^(M/N).  `CyRing(N) = max(N, 4)` is the
   smallest admissible M for DFT size N.

   Gaussian integers are pairs <<re, im>> (the convention of the rest of the library for
   integer complex numbers); sequences are 1-based TLA+ sequences, so  x[n+1]  is sample n.

   INTERFACE (nothing else is meant to be used from outside)
     CyIsPow2(n)                 n is a power of two (n >= 1)
     CyRing(N)                   max(N, 4)
     CyM(a), CyDim(M)            ring of an element; number of coordinates M/2
     CyIs(a, M)                  a is a well-formed element of Z[zeta_M]
     CyZero(M), CyOne(M), CyI(M), CyZeta(M, k)      0, 1, i, zeta^k (k any integer)
     CyFromInt(M, n), CyFromG(M, g)                 embed an integer / a Gaussian integer
     CyIsG(a), CyToG(a)          a lies in Z[i];  its <<re, im>>
     CyAdd(a,b), CyNeg(a), CySub(a,b), CyScale(n,a) ring addition, negation, integer multiple
     CyMulZeta(a, k)             zeta^k * a   (signed rotation, k any integer)
     CyMulI(a), CyMulG(g, a)     i * a,  (re + i im) * a
     CyMul(a, b)                 general product
     CyConj(a)                   complex conjugate
     CyLift(a, M2)               the same number as an element of Z[zeta_M2]  (M divides M2)
     CySum(s, M)                 sum of a sequence of elements of Z[zeta_M]  (M needed for <<>>)
     CyDft(x, M)                 X[k] = SUM_n x[n] zeta_N^(-k n),  N = Len(x), x in Z[zeta_M]^N
     CyIdftN(X, M)               N * IDFT:  x[n] = SUM_k X[k] zeta_N^(+k n)   (the factor 1/N
                                 is NOT applied - the caller carries it symbolically)
     CyDftG(g, M), CyIdftNG(g, M) the same for sequences of Gaussian integers
     CyDftTaps(taps, N, M)       DFT of size N of a sparse impulse response: taps is a sequence of
                                 <<delay, <<re, im>>>>, delay any natural number (a delay >= N
                                 ALIASES onto delay mod N, as the DTFT sampled at N points does)
     CyCircConv(h, x, M)         circular convolution of two length-N sequences in Z[zeta_M]
     CySelfTest(M)               laws of the ring and the DFT on a few samples (put it in an ASSUME)
   LAWS (checked by CySelfTest, relied on by the users)
     CyDft(CyIdftN(X, M), M) = N * X        CyIdftN(CyDft(x, M), M) = N * x
     CyDft(CyCircConv(h, x)) [k] = CyMul(CyDft(h)[k], CyDft(x)[k])
   EVALUATION in the harness (the only trusted numeric step):  value(a) = SUM_j a[j+1] * exp(2 pi i j / M).
   32-bit integers: coefficients grow like (number of terms) * (largest input); keep inputs small.   *)
EXTENDS Integers, Sequences

RECURSIVE CyIsPow2(_)
CyIsPow2(n)  == n = 1 \/ (n > 1 /\ n % 2 = 0 /\ CyIsPow2(n \div 2))
CyRing(N)    == IF N < 4 THEN 4 ELSE N
CyDim(M)     == M \div 2
CyM(a)       == 2 * Len(a)
CyIs(a, M)   == /\ CyIsPow2(M) /\ M >= 4
                /\ DOMAIN a = 1..CyDim(M)
                /\ \A j \in 1..CyDim(M) : a[j] \in Int

CyZero(M)       == [j \in 1..CyDim(M) |-> 0]
\* zeta^k for any integer k: +1 at coordinate k mod M when that is below M/2, else -1 at (k mod M) - M/2
CyZeta(M, k)    == LET kk == k % M  H == CyDim(M)
                   IN  [j \in 1..H |-> IF kk < H THEN (IF j = kk + 1 THEN 1 ELSE 0)
                                                 ELSE (IF j = kk - H + 1 THEN -1 ELSE 0)]
CyOne(M)        == CyZeta(M, 0)
CyI(M)          == CyZeta(M, M \div 4)
CyFromInt(M, n) == [j \in 1..CyDim(M) |-> IF j = 1 THEN n ELSE 0]
CyFromG(M, g)   == [j \in 1..CyDim(M) |-> IF j = 1 THEN g[1] ELSE IF j = (M \div 4) + 1 THEN g[2] ELSE 0]
CyIsG(a)        == \A j \in 1..Len(a) : (j # 1 /\ j # (CyM(a) \div 4) + 1) => a[j] = 0
CyToG(a)        == <<a[1], a[(CyM(a) \div 4) + 1]>>

CyAdd(a, b)     == [j \in 1..Len(a) |-> a[j] + b[j]]
CyNeg(a)        == [j \in 1..Len(a) |-> -a[j]]
CySub(a, b)     == [j \in 1..Len(a) |-> a[j] - b[j]]
CyScale(n, a)   == [j \in 1..Len(a) |-> n * a[j]]

\* coordinate t (0-based) of zeta^k * a: the term a_j zeta^(j+k) lands on coordinate (j+k) mod M when that
\* is below M/2 and, negated, on (j+k) mod M - M/2 otherwise; solving for j gives a signed rotation.
CyRotCoef(a, k, t) == LET H == Len(a)  j == (t - k) % (2 * H)
                      IN  IF j < H THEN a[j + 1] ELSE -a[j - H + 1]
CyMulZeta(a, k) == [t \in 1..Len(a) |-> CyRotCoef(a, k, t - 1)]
CyMulI(a)       == CyMulZeta(a, Len(a) \div 2)
CyMulG(g, a)    == LET ia == CyMulI(a) IN [j \in 1..Len(a) |-> g[1] * a[j] + g[2] * ia[j]]

RECURSIVE CyISum(_, _)      \* sum of the integers s[1..n]
CyISum(s, n)    == IF n = 0 THEN 0 ELSE s[n] + CyISum(s, n - 1)
\* sum of a sequence of ring elements, coordinate-wise
CySum(s, M)     == [t \in 1..CyDim(M) |-> CyISum([n \in 1..Len(s) |-> s[n][t]], Len(s))]

\* a * b = SUM_j a_j (zeta^j b)
CyMul(a, b)     == [t \in 1..Len(a) |-> CyISum([j \in 1..Len(a) |-> a[j] * CyRotCoef(b, j - 1, t - 1)], Len(a))]

\* conj(zeta^j) = zeta^(-j) = -zeta^(M/2-j)  (j > 0)
CyConj(a)       == [t \in 1..Len(a) |-> IF t = 1 THEN a[1] ELSE -a[Len(a) - t + 2]]

\* zeta_M = zeta_M2^(M2/M)
CyLift(a, M2)   == LET r == M2 \div CyM(a)
                   IN  [t \in 1..CyDim(M2) |-> IF (t - 1) % r = 0 THEN a[((t - 1) \div r) + 1] ELSE 0]

(* ------------------------------------ DFT of size N = Len(x) ----------------------------------- *)
\* SUM_n zeta^(sgn * k * n * M/N) x[n]   evaluated coordinate-wise, without intermediate vectors
CyDftGen(x, M, sgn) ==
    LET N == Len(x)  st == M \div N
    IN  [k \in 1..N |-> [t \in 1..CyDim(M) |->
            CyISum([n \in 1..N |-> CyRotCoef(x[n], sgn * (k - 1) * (n - 1) * st, t - 1)], N)]]
CyDft(x, M)     == CyDftGen(x, M, -1)
CyIdftN(X, M)   == CyDftGen(X, M, 1)
CyDftG(g, M)    == CyDft([n \in 1..Len(g) |-> CyFromG(M, g[n])], M)
CyIdftNG(g, M)  == CyIdftN([n \in 1..Len(g) |-> CyFromG(M, g[n])], M)

\* H[k] = SUM_taps value * zeta_N^(-k * delay);  zeta_N^N = 1, so delay >= N aliases onto delay mod N
CyDftTaps(taps, N, M) ==
    LET st == M \div N
    IN  [k \in 1..N |-> CySum([q \in 1..Len(taps) |->
                                  CyMulZeta(CyFromG(M, taps[q][2]), -((k - 1) * taps[q][1] * st))], M)]

\* circular convolution: y[n] = SUM_m h[m] x[(n - m) mod N]
CyCircConv(h, x, M) ==
    LET N == Len(x)
    IN  [n \in 1..N |-> CySum([m \in 1..N |-> CyMul(h[m], x[((n - m) % N) + 1])], M)]

(* ------------------------------------------ self test ----------------------------------------- *)
CySelfTest(M) ==
    LET H  == CyDim(M)
        a  == [j \in 1..H |-> ((3 * j) % 5) - 2]
        b  == [j \in 1..H |-> ((7 * j) % 4) - 1]
        c  == [j \in 1..H |-> IF j = 2 THEN 1 ELSE IF j = H THEN -2 ELSE 0]
        N  == IF M > 8 THEN 8 ELSE M
        x  == [n \in 1..N |-> CyMulZeta(IF n % 2 = 0 THEN a ELSE b, n)]
        h  == [n \in 1..N |-> IF n = 1 THEN b ELSE IF n = N THEN c ELSE CyZero(M)]
        g  == [n \in 1..N |-> <<(n % 3) - 1, ((2 * n) % 3) - 1>>]
    IN  /\ CyIs(a, M) /\ CyIs(b, M) /\ CyIs(CyMul(a, b), M)
        /\ CyZeta(M, H) = CyNeg(CyOne(M))                                   \* zeta^(M/2) = -1
        /\ CyZeta(M, M) = CyOne(M) /\ CyZeta(M, -1) = CyConj(CyZeta(M, 1))
        /\ CyMul(CyI(M), CyI(M)) = CyNeg(CyOne(M))                          \* i^2 = -1
        /\ CyMulI(a) = CyMul(CyI(M), a) /\ CyMulG(<<2, -3>>, a) = CyMul(CyFromG(M, <<2, -3>>), a)
        /\ \A k \in -M..(2 * M) : CyMulZeta(a, k) = CyMul(CyZeta(M, k), a)
        /\ CyMul(a, b) = CyMul(b, a) /\ CyMul(CyMul(a, b), c) = CyMul(a, CyMul(b, c))
        /\ CyMul(a, CyAdd(b, c)) = CyAdd(CyMul(a, b), CyMul(a, c))
        /\ CyMul(a, CyOne(M)) = a /\ CyMul(a, CyZero(M)) = CyZero(M)
        /\ CyConj(CyMul(a, b)) = CyMul(CyConj(a), CyConj(b)) /\ CyConj(CyConj(a)) = a
        /\ CyIsG(CyMul(a, CyConj(a))) = (CyMul(a, CyConj(a)) = CyFromG(M, CyToG(CyMul(a, CyConj(a)))))
        /\ CyIsG(CyFromG(M, <<4, -7>>)) /\ CyToG(CyFromG(M, <<4, -7>>)) = <<4, -7>>
        /\ CySum(<<a, b, c>>, M) = CyAdd(a, CyAdd(b, c)) /\ CySum(<<>>, M) = CyZero(M)
        /\ CyLift(CyMul(a, b), 2 * M) = CyMul(CyLift(a, 2 * M), CyLift(b, 2 * M))
        /\ CyLift(CyI(M), 2 * M) = CyI(2 * M)
        /\ CyDft(CyIdftN(x, M), M) = [n \in 1..N |-> CyScale(N, x[n])]
        /\ CyIdftN(CyDft(x, M), M) = [n \in 1..N |-> CyScale(N, x[n])]
        /\ LET X == CyDft(x, M)  Hh == CyDft(h, M)  Y == CyDft(CyCircConv(h, x, M), M)
           IN  \A k \in 1..N : Y[k] = CyMul(Hh[k], X[k])
        /\ CyDftG(g, M)[1] = CyFromG(M, <<CyISum([n \in 1..N |-> g[n][1]], N), CyISum([n \in 1..N |-> g[n][2]], N)>>)
        /\ CyDftTaps(<<<<0, <<1, 2>>>>, <<N - 1, <<0, -1>>>>, <<N, <<3, 0>>>>>>, N, M)
             = CyDftG([n \in 1..N |-> IF n = 1 THEN <<4, 2>> ELSE IF n = N THEN <<0, -1>> ELSE <<0, 0>>], M)
=============================================================================
