------------------------------- MODULE QR3 --------------------------------
(* Exact arithmetic in the real quadratic field Q(sqrt 3) and plane geometry over it.

   An element is a triple <<a, b, d>> meaning (a + b*sqrt3)/d with d > 0 and
   gcd(|a|, |b|, d) = 1.  1 and sqrt3 are linearly independent over Q, so this normal form
   is canonical: two elements are equal iff the triples are equal.  The sign of an
   element is decided exactly (compare a^2 with 3 b^2 when a and b have opposite signs), so
   every orientation / containment / ordering decision made with this module is exact.

   cos and sin of every multiple of 30 degrees are in {0, +-1/2, +-sqrt3/2, +-1}, hence the
   regular hexagon, the 12 "vertices" of a circle, every rotation by a multiple of 30
   degrees and the hexagonal cell lattice stay inside Q(sqrt 3)^2.

   TLC integers are 32 bit: callers keep numerators small (coordinates with denominators
   up to ~50, magnitudes up to ~10); an overflow aborts TLC and is reported by the harness
   as machinery failure, never as a verdict.                                            *)
EXTENDS Integers, Sequences

QAbsI(x) == IF x < 0 THEN -x ELSE x
QSgnI(x) == IF x < 0 THEN -1 ELSE IF x = 0 THEN 0 ELSE 1
RECURSIVE QGcd(_, _)
QGcd(a, b) == IF b = 0 THEN a ELSE QGcd(b, a % b)

\* normal form of (a + b sqrt3)/d, d # 0
QN(a, b, d) == LET s == IF d < 0 THEN -1 ELSE 1
                   g == QGcd(QGcd(QAbsI(a), QAbsI(b)), QAbsI(d))
               IN  <<(s * a) \div g, (s * b) \div g, (s * d) \div g>>

QI(n)     == <<n, 0, 1>>              \* integer
QF(n, d)  == QN(n, 0, d)              \* rational n/d
QR(a, b, d) == QN(a, b, d)
Q0        == <<0, 0, 1>>
Q1        == <<1, 0, 1>>
QSqrt3    == <<0, 1, 1>>
IsQ(x)    == /\ x \in Int \X Int \X Int /\ x[3] > 0
             /\ QGcd(QGcd(QAbsI(x[1]), QAbsI(x[2])), x[3]) = 1

QNeg(x)    == <<-x[1], -x[2], x[3]>>
QAdd(x, y) == LET g == QGcd(x[3], y[3])
                  m == y[3] \div g
                  n == x[3] \div g
              IN  QN(x[1] * m + y[1] * n, x[2] * m + y[2] * n, x[3] * m)
QSub(x, y) == QAdd(x, QNeg(y))
QMul(x, y) == QN(x[1] * y[1] + 3 * x[2] * y[2], x[1] * y[2] + x[2] * y[1], x[3] * y[3])
QSq(x)     == QMul(x, x)
QMulI(k, x) == QN(k * x[1], k * x[2], x[3])
QDivI(x, k) == QN(x[1], x[2], x[3] * k)                   \* k # 0
\* compare the positive rational a/b (b = 0: infinity) with the tail [d_i; d_i+1, ...] of the continued
\* fraction sqrt3 = [1; 1, 2, 1, 2, ...]: +1 greater, -1 smaller (never equal: sqrt3 is irrational).
\* Euclid-like, no products - used when a^2 and 3 b^2 would not fit 32 bits.
RECURSIVE QCmpCF(_, _, _)
QCmpCF(a, b, i) ==
   IF b = 0 THEN 1
   ELSE LET d == IF i = 0 \/ i % 2 = 1 THEN 1 ELSE 2
            f == a \div b
        IN  IF f > d THEN 1 ELSE IF f < d THEN -1 ELSE -QCmpCF(b, a - f * b, i + 1)
\* sign of a - b sqrt3 for a, b > 0
QCmpSqrt3(a, b) == IF a >= 2 * b THEN 1 ELSE IF a <= b THEN -1
                   ELSE IF a < 26000 THEN (IF a * a > 3 * b * b THEN 1 ELSE -1)
                   ELSE QCmpCF(a, b, 0)
\* exact sign of a + b sqrt3
QSgn(x) == LET a == x[1]
               b == x[2]
           IN  IF a >= 0 /\ b >= 0 THEN (IF a = 0 /\ b = 0 THEN 0 ELSE 1)
               ELSE IF a <= 0 /\ b <= 0 THEN -1
               ELSE IF a > 0 THEN QCmpSqrt3(a, -b)
               ELSE -QCmpSqrt3(-a, b)
\* 1/x = d (a - b sqrt3) / (a^2 - 3 b^2);  the norm a^2 - 3 b^2 is non-zero for x # 0
QInv(x)    == QN(x[3] * x[1], -(x[3] * x[2]), x[1] * x[1] - 3 * x[2] * x[2])
QDiv(x, y) == QMul(x, QInv(y))
QLt(x, y)  == QSgn(QSub(x, y)) < 0
QLe(x, y)  == QSgn(QSub(x, y)) <= 0
QIsZero(x) == x[1] = 0 /\ x[2] = 0
QIsPos(x)  == QSgn(x) > 0
QMin(x, y) == IF QLt(y, x) THEN y ELSE x
QMax(x, y) == IF QLt(x, y) THEN y ELSE x
QAbs(x)    == IF QSgn(x) < 0 THEN QNeg(x) ELSE x

RECURSIVE QSumSeq(_)
QSumSeq(s) == IF s = <<>> THEN Q0 ELSE QAdd(Head(s), QSumSeq(Tail(s)))
RECURSIVE QMinSeq(_)
QMinSeq(s) == IF Len(s) = 1 THEN s[1] ELSE QMin(Head(s), QMinSeq(Tail(s)))
RECURSIVE QMaxSeq(_)
QMaxSeq(s) == IF Len(s) = 1 THEN s[1] ELSE QMax(Head(s), QMaxSeq(Tail(s)))

(* ------------------------------ points and vectors <<x, y>> ---------------------------------- *)
Pt(x, y)     == <<x, y>>
POrigin      == <<Q0, Q0>>
PAdd(p, q)   == <<QAdd(p[1], q[1]), QAdd(p[2], q[2])>>
PSub(p, q)   == <<QSub(p[1], q[1]), QSub(p[2], q[2])>>
PNeg(p)      == <<QNeg(p[1]), QNeg(p[2])>>
PScale(k, p) == <<QMul(k, p[1]), QMul(k, p[2])>>            \* k in Q(sqrt3)
PDivI(p, n)  == <<QDivI(p[1], n), QDivI(p[2], n)>>
Cross(u, v)  == QSub(QMul(u[1], v[2]), QMul(u[2], v[1]))
Dot(u, v)    == QAdd(QMul(u[1], v[1]), QMul(u[2], v[2]))
Norm2(u)     == Dot(u, u)
Dist2(p, q)  == Norm2(PSub(p, q))
RECURSIVE PSumSeq(_)
PSumSeq(s)   == IF s = <<>> THEN POrigin ELSE PAdd(Head(s), PSumSeq(Tail(s)))
Centroid(s)  == PDivI(PSumSeq(s), Len(s))

(* ------------------------------ multiples of 30 degrees -------------------------------------- *)
\* cos(30 k degrees), k = 0 .. 11
CosTab == << <<1, 0, 1>>, <<0, 1, 2>>, <<1, 0, 2>>, <<0, 0, 1>>, <<-1, 0, 2>>, <<0, -1, 2>>,
             <<-1, 0, 1>>, <<0, -1, 2>>, <<-1, 0, 2>>, <<0, 0, 1>>, <<1, 0, 2>>, <<0, 1, 2>> >>
Cos30(k) == CosTab[(k % 12) + 1]
Sin30(k) == CosTab[((k + 9) % 12) + 1]                      \* sin x = cos(x - 90)
Cis(k)   == <<Cos30(k), Sin30(k)>>                          \* unit vector at 30 k degrees
\* counter-clockwise rotation about the origin by 30 k degrees (k any integer)
Rot(k, p) == LET c == Cos30(k)
                 s == Sin30(k)
             IN  <<QSub(QMul(c, p[1]), QMul(s, p[2])), QAdd(QMul(s, p[1]), QMul(c, p[2]))>>
\* degrees (a multiple of 30, any sign, any number of turns) -> k in 0 .. 11
DegK(deg) == (deg \div 30) % 12
RotDeg(deg, p) == Rot(DegK(deg), p)
RotAbout(k, c, p) == PAdd(c, Rot(k, PSub(p, c)))

(* ------------------------------ polygons = sequences of points ------------------------------- *)
NextIdx(poly, i) == (i % Len(poly)) + 1
EdgeA(poly, i)   == poly[i]
EdgeB(poly, i)   == poly[NextIdx(poly, i)]
Translate(poly, t)  == [i \in 1..Len(poly) |-> PAdd(poly[i], t)]
RotPoly(k, poly)    == [i \in 1..Len(poly) |-> Rot(k, poly[i])]

OnSegment(p, a, b) == LET e == PSub(b, a)
                          w == PSub(p, a)
                          d == Dot(w, e)
                      IN  /\ QIsZero(Cross(e, w))
                          /\ QSgn(d) >= 0
                          /\ QLe(d, Norm2(e))
OnBoundary(poly, p) == \E i \in 1..Len(poly) : OnSegment(p, EdgeA(poly, i), EdgeB(poly, i))

\* winding number of the closed polygon around p (p not on the boundary): signed crossings of
\* the horizontal ray from p to the right
WindEdge(p, a, b) ==
   IF QLe(a[2], p[2])
     THEN (IF QLt(p[2], b[2]) /\ QSgn(Cross(PSub(b, a), PSub(p, a))) > 0 THEN 1 ELSE 0)
     ELSE (IF QLe(b[2], p[2]) /\ QSgn(Cross(PSub(b, a), PSub(p, a))) < 0 THEN -1 ELSE 0)
RECURSIVE WindFrom(_, _, _)
WindFrom(poly, p, i) == IF i > Len(poly) THEN 0
                        ELSE WindEdge(p, EdgeA(poly, i), EdgeB(poly, i)) + WindFrom(poly, p, i + 1)
Winding(poly, p) == WindFrom(poly, p, 1)
\* strictly inside (works for non-convex polygons)
Inside(poly, p)  == ~OnBoundary(poly, p) /\ Winding(poly, p) # 0
\* strictly inside a convex polygon: p is strictly on the same side of every edge
ConvexInside(poly, p) ==
   \/ \A i \in 1..Len(poly) : QSgn(Cross(PSub(EdgeB(poly, i), EdgeA(poly, i)), PSub(p, EdgeA(poly, i)))) > 0
   \/ \A i \in 1..Len(poly) : QSgn(Cross(PSub(EdgeB(poly, i), EdgeA(poly, i)), PSub(p, EdgeA(poly, i)))) < 0

\* is the distance from p to the segment a-b smaller than 1/sqrt(M) ?  (M a positive integer; no
\* division: compare M cross^2 with |e|^2)
NearSegment(p, a, b, M) ==
   LET e == PSub(b, a)
       w == PSub(p, a)
       d == Dot(w, e)
       n == Norm2(e)
   IN  IF QSgn(d) < 0 THEN QLt(QMulI(M, Norm2(w)), Q1)
       ELSE IF QLt(n, d) THEN QLt(QMulI(M, Dist2(p, b)), Q1)
       ELSE QLt(QMulI(M, QSq(Cross(e, w))), n)
NearBoundary(poly, p, M) == \E i \in 1..Len(poly) : NearSegment(p, EdgeA(poly, i), EdgeB(poly, i), M)

(* ------------------------------ fraction-free layer (fast sign decisions) ---------------------- *)
(* For many decisions about ONE configuration (a grid of query points against one polygon) all
   coordinates are scaled to integers over one common denominator D: a value is then a pair
   <<a, b>> meaning (a + b sqrt3)/D (products: /D^2), no gcd, no normalisation.  Only signs are
   taken from such pairs, so the common positive factor never matters.                     *)
QLcm(a, b) == (a \div QGcd(a, b)) * b
RECURSIVE QDenLcm(_)
QDenLcm(xs) == IF xs = <<>> THEN 1 ELSE QLcm(Head(xs)[3], QDenLcm(Tail(xs)))       \* xs: sequence of elements
RECURSIVE PolyDen(_)
PolyDen(poly) == IF poly = <<>> THEN 1
                 ELSE QLcm(QLcm(Head(poly)[1][3], Head(poly)[2][3]), PolyDen(Tail(poly)))
ZOf(x, D)   == <<x[1] * (D \div x[3]), x[2] * (D \div x[3])>>                       \* x[3] divides D
ZPt(p, D)   == <<ZOf(p[1], D), ZOf(p[2], D)>>
ZAdd2(x, y) == <<x[1] + y[1], x[2] + y[2]>>
ZSub2(x, y) == <<x[1] - y[1], x[2] - y[2]>>
ZMul2(x, y) == <<x[1] * y[1] + 3 * x[2] * y[2], x[1] * y[2] + x[2] * y[1]>>
ZScale(k, x) == <<k * x[1], k * x[2]>>
ZSgn(x)     == QSgn(<<x[1], x[2], 1>>)
ZAbs(x)     == IF ZSgn(x) < 0 THEN <<-x[1], -x[2]>> ELSE x
ZVSub(p, q) == <<ZSub2(p[1], q[1]), ZSub2(p[2], q[2])>>
ZCross(u, v) == ZSub2(ZMul2(u[1], v[2]), ZMul2(u[2], v[1]))
ZDot(u, v)  == ZAdd2(ZMul2(u[1], v[1]), ZMul2(u[2], v[2]))
\* 2 cos / 2 sin of 30 k degrees as pairs
ZCos2(k)    == LET t == Cos30(k) IN <<t[1] * (2 \div t[3]), t[2] * (2 \div t[3])>>
ZSin2(k)    == LET t == Sin30(k) IN <<t[1] * (2 \div t[3]), t[2] * (2 \div t[3])>>
\* twice the vector v rotated by 30 k degrees
ZRot2(k, v) == <<ZSub2(ZMul2(ZCos2(k), v[1]), ZMul2(ZSin2(k), v[2])),
                 ZAdd2(ZMul2(ZSin2(k), v[1]), ZMul2(ZCos2(k), v[2]))>>
\* edge table of a polygon scaled by D: start, end, edge vector, squared length
ZEdges(poly, D) ==
   [i \in 1..Len(poly) |->
      LET a == ZPt(poly[i], D)
          b == ZPt(poly[NextIdx(poly, i)], D)
          e == ZVSub(b, a)
      IN  [a |-> a, b |-> b, e |-> e, n |-> ZDot(e, e)]]
\* smallest integer L with L^2 >= every squared edge length
EdgeBound(poly) == CHOOSE L \in 1..64 :
                      /\ \A i \in 1..Len(poly) : QLe(Dist2(EdgeA(poly, i), EdgeB(poly, i)), QI(L * L))
                      /\ L = 1 \/ \E i \in 1..Len(poly) : QLt(QI((L - 1) * (L - 1)), Dist2(EdgeA(poly, i), EdgeB(poly, i)))
\* p (scaled) is "near" edge ed: closer than 1/100 to its line (|cross| < L/100 with L >= |e|) while its
\* projection falls on the edge extended by a tenth of its length on both sides.  LD2 = L D^2.
\* Not near any edge  =>  distance to the polygon's boundary >= min(1/100, shortest edge/10).
ZNearEdge(ed, p, LD2) ==
   LET w  == ZVSub(p, ed.a)
       cr == ZAbs(ZCross(ed.e, w))
       d  == ZDot(w, ed.e)
   IN  /\ ZSgn(<<100 * cr[1] - LD2, 100 * cr[2]>>) < 0
       /\ ZSgn(ZAdd2(ZScale(10, d), ed.n)) >= 0
       /\ ZSgn(ZSub2(ZScale(11, ed.n), ZScale(10, d))) >= 0
ZNear(E, p, LD2) == \E i \in DOMAIN E : ZNearEdge(E[i], p, LD2)
ZWindEdge(ed, p) ==
   IF ZSgn(ZSub2(ed.a[2], p[2])) <= 0
     THEN (IF ZSgn(ZSub2(p[2], ed.b[2])) < 0 /\ ZSgn(ZCross(ed.e, ZVSub(p, ed.a))) > 0 THEN 1 ELSE 0)
     ELSE (IF ZSgn(ZSub2(ed.b[2], p[2])) <= 0 /\ ZSgn(ZCross(ed.e, ZVSub(p, ed.a))) < 0 THEN -1 ELSE 0)
RECURSIVE ZWindFrom(_, _, _)
ZWindFrom(E, p, i) == IF i > Len(E) THEN 0 ELSE ZWindEdge(E[i], p) + ZWindFrom(E, p, i + 1)
\* winding number # 0 (p not on the boundary)
ZInside(E, p) == ZWindFrom(E, p, 1) # 0
ZConvexInside(E, p) ==
   \/ \A i \in DOMAIN E : ZSgn(ZCross(E[i].e, ZVSub(p, E[i].a))) > 0
   \/ \A i \in DOMAIN E : ZSgn(ZCross(E[i].e, ZVSub(p, E[i].a))) < 0
ZOnEdge(ed, p) == LET w == ZVSub(p, ed.a)
                      d == ZDot(w, ed.e)
                  IN  /\ ZSgn(ZCross(ed.e, w)) = 0 /\ ZSgn(d) >= 0 /\ ZSgn(ZSub2(ed.n, d)) >= 0
ZOnBoundary(E, p) == \E i \in DOMAIN E : ZOnEdge(E[i], p)

(* ------------------------------ ray / segment intersection ----------------------------------- *)
\* the ray c + t u (t > 0) against the segment a + s (b - a), 0 <= s <= 1.
\* c + t u = a + s e  =>  t = cross(w, e)/cross(u, e),  s = cross(w, u)/cross(u, e),  w = a - c.
\* Result: <<hit, t>>; a ray parallel to the edge does not hit it.
RayHit(c, u, a, b) ==
   LET e   == PSub(b, a)
       w   == PSub(a, c)
       den == Cross(u, e)
   IN  IF QIsZero(den) THEN <<FALSE, Q0>>
       ELSE LET t == QDiv(Cross(w, e), den)
                s == QDiv(Cross(w, u), den)
            IN  <<QSgn(t) > 0 /\ QSgn(s) >= 0 /\ QLe(s, Q1), t>>
\* the ray against the whole (infinite) line through a and b; <<defined, t>>
RayLine(c, u, a, b) ==
   LET e   == PSub(b, a)
       w   == PSub(a, c)
       den == Cross(u, e)
   IN  IF QIsZero(den) THEN <<FALSE, Q0>> ELSE <<TRUE, QDiv(Cross(w, e), den)>>
\* all parameters t at which the ray meets the polygon's edges
RayHits(c, u, poly) == { RayHit(c, u, EdgeA(poly, i), EdgeB(poly, i))[2] :
                           i \in { j \in 1..Len(poly) : RayHit(c, u, EdgeA(poly, j), EdgeB(poly, j))[1] } }
\* first boundary point in direction u (the set of hits must not be empty)
FirstHit(c, u, poly) == LET H == RayHits(c, u, poly)
                        IN  CHOOSE t \in H : \A o \in H : QLe(t, o)
=============================================================================
