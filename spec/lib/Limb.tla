------------------------------- MODULE Limb --------------------------------
(* Naturals beyond TLC's 32-bit integers as two limbs <<hi, lo>> in base 10^7:
       value(<<hi, lo>>) = hi * 10^7 + lo,   0 <= lo < 10^7,   0 <= hi.
   With hi < 2^31 - 1 this reaches 2 * 10^16; the sample positions of C14 need 10^10 (hi about 1000).
   Normalised limbs are canonical, so equality of values is equality of tuples.

   Operands called "small" are ordinary TLC integers n with 0 <= n <= LSmallMax, so that
   lo + n cannot overflow 32 bits.                                                        *)
EXTENDS Integers, Sequences

LBase     == 10000000
LSmallMax == 2000000000          \* lo + n <= 10^7 - 1 + 2 * 10^9 < 2^31 - 1

LNorm(hi, lo) == <<hi + (lo \div LBase), lo % LBase>>      \* lo may be any integer >= -hi*LBase
LOf(n)        == LNorm(0, n)                               \* TLC integer n >= 0 as limbs
LZero         == <<0, 0>>
LOne          == <<0, 1>>
IsLimb(a)     == /\ a \in Int \X Int
                 /\ a[1] >= 0
                 /\ a[2] >= 0
                 /\ a[2] < LBase

LAdd(a, b)      == LNorm(a[1] + b[1], a[2] + b[2])
LAddSmall(a, n) == LNorm(a[1], a[2] + n)                   \* 0 <= n <= LSmallMax
LAddBig(a, r)   == <<a[1] + r, a[2]>>                      \* a + r * 10^7
LPred(a)        == LNorm(a[1], a[2] - 1)                   \* a - 1, a > 0
LSubSmall(a, n) == LNorm(a[1], a[2] - n)                   \* a - n, 0 <= n <= a, n <= LSmallMax

LLt(a, b)  == a[1] < b[1] \/ (a[1] = b[1] /\ a[2] < b[2])
LLe(a, b)  == a = b \/ LLt(a, b)
LCmp(a, b) == IF a = b THEN 0 ELSE IF LLt(a, b) THEN -1 ELSE 1
LMax(a, b) == IF LLt(a, b) THEN b ELSE a

\* b - a as a TLC integer when 0 <= b - a <= LSmallMax (callers guard with LDiffIsSmall)
LDiffIsSmall(a, b) == LLe(a, b) /\ (b[1] - a[1]) <= 199
LDiff(a, b)        == (b[1] - a[1]) * LBase + b[2] - a[2]

\* a mod m for a small modulus m (m * m and 10^7 * m within 32 bits: m <= 200)
LMod(a, m) == (((a[1] % m) * (LBase % m)) + a[2]) % m

\* the interval [a, a + n) contains x
LInRange(x, a, n) == LLe(a, x) /\ LLt(x, LAddSmall(a, n))
=============================================================================
