------------------------------- MODULE CMat -------------------------------
(* Exact complex matrices: sequences of rows of Gaussian rationals (GRat).
   Determinant / adjugate / inverse by Laplace expansion (sizes <= 4).                  *)
EXTENDS Integers, Sequences, GRat

MRows(A) == Len(A)
MCols(A) == IF Len(A) = 0 THEN 0 ELSE Len(A[1])
MFromInts(A) == [i \in 1..Len(A) |-> [j \in 1..Len(A[i]) |-> G(A[i][j][1], A[i][j][2])]]   \* rows of <<re,im>>
MZero(r, c)  == [i \in 1..r |-> [j \in 1..c |-> GZero]]
MIdent(n)    == [i \in 1..n |-> [j \in 1..n |-> IF i = j THEN GOne ELSE GZero]]
MAdd(A, B)   == [i \in 1..MRows(A) |-> [j \in 1..MCols(A) |-> GAdd(A[i][j], B[i][j])]]
MSub(A, B)   == [i \in 1..MRows(A) |-> [j \in 1..MCols(A) |-> GSub(A[i][j], B[i][j])]]
MScale(c, A) == [i \in 1..MRows(A) |-> [j \in 1..MCols(A) |-> GMul(c, A[i][j])]]
MTrans(A)    == [j \in 1..MCols(A) |-> [i \in 1..MRows(A) |-> A[i][j]]]
MConj(A)     == [i \in 1..MRows(A) |-> [j \in 1..MCols(A) |-> GConj(A[i][j])]]
MHerm(A)     == MConj(MTrans(A))
MMul(A, B)   == [i \in 1..MRows(A) |-> [j \in 1..MCols(B) |->
                   GSumSeq([k \in 1..MCols(A) |-> GMul(A[i][k], B[k][j])])]]
MHadamard(A, B) == [i \in 1..MRows(A) |-> [j \in 1..MCols(A) |-> GMul(A[i][j], B[i][j])]]
MBlock(A, r1, r2, c1, c2) == [i \in 1..(r2 - r1 + 1) |-> [j \in 1..(c2 - c1 + 1) |-> A[r1 + i - 1][c1 + j - 1]]]
MHStack(A, B) == [i \in 1..MRows(A) |-> A[i] \o B[i]]
MVStack(A, B) == A \o B
MTrace(A)    == GSumSeq([i \in 1..MRows(A) |-> A[i][i]])
MFrob2(A)    == RSumSeq([k \in 1..(MRows(A) * MCols(A)) |->
                   GAbs2(A[((k - 1) \div MCols(A)) + 1][((k - 1) % MCols(A)) + 1])])
MIsZero(A)   == \A i \in 1..MRows(A) : \A j \in 1..MCols(A) : GIsZero(A[i][j])
MIsHerm(A)   == A = MHerm(A)

\* remove row i and column j
MMinor(A, i, j) == [r \in 1..(MRows(A) - 1) |-> [c \in 1..(MCols(A) - 1) |->
                      A[IF r < i THEN r ELSE r + 1][IF c < j THEN c ELSE c + 1]]]
RECURSIVE MDet(_)
MDet(A) == IF MRows(A) = 1 THEN A[1][1]
           ELSE GSumSeq([j \in 1..MCols(A) |->
                   LET t == GMul(A[1][j], MDet(MMinor(A, 1, j)))
                   IN  IF j % 2 = 1 THEN t ELSE GNeg(t)])
MCofactor(A, i, j) == LET d == IF MRows(A) = 1 THEN GOne ELSE MDet(MMinor(A, i, j))
                      IN  IF (i + j) % 2 = 0 THEN d ELSE GNeg(d)
MAdj(A) == [i \in 1..MRows(A) |-> [j \in 1..MCols(A) |-> MCofactor(A, j, i)]]
MInv(A) == MScale(GInv(MDet(A)), MAdj(A))            \* MDet(A) # 0

\* block diagonal of a sequence of matrices
RECURSIVE MBlockDiag(_)
MBlockDiag(Ms) ==
    IF Len(Ms) = 1 THEN Ms[1]
    ELSE LET A == Ms[1]  B == MBlockDiag(Tail(Ms))
         IN  MVStack(MHStack(A, MZero(MRows(A), MCols(B))), MHStack(MZero(MRows(B), MCols(A)), B))
=============================================================================
