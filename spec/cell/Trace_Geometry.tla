-------------------------- MODULE Trace_Geometry --------------------------
(* Stage T for C19: histories recorded from the real classes (construction, pos / rotation / radius
   setter calls with RANDOM rational arguments, and point-in-cell decisions on RANDOM query points
   with coordinates in sixteenths - neither on the enumerated alphabet nor on the half-integer grid)
   are replayed through the setter semantics of Geometry.tla; every logged decision must be the
   decision of a fresh object with the current position, size and rotation (unless the point is
   closer than 1/100 to the boundary).  All traces are validated in one TLC run: `tid` is chosen in
   Init, `mismatch` records <<trace, event, query index>> of the first disagreement.

   Trace file (JSON, path in the environment variable TRACE_FILE): a list of traces, a trace is a
   list of events
     [op |-> "new", kind, pos, r, w, h, rot]   [op |-> "pos", pos]   [op |-> "rel", d]   [op |-> "rot", rot]   [op |-> "rad", r]
     [op |-> "query", pts |-> <<<<i, j>>, ...>> (sixteenths), got |-> <<0 or 1, ...>>]
   with numbers of Q(sqrt3) as triples.                                                         *)
EXTENDS Geometry, IOUtils

VARIABLES tid, idx, st, mismatch
tvars == <<tid, idx, st, mismatch, c, out>>

Traces == JsonDeserialize(IOEnv.TRACE_FILE)

Q3(x) == <<x[1], x[2], x[3]>>
P3(p) == <<Q3(p[1]), Q3(p[2])>>

\* indexes of the logged decisions that differ from the decision for a fresh object in state s
BadQueries(s, ev) ==
   LET sh == MutShape(s)
       V  == Verts(sh, s.rot)
       D  == QLcm(QLcm(PolyDen(V), ShapeDen(sh)), 16)
       K  == PolyCtx(V, D)
       pz(n) == << <<ev.pts[n][1] * (D \div 16), 0>>, <<ev.pts[n][2] * (D \div 16), 0>> >>
   IN  { n \in 1..Len(ev.pts) : LET code == CodeZ(sh, K, pz(n)) IN code # 2 /\ ev.got[n] # code }
Verdict(s, ev, t, i) == LET B == BadQueries(s, ev)
                        IN  IF B = {} THEN <<>> ELSE <<t, i, CHOOSE n \in B : \A m \in B : n <= m>>
\* the setter semantics: the object is always the one with the current position, size, rotation
Apply(s, ev) ==
   CASE ev.op = "new" -> [kind |-> ev.kind, pos |-> P3(ev.pos), r |-> Q3(ev.r), w |-> Q3(ev.w), h |-> Q3(ev.h), rot |-> ev.rot]
     [] ev.op = "pos" -> [s EXCEPT !.pos = P3(ev.pos)]
     [] ev.op = "rel" -> [s EXCEPT !.pos = PAdd(@, P3(ev.d))]            \* move_by_relative_coordinate(d)
     [] ev.op = "rot" -> [s EXCEPT !.rot = ev.rot]
     [] ev.op = "rad" -> [s EXCEPT !.r = Q3(ev.r)]
     [] OTHER -> s

TInit == /\ tid \in 1..Len(Traces) /\ idx = 0 /\ st = <<>> /\ mismatch = <<>> /\ c = Idle /\ out = <<>>
TNext == /\ mismatch = <<>>
         /\ idx < Len(Traces[tid])
         /\ idx' = idx + 1
         /\ st' = Apply(st, Traces[tid][idx + 1])
         /\ mismatch' = IF Traces[tid][idx + 1].op = "query" THEN Verdict(st, Traces[tid][idx + 1], tid, idx + 1) ELSE <<>>
         /\ UNCHANGED <<tid, c, out>>
Conforms == mismatch = <<>>
=============================================================================
