----------------------------- MODULE Geometry -----------------------------
(* C19 - cell geometry of pyphysim (pyphysim/cell/shapes.py, cell.py, pointprocess.py).

   All coordinates live in Q(sqrt3)^2 (module QR3), all rotations are multiples of 30 degrees in
   [-720, 720], so every vertex, every containment decision, every border point, every cell
   centre of a cluster and every squared distance below is EXACT.

   The module is one machine with one action per public operation of the library:

     Contain   Shape.is_point_inside_shape   on a half-integer grid of query points
     Border    Shape.get_border_point        for the 12 directions 0, 30, .. 330 degrees, ratio 1 and 1/2
     Layout    Cluster(...)                  cell centres / rotations of hexagonal, 3-sector and square clusters
     DistMat   Cluster.calc_dist_all_users_to_each_cell[_no_wrap_around]  (squared, exact)
     Wrap      Cluster.create_wrap_around_cells  (19 cells): the surrounding copies of the cluster
     MutNew / MutSetPos / MutMoveRel / MutMovePolar / MutSetRot / MutSetRad / MutAddUser / MutDelUsers
     WrapSetPos / WrapMoveRel / WrapMovePolar / WrapSetRaises
               Node, Hexagon, Cell, CellSquare, Rectangle, Circle, Cell3Sec (with its sector cells), Cluster and
               a CellWrap around a cell under any sequence of public mutators, with users present
               (a finite machine: ALL histories are explored)
     ContainG, BorderG, LayoutG   the same for rotations / directions that are NOT multiples of 30 degrees
               (multiple of 30 +- the angle of a Pythagorean triple: rational cos / sin, still exact)
     Place, PlaceCl, PProc   enumerate the (rel) cases: random user placement (cell / cluster route)
               and random point processes; the module supplies the exact polygon / radii the random
               outcome is judged with.

   The pure operations form a "star": Init is idle, one step picks a case from the finite domain
   given by the constants and computes (a) in `out` what the IMPLEMENTATION-SHAPED machine returns
   (rectangle: undo the rotation of the query point and compare with the corners; border
   point: ray against the edges; cluster: ring tables, centring, rotation), and the invariants
   compare that with what the PROPERTY demands, written independently (winding number around
   the shape's own vertices; on the boundary / in the direction / scaled by the ratio;
   congruent, centred, touching without overlapping, ...).  Named deviations (fields of Dev)
   switch single steps of the machine to what the code does; with all flags FALSE every
   invariant holds, with a flag TRUE TLC finds the violation:
     RectangleContainmentIgnoresRotation  Rectangle.is_point_inside_shape compares the query point
                                          with the un-rotated corners without undoing the rotation
     BorderPointTwoNearestVertices        get_border_point intersects the ray with the LINE through the
                                          two vertices nearest to centre + radius * direction
     RectanglePosSetterKeepsCorners       setting pos of a Rectangle / CellSquare leaves its corners behind
     LayoutSkipsCentring, Sec3SetPosKeepsSectors, Sec3SetRadiusKeepsCentres, MoveBypassesPosSetter,
     WrapUsersUseCachedTranslation, CircleBorderZeroRatioIsOne, ClusterPlaceAllDropsMinDist (plausible regressions)
   Trace_Geometry.tla (stage T) validates histories recorded from the real classes against the
   same setter semantics and containment predicate.

   Vertex constructions (counter-clockwise, before rotation about the centre and translation):
     hexagon   r cis(240 + 60 k), k = 0..5               (first vertex lower left)
     rectangle (-w/2,-h/2) (w/2,-h/2) (w/2,h/2) (-w/2,h/2);  square: w = h = side
     circle    r cis(30 k), k = 0..11; containment is the open DISC, not the 12-gon
     3 sectors three hexagons of radius s = r/sqrt3 rotated by 30 degrees, centred at
               s cis(210), s cis(330), s cis(90); outline = the 12 outer vertices
     wrap      the wrapped cell's polygon (its radius and rotation) moved to another centre

   Points exactly on a boundary, or closer to it than 1/100, are excluded from the containment
   decisions here (code 2) - the property leaves them open and floating point could go either way. *)
EXTENDS Integers, Sequences, FiniteSets, TLC, Emit, QR3

CONSTANTS Ops,       \* enabled operations (subset of the names above, lower case)
          Shapes,    \* sequence of [kind, pos, r, w, h, rad, ipos]
          Rots,      \* rotations (degrees) used with Shapes
          G,         \* query grid: (i/2, j/2), i, j \in -G..G
          Clusters,  \* sequence of [type, n, r, pos]
          CRots,     \* rotations used with Clusters
          UCells,    \* DistMat: cells (ids, clipped to n) that get users
          UAngles,   \* DistMat: directions k (30 k degrees) of the border users (ratio 1/2)
          URel,      \* DistMat: relative positions (points, in units of the cell radius) for add_user
          MutAlpha,  \* object machine: [base : seq of [kind, cls, w, h, cell, wrap], pos, wpos : seq of points, r : seq,
                     \*   rot : seq of degrees, off : seq of user offsets, polar : seq of [rho, k]]
          Gens,      \* generic angles: sequence of [p, sgn] = sgn * (angle of the Pythagorean triple PyTab[p])
          RelCases,  \* sequence of (rel) cases, see Place / PProc
          Dev        \* [name |-> BOOLEAN]

VARIABLES c,     \* the operation executed last with its arguments; for op = "mut" the object's pos / size / rotation
          out    \* what the machine returned; for op = "mut" also what the object stores
vars == <<c, out>>

Half    == QF(1, 2)

(* ------------------------------------ shapes ---------------------------------------------------- *)
BaseKind(k) == CASE k = "wrap_hex" -> "hex" [] k = "wrap_square" -> "square" [] k = "wrap_sec3" -> "sec3"
                 [] OTHER -> k
Convex(k)   == BaseKind(k) \in {"hex", "rect", "square"}

HexV0(r)     == [k \in 1..6 |-> PScale(r, Cis(8 + 2 * (k - 1)))]
RectV0(w, h) == LET a == QMul(Half, w)
                    b == QMul(Half, h)
                IN  << <<QNeg(a), QNeg(b)>>, <<a, QNeg(b)>>, <<a, b>>, <<QNeg(a), b>> >>
CircV0(r)    == [k \in 1..12 |-> PScale(r, Cis(k - 1))]
SecRadius(r) == QMul(r, <<0, 1, 3>>)                           \* r sqrt3 / 3
SecC0(r)     == LET s == SecRadius(r) IN <<PScale(s, Cis(7)), PScale(s, Cis(11)), PScale(s, Cis(3))>>
\* sector j (un-rotated frame): hexagon of radius s rotated by 30 degrees around its own centre
SecHex0(r, j) == Translate(RotPoly(1, HexV0(SecRadius(r))), SecC0(r)[j])
Sec3V0(r)    == LET A == SecHex0(r, 1)
                    B == SecHex0(r, 2)
                    D == SecHex0(r, 3)
                IN  <<A[1], A[2], B[1], B[2], B[3], B[4], D[3], D[4], D[5], D[6], A[5], A[6]>>

V0(s) == LET k == BaseKind(s.kind)
         IN  CASE k = "hex"    -> HexV0(s.r)
               [] k = "rect"   -> RectV0(s.w, s.h)
               [] k = "square" -> RectV0(s.w, s.w)
               [] k = "circle" -> CircV0(s.r)
               [] k = "sec3"   -> Sec3V0(s.r)
\* the shape's own vertices
Verts(s, rot) == Translate(RotPoly(DegK(rot), V0(s)), s.pos)
SecHex(s, rot, j) == Translate(RotPoly(DegK(rot), SecHex0(s.r, j)), s.pos)
\* square of the library's `radius` attribute (what min_dist_ratio refers to)
Rad2(s) == LET k == BaseKind(s.kind)
           IN  CASE k \in {"hex", "circle", "sec3"} -> QSq(s.r)
                 [] k = "rect"   -> QDivI(QAdd(QSq(s.w), QSq(s.h)), 4)
                 [] k = "square" -> QDivI(QSq(s.w), 2)
RotOk(s, rot) == s.kind = "circle" => rot = 0        \* a Circle has no rotation parameter

(* ------------------------------------ query grid ------------------------------------------------ *)
GW == 2 * G + 1
NG == GW * GW
GridI(n)  == ((n - 1) \div GW) - G
GridJ(n)  == ((n - 1) % GW) - G
GridPt(n) == <<QF(GridI(n), 2), QF(GridJ(n), 2)>>
\* the same point over the even common denominator D
ZGrid(n, D) == << <<GridI(n) * (D \div 2), 0>>, <<GridJ(n) * (D \div 2), 0>> >>

(* ------------------------------------ containment ----------------------------------------------- *)
\* The grid decisions are taken in the fraction-free layer of QR3 (integers over one common
\* denominator per case); `Inside`/`OnBoundary` of QR3 remain the reference (law ZAgreesWithQ).
ShapeDen(s) == QLcm(QLcm(QLcm(s.pos[1][3], s.pos[2][3]), QLcm(s.r[3], QLcm(s.w[3], s.h[3]))), 2)
\* everything needed about one polygon: scaled edge table and the margin threshold
PolyCtx(V, D) == [V |-> V, D |-> D, E |-> ZEdges(V, D), LD2 |-> EdgeBound(V) * D * D]
CaseDen(s, V) == QLcm(PolyDen(V), ShapeDen(s))

\* what the property demands: strictly inside the polygon of the own vertices / the open disc
ExpInside(s, rot, p) ==
   IF s.kind = "circle" THEN QLt(Dist2(p, s.pos), QSq(s.r)) ELSE Inside(Verts(s, rot), p)
ZDiscDiff(s, K, p) == LET w == ZVSub(p, ZPt(s.pos, K.D))                 \* (|p - c|^2 - r^2) D^2
                      IN  ZSub2(ZDot(w, w), ZOf(QSq(s.r), K.D * K.D))
ExpInsideZ(s, K, p) == IF s.kind = "circle" THEN ZSgn(ZDiscDiff(s, K, p)) < 0 ELSE ZInside(K.E, p)
\* too close to the boundary to be decided (polygons: 1/100, see ZNearEdge; disc: | |p-c|^2 - r^2 | < 1/50)
UndecidedZ(s, K, p) ==
   IF s.kind = "circle" THEN LET d == ZAbs(ZDiscDiff(s, K, p))
                             IN  ZSgn(<<50 * d[1] - K.D * K.D, 50 * d[2]>>) < 0
   ELSE ZNear(K.E, p, K.LD2)
\* the machine: Rectangle / CellSquare undo the rotation of the query point and compare with the
\* un-rotated corners (inclusive), everything else asks the polygon of the vertices, Circle the distance
AsIsInsideZ(s, rot, K, p, ignoresRotation) ==
   CASE s.kind = "circle" -> ZSgn(ZDiscDiff(s, K, p)) < 0
     [] s.kind \in {"rect", "square"} ->
          LET d  == ZVSub(p, ZPt(s.pos, K.D))
              q2 == IF ignoresRotation THEN <<ZScale(2, d[1]), ZScale(2, d[2])>>
                    ELSE ZRot2(12 - DegK(rot), d)                          \* twice the un-rotated offset
          IN  /\ ZSgn(ZSub2(ZOf(s.w, K.D), ZAbs(q2[1]))) >= 0
              /\ ZSgn(ZSub2(ZOf(IF s.kind = "square" THEN s.w ELSE s.h, K.D), ZAbs(q2[2]))) >= 0
     [] OTHER -> ZInside(K.E, p)

CodeZ(s, K, p) == IF UndecidedZ(s, K, p) THEN 2 ELSE IF ExpInsideZ(s, K, p) THEN 1 ELSE 0

\* (the LETs live in state-level operators: TLC caches their values there, not inside actions)
ContainOut(s, rot) ==
   LET V == Verts(s, rot)
       K == PolyCtx(V, CaseDen(s, V))
   IN  [verts |-> V,
        res   |-> [n \in 1..NG |-> CodeZ(s, K, ZGrid(n, K.D))],
        asis  |-> [n \in 1..NG |-> IF AsIsInsideZ(s, rot, K, ZGrid(n, K.D), Dev.RectangleContainmentIgnoresRotation)
                                    THEN 1 ELSE 0],
        \* what the code with the named deviation returns (to recognise the known finding by its value)
        dev   |-> IF s.kind \in {"rect", "square"}
                    THEN [n \in 1..NG |-> IF AsIsInsideZ(s, rot, K, ZGrid(n, K.D), TRUE) THEN 1 ELSE 0]
                    ELSE <<>>]
Contain ==
   /\ "contain" \in Ops /\ c.op = "init"
   /\ \E i \in 1..Len(Shapes), rot \in Rots :
        /\ RotOk(Shapes[i], rot)
        /\ c' = [op |-> "contain", s |-> Shapes[i], rot |-> rot]
        /\ out' = ContainOut(Shapes[i], rot)

(* ------------------------------------ border point ---------------------------------------------- *)
\* property-level definition: first boundary point of the own polygon (the circle itself for a
\* Circle) on the ray from the centre in direction 30 k degrees
ExpBorder(s, rot, k) ==
   IF s.kind = "circle" THEN PAdd(s.pos, PScale(s.r, Cis(k)))
   ELSE PAdd(s.pos, PScale(FirstHit(s.pos, Cis(k), Verts(s, rot)), Cis(k)))
\* the code's heuristic (deviation): walk `radius` in the direction, take the two vertices nearest to
\* that point, intersect the ray with the LINE through them.  Modelled when the library radius is
\* in Q(sqrt3) (s.rad # 0).  Ties are broken towards the lower index (stable sort).
NearestTwo(poly, q) ==
   LET d(i) == Dist2(poly[i], q)
       i1 == CHOOSE i \in 1..Len(poly) : \A j \in 1..Len(poly) : QLt(d(i), d(j)) \/ (d(i) = d(j) /\ i <= j)
       i2 == CHOOSE i \in (1..Len(poly)) \ {i1} :
                \A j \in (1..Len(poly)) \ {i1} : QLt(d(i), d(j)) \/ (d(i) = d(j) /\ i <= j)
   IN  <<i1, i2>>
HeurBorder(s, rot, k) ==
   LET poly == Verts(s, rot)
       q    == PAdd(s.pos, PScale(s.rad, Cis(k)))
       nn   == NearestTwo(poly, q)
       h    == RayLine(s.pos, Cis(k), poly[nn[1]], poly[nn[2]])
   IN  IF h[1] THEN PAdd(s.pos, PScale(h[2], Cis(k))) ELSE <<>>
AsIsBorder(s, rot, k) ==
   IF Dev.BorderPointTwoNearestVertices /\ s.kind # "circle" /\ ~QIsZero(s.rad)
     THEN HeurBorder(s, rot, k) ELSE ExpBorder(s, rot, k)
Scaled(s, p, ratio) == IF p = <<>> THEN p ELSE PAdd(s.pos, PScale(ratio, PSub(p, s.pos)))

\* the ratio argument: both ends of its range [0, 1], something tiny, the middle
Tiny == QF(1, 1024)
\* the machine's handling of the ratio (deviation: a Circle replaces a ratio of exactly 0 by 1)
AsIsRatio(s, ratio) == IF Dev.CircleBorderZeroRatioIsOne /\ s.kind = "circle" /\ QIsZero(ratio) THEN Q1 ELSE ratio
BorderOut(s, rot) ==
   LET B == [k \in 1..12 |-> AsIsBorder(s, rot, k - 1)]
   IN  [verts |-> Verts(s, rot), bp |-> B, half |-> [k \in 1..12 |-> Scaled(s, B[k], Half)],
        zero |-> [k \in 1..12 |-> Scaled(s, B[k], AsIsRatio(s, Q0))],
        tiny |-> [k \in 1..12 |-> Scaled(s, B[k], Tiny)],
        \* what the two-nearest-vertices heuristic returns (to recognise the known finding by its value)
        heur |-> IF s.kind # "circle" /\ ~QIsZero(s.rad) THEN [k \in 1..12 |-> HeurBorder(s, rot, k - 1)] ELSE <<>>]
Border ==
   /\ "border" \in Ops /\ c.op = "init"
   /\ \E i \in 1..Len(Shapes), rot \in Rots :
        /\ RotOk(Shapes[i], rot)
        /\ c' = [op |-> "border", s |-> Shapes[i], rot |-> rot]
        /\ out' = BorderOut(Shapes[i], rot)

(* ------------------------------------ cluster layout -------------------------------------------- *)
\* documented ring-by-ring construction for radius r, first cell at the origin:
\*   cells 2..7   at distance two apothems (r sqrt3) in the directions 30, 90, .. 330 degrees
\*   cells 8..19  in the directions 0, 30, .. 330 degrees at distance 3 r (even) / four apothems (odd)
HexRawCell(k, r) ==
   IF k = 1 THEN POrigin
   ELSE IF k <= 7 THEN PScale(QMul(r, QSqrt3), Cis(1 + 2 * (k - 2)))
   ELSE LET m == k - 8
        IN  PScale(IF m % 2 = 0 THEN QMulI(3, r) ELSE QMul(QMulI(2, r), QSqrt3), Cis(m))
\* m x m square cells of side r, row by row from the upper left corner
Isqrt(n) == CHOOSE m \in 1..n : m * m = n
SqRawCell(k, n, r) == LET m == Isqrt(n)
                      IN  <<QMulI((k - 1) % m, r), QMulI(m - 1 - ((k - 1) \div m), r)>>
RawCells(cl) == [k \in 1..cl.n |-> IF cl.type = "square" THEN SqRawCell(k, cl.n, cl.r) ELSE HexRawCell(k, cl.r)]
\* the machine: centre (mean of the centres), rotate about the cluster centre, move to the cluster position
LayoutCells(cl, rot) ==
   LET raw == RawCells(cl)
       ctr == IF Dev.LayoutSkipsCentring THEN POrigin ELSE Centroid(raw)
   IN  [k \in 1..cl.n |-> PAdd(cl.pos, Rot(DegK(rot), PSub(raw[k], ctr)))]
CellKind(cl) == CASE cl.type = "simple" -> "hex" [] cl.type = "3sec" -> "sec3" [] cl.type = "square" -> "square"
CellShape(cl, p) == [kind |-> CellKind(cl), pos |-> p, r |-> cl.r, w |-> cl.r, h |-> cl.r, rad |-> Q0, ipos |-> p]

\* Cluster size N = i^2 + i j + j^2 (i >= j >= 0): the neighbouring clusters of a tiling sit at the six
\* period vectors "i steps in one lattice direction, j steps after a 60 degree turn" (left: chirality 1,
\* right: 2), a step being two apothems.  The cluster radius is half that distance.
IJ(n) == CHOOSE ij \in (0..4) \X (0..4) : ij[1] >= ij[2] /\ ij[1] * ij[1] + ij[1] * ij[2] + ij[2] * ij[2] = n
Period(cl, rot, chir, m) ==
   LET step == QMul(cl.r, QSqrt3)
       ij   == IJ(cl.n)
       t0   == PAdd(PScale(QMulI(ij[1], step), Cis(1)), PScale(QMulI(ij[2], step), Cis(IF chir = 1 THEN 3 ELSE 11)))
   IN  Rot(DegK(rot) + 2 * m, t0)
RECURSIVE AllVerts(_, _, _)
AllVerts(cl, P, rot) == IF P = <<>> THEN <<>> ELSE Verts(CellShape(cl, Head(P)), rot) \o AllVerts(cl, Tail(P), rot)
LayoutOut(cl, rot) ==
   LET P == LayoutCells(cl, rot)
       A == AllVerts(cl, P, rot)
   IN  [cells  |-> P,
        vfirst |-> Verts(CellShape(cl, P[1]), rot),
        vlast  |-> Verts(CellShape(cl, P[cl.n]), rot),
        rad2   |-> Rad2(CellShape(cl, P[1])),
        \* (cluster radius)^2 = (half the distance to a neighbouring cluster)^2, hexagonal lattices only
        crad2  |-> IF cl.type = "square" THEN Q0 ELSE QDivI(Norm2(Period(cl, rot, 1, 0)), 4),
        \* (external radius)^2: the smallest circle around the cluster position containing every cell
        ext2   |-> QMaxSeq([i \in 1..Len(A) |-> Dist2(A[i], cl.pos)])]
Layout ==
   /\ "layout" \in Ops /\ c.op = "init"
   /\ \E i \in 1..Len(Clusters), rot \in CRots :
        /\ c' = [op |-> "layout", cl |-> Clusters[i], rot |-> rot]
        /\ out' = LayoutOut(Clusters[i], rot)

(* ------------------------------------ distance matrices ----------------------------------------- *)
\* users: in every cell of UCells (ids clipped to the cluster size) one border user per direction of
\* UAngles at ratio 1/2 (hexagonal and square cells), resp. one user per relative position of URel
\* (3-sector cells: add_user with relative coordinates, scaled by the cell radius)
UserCells(cl) == SelectSeq(UCells, LAMBDA id : id <= cl.n)
UsersOfCell(cl, rot, p) ==
   IF cl.type = "3sec"
     THEN [u \in 1..Len(URel) |-> PAdd(p, PScale(cl.r, URel[u]))]
     ELSE [u \in 1..Len(UAngles) |-> Scaled(CellShape(cl, p), ExpBorder(CellShape(cl, p), rot, UAngles[u]), Half)]
RECURSIVE Flatten(_)
Flatten(ss) == IF ss = <<>> THEN <<>> ELSE Head(ss) \o Flatten(Tail(ss))
UsersPer(cl) == IF cl.type = "3sec" THEN Len(URel) ELSE Len(UAngles)
DistOut(cl, rot) ==
   LET P   == LayoutCells(cl, rot)
       ids == UserCells(cl)
       U   == Flatten([q \in 1..Len(ids) |-> UsersOfCell(cl, rot, P[ids[q]])])
   IN  [cells |-> P, users |-> U,
        d2 |-> [u \in 1..Len(U) |-> [k \in 1..cl.n |-> Dist2(U[u], P[k])]]]
DistMat ==
   /\ "distmat" \in Ops /\ c.op = "init"
   /\ \E i \in 1..Len(Clusters), rot \in CRots :
        /\ c' = [op |-> "distmat", cl |-> Clusters[i], rot |-> rot, ids |-> UserCells(Clusters[i]),
                 per |-> UsersPer(Clusters[i])]
        /\ out' = DistOut(Clusters[i], rot)

(* ------------------------------------ wrap around (19 cells) ------------------------------------ *)
\* The plane is tiled by translates of the 19-cell cluster along the six period vectors
\*   T_m = rot60^m (3 steps in one lattice direction, then 2 steps after a 60 degree turn),
\* a step being two apothems; turning left or right gives the two mirror tilings (chirality 1 / 2).
\* The wrapped cells are the cells of the neighbouring clusters within 4 rings of the centre.
WrapSet(cl, P, rot, chir) ==
   LET T == [m \in 0..5 |-> Period(cl, rot, chir, m)]
       lim == QMulI(48, QSq(cl.r))
   IN  { [id |-> km[1], p |-> PAdd(P[km[1]], T[km[2]])] :
           km \in { x \in (1..cl.n) \X (0..5) : QLe(Dist2(PAdd(P[x[1]], T[x[2]]), cl.pos), lim) } }
WrapOut(cl, rot) ==
   LET P == LayoutCells(cl, rot)
   IN  [cells |-> P, w1 |-> WrapSet(cl, P, rot, 1), w2 |-> WrapSet(cl, P, rot, 2)]
Wrap ==
   /\ "wrap" \in Ops /\ c.op = "init"
   /\ \E i \in 1..Len(Clusters), rot \in CRots :
        /\ Clusters[i].n = 19 /\ Clusters[i].type # "square"
        /\ c' = [op |-> "wrap", cl |-> Clusters[i], rot |-> rot]
        /\ out' = WrapOut(Clusters[i], rot)

(* ------------------------------------ generic angles --------------------------------------------- *)
(* Multiples of 30 degrees are special for every shape here (a hexagon direction is a vertex or the middle of
   an edge, rectangle edges make 0/30/60/90 degrees with the axes).  Generic angles that stay EXACT: the
   angle theta of a Pythagorean triple (a, b, c) has cos = a/c, sin = b/c rational, so a rotation by
   (multiple of 30 degrees) +- theta is still a map of Q(sqrt3)^2.  theta = 36.87, 53.13, 67.38, 61.93, 73.74, 16.26
   degrees; together with the multiples of 30 this gives e.g. -6.87, 23.13, 97.38, -43.74 degrees.
     ContainG  containment grid for a shape rotated by rot + g
     BorderG   border points of that shape in the 12 directions 30 k + g' (g' another generic angle)
     LayoutG   a cluster rotated by rot + g
   The harness passes rot + sgn * atan2(b, a) in degrees as a float.                                  *)
PyTab == << <<4, 3, 5>>, <<3, 4, 5>>, <<5, 12, 13>>, <<8, 15, 17>>, <<7, 24, 25>>, <<24, 7, 25>> >>
PyCos(g) == QF(PyTab[g.p][1], PyTab[g.p][3])
PySin(g) == QF(g.sgn * PyTab[g.p][2], PyTab[g.p][3])
RotG(g, v) == <<QSub(QMul(PyCos(g), v[1]), QMul(PySin(g), v[2])), QAdd(QMul(PySin(g), v[1]), QMul(PyCos(g), v[2]))>>
RotAboutG(g, ctr, p) == PAdd(ctr, RotG(g, PSub(p, ctr)))
VertsG(s, rot, g) == LET V == Verts(s, rot) IN [i \in 1..Len(V) |-> RotAboutG(g, s.pos, V[i])]
DirG(k, g) == RotG(g, Cis(k))
ContainGOut(s, rot, g) ==
   LET V == VertsG(s, rot, g)
       K == PolyCtx(V, CaseDen(s, V))
   IN  [verts |-> V, res |-> [n \in 1..NG |-> CodeZ(s, K, ZGrid(n, K.D))]]
ContainG ==
   /\ "containg" \in Ops /\ c.op = "init"
   /\ \E i \in 1..Len(Shapes), rot \in Rots, j \in 1..Len(Gens) :
        /\ Shapes[i].kind # "circle"
        /\ c' = [op |-> "containg", s |-> Shapes[i], rot |-> rot, g |-> Gens[j], py |-> PyTab[Gens[j].p]]
        /\ out' = ContainGOut(Shapes[i], rot, Gens[j])
BorderGOut(s, rot, g, gd) ==
   LET V == IF s.kind = "circle" THEN Verts(s, 0) ELSE VertsG(s, rot, g)
       B == [k \in 1..12 |->
               IF s.kind = "circle" THEN PAdd(s.pos, PScale(s.r, DirG(k - 1, gd)))
               ELSE PAdd(s.pos, PScale(FirstHit(s.pos, DirG(k - 1, gd), V), DirG(k - 1, gd)))]
   IN  [verts |-> V, bp |-> B, half |-> [k \in 1..12 |-> Scaled(s, B[k], Half)],
        zero |-> [k \in 1..12 |-> Scaled(s, B[k], Q0)], tiny |-> [k \in 1..12 |-> Scaled(s, B[k], Tiny)]]
BorderG ==
   /\ "borderg" \in Ops /\ c.op = "init"
   /\ \E i \in 1..Len(Shapes), rot \in Rots, j \in 1..Len(Gens) :
        LET gd == Gens[(j % Len(Gens)) + 1]
        IN  /\ RotOk(Shapes[i], rot)
            /\ c' = [op |-> "borderg", s |-> Shapes[i], rot |-> rot, g |-> Gens[j], py |-> PyTab[Gens[j].p],
                     gd |-> gd, pyd |-> PyTab[gd.p]]
            /\ out' = BorderGOut(Shapes[i], rot, Gens[j], gd)
LayoutGOut(cl, rot, g) ==
   LET P == [k \in 1..cl.n |-> RotAboutG(g, cl.pos, LayoutCells(cl, rot)[k])]
   IN  [cells  |-> P,
        vfirst |-> VertsG(CellShape(cl, P[1]), rot, g),
        vlast  |-> VertsG(CellShape(cl, P[cl.n]), rot, g),
        rad2   |-> Rad2(CellShape(cl, P[1]))]
LayoutG ==
   /\ "layoutg" \in Ops /\ c.op = "init"
   /\ \E i \in 1..Len(Clusters), rot \in CRots, j \in 1..Len(Gens) :
        /\ c' = [op |-> "layoutg", cl |-> Clusters[i], rot |-> rot, g |-> Gens[j], py |-> PyTab[Gens[j].p]]
        /\ out' = LayoutGOut(Clusters[i], rot, Gens[j])

(* ------------------------------------ objects under mutation ------------------------------------ *)
(* Node, Hexagon, Cell, CellSquare, Rectangle, Circle, Cell3Sec, a Cluster, and a CellWrap around a cell
   are objects that can be changed after construction.  EVERY public way of changing them is an action:
       pos = p      move_by_relative_coordinate(d)      move_by_relative_polar_coordinate(rho, angle)
       rotation = t      radius = r      add_user      delete_all_users
   on the object itself and, when a CellWrap exists around it, the same on the wrap (two objects: the
   wrap is a live VIEW of the wrapped cell: its radius, rotation, vertices and users follow the wrapped
   cell, its position is its own; rotation = / radius = on a wrap raise, as does every mutator of a Cluster).
   The machine keeps what the objects STORE besides pos, radius, rotation:
     Rectangle / CellSquare  the centre `cpos` its two absolute corner coordinates were built around
     Cell3Sec                 its three sector cells (centre, radius, rotation)
     cells                    the absolute positions of their users
     CellWrap                 (deviation only) the translation wrap.pos - cell.pos it was created with
   and every action has to keep that in step.  The property (MutFresh): after ANY history the object is
   indistinguishable from a fresh one with the current position, size and rotation, its users sit at
   the same place RELATIVE to the cell as when they were added and are inside it, and every view of
   the wrap is the wrapped cell moved to the wrap's position.  The machine is finite (positions,
   sizes, rotations, displacements from MutAlpha), so ALL histories are explored.               *)
MutShape(st) == [kind |-> st.kind, pos |-> st.pos, r |-> st.r, w |-> st.w, h |-> st.h, rad |-> Q0, ipos |-> st.pos]
SecCentres(pos, r, rot) == [j \in 1..3 |-> PAdd(pos, Rot(DegK(rot), SecC0(r)[j]))]
HexAt(ctr, r, rot) == Translate(RotPoly(DegK(rot), HexV0(r)), ctr)
HasVerts(k)  == k \notin {"node", "cluster"}
HasRot(k)    == k \notin {"circle", "node"}
HasRad(k)    == k \in {"hex", "circle", "sec3", "cluster"}
ClusterOf(st) == [type |-> "simple", n |-> 3, r |-> st.r, pos |-> st.pos]
UsersAt(pos, offs) == [k \in 1..Len(offs) |-> PAdd(pos, offs[k])]
FreshStore(st) ==
   [cpos |-> st.pos, secc |-> SecCentres(st.pos, st.r, st.rot), secr |-> SecRadius(st.r), secrot |-> st.rot - 30,
    users |-> UsersAt(st.pos, st.offs),
    wtrans |-> IF st.wpos = <<>> THEN POrigin ELSE PSub(st.wpos, st.pos)]
\* the vertices the object reports: corners are absolute coordinates around cpos, rotated about pos
MutVerts(st, store) ==
   IF st.kind \in {"rect", "square"}
     THEN LET V == RectV0(st.w, IF st.kind = "square" THEN st.w ELSE st.h)
          IN  [k \in 1..4 |-> PAdd(st.pos, Rot(DegK(st.rot), PSub(PAdd(store.cpos, V[k]), st.pos)))]
     ELSE Verts(MutShape(st), st.rot)
MutOut(st, store) ==
   LET V == IF HasVerts(st.kind) THEN MutVerts(st, store) ELSE <<>>
       K == PolyCtx(V, QLcm(PolyDen(V), ShapeDen(MutShape(st))))
   IN  [verts |-> V, store |-> store,
        rad2  |-> IF HasVerts(st.kind) THEN Rad2(MutShape(st)) ELSE Q0,      \* (library radius)^2, for min_dist_ratio
        secv  |-> IF st.kind = "sec3" THEN [j \in 1..3 |-> HexAt(store.secc[j], store.secr, store.secrot)] ELSE <<>>,
        \* containment as the object decides it (its own polygon / disc)
        res   |-> IF HasVerts(st.kind) THEN [n \in 1..NG |-> CodeZ(MutShape(st), K, ZGrid(n, K.D))] ELSE <<>>,
        \* a cluster: the centres of its cells
        cells |-> IF st.kind = "cluster" THEN LayoutCells(ClusterOf(st), st.rot) ELSE <<>>,
        \* the views of the wrap: polygon of the wrapped cell at the wrap's position, users moved along
        wverts |-> IF st.wpos = <<>> THEN <<>> ELSE Verts([MutShape(st) EXCEPT !.pos = st.wpos], st.rot),
        wusers |-> IF st.wpos = <<>> THEN <<>>
                   ELSE [k \in 1..Len(store.users) |->
                           IF Dev.WrapUsersUseCachedTranslation THEN PAdd(store.users[k], store.wtrans)
                           ELSE PAdd(PSub(store.users[k], st.pos), st.wpos)]]
MutState(b, pos, r, rot, wpos, call) ==
   [op |-> "mut", kind |-> b.kind, cls |-> b.cls, w |-> b.w, h |-> b.h, cell |-> b.cell, pos |-> pos, r |-> r, rot |-> rot,
    offs |-> <<>>, wpos |-> wpos, call |-> call]
Raises(st) == st.kind = "cluster"                  \* every mutator of a Cluster is disabled

MutNew ==
   /\ "mut" \in Ops /\ c.op = "init"
   /\ \E b \in 1..Len(MutAlpha.base), p \in 1..Len(MutAlpha.pos), r \in 1..Len(MutAlpha.r), t \in 1..Len(MutAlpha.rot),
        wp \in 0..Len(MutAlpha.wpos) :
        LET base == MutAlpha.base[b]
            st == MutState(base, MutAlpha.pos[p], MutAlpha.r[r], MutAlpha.rot[t],
                           IF wp = 0 THEN <<>> ELSE MutAlpha.wpos[wp], <<"new", b, p, r, t, wp>>)
        IN  /\ HasRot(st.kind) \/ t = 1
            /\ HasRad(st.kind) \/ r = 1
            /\ (wp > 0) = base.wrap
            /\ c' = st
            /\ out' = MutOut(st, FreshStore(st))
\* the three ways of moving the object: how \in {"pos", "rel", "polar"}; arg identifies the argument
MoveTo(newpos, how, arg) ==
   IF Raises(c) THEN c' = [c EXCEPT !.call = <<how, arg, "raises">>] /\ out' = out
   ELSE LET st == [c EXCEPT !.pos = newpos, !.call = <<how, arg>>]
            fs == FreshStore(st)
            bypass == Dev.MoveBypassesPosSetter /\ how # "pos"        \* _pos changed behind the pos setter
        IN  /\ c' = st
            /\ out' = MutOut(st, [out.store EXCEPT
                          !.cpos  = IF Dev.RectanglePosSetterKeepsCorners THEN @ ELSE fs.cpos,
                          !.secc  = IF Dev.Sec3SetPosKeepsSectors \/ bypass THEN @ ELSE fs.secc,
                          !.users = IF bypass THEN @ ELSE fs.users,
                          \* (a cached translation is not refreshed when the wrapped cell moves)
                          !.wtrans = IF Dev.WrapUsersUseCachedTranslation THEN @ ELSE fs.wtrans])
MutSetPos ==
   /\ "mut" \in Ops /\ c.op = "mut"
   /\ \E p \in 1..Len(MutAlpha.pos) : MoveTo(MutAlpha.pos[p], "pos", p)
\* move_by_relative_coordinate(d) with d = (a position of the alphabet) - pos, the null move included
MutMoveRel ==
   /\ "mut" \in Ops /\ c.op = "mut"
   /\ \E p \in 1..Len(MutAlpha.pos) : MoveTo(MutAlpha.pos[p], "rel", p)
\* move_by_relative_polar_coordinate(rho, 30 k degrees) whenever it leads to a position of the alphabet
MutMovePolar ==
   /\ "mut" \in Ops /\ c.op = "mut"
   /\ \E i \in 1..Len(MutAlpha.polar) :
        LET target == PAdd(c.pos, PScale(MutAlpha.polar[i].rho, Cis(MutAlpha.polar[i].k)))
        IN  /\ \E p \in 1..Len(MutAlpha.pos) : MutAlpha.pos[p] = target
            /\ MoveTo(target, "polar", i)
MutSetRot ==
   /\ "mut" \in Ops /\ c.op = "mut" /\ HasRot(c.kind)
   /\ \E t \in 1..Len(MutAlpha.rot) :
        IF Raises(c) THEN c' = [c EXCEPT !.call = <<"rot", t, "raises">>] /\ out' = out
        ELSE LET st == [c EXCEPT !.rot = MutAlpha.rot[t], !.call = <<"rot", t>>]
                 fs == FreshStore(st)
             IN  /\ c' = st
                 /\ out' = MutOut(st, [out.store EXCEPT !.secc = fs.secc, !.secrot = fs.secrot])
MutSetRad ==
   /\ "mut" \in Ops /\ c.op = "mut" /\ HasRad(c.kind)
   /\ \E r \in 1..Len(MutAlpha.r) :
        IF Raises(c) THEN c' = [c EXCEPT !.call = <<"rad", r, "raises">>] /\ out' = out
        ELSE LET st == [c EXCEPT !.r = MutAlpha.r[r], !.call = <<"rad", r>>]
                 fs == FreshStore(st)
             IN  /\ c' = st
                 /\ out' = MutOut(st, [out.store EXCEPT
                               !.secc = IF Dev.Sec3SetRadiusKeepsCentres THEN @ ELSE fs.secc,
                               !.secr = fs.secr])
\* add_user (absolute position pos + next offset of the alphabet) / delete_all_users
MutAddUser ==
   /\ "mut" \in Ops /\ c.op = "mut" /\ c.cell /\ Len(c.offs) < Len(MutAlpha.off)
   /\ LET o  == MutAlpha.off[Len(c.offs) + 1]
          st == [c EXCEPT !.offs = Append(@, o), !.call = <<"adduser", Len(c.offs) + 1>>]
      IN  /\ c' = st
          /\ out' = MutOut(st, [out.store EXCEPT !.users = Append(@, PAdd(c.pos, o))])
MutDelUsers ==
   /\ "mut" \in Ops /\ c.op = "mut" /\ c.cell /\ c.offs # <<>>
   /\ LET st == [c EXCEPT !.offs = <<>>, !.call = <<"delusers">>]
      IN  /\ c' = st
          /\ out' = MutOut(st, [out.store EXCEPT !.users = <<>>])
\* the CellWrap around the cell: it can be moved in the same three ways; rotation = / radius = raise
WrapMoveTo(newpos, how, arg) ==
   LET st == [c EXCEPT !.wpos = newpos, !.call = <<how, arg>>]
   IN  /\ c' = st
       /\ out' = MutOut(st, [out.store EXCEPT !.wtrans = PSub(newpos, c.pos)])
WrapSetPos ==
   /\ "mut" \in Ops /\ c.op = "mut" /\ c.wpos # <<>>
   /\ \E p \in 1..Len(MutAlpha.wpos) : WrapMoveTo(MutAlpha.wpos[p], "wpos", p)
WrapMoveRel ==
   /\ "mut" \in Ops /\ c.op = "mut" /\ c.wpos # <<>>
   /\ \E p \in 1..Len(MutAlpha.wpos) :
        LET st == [c EXCEPT !.wpos = MutAlpha.wpos[p], !.call = <<"wrel", p>>]
        IN  /\ c' = st
            \* a move behind the pos setter does not refresh a cached translation
            /\ out' = MutOut(st, [out.store EXCEPT !.wtrans = IF Dev.MoveBypassesPosSetter THEN @ ELSE PSub(st.wpos, c.pos)])
WrapMovePolar ==
   /\ "mut" \in Ops /\ c.op = "mut" /\ c.wpos # <<>>
   /\ \E i \in 1..Len(MutAlpha.polar) :
        LET target == PAdd(c.wpos, PScale(MutAlpha.polar[i].rho, Cis(MutAlpha.polar[i].k)))
            st == [c EXCEPT !.wpos = target, !.call = <<"wpolar", i>>]
        IN  /\ \E p \in 1..Len(MutAlpha.wpos) : MutAlpha.wpos[p] = target
            /\ c' = st
            /\ out' = MutOut(st, [out.store EXCEPT !.wtrans = IF Dev.MoveBypassesPosSetter THEN @ ELSE PSub(target, c.pos)])
WrapSetRaises ==
   /\ "mut" \in Ops /\ c.op = "mut" /\ c.wpos # <<>>
   /\ \E what \in {"wrot", "wrad"} : c' = [c EXCEPT !.call = <<what, 1, "raises">>] /\ out' = out
\* states are identified without the label of the call that led to them
MutView == <<IF c.op = "mut" THEN [c EXCEPT !.call = <<>>] ELSE c, out>>

(* ------------------------------------ (rel) cases ----------------------------------------------- *)
\* random placement: [what |-> "place", s, rot, ratio (a QR3 value), users, sector (0 = whole cell)]
\* random points:    [what |-> "pproc", s (circle or rect at the origin), n, rmin]
\* The module supplies the polygon / radii the outcome is judged with; the positions are random.
Place ==
   /\ "place" \in Ops /\ c.op = "init"
   /\ \E i \in 1..Len(RelCases) :
        LET rc == RelCases[i]
        IN  /\ rc.what = "place"
            /\ c' = [op |-> "place", s |-> rc.s, rot |-> rc.rot, ratio |-> rc.ratio, users |-> rc.users,
                     sector |-> rc.sector]
            /\ out' = [verts |-> IF rc.sector = 0 THEN Verts(rc.s, rc.rot) ELSE SecHex(rc.s, rc.rot, rc.sector),
                       centre |-> IF rc.sector = 0 THEN rc.s.pos ELSE SecCentres(rc.s.pos, rc.s.r, rc.rot)[rc.sector],
                       rad2 |-> IF rc.sector = 0 THEN Rad2(rc.s) ELSE QSq(SecRadius(rc.s.r))]
\* placement through the cluster-level API Cluster.add_random_users(cell_ids, num_users, user_color, min_dist_ratio):
\*   [what |-> "placecl", cl, rot, form, ids, nums, ratios]
\* `form` is the way the arguments are written; whatever the form, the call means the same thing:
\*   "none_scalar"  cell_ids omitted (= every cell), one number / colour / ratio for all cells
\*   "none_lists"   cell_ids omitted, per-cell lists
\*   "int"          one call per id with a single integer id
\*   "list_scalar"  a list (tuple, array, range) of ids, one number / colour / ratio for all of them
\*   "list_lists"   a list of ids with per-cell lists
\* ids / nums / ratios are aligned sequences (for the "none" forms ids = all cells).  Every targeted cell
\* gets nums[k] users, inside the cell and no closer to its centre than ratios[k] * radius; every other
\* cell gets none.  The machine's effective ratio per cell is what the code path of that form forwards.
PlaceForms == {"none_scalar", "none_lists", "int", "list_scalar", "list_lists"}
PlaceTargets(rc) == IF rc.form \in {"none_scalar", "none_lists"} THEN [k \in 1..rc.cl.n |-> k] ELSE rc.ids
IndexIn(seq, x) == CHOOSE k \in 1..Len(seq) : seq[k] = x
PlaceClOut(rc) ==
   LET P  == LayoutCells(rc.cl, rc.rot)
       T  == PlaceTargets(rc)
       hit(k) == \E j \in 1..Len(T) : T[j] = k
       j(k) == IndexIn(T, k)
   IN  [rad2  |-> Rad2(CellShape(rc.cl, rc.cl.pos)),
        cells |-> [k \in 1..rc.cl.n |->
                     [verts  |-> Verts(CellShape(rc.cl, P[k]), rc.rot),
                      centre |-> P[k],
                      count  |-> IF hit(k) THEN rc.nums[j(k)] ELSE 0,
                      \* the minimum distance ratio in force for this cell
                      ratio  |-> IF ~hit(k) THEN Q0
                                 ELSE IF Dev.ClusterPlaceAllDropsMinDist /\ rc.form = "none_scalar" THEN Q0
                                 ELSE rc.ratios[j(k)]]]]
PlaceCl ==
   /\ "place" \in Ops /\ c.op = "init"
   /\ \E i \in 1..Len(RelCases) :
        LET rc == RelCases[i]
        IN  /\ rc.what = "placecl"
            /\ c' = [op |-> "placecl", cl |-> rc.cl, rot |-> rc.rot, form |-> rc.form, ids |-> rc.ids, nums |-> rc.nums,
                     ratios |-> rc.ratios]
            /\ out' = PlaceClOut(rc)
PProc ==
   /\ "pproc" \in Ops /\ c.op = "init"
   /\ \E i \in 1..Len(RelCases) :
        LET rc == RelCases[i]
        IN  /\ rc.what = "pproc"
            /\ c' = [op |-> "pproc", s |-> rc.s, n |-> rc.n, rmin |-> rc.rmin]
            /\ out' = [verts |-> Verts(rc.s, 0), rad2 |-> Rad2(rc.s), rmin2 |-> QSq(rc.rmin)]

(* ------------------------------------ machine --------------------------------------------------- *)
Idle == [op |-> "init"]
Init == c = Idle /\ out = <<>>
Next == Contain \/ Border \/ Layout \/ DistMat \/ Wrap \/ MutNew \/ MutSetPos \/ MutMoveRel \/ MutMovePolar \/ MutSetRot \/ MutSetRad \/ MutAddUser \/ MutDelUsers
          \/ WrapSetPos \/ WrapMoveRel \/ WrapMovePolar \/ WrapSetRaises
          \/ Place \/ PlaceCl \/ PProc \/ ContainG \/ BorderG \/ LayoutG
Spec == Init /\ [][Next]_vars

(* ------------------------------------ properties ------------------------------------------------ *)
TypeOK == c.op \in {"init", "contain", "border", "layout", "distmat", "wrap", "mut", "place", "placecl", "pproc", "containg", "borderg", "layoutg"}

\* --- vertices
\* a full turn changes nothing; the vertices are at the documented distances from the centre
VertexLaws ==
   c.op \in {"contain", "border"} =>
     LET s == c.s
         V == out.verts
         k == BaseKind(s.kind)
     IN  /\ (c.rot + 360 <= 720) => Verts(s, c.rot + 360) = V
         /\ (c.rot - 360 >= -720) => Verts(s, c.rot - 360) = V
         /\ k \in {"hex", "circle"} => \A i \in 1..Len(V) : Dist2(V[i], s.pos) = QSq(s.r)
         /\ k = "hex" => \A i \in 1..6 : Dist2(V[i], V[NextIdx(V, i)]) = QSq(s.r)
         /\ k \in {"rect", "square"} =>
              /\ \A i \in 1..4 : QIsZero(Dot(PSub(V[NextIdx(V, i)], V[i]),
                                             PSub(V[NextIdx(V, NextIdx(V, i))], V[NextIdx(V, i)])))
              /\ Dist2(V[1], V[2]) = QSq(s.w)
              /\ Dist2(V[2], V[3]) = QSq(IF k = "square" THEN s.w ELSE s.h)
              /\ Centroid(V) = s.pos
         /\ k = "sec3" => /\ Len(V) = 12
                          /\ Centroid(V) = s.pos
                          /\ \A i \in 1..12 : Dist2(V[i], V[NextIdx(V, i)]) = QSq(SecRadius(s.r))

\* --- containment: the point-in-cell test agrees with the polygon (or disc) of the own vertices
ContainmentAgrees ==
   c.op = "contain" => \A n \in 1..NG : out.res[n] # 2 => out.asis[n] = out.res[n]
\* laws of the containment predicate itself (they protect the oracle)
ContainmentLaws ==
   c.op = "contain" =>
     LET s   == c.s
         V   == out.verts
         k   == BaseKind(s.kind)
         Vz  == Verts(s, 0)
         V60 == Verts(s, c.rot + 60)
         S3  == [j \in 1..3 |-> SecHex(s, c.rot, j)]
         D   == QLcm(QLcm(CaseDen(s, V), PolyDen(Vz)), QLcm(PolyDen(V60), IF k = "sec3" THEN PolyDen(S3[1] \o S3[2] \o S3[3]) ELSE 1))
         K   == PolyCtx(V, D)
         Kz  == PolyCtx(Vz, 2 * D)              \* un-rotating a point doubles the scale (cos, sin = ../2)
         K60 == PolyCtx(V60, D)
         E3  == [j \in 1..3 |-> ZEdges(S3[j], D)]
         bk  == 12 - DegK(c.rot)
         cz  == ZPt(s.pos, D)
     IN  \A n \in 1..NG :
           LET p  == ZGrid(n, D)
               in == out.res[n] = 1
               pz == LET r2 == ZRot2(bk, ZVSub(p, cz))
                     IN  <<ZAdd2(ZScale(2, cz[1]), r2[1]), ZAdd2(ZScale(2, cz[2]), r2[2])>>
           IN  out.res[n] # 2 =>
                 \* convex polygons: winding number and same-side test coincide
                 /\ Convex(s.kind) => (in <=> ZConvexInside(K.E, p))
                 \* rigid motion: rotating shape and point together changes nothing
                 /\ in <=> ExpInsideZ(s, Kz, pz)
                 \* a hexagon is invariant under 60 degrees (another vertex order, same cell)
                 /\ k = "hex" => (in <=> ZInside(K60.E, p))
                 \* the 12-gon of a circle's vertices lies inside the disc
                 /\ k = "circle" => (ZInside(K.E, p) => in)
                 \* the 3-sector outline is the union of the three (closed) sector hexagons
                 /\ k = "sec3" => (in <=> \E j \in 1..3 : ZInside(E3[j], p) \/ ZOnBoundary(E3[j], p))
\* the fraction-free decisions coincide with the reference predicates of QR3 (every 5th grid point)
ZAgreesWithQ ==
   c.op = "contain" =>
     \A n \in 1..NG : n % 5 = 0 =>
        /\ out.res[n] # 2 => ((out.res[n] = 1) <=> ExpInside(c.s, c.rot, GridPt(n)))
        /\ (c.s.kind # "circle" /\ OnBoundary(out.verts, GridPt(n))) => out.res[n] = 2
        /\ (c.s.kind = "circle" /\ Dist2(GridPt(n), c.s.pos) = QSq(c.s.r)) => out.res[n] = 2

\* --- border point: on the boundary, exactly in the requested direction, scaled by the ratio
BorderAgrees ==
   c.op = "border" =>
     \A k \in 1..12 : /\ out.bp[k] = ExpBorder(c.s, c.rot, k - 1)
                      /\ out.half[k] = Scaled(c.s, ExpBorder(c.s, c.rot, k - 1), Half)
                      /\ out.zero[k] = c.s.pos                      \* ratio 0: the centre itself
                      /\ out.tiny[k] = Scaled(c.s, ExpBorder(c.s, c.rot, k - 1), Tiny)
BorderLaws ==
   c.op = "border" =>
     LET s == c.s
         V == out.verts
     IN  \A k \in 1..12 :
           LET b == ExpBorder(s, c.rot, k - 1)
               d == PSub(b, s.pos)
           IN  /\ IF s.kind = "circle" THEN Dist2(b, s.pos) = QSq(s.r) ELSE OnBoundary(V, b)
               /\ QIsZero(Cross(d, Cis(k - 1))) /\ QIsPos(Dot(d, Cis(k - 1)))
               /\ PAdd(Scaled(s, b, Half), PScale(Half, d)) = b
               \* every cell is star shaped around its centre: one crossing per direction
               /\ s.kind # "circle" => Cardinality(RayHits(s.pos, Cis(k - 1), V)) = 1
               \* hexagon: a multiple of 30 degrees meets a vertex (r) or the middle of an edge (apothem)
               /\ BaseKind(s.kind) = "hex" => Norm2(d) \in {QSq(s.r), QDivI(QMulI(3, QSq(s.r)), 4)}

\* --- cluster layout
\* the region a neighbouring centre must not enter: the same cell blown up by two around centre p
Blown(cl, p, rot) ==
   Verts([kind |-> IF cl.type = "square" THEN "square" ELSE "hex", pos |-> p, r |-> QMulI(2, cl.r), w |-> QMulI(2, cl.r)], rot)
Touch2(cl) == IF cl.type = "square" THEN QSq(cl.r) ELSE QMulI(3, QSq(cl.r))      \* (2 apothem)^2 resp. side^2
LayoutLaws ==
   c.op = "layout" =>
     LET cl == c.cl
         P  == out.cells
         n  == cl.n
     IN  \* centred around the cluster position
         /\ Centroid(P) = cl.pos
         \* rotating the cluster rotates the centres about the cluster position
         /\ P = [k \in 1..n |-> RotAbout(DegK(c.rot), cl.pos, LayoutCells(cl, 0)[k])]
         \* neighbouring centres are at least two apothems (one side) apart ...
         /\ \A i, j \in 1..n : i < j => QLe(Touch2(cl), Dist2(P[i], P[j]))
         \* ... and every cell touches some neighbour exactly
         /\ n > 1 => \A i \in 1..n : \E j \in 1..n : j # i /\ Dist2(P[i], P[j]) = Touch2(cl)
         \* congruent convex cells of equal orientation overlap iff one centre is strictly inside the
         \* other cell blown up by two: no overlap, and the touching neighbour sits on that boundary
         /\ \A i, j \in 1..n : i # j => ~Inside(Blown(cl, P[i], c.rot), P[j])
         /\ n > 1 => \A i \in 1..n : \E j \in 1..n : j # i /\ OnBoundary(Blown(cl, P[i], c.rot), P[j])
         \* congruent: every cell is the first one moved to its centre
         /\ out.vlast = Translate(out.vfirst, PSub(P[n], P[1]))
\* the cluster radius: the six neighbouring copies of the cluster at twice that distance do not overlap it
\* (for one of the two mirror tilings), and N cells of area A fill a period cell: |T|^2 = N (2 apothem)^2
ClusterRadiusLaws ==
   (c.op = "layout" /\ c.cl.type # "square") =>
     LET cl == c.cl
         P  == out.cells
         free(chir) == \A m \in 0..5 : \A i, j \in 1..cl.n :
                          QLe(Touch2(cl), Dist2(PAdd(P[i], Period(cl, c.rot, chir, m)), P[j]))
     IN  /\ QMulI(4, out.crad2) = QMulI(3 * cl.n, QSq(cl.r))
         /\ free(1) \/ free(2)
         /\ \A i \in 1..cl.n : QLe(Dist2(P[i], cl.pos), out.ext2)
\* 3-sector cells: no sector of one cell overlaps a sector of another cell
Sec3NoOverlap ==
   (c.op = "layout" /\ c.cl.type = "3sec") =>
     LET cl == c.cl
         P  == out.cells
         s  == SecRadius(cl.r)
         C(i) == SecCentres(P[i], cl.r, c.rot)
         big(p) == Verts([kind |-> "hex", pos |-> p, r |-> QMulI(2, s)], c.rot + 30)
     IN  \A i, j \in 1..cl.n : i < j =>
           \A a, b \in 1..3 : ~Inside(big(C(i)[a]), C(j)[b])

\* --- distance matrices: squared Euclidean distances; a user inside a cell is nearer to its own
\* centre than to any other centre (the cells are the Voronoi cells of the centres)
DistLaws ==
   c.op = "distmat" =>
     LET P == out.cells
         U == out.users
     IN  \A u \in 1..Len(U) :
           LET own == c.ids[((u - 1) \div c.per) + 1]
           IN  /\ \A k \in 1..c.cl.n : out.d2[u][k] = Dist2(U[u], P[k])
               /\ \A k \in 1..c.cl.n : k # own => QLt(out.d2[u][own], out.d2[u][k])
               /\ ExpInside(CellShape(c.cl, P[own]), c.rot, U[u])

\* --- wrap around: the 42 wrapped cells and the 19 cells are the 61 lattice points of rings 0..4,
\* each wrapped cell is its original moved by a period vector
WrapLaws ==
   c.op = "wrap" =>
     LET cl == c.cl
         P  == out.cells
         ok(W) == /\ Cardinality(W) = 42
                  /\ Cardinality({w.p : w \in W}) = 42
                  /\ \A w \in W : \A k \in 1..19 : QLe(Touch2(cl), Dist2(w.p, P[k]))
                  /\ \A w, v \in W : w.p # v.p => QLe(Touch2(cl), Dist2(w.p, v.p))
                  /\ \A w \in W : Dist2(w.p, P[w.id]) = QMulI(57, QSq(cl.r))
                  /\ \A w \in W : QLt(QMulI(4, QSq(cl.r)), Dist2(w.p, cl.pos))
     IN  ok(out.w1) /\ ok(out.w2)

\* --- setters: whatever the history of setter calls, the object is that of a fresh construction
MutFresh ==
   c.op = "mut" =>
     LET fresh == MutShape(c)
         V     == IF HasVerts(c.kind) THEN Verts(fresh, c.rot) ELSE <<>>
     IN  /\ out.verts = V
         /\ c.kind \in {"rect", "square"} => out.store.cpos = c.pos
         /\ c.kind = "sec3" =>
               /\ out.store.secc = SecCentres(c.pos, c.r, c.rot)
               /\ out.store.secr = SecRadius(c.r)
               /\ out.store.secrot = c.rot - 30
               \* the stored sector hexagons (rotation rot - 30) are the sectors (rotation rot + 30) as point sets
               /\ \A j \in 1..3 : {out.secv[j][i] : i \in 1..6} = {SecHex(fresh, c.rot, j)[i] : i \in 1..6}
         \* users stay where they were put relative to the cell, hence inside it
         /\ out.store.users = UsersAt(c.pos, c.offs)
         /\ c.cell => \A k \in 1..Len(out.store.users) : ExpInside(fresh, c.rot, out.store.users[k])
         \* a cluster never changes
         /\ c.kind = "cluster" => out.cells = LayoutCells(ClusterOf(c), c.rot)
         \* the wrap shows the wrapped cell at the wrap's position
         /\ c.wpos # <<>> =>
               LET wshape == [fresh EXCEPT !.pos = c.wpos]
               IN  /\ out.wverts = Verts(wshape, c.rot)
                   /\ out.wverts = Translate(V, PSub(c.wpos, c.pos))
                   /\ out.wusers = UsersAt(c.wpos, c.offs)
                   /\ \A k \in 1..Len(out.wusers) : ExpInside(wshape, c.rot, out.wusers[k])

\* --- the geometry is scale free: a similarity p -> 2 p + o applied to shape and query point changes no decision
\* (the harness transports the emitted cases to other scales - 2^-10, 2^9, 2^13 with large offsets - by this law)
SimilarityLaw ==
   c.op = "contain" =>
     LET s  == c.s
         o  == <<QI(1), QF(-1, 2)>>
         s2 == [s EXCEPT !.pos = PAdd(PScale(QI(2), s.pos), o), !.r = QMulI(2, s.r), !.w = QMulI(2, s.w), !.h = QMulI(2, s.h)]
         V2 == Verts(s2, c.rot)
         K2 == PolyCtx(V2, CaseDen(s2, V2))
     IN  /\ V2 = [i \in 1..Len(out.verts) |-> PAdd(PScale(QI(2), out.verts[i]), o)]
         /\ \A n \in 1..NG : (n % 8 = 0 /\ out.res[n] # 2) =>
               ((out.res[n] = 1) <=> ExpInsideZ(s2, K2, ZPt(PAdd(PScale(QI(2), GridPt(n)), o), K2.D)))

\* --- generic angles: the same laws at rotations / directions that are no multiples of 30 degrees
GenericAngleLaws ==
   /\ c.op = "containg" =>
        LET s == c.s
            V == out.verts
            K == PolyCtx(V, CaseDen(s, V))
            k == BaseKind(s.kind)
        IN  \* a rotation keeps distances: the vertices are where the documented construction puts them
            /\ k = "hex" => \A i \in 1..6 : Dist2(V[i], s.pos) = QSq(s.r) /\ Dist2(V[i], V[NextIdx(V, i)]) = QSq(s.r)
            /\ k \in {"rect", "square"} => /\ Dist2(V[1], V[2]) = QSq(s.w)
                                           /\ QIsZero(Dot(PSub(V[2], V[1]), PSub(V[3], V[2])))
            /\ Centroid(V) = s.pos
            \* convex polygons: winding number and same-side test coincide
            /\ Convex(s.kind) => \A n \in 1..NG : out.res[n] # 2 => ((out.res[n] = 1) <=> ZConvexInside(K.E, ZGrid(n, K.D)))
   /\ c.op = "borderg" =>
        \A k \in 1..12 :
          LET b == out.bp[k]
              d == PSub(b, c.s.pos)
              u == DirG(k - 1, c.gd)
          IN  /\ IF c.s.kind = "circle" THEN Dist2(b, c.s.pos) = QSq(c.s.r) ELSE OnBoundary(out.verts, b)
              /\ QIsZero(Cross(d, u)) /\ QIsPos(Dot(d, u))
              /\ Norm2(u) = Q1
              /\ c.s.kind # "circle" => Cardinality(RayHits(c.s.pos, u, out.verts)) = 1
              /\ out.zero[k] = c.s.pos
   /\ c.op = "layoutg" =>
        LET cl == c.cl
            P  == out.cells
        IN  /\ Centroid(P) = cl.pos
            /\ \A i, j \in 1..cl.n : i < j => QLe(Touch2(cl), Dist2(P[i], P[j]))
            /\ cl.n > 1 => \A i \in 1..cl.n : \E j \in 1..cl.n : j # i /\ Dist2(P[i], P[j]) = Touch2(cl)
            /\ out.vlast = Translate(out.vfirst, PSub(P[cl.n], P[1]))

\* --- cluster-level placement: the meaning of the call does not depend on how its arguments are written
PlaceClLaws ==
   c.op = "placecl" =>
     LET T == PlaceTargets(c)
     IN  /\ c.form \in PlaceForms
         /\ Len(c.nums) = Len(T) /\ Len(c.ratios) = Len(T)
         /\ c.form \in {"none_scalar", "list_scalar"} => \A k \in 1..Len(T) : c.nums[k] = c.nums[1] /\ c.ratios[k] = c.ratios[1]
         /\ \A k \in 1..c.cl.n :
               IF \E j \in 1..Len(T) : T[j] = k
                 THEN /\ out.cells[k].count = c.nums[IndexIn(T, k)]
                      /\ out.cells[k].ratio = c.ratios[IndexIn(T, k)]
                 ELSE out.cells[k].count = 0

(* ------------------------------------ emission -------------------------------------------------- *)
Emit == EmitEdge([pre |-> c, post |-> c', out |-> out'])
=============================================================================
