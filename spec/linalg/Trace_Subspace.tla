--------------------------- MODULE Trace_Subspace ---------------------------
(* C20, stage T: calls RECORDED on the real kernels with random complex / real FLOAT matrices of
   every shape 1..8 x 1..8 (inputs outside the Gaussian-integer alphabet of Subspace.tla, condition
   number bounded by the recorder) are validated against the call contract of the specification:
     - the outcome of every call (ok / which exception) is the one Subspace.tla prescribes
       (LrsvOutcome, PcmOutcome, EigOutcome: total on the documented domain, ValueError only for
       n > N),
     - the shapes of everything returned are the ones the contract prescribes (V0 cols x n,
       V1 cols x (cols-n), S ALIGNED with V1, rank-k matrix rows x k, Q R P of the GMD ...),
     - every law the property lists for the operation (ReqPreds) was evaluated by the recorder
       numerically from first principles on the returned values and logged TRUE (rel).
   All traces are validated in ONE run: `tid` is chosen in Init; `mismatch` records the first event
   of a trace that does not conform as <<trace id, event index, failing clause>>.

   Trace file (JSON): [ [ {op, d: {rows, cols, n, k, mc}, out, shape: {name: [..]}, preds: {name: bool}} ] ]   *)
EXTENDS Subspace, IOUtils

Traces == JsonDeserialize(IOEnv.TRACE_FILE)

VARIABLES tid, i, mismatch
tvars == <<tid, i, mismatch, kase>>
T == Traces[tid]

TInit == /\ tid \in 1..Len(Traces) /\ i = 0 /\ mismatch = <<>> /\ kase = None

ExpOut(e) == CASE e.op = "lrsv" -> LrsvOutcome(e.d.rows, e.d.cols, e.d.n)
               [] e.op = "pcm"  -> PcmOutcome(e.d.rows, e.d.cols, e.d.k)
               [] e.op \in {"peig", "leig"} -> EigOutcome(e.d.rows, e.d.n)
               [] OTHER -> "ok"

ExpShape(e) ==
  LET r == e.d.rows  c == e.d.cols  n == e.d.n  k == e.d.k  mc == e.d.mc IN
  CASE e.op = "project" -> [q |-> <<r, r>>, oq |-> <<r, r>>, pm |-> <<r, mc>>, pv |-> <<r>>]
    [] e.op = "chord"   -> [angles |-> <<c>>]
    [] e.op = "chordx"  -> [angles |-> <<Min(c, n)>>]          \* subspaces of dimension c and n # c
    [] e.op = "lrsv"    -> [v0 |-> <<c, n>>, v1 |-> <<c, c - n>>, s |-> <<c - n>>]
    [] e.op = "pcm"     -> [out |-> <<r, k>>]
    [] e.op \in {"peig", "leig"} -> [v |-> <<r, n>>, d |-> <<n>>]
    [] e.op = "smw"     -> [x |-> <<r, r>>]
    [] e.op = "gmd"     -> [q |-> <<r, r>>, r |-> <<r, c>>, p |-> <<c, c>>]
    [] e.op = "whiten"  -> [w |-> <<c, c>>]
    [] OTHER            -> [none |-> <<0>>]

\* the laws of the property, per operation (a recorder cannot silently drop one)
ReqPreds(e) ==
  CASE e.op = "project" -> {"Hermitian", "Idempotent", "FixesA", "Complementary", "ReflectTwice", "SubspaceOnly"}
    [] e.op = "chord"   -> {"ThreeRoutinesAgree", "Symmetric", "ZeroOnEqualSubspaces", "BasisInvariant", "UnitaryInvariant", "AnglesGiveDistance", "SubspaceOnly"}
    [] e.op = "chordx"  -> {"TwoRoutinesAgree", "Symmetric", "BasisInvariant", "UnitaryInvariant", "NestedGivesHalfDimDiff", "AnglesSumCos2IsTrace", "SubspaceOnly"}
    [] e.op = "lrsv"    -> {"Unitary", "SingularValuesAligned", "LeastSubspace"}
    [] e.op = "pcm"     -> {"RankKApproximationColumns"}
    [] e.op \in {"peig", "leig"} -> {"EigenEquation", "ExtremeValuesInOrder", "UnitColumns"}
    [] e.op = "smw"     -> {"IsInverse", "InputUntouched"}
    [] e.op = "gmd"     -> {"Reconstructs", "UnitaryQ", "UnitaryP", "UpperTriangularR", "ConstantDiagonalGeoMean"}
    [] e.op = "whiten"  -> {"WhCWIsIdentity"}
    [] e.op = "conv"    -> {"dBRoundTrip", "dBmRoundTrip", "dBmOffset30", "EbN0RoundTrip", "EbN0Factor"}
    [] OTHER -> {"UnknownOperation"}

\* what a law must have been logged as (FALSE only for a named deviation that is switched on)
ExpPred(e, p) == IF e.op = "whiten" THEN WhitenOutcome(e.d.rows, e.d.cols) ELSE TRUE

InDomain(e) ==
  CASE e.op = "lrsv" -> e.d.n \in 0..e.d.cols
    [] e.op = "chordx" -> e.d.cols \in 1..e.d.rows /\ e.d.n \in 1..e.d.rows /\ e.d.n # e.d.cols
    [] e.op = "pcm"  -> e.d.k \in 1..Min(e.d.rows, e.d.cols)
    [] e.op \in {"peig", "leig"} -> e.d.rows = e.d.cols /\ e.d.n >= 1
    [] OTHER -> e.d.rows >= 1 /\ e.d.cols >= 1

FirstBad(e) ==
  IF ~InDomain(e) THEN <<tid, i + 1, "call outside the documented domain (recorder error)">>
  ELSE IF e.out # ExpOut(e) THEN <<tid, i + 1, "outcome">>
  ELSE IF e.out # "ok" THEN <<>>
  ELSE IF e.shape # ExpShape(e) THEN <<tid, i + 1, "shape">>
  ELSE IF \E p \in ReqPreds(e) : p \notin DOMAIN e.preds THEN <<tid, i + 1, "law not evaluated">>
  ELSE IF \E p \in ReqPreds(e) : e.preds[p] # ExpPred(e, p)
    THEN <<tid, i + 1, "law " \o (CHOOSE p \in ReqPreds(e) : e.preds[p] # ExpPred(e, p))>>
  ELSE <<>>

TStep == /\ i < Len(T)
         /\ mismatch' = IF mismatch # <<>> THEN mismatch ELSE FirstBad(T[i + 1])
         /\ i' = i + 1 /\ UNCHANGED <<tid, kase>>
TDone == i = Len(T) /\ UNCHANGED tvars
TNext == TStep \/ TDone

Conforms == mismatch = <<>>
=============================================================================
