------------------------------ MODULE Subspace ------------------------------
(* C20 - subspace and linear-algebra kernels satisfy their defining identities.

   Anchors: pyphysim/subspace/projections.py (Projection), pyphysim/subspace/metrics.py
   (calc_principal_angles, calc_chordal_distance, calc_chordal_distance_2,
   calc_chordal_distance_from_principal_angles), pyphysim/util/misc.py (gmd, peig, leig,
   least_right_singular_vectors, get_principal_component_matrix, update_inv_sum_diag,
   calc_whitening_matrix), pyphysim/util/conversion.py (dB2Linear, linear2dB, dBm2Linear,
   linear2dBm, SNR_dB_to_EbN0_dB, EbN0_dB_to_SNR_dB).

   The functions are pure, so the machine is a "star": Init chooses nothing, one action per
   family (selected by the constant Kind) picks a case id in Lo..Hi, builds the input from
   the id (exhaustively from the digits of the id, or from the in-spec LCG seeded by Seed)
   and computes - in exact Gaussian-integer / rational arithmetic (CMat) - what the real
   function must return.  The laws the property lists are INVARIANTs, evaluated by TLC on
   every case; `Emit` (an ACTION_CONSTRAINT) prints every case with its exact expected
   observables and the harness executes it on the real pyphysim functions.
   One family is a genuine multi-step machine: the Sherman-Morrison sweep of
   update_inv_sum_diag is one `SmwStep` per loop iteration of the code, with the invariant
   that after every iteration the matrix is the exact inverse of A + D_k.

   Exact families
     proj / projx  P = A (A^H A)^-1 A^H kept fraction free as num/den with den = det(A^H A):
                   Hermitian, idempotent, P A = A, P + oP = I, oP A = 0, (I-2P)^2 = I, tr P = n.
                   projx enumerates EVERY matrix with entries in {-1,0,1}+i{-1,0,1} of the
                   one shape in Shapes (all 2x1, all 3x1 ...), proj draws seeded matrices.
     projhist      the Projection OBJECT over a history of calls (a small state machine, every history
                   of up to 3 steps): construct from the caller's array, then project / oProject /
                   reflect / read oQ in any order while the CALLER may overwrite its array in place.
                   Every value the object returns is computed from the basis as it was at construction
                   (ProjObjectCoherent): Q and oQ always describe the same subspace, repeated calls
                   return the same values, the object never writes into the caller's array.
     chord         chordal distance SQUARED, d2 = ||P_A - P_B||_F^2 / 2 (rational): the
                   Frobenius form (calc_chordal_distance, _2) equals the trace form
                   n - tr(P_A P_B) (sum of sin^2 of the principal angles), symmetry, zero and
                   equal projectors for B = A T (T invertible), invariance under a change of
                   basis of one argument, under a common signed-permutation unitary and under a
                   common Householder reflection (dense, rational unitary); exact sum and product
                   of cos^2 of the principal angles.
     chordx        the same distance between subspaces of DIFFERENT dimension (3x1 vs 3x2, 4x1 vs
                   4x3 ...): Frobenius form = (n1+n2)/2 - tr(P_A P_B), symmetric, invariant under a
                   change of basis of either argument and a common unitary, >= |n1-n2|/2 with
                   equality exactly for nested subspaces (a third of the cases are nested).
     smw           update_inv_sum_diag, see above.
     conv / ebn0   unit conversions on the decade lattice {m 10^e}: a power 10^k W is 10k dB
                   and 10k+30 dBm; the conversions are mutually inverse; Eb/N0 <-> SNR differ
                   by the factor bits-per-symbol in linear scale.
     eig           Hermitian H = Q diag(c) Q^H with Q = U (nu I - 2 v v^H) (a scaled Householder
                   reflection times a signed permutation U: orthogonal columns of equal norm nu,
                   all Gaussian integers) and DISTINCT positive integers c: the eigenvalues are
                   c_k nu^2 and the projector onto any set of eigenvectors is known exactly, so
                   peig / leig are judged by eigenvalues (order!) and by the PROJECTOR onto the
                   returned columns, never by the eigenvectors (arbitrary phase).
     svd           A = Qu[:, :r] diag(c) Qw[:, :r]^H (two such bases, r = min(rows, cols), c
                   distinct, optionally one zero): singular values c_k nu_u nu_w, right singular
                   vectors the columns of Qw, null space = remaining columns.  Expected for
                   least_right_singular_vectors(A, n): a subspace sandwiched between two exact
                   projectors (equal unless the cut falls inside the null space) and the exact
                   remaining singular values, aligned with V1 as the docstring says; for
                   get_principal_component_matrix(A, k): the first k columns of the best
                   rank-k approximation, an exact Gaussian-integer matrix.
   Relation families (rel) - TLC builds and sequences the cases, states what is exactly
   known (trace, determinant, positive-definiteness certificate), the harness evaluates the
   required relation numerically:
     gmd           full-rank A = [L U ; X]: Q R P^H = A, Q, P unitary, R upper triangular with
                   constant diagonal sigma_bar, sigma_bar^(2p) = det(A^H A) (exact when known);
                   every third case has REPEATED, exactly known singular values.
     whiten        Hermitian positive definite C = A^H A + I (Sylvester certificate for n <= 4):
                   W^H C W = I, |det W|^2 det C = 1.
     eigrel        generic Hermitian positive definite H up to 8x8: H V = V diag(D), D the n
                   largest / smallest eigenvalues in order; n = N: sum(D) = tr(H) exactly.

   Named deviations (fields of Dev; all FALSE = intended design; TRUE = what the code did when
   this module was written; the invariants SelectorsTotal / Whitens refute each of them):
     LrsvWideMatrixIndex     least_right_singular_vectors indexes S (min(rows, cols) entries)
                             with the column indexes of V: IndexError for cols - n > rows.
     PcmWideMatrixShape      get_principal_component_matrix builds a rows x rows Sigma for a
                             wide matrix: ValueError for rows < cols.
     WhitenEigNotOrthogonal  calc_whitening_matrix uses a general (non-Hermitian) eigen solver:
                             the eigenvectors of a repeated eigenvalue are not orthogonal and
                             W^H C W # I whenever C has a repeated eigenvalue (C = A^H A + I
                             with cols - rank(A) >= 2: the usual noise-plus-few-interferers
                             covariance).
   The call contract of the selectors (LrsvOutcome, PcmOutcome, EigOutcome, WhitenOutcome) is also
   what Trace_Subspace.tla validates recorded calls on random float matrices against.
     ConvNarrowIntHalfPrecision  linear2dB / SNR_dB_to_EbN0_dB / EbN0_dB_to_SNR_dB take log10 of an 8 / 16 bit numpy
                             integer in half / single precision (3 / 7 digits); refuted by ConvFullPrecision.
     SmwZeroSkipShiftsIndex  update_inv_sum_diag filters the zero elements out of the diagonal BEFORE it
                             enumerates it, so a non-zero element is applied at the position it has in the
                             filtered array: wrong whenever a zero precedes a non-zero element
                             (a seeded regression; refuted by SmwIsInverse).
     ProjLazyOQFromCallerArray  the Projection object computes its orthogonal projector lazily, at the first
                             oProject / oQ, from a stored REFERENCE to the caller's array: when the caller has
                             changed that array in place in between, Q and oQ describe different subspaces
                             (a seeded regression; refuted by ProjObjectCoherent).
   A further deviation has no flag because only its signature is matched (stated in the
   harness): get_principal_component_matrix truncates the singular values when the input has
   an integer dtype (field `intdtype` of the svd cases asks for that call).               *)
EXTENDS Integers, Sequences, FiniteSets, TLC, Emit, CMat

CONSTANTS Kind,     \* "projx" "proj" "projhist" "chord" "chordx" "smw" "conv" "ebn0" "eig" "svd" "gmd" "whiten" "eigrel"
          Seed,     \* seed of the in-spec LCG
          Lo, Hi,   \* case ids Lo..Hi (disjoint ranges run in separate TLC processes)
          Shapes,   \* sequence of <<rows, cols>>; case id uses Shapes[(id % Len(Shapes)) + 1]
          Alpha,    \* seeded entries have re, im in -Alpha..Alpha
          Dev       \* [LrsvWideMatrixIndex, PcmWideMatrixShape, WhitenEigNotOrthogonal,
                    \*  SmwZeroSkipShiftsIndex, ProjLazyOQFromCallerArray, ConvNarrowIntHalfPrecision : BOOLEAN]

VARIABLE kase
vars == <<kase>>

(* ------------------------------------------------------------------ small helpers --- *)
Gi(k)        == <<k, 0, 1>>
\* TLC keeps [i \in S |-> e] as a closure and re-evaluates e on every application, so nested
\* matrix expressions cost the PRODUCT of their sizes.  Fix forces a matrix to an explicit
\* value; every intermediate matrix below is bound by a LET name or passed as an argument
\* (both are evaluated once) after being fixed.  (Measured: a 3x2 chordal case 45 s -> 10 ms.)
Fix(A)       == TLCEval([i \in 1..Len(A) |-> TLCEval(A[i])])
XMul(A, B)   == Fix(MMul(A, B))
XAdd(A, B)   == Fix(MAdd(A, B))
XSub(A, B)   == Fix(MSub(A, B))
XHerm(A)     == Fix(MHerm(A))
XAdj(A)      == Fix(MAdj(A))
XScale(c, A) == Fix(MScale(c, A))
XInv(A)      == XScale(GInv(MDet(A)), XAdj(A))                  \* det # 0
\* k * A for a Gaussian-INTEGER matrix A (all denominators 1): no gcd work
IScale(k, A) == Fix([i \in 1..MRows(A) |-> [j \in 1..MCols(A) |-> <<k * A[i][j][1], k * A[i][j][2], 1>>]])
IDiag(n, k)  == Fix([i \in 1..n |-> [j \in 1..n |-> IF i = j THEN Gi(k) ELSE GZero]])
DiagMat(c)   == Fix([i \in 1..Len(c) |-> [j \in 1..Len(c) |-> IF i = j THEN Gi(c[i]) ELSE GZero]])
Cols(A, js)  == Fix([i \in 1..MRows(A) |-> [t \in 1..Len(js) |-> A[i][js[t]]]])
IsGInt(A)    == \A i \in 1..MRows(A) : \A j \in 1..MCols(A) : A[i][j][3] = 1
Nnz(v)       == Cardinality({i \in 1..MRows(v) : ~GIsZero(v[i][1])})     \* non-zero entries of a column vector
IntFrob(A)   == MFrob2(A)[1]                      \* integer ||A||_F^2 of a Gaussian-integer matrix
Min(a, b)    == IF a < b THEN a ELSE b
Max(a, b)    == IF a < b THEN b ELSE a
RECURSIVE Pow(_, _)
Pow(b, e)    == IF e = 0 THEN 1 ELSE b * Pow(b, e - 1)
RECURSIVE SumInts(_)
SumInts(s)   == IF s = <<>> THEN 0 ELSE Head(s) + SumInts(Tail(s))
RECURSIVE ProdInts(_)
ProdInts(s)  == IF s = <<>> THEN 1 ELSE Head(s) * ProdInts(Tail(s))
SeqToSet(s)  == {s[i] : i \in 1..Len(s)}
Prefix(s, n) == [i \in 1..n |-> s[i]]
Suffix(s, n) == [i \in 1..(Len(s) - n) |-> s[n + i]]     \* s without its first n elements

(* ------------------------------------------------------- seeded pseudo-random input --- *)
RECURSIVE LcgSeq(_, _)
LcgSeq(x, n)  == IF n = 0 THEN <<>> ELSE <<x>> \o LcgSeq(LcgNext(x), n - 1)
Stream(id, n) == LcgSeq(LcgStart(Seed, id), n)
Pick(x, k)    == (x \div 8) % k                   \* 0..k-1
Val(x, a)     == Pick(x, 2 * a + 1) - a           \* -a..a
\* rows x cols Gaussian-integer matrix from stream s, consuming 2*rows*cols numbers after offset off
GMat(s, off, r, c, a, real) ==
    Fix([i \in 1..r |-> [j \in 1..c |->
        LET t == off + 2 * ((i - 1) * c + (j - 1))
        IN  G(Val(s[t + 1], a), IF real THEN 0 ELSE Val(s[t + 2], a))]])
\* every matrix over {-1,0,1} + i{-1,0,1}: the digits of id in base 9
ExhMat(id, r, c) ==
    Fix([i \in 1..r |-> [j \in 1..c |->
        LET dg == (id \div Pow(9, (i - 1) * c + (j - 1))) % 9
        IN  G((dg % 3) - 1, (dg \div 3) - 1)]])
ShapeOf(id) == Shapes[(id % Len(Shapes)) + 1]

(* Magnitude regime.  Every kernel is homogeneous: if the input is multiplied by k > 0 every observable is
   multiplied by a fixed power of k (ScalePower).  Each case carries an exponent sc; the harness multiplies
   the inputs named in ScalePower by 10^sc (10^-sc for the second operand of a binary distance) and divides
   the observables by the law's power before it compares them with the emitted exact values.  The laws are
   checked exactly by TLC for k = 2 where that is not a tautology (ProjScaleLaw, SmwScaleLaw, EigScaleLaw,
   SvdScaleLaw); chordal distances and principal angles are functions of the two projectors.            *)
ScaleOf(id) == <<0, -7, 0, 7, -13, 3, 13, 0>>[Pick(LcgIter(LcgStart(Seed, id), 11), 8) + 1]
ScalePower(kind) ==
    CASE kind \in {"proj", "projhist"} -> [A |-> 1, P |-> 0]                      \* P(kA) = P(A)
      [] kind \in {"chord", "chordx"}   -> [A |-> 1, B |-> -1, d2 |-> 0]           \* d(kA, B/k) = d(A, B), same angles
      [] kind = "smw"    -> [inv0 |-> -1, diag |-> 1, inv |-> -1]                   \* upd(inv(A)/k, k d) = inv(A + D)/k
      [] kind = "eig"    -> [H |-> 1, D |-> 1, proj |-> 0]                          \* eigenvalues k D, same eigenspaces
      [] kind = "svd"    -> [A |-> 1, S |-> 1, proj |-> 0, pcm |-> 1]
      [] kind = "gmd"    -> [A |-> 1, R |-> 1, Q |-> 0]                             \* Q, P unchanged, R -> k R
      [] kind = "whiten" -> [C |-> 1, W |-> -1]                                     \* W(kC) = W(C)/sqrt k: W^H C W scale free (power in halves: -1 = k^(-1/2))
      [] kind = "eigrel" -> [H |-> 1, D |-> 1]
      [] OTHER -> [none |-> 0]

NthSmallest(S, k) == CHOOSE e \in S : Cardinality({y \in S : y < e}) = k
RECURSIVE PermFrom(_, _)          \* the set S in an order driven by the LCG state x
PermFrom(x, S) == IF S = {} THEN <<>>
                  ELSE LET e == NthSmallest(S, Pick(x, Cardinality(S)))
                       IN  <<e>> \o PermFrom(LcgNext(x), S \ {e})
IPow(k) == CASE k % 4 = 0 -> GOne [] k % 4 = 1 -> GI [] k % 4 = 2 -> GNeg(GOne) [] OTHER -> GNeg(GI)
\* U A for the signed-permutation unitary U with (U A)[i] = i^ph[i] A[perm[i]]
SPerm(perm, ph, A) == Fix([i \in 1..MRows(A) |-> [j \in 1..MCols(A) |-> GMul(IPow(ph[i]), A[perm[i]][j])]])
SPermOf(x, r) == [perm |-> PermFrom(x, 1..r), ph |-> TLCEval([i \in 1..r |-> Pick(LcgIter(x, i + 2), 4)])]

\* indexes in S ordered by decreasing / increasing value of c (values distinct on S)
RECURSIVE IdxDesc(_, _)
IdxDesc(c, S) == IF S = {} THEN <<>>
                 ELSE LET k == CHOOSE k \in S : \A j \in S : c[j] <= c[k]
                      IN  <<k>> \o IdxDesc(c, S \ {k})
RECURSIVE IdxAsc(_, _)
IdxAsc(c, S)  == IF S = {} THEN <<>>
                 ELSE LET k == CHOOSE k \in S : \A j \in S : c[j] >= c[k]
                      IN  <<k>> \o IdxAsc(c, S \ {k})

\* Q = U (nu I - 2 v v^H): Gaussian integers, Q^H Q = nu^2 I   (nu = |v|^2 > 0)
HouseBasis(v, u) ==
    LET n  == MRows(v)
        nu == IntFrob(v)
    IN  SPerm(u.perm, u.ph, XSub(IDiag(n, nu), IScale(2, XMul(v, XHerm(v)))))
\* projector numerator onto the columns js of Q (denominator nu^2); js may be empty
ProjCols(Q, js) == IF js = <<>> THEN MZero(MRows(Q), MRows(Q))
                   ELSE LET S == Cols(Q, js) IN XMul(S, XHerm(S))

(* Structured bases.  Every routine that takes a BASIS of a subspace (Projection, calcProjectionMatrix, the three
   chordal-distance routines, calc_principal_angles) must return a result that depends on the SUBSPACE only.  Each
   case therefore names the forms in which its bases are offered besides the matrix as built:
     "colscaled"   A D with an individual non-zero factor per column (exact: ColScale, the factors are Gaussian
                   integers of modulus 1..2; the law is checked exactly by TLC: ProjBasisLaw / ChordBasisFormLaw),
     "unitnorm"    every column divided by its norm (unit-norm columns that are NOT orthogonal),
     "orthonormal" an orthonormal basis of the same subspace,
   in every combination of the two arguments of a binary routine.  The last two forms have irrational entries; the
   harness derives them numerically from A - the EXPECTED value stays the one emitted for A, because it is a
   function of the subspace.                                                                                   *)
\* Mixed real / complex operands: the real part of a Gaussian-integer matrix (a REAL matrix handed to the code as a
\* float array) next to a complex one, in both argument orders of every binary routine.
RePart(A) == Fix([i \in 1..MRows(A) |-> [j \in 1..MCols(A) |-> <<A[i][j][1], 0, 1>>]])
ColFactors == <<Gi(2), Gi(-1), G(0, 1), G(1, 1), G(0, -2), G(1, -1), Gi(1)>>
ColFactor(id, j) == ColFactors[((id + 3 * j) % Len(ColFactors)) + 1]
ColScale(id, A) == Fix([i \in 1..MRows(A) |-> [j \in 1..MCols(A) |-> GMul(A[i][j], ColFactor(id, j))]])
BasisForms == {"asbuilt", "colscaled", "unitnorm", "orthonormal"}

None == [kind |-> "none"]
Init == kase = None

(* ------------------------------------------------------------------- projections --- *)
\* fraction-free projector onto the column space of a full-column-rank Gaussian-integer A:
\* P = num / den, den = det(A^H A) > 0 (an integer), num = A adj(A^H A) A^H (Gaussian integers)
ProjND(A) ==
    LET AH == XHerm(A)
        Gm == XMul(AH, A)
        d  == MDet(Gm)
    IN  IF d[1] = 0 THEN [den |-> 0, num |-> <<>>]
        ELSE [den |-> d[1], num |-> XMul(XMul(A, XAdj(Gm)), AH)]

ProjRecP(id, A, M, p) ==
    LET m  == MRows(A)
    IN  IF p.den = 0 THEN [valid |-> FALSE]
        ELSE LET oN == XSub(IDiag(m, p.den), p.num)
                 rN == XSub(IDiag(m, p.den), IScale(2, p.num))
                 n  == MCols(A)
                 \* a NEARLY DEPENDENT basis of the same subspace: A Till, Till upper triangular with first row
                 \* 2^12 and unit diagonal below (det = 2^12 # 0, columns nearly parallel, cond ~ 1e4)
                 Till == Fix([i \in 1..n |-> [j \in 1..n |-> IF i = 1 THEN Gi(4096) ELSE IF i = j THEN GOne ELSE GZero]])
             IN [valid |-> TRUE, kind |-> "proj", id |-> id, A |-> A, M |-> M, den |-> p.den, sc |-> ScaleOf(id), pw |-> ScalePower("proj"),
                 AD |-> ColScale(id, A), forms |-> BasisForms,
                 Mr |-> RePart(M), PMr |-> XMul(p.num, RePart(M)),       \* a REAL matrix projected by the same basis
                 AI |-> IF n >= 2 THEN XMul(A, Till) ELSE <<>>, detTill |-> Till[1][1][1],     \* det of the upper triangular Till = product of its diagonal = 2^12
                 num |-> p.num, onum |-> oN, rnum |-> rN,
                 PM |-> XMul(p.num, M), oPM |-> XMul(oN, M), RM |-> XMul(rN, M)]

\* The matrix M that is projected / reflected has 1..rows+2 columns, chosen by the case: fewer, as many
\* and MORE columns than the basis A, and more columns than rows (wide M) all occur.
McOf(id, rows) == 1 + ((id \div 3) % (rows + 2))
ProjRec(id, A, M) == ProjRecP(id, A, M, ProjND(A))

\* Exact projectors for the sizes 5..8 without determinants: A = Q[:, sel] T with Q = U (nu I - 2 v v^H) (orthogonal
\* Gaussian-integer columns of norm nu) and T unit upper triangular (det 1): span(A) = span(Q[:, sel]), so
\* P = Q[:, sel] Q[:, sel]^H / nu^2 for any size.
ProjQ(id) ==
    LET sh == ShapeOf(id)  N == sh[1]  n == sh[2]  mc == McOf(id, N)
        s  == Stream(id, 2 * N + 2 * n * n + 2 * N * mc + 6)
        o  == 2 * N + 2 * n * n + 2 * N * mc
        real == Pick(s[o + 1], 4) = 0
        v  == GMat(s, 0, N, 1, 1, real)
    IN  IF Nnz(v) < 2 THEN [valid |-> FALSE]
        ELSE LET u   == IF real THEN [perm |-> PermFrom(s[o + 2], 1..N), ph |-> TLCEval([i \in 1..N |-> 2 * Pick(LcgIter(s[o + 2], i), 2)])]
                        ELSE SPermOf(s[o + 2], N)
                 Q   == HouseBasis(v, u)
                 sel == Prefix(PermFrom(s[o + 3], 1..N), n)
                 T0  == GMat(s, 2 * N, n, n, 1, real)
                 T   == Fix([i \in 1..n |-> [j \in 1..n |-> IF i = j THEN GOne ELSE IF i < j THEN T0[i][j] ELSE GZero]])
                 nu  == IntFrob(v)
             IN  ProjRecP(id, XMul(Cols(Q, sel), T), GMat(s, 2 * N + 2 * n * n, N, mc, 2, real),
                          [den |-> nu * nu, num |-> ProjCols(Q, sel)])

ProjX(id) == LET sh == ShapeOf(id)  mc == McOf(id, sh[1])  s == Stream(id, 2 * sh[1] * mc)
             IN  ProjRec(id, ExhMat(id, sh[1], sh[2]), GMat(s, 0, sh[1], mc, 2, FALSE))
ProjS(id) == LET sh == ShapeOf(id)  mc == McOf(id, sh[1])
                 s == Stream(id, 2 * sh[1] * sh[2] + 2 * sh[1] * mc + 1)
                 real == Pick(s[Len(s)], 4) = 0
             IN  ProjRec(id, GMat(s, 0, sh[1], sh[2], Alpha, real),
                         GMat(s, 2 * sh[1] * sh[2], sh[1], mc, 2, real))

Proj == /\ Kind \in {"proj", "projx", "projq"} /\ kase = None
        /\ \E id \in Lo..Hi : LET r == IF Kind = "projx" THEN ProjX(id) ELSE IF Kind = "projq" THEN ProjQ(id) ELSE ProjS(id)
                              IN  r.valid /\ kase' = r

IsProj == kase.kind = "proj"
ProjHermitian     == IsProj => kase.num = XHerm(kase.num) /\ IsGInt(kase.num) /\ kase.den > 0
ProjIdempotent    == IsProj => XMul(kase.num, kase.num) = IScale(kase.den, kase.num)
ProjFixesA        == IsProj => XMul(kase.num, kase.A) = IScale(kase.den, kase.A)
ProjComplementary == IsProj => /\ XAdd(kase.num, kase.onum) = IDiag(MRows(kase.A), kase.den)
                               /\ MIsZero(XMul(kase.onum, kase.A))
                               /\ MIsZero(XMul(kase.num, kase.onum))
                               /\ XMul(kase.onum, kase.onum) = IScale(kase.den, kase.onum)
ReflectTwice      == IsProj => /\ XMul(kase.rnum, kase.rnum) = IDiag(MRows(kase.A), kase.den * kase.den)
                               /\ XMul(kase.rnum, kase.RM) = IScale(kase.den * kase.den, kase.M)
ProjRank          == IsProj => MTrace(kase.num) = Gi(MCols(kase.A) * kase.den)
ProjSplits        == IsProj => XAdd(kase.PM, kase.oPM) = IScale(kase.den, kase.M)
\* homogeneity, exactly for k = 2: the projector of 2A is the projector of A
\* the projector depends on the subspace only: rescaling the columns individually does not change it
ProjBasisLaw      == IsProj /\ Kind # "projq" /\ MCols(kase.A) <= 3 /\ MRows(kase.A) <= 6 =>
                               LET pd == ProjND(kase.AD)
                               IN  pd.den > 0 /\ IScale(pd.den, kase.num) = IScale(kase.den, pd.num) /\ kase.forms = BasisForms
ProjScaleLaw      == IsProj /\ Kind # "projq" /\ MCols(kase.A) <= 3 /\ MRows(kase.A) <= 6 => LET p2 == ProjND(IScale(2, kase.A))
                               IN  IScale(p2.den, kase.num) = IScale(kase.den, p2.num) /\ kase.detTill # 0

(* ------------------------------------------- the Projection object over a history of calls --- *)
\* State (fields of kase): A1 = the caller's array at construction, A2 = what the caller may write into the
\* SAME array later (arr = which content the array holds now), qSrc / oqSrc = the array content the object's
\* Q / oQ were computed from (0 = not computed yet), hist = the calls so far, ret = what the last call
\* returned, as "which projector of which content".  The intended object computes both matrices in the
\* constructor; with Dev.ProjLazyOQFromCallerArray oQ is computed at its first use from the caller's array.
HistMax == 3
ProjHistStart(id) ==
    LET sh == ShapeOf(id)  m == sh[1]  n == sh[2]  mc == McOf(id, m)
        s  == Stream(id, 4 * m * n + 2 * m * mc + 1)
        real == Pick(s[Len(s)], 4) = 0
        A1 == GMat(s, 0, m, n, Alpha, real)
        A2 == GMat(s, 2 * m * n, m, n, Alpha, real)
        M  == GMat(s, 4 * m * n, m, mc, 2, real)
        p1 == ProjND(A1)
        p2 == ProjND(A2)
    IN  IF p1.den = 0 \/ p2.den = 0 THEN [valid |-> FALSE]
        ELSE IF IScale(p2.den, p1.num) = IScale(p1.den, p2.num) THEN [valid |-> FALSE]     \* same subspace: nothing to see
        ELSE LET o1 == XSub(IDiag(m, p1.den), p1.num)
                 r1 == XSub(IDiag(m, p1.den), IScale(2, p1.num))
             IN [valid |-> TRUE, kind |-> "projhist", id |-> id, A1 |-> A1, A2 |-> A2, M |-> M, sc |-> ScaleOf(id),
                 den |-> p1.den, num |-> p1.num, onum |-> o1, den2 |-> p2.den, num2 |-> p2.num,
                 PM |-> XMul(p1.num, M), oPM |-> XMul(o1, M), RM |-> XMul(r1, M),
                 arr |-> 1, qSrc |-> 1, oqSrc |-> IF Dev.ProjLazyOQFromCallerArray THEN 0 ELSE 1,
                 hist |-> <<>>, ret |-> [op |-> "construct", src |-> 0]]

ProjHistPick == /\ Kind = "projhist" /\ kase = None
                /\ \E id \in Lo..Hi : LET r == ProjHistStart(id) IN r.valid /\ kase' = r

\* the caller overwrites its array in place (A[...] = A2); the object is not told
CallerMutates == /\ kase.arr = 1
                 /\ kase' = [kase EXCEPT !.arr = 2, !.hist = Append(@, "mutate"), !.ret = [op |-> "mutate", src |-> 0]]
UsesQ(op)  == kase' = [kase EXCEPT !.hist = Append(@, op), !.ret = [op |-> op, src |-> kase.qSrc]]
UsesOQ(op) == LET src == IF kase.oqSrc = 0 THEN kase.arr ELSE kase.oqSrc      \* lazily filled from the caller's array
              IN  kase' = [kase EXCEPT !.oqSrc = src, !.hist = Append(@, op), !.ret = [op |-> op, src |-> src]]
ProjHistStep == /\ kase.kind = "projhist" /\ Len(kase.hist) < HistMax
                /\ \/ CallerMutates
                   \/ UsesQ("project") \/ UsesQ("reflect")
                   \/ UsesOQ("oProject") \/ UsesOQ("oQ")

IsProjHist == kase.kind = "projhist"
\* everything the object returns comes from the basis as it was at construction, Q and oQ from the same one
ProjObjectCoherent == IsProjHist => /\ kase.qSrc = 1
                                    /\ kase.oqSrc \in {0, kase.qSrc}
                                    /\ kase.ret.src \in {0, 1}
ProjHistInputs     == IsProjHist => /\ XAdd(kase.num, kase.onum) = IDiag(MRows(kase.A1), kase.den)
                                    /\ XMul(kase.num, kase.A1) = IScale(kase.den, kase.A1)
                                    /\ XMul(kase.num2, kase.A2) = IScale(kase.den2, kase.A2)
                                    /\ IScale(kase.den2, kase.num) # IScale(kase.den, kase.num2)      \* the mutation matters

(* -------------------------------------------------------------- chordal distance --- *)
\* tr(P_A P_B) dA dB ; real because both numerators are Hermitian
TrNum(pa, pb)    == MTrace(XMul(pa.num, pb.num))
D2Trace(pa, pb, n) == RNorm(n * pa.den * pb.den - TrNum(pa, pb)[1], pa.den * pb.den)
D2Frob(pa, pb)   == RNorm(IntFrob(XSub(IScale(pb.den, pa.num), IScale(pa.den, pb.num))),
                          2 * pa.den * pa.den * pb.den * pb.den)

ChordRec(id) ==
    LET sh == ShapeOf(id)  m == sh[1]  n == sh[2]
        s  == Stream(id, 4 * m * n + 2 * n * n + 3 * m + 6)
        real == Pick(s[Len(s)], 4) = 0
        A  == GMat(s, 0, m, n, 1, real)
        B  == GMat(s, 2 * m * n, m, n, 1, real)
        T  == GMat(s, 4 * m * n, n, n, 1, real)
        pa == ProjND(A)
        pb == ProjND(B)
    IN  IF pa.den = 0 \/ pb.den = 0 \/ GIsZero(MDet(T)) THEN [valid |-> FALSE]
        ELSE LET AT == XMul(A, T)
                 u  == SPermOf(s[4 * m * n + 2 * n * n + 1], m)
                 UA == SPerm(u.perm, u.ph, A)
                 UB == SPerm(u.perm, u.ph, B)
                 pt == ProjND(AT)
                 \* a dense common rotation: the Householder reflection I - 2 v v^H / nu is unitary with
                 \* rational entries; R = nu I - 2 v v^H is nu times it and R A spans the rotated subspace
                 v0 == GMat(s, 4 * m * n + 2 * n * n + m + 2, m, 1, 1, real)
                 v  == IF Nnz(v0) < 2 THEN Fix([i \in 1..m |-> <<GOne>>]) ELSE v0
                 nu == IntFrob(v)
                 Rh == XSub(IDiag(m, nu), IScale(2, XMul(v, XHerm(v))))
                 dAB == MDet(XMul(XHerm(A), B))
                 Till == Fix([i \in 1..n |-> [j \in 1..n |-> IF i = 1 THEN Gi(4096) ELSE IF i = j THEN GOne ELSE GZero]])
             IN [valid |-> TRUE, kind |-> "chord", id |-> id, n |-> n, A |-> A, B |-> B, T |-> T, sc |-> ScaleOf(id),
                 AI |-> IF n >= 2 THEN XMul(A, Till) ELSE <<>>,          \* nearly dependent basis of span(A)
                 \* mixed operands: the REAL matrix Re(A) against the (complex) B, both orders
                 Ar |-> IF ProjND(RePart(A)).den = 0 THEN <<>> ELSE RePart(A),
                 d2rc |-> IF ProjND(RePart(A)).den = 0 THEN <<>> ELSE <<D2Frob(ProjND(RePart(A)), pb), D2Frob(pb, ProjND(RePart(A)))>>,
                 AD |-> ColScale(id, A), BD |-> ColScale(id + 1, B), forms |-> BasisForms,
                 d2ad |-> D2Trace(ProjND(ColScale(id, A)), pb, n),       \* columns of A rescaled individually
                 d2bd |-> D2Trace(pa, ProjND(ColScale(id + 1, B)), n),
                 AT |-> AT, UA |-> UA, UB |-> UB, HA |-> XMul(Rh, A), HB |-> XMul(Rh, B), Rh |-> Rh, hnu |-> nu,
                 \* product of the squared cosines of the principal angles = |det(A^H B)|^2 / (det A^H A det B^H B)
                 cos2prod |-> RNorm(GAbs2(dAB)[1], pa.den * pb.den),
                 cos2sum |-> RSub(R(n), D2Frob(pa, pb)),
                 d2 |-> D2Frob(pa, pb),                         \* the definition
                 d2tr |-> D2Trace(pa, pb, n),                   \* principal-angle form
                 d2ba |-> D2Frob(pb, pa),
                 d2u |-> D2Frob(ProjND(UA), ProjND(UB)),
                 d2eq |-> D2Trace(pa, pt, n),
                 d2atb |-> D2Trace(pt, pb, n),
                 sameP |-> IScale(pt.den, pa.num) = IScale(pa.den, pt.num),
                 trIm |-> TrNum(pa, pb)[2]]

Chord == /\ Kind = "chord" /\ kase = None
         /\ \E id \in Lo..Hi : LET r == ChordRec(id) IN r.valid /\ kase' = r

IsChord == kase.kind = "chord"
ChordFormsAgree      == IsChord => kase.d2 = kase.d2tr /\ kase.trIm = 0
ChordSymmetric       == IsChord => kase.d2ba = kase.d2
ChordZeroOnEqual     == IsChord => kase.sameP /\ kase.d2eq = RZero
ChordBasisInvariant  == IsChord => kase.d2atb = kase.d2
ChordUnitaryInvariant == IsChord => kase.d2u = kase.d2
ChordHouseholderIsUnitary == IsChord => /\ kase.Rh = XHerm(kase.Rh)
                                        /\ XMul(kase.Rh, kase.Rh) = IDiag(MRows(kase.A), kase.hnu * kase.hnu)
ChordAngles          == IsChord => /\ RLe(RZero, kase.cos2prod) /\ RLe(kase.cos2prod, ROne)
                                   /\ (kase.n = 1 => kase.cos2prod = kase.cos2sum)
                                   /\ (kase.d2 = RZero => kase.cos2prod = ROne)
\* the distance depends on the two subspaces only (columns rescaled individually)
ChordMixedSymmetric  == IsChord /\ kase.d2rc # <<>> => kase.d2rc[1] = kase.d2rc[2]
ChordBasisFormLaw    == IsChord => kase.d2ad = kase.d2 /\ kase.d2bd = kase.d2 /\ kase.forms = BasisForms
ChordRange           == IsChord => RLe(RZero, kase.d2)
                                   /\ RLe(kase.d2, R(Min(kase.n, MRows(kase.A) - kase.n)))

(* ------------------------------- chordal distance between subspaces of DIFFERENT dimension --- *)
\* Shapes holds triples <<rows, n1, n2>>.  d2 = ||P_A - P_B||_F^2 / 2 is defined for any two subspaces;
\* expanding the square gives the trace form (n1 + n2) / 2 - tr(P_A P_B).  It is symmetric, invariant under
\* a change of basis of either argument and under a common unitary, at least |n1 - n2| / 2, with equality
\* exactly when one subspace contains the other.  (Integer bound: the Frobenius sum is
\* (dA dB)^2 2 d2 <= (dA dB)^2 (n1 + n2), which the shapes offered by the harness keep below 2^31.)
D2TraceG(pa, pb, n1, n2) == RNorm((n1 + n2) * pa.den * pb.den - 2 * TrNum(pa, pb)[1], 2 * pa.den * pb.den)
Abs1(x) == IF x < 0 THEN -x ELSE x

ChordXRec(id) ==
    LET sh == ShapeOf(id)  m == sh[1]  n1 == sh[2]  n2 == sh[3]
        o  == 2 * m * n1 + 2 * m * n2 + 2 * n1 * n1 + 2 * n2 * n2
        s  == Stream(id, o + 2 * m + 8)
        real == Pick(s[o + 2 * m + 1], 4) = 0
        nested == Pick(s[o + 2 * m + 2], 3) = 0 /\ n1 # n2
        A  == GMat(s, 0, m, n1, 1, real)
        B0 == GMat(s, 2 * m * n1, m, n2, 1, real)
        T1 == GMat(s, 2 * m * n1 + 2 * m * n2, n1, n1, 1, real)
        T2 == GMat(s, 2 * m * n1 + 2 * m * n2 + 2 * n1 * n1, n2, n2, 1, real)
        \* nested variant: the smaller subspace is spanned by (signed, permuted) columns of the larger one
        w  == SPermOf(s[o + 2 * m + 3], m)
        B  == IF ~nested THEN B0
              ELSE IF n1 < n2 THEN Fix([i \in 1..m |-> [j \in 1..n2 |-> IF j <= n1 THEN GMul(IPow(w.ph[j]), A[i][n1 + 1 - j]) ELSE B0[i][j]]])
              ELSE Fix([i \in 1..m |-> [j \in 1..n2 |-> GMul(IPow(w.ph[j]), A[i][n1 + 1 - j])]])
        pa == ProjND(A)
        pb == ProjND(B)
    IN  IF pa.den = 0 \/ pb.den = 0 \/ GIsZero(MDet(T1)) \/ GIsZero(MDet(T2)) THEN [valid |-> FALSE]
        ELSE LET AT == XMul(A, T1)
                 BT == XMul(B, T2)
                 u  == SPermOf(s[o + 2 * m + 4], m)
                 UA == SPerm(u.perm, u.ph, A)
                 UB == SPerm(u.perm, u.ph, B)
                 v0 == GMat(s, o, m, 1, 1, real)
                 v  == IF Nnz(v0) < 2 THEN Fix([i \in 1..m |-> <<GOne>>]) ELSE v0
                 nu == IntFrob(v)
                 Rh == XSub(IDiag(m, nu), IScale(2, XMul(v, XHerm(v))))
                 pat == ProjND(AT)
                 pbt == ProjND(BT)
             IN [valid |-> TRUE, kind |-> "chordx", id |-> id, sc |-> ScaleOf(id), rows |-> m,
                 Ar |-> IF ProjND(RePart(A)).den = 0 THEN <<>> ELSE RePart(A),
                 d2rc |-> IF ProjND(RePart(A)).den = 0 THEN <<>> ELSE <<D2Frob(ProjND(RePart(A)), pb), D2Frob(pb, ProjND(RePart(A)))>>,
                 AD |-> ColScale(id, A), BD |-> ColScale(id + 1, B), forms |-> BasisForms,
                 d2ad |-> D2TraceG(ProjND(ColScale(id, A)), pb, n1, n2), d2bd |-> D2TraceG(pa, ProjND(ColScale(id + 1, B)), n1, n2), n1 |-> n1, n2 |-> n2, nested |-> nested,
                 A |-> A, B |-> B, AT |-> AT, BT |-> BT, UA |-> UA, UB |-> UB, HA |-> XMul(Rh, A), HB |-> XMul(Rh, B),
                 Rh |-> Rh, hnu |-> nu,
                 d2 |-> D2Frob(pa, pb),                               \* the definition
                 d2tr |-> D2TraceG(pa, pb, n1, n2),
                 d2ba |-> D2Frob(pb, pa),
                 d2atb |-> D2TraceG(pat, pb, n1, n2),
                 d2abt |-> D2TraceG(pa, pbt, n1, n2),
                 d2u |-> D2Frob(ProjND(UA), ProjND(UB)),
                 \* sum of cos^2 of the min(n1, n2) principal angles = ||Q1^H Q2||_F^2 = tr(P_A P_B)
                 cos2sum |-> RNorm(TrNum(pa, pb)[1], pa.den * pb.den),
                 \* B inside A or A inside B  <=>  the smaller projector is absorbed by the larger one
                 contained |-> IF n1 <= n2 THEN XMul(pb.num, pa.num) = IScale(pb.den, pa.num)
                               ELSE XMul(pa.num, pb.num) = IScale(pa.den, pb.num)]

ChordX == /\ Kind = "chordx" /\ kase = None
          /\ \E id \in Lo..Hi : LET r == ChordXRec(id) IN r.valid /\ kase' = r

IsChordX == kase.kind = "chordx"
ChordXFormsAgree      == IsChordX => kase.d2 = kase.d2tr
ChordXSymmetric       == IsChordX => kase.d2ba = kase.d2
ChordXBasisInvariant  == IsChordX => kase.d2atb = kase.d2 /\ kase.d2abt = kase.d2
ChordXUnitaryInvariant == IsChordX => /\ kase.d2u = kase.d2
                                      /\ XMul(kase.Rh, kase.Rh) = IDiag(kase.rows, kase.hnu * kase.hnu)
ChordXMixedSymmetric  == IsChordX /\ kase.d2rc # <<>> => kase.d2rc[1] = kase.d2rc[2]
ChordXBasisFormLaw    == IsChordX => kase.d2ad = kase.d2 /\ kase.d2bd = kase.d2 /\ kase.forms = BasisForms
ChordXRange           == IsChordX => LET lowest == <<Abs1(kase.n1 - kase.n2), 2>> IN
                            /\ RLe(RNorm(lowest[1], 2), kase.d2)
                            /\ RLe(kase.d2, RNorm(kase.n1 + kase.n2, 2))
                            /\ RLe(kase.d2, RNorm(2 * kase.rows - kase.n1 - kase.n2, 2))
                            /\ (kase.contained <=> kase.d2 = RNorm(lowest[1], 2))       \* equality iff nested
                            /\ (kase.nested => kase.contained)
                            /\ RLe(RZero, kase.cos2sum) /\ RLe(kase.cos2sum, R(Min(kase.n1, kase.n2)))

(* ------------------------------------- update_inv_sum_diag: Sherman-Morrison sweep --- *)
\* State: the inverse of A + D_k kept as adjugate num over determinant delta (Gaussian
\* integers), k = number of diagonal elements already added.  One SmwStep = one iteration of
\* the loop in the code:  X <- X - d X e_k e_k^T X / (1 + d X_kk).  Fraction free this is
\*   delta' = delta + d num[k][k]            (matrix determinant lemma)
\*   num'   = (num delta' - d num[:,k] num[k,:]) / delta      (exact division)
\* The sweep is defined only while every 1 + d X_kk # 0, i.e. every A + D_k is invertible.
\* the diagonal elements are Gaussian integers (GRat): real ones, zeros in any position, and - for complex A -
\* genuinely complex ones (the pivot 1 + d X_kk and the outer product are then complex through d itself)
DiagK(dd, k) == Fix([i \in 1..Len(dd) |-> [j \in 1..Len(dd) |-> IF i = j /\ i <= k THEN dd[i] ELSE GZero]])
DiagSeqK(dd, k) == [i \in 1..Len(dd) |-> IF i <= k THEN dd[i] ELSE GZero]
DiagAlphabet(real) == IF real THEN <<Gi(0), Gi(1), Gi(2), Gi(0), Gi(3), Gi(-2), Gi(5)>>
                      ELSE <<Gi(0), Gi(1), G(0, 1), Gi(0), G(1, -1), Gi(-2), G(0, -2), Gi(3), G(2, 1)>>

SmwStart(id) ==
    LET sh == ShapeOf(id)  n == sh[1]
        s  == Stream(id, 2 * n * n + n + 1)
        real == Pick(s[Len(s)], 3) = 0
        A  == GMat(s, 0, n, n, Alpha, real)
        dt == MDet(A)
        \* zeros occur in EVERY position of the diagonal (a zero element leaves the inverse unchanged)
        dd == [i \in 1..n |-> DiagAlphabet(real)[Pick(s[2 * n * n + i], Len(DiagAlphabet(real))) + 1]]
    IN  IF GIsZero(dt) THEN [valid |-> FALSE]
        ELSE [valid |-> TRUE, kind |-> "smw", id |-> id, sc |-> ScaleOf(id), A |-> A, dd |-> dd, k |-> 0, num |-> XAdj(A),
              delta |-> dt, inv0 |-> XInv(A), diagk |-> DiagSeqK(dd, 0), expInv |-> XInv(A)]

SmwPick == /\ Kind = "smw" /\ kase = None
           /\ \E id \in Lo..Hi : LET r == SmwStart(id) IN r.valid /\ kase' = r

SmwStep == /\ kase.kind = "smw" /\ kase.k < Len(kase.dd)
           /\ LET k  == kase.k + 1
                  d  == kase.dd[k]
                  isz == GIsZero(d)
                  X  == kase.num
                  n  == Len(kase.dd)
                  \* the pivot position of element k: k itself; with the deviation, its position among the
                  \* non-zero elements (zeros were filtered out before the enumeration)
                  pos == IF Dev.SmwZeroSkipShiftsIndex THEN Cardinality({j \in 1..k : ~GIsZero(kase.dd[j])}) ELSE k
                  dl == IF isz THEN kase.delta ELSE GAdd(kase.delta, GMul(d, X[pos][pos]))
              IN  /\ ~GIsZero(dl)
                  /\ kase' = [kase EXCEPT !.k = k, !.delta = dl,
                        !.num = IF isz THEN X ELSE Fix([i \in 1..n |-> [j \in 1..n |->
                                    GDiv(GSub(GMul(X[i][j], dl), GMul(d, GMul(X[i][pos], X[pos][j]))), kase.delta)]]),
                        !.diagk = DiagSeqK(kase.dd, k),
                        !.expInv = XInv(XAdd(kase.A, DiagK(kase.dd, k)))]

IsSmw == kase.kind = "smw"
SmwIsInverse == IsSmw => LET B == XAdd(kase.A, DiagK(kase.dd, kase.k))
                         IN  /\ kase.delta = MDet(B)
                             /\ kase.num = XAdj(B)
                             /\ XMul(B, kase.num) = XScale(kase.delta, IDiag(Len(kase.dd), 1))
                             /\ kase.expInv = XScale(GInv(kase.delta), kase.num)
\* homogeneity for k = 2: adj(2B) / det(2B) = (adj(B) / det(B)) / 2, fraction free
SmwScaleLaw  == IsSmw => LET B2 == IScale(2, XAdd(kase.A, DiagK(kase.dd, kase.k)))
                         IN  XMul(B2, kase.num) = XScale(GMul(Gi(2), kase.delta), IDiag(Len(kase.dd), 1))

(* ------------------------------------------------------------- unit conversions --- *)
\* A power m * 10^e W (m in 1..9).  On the decade lattice (m = 1) everything is an integer:
\*   dB(10^k) = 10 k,  dBm(10^k) = 10 k + 30 = dB(1000 * 10^k),  and back.
\* Argument types: integer-valued arguments (the mantissa m as a linear value, bits per symbol) are offered as
\* Python int and as numpy integers of every width; the result must not depend on the width.  With
\* Dev.ConvNarrowIntHalfPrecision the logarithm of an 8 / 16 bit integer is taken in half / single precision
\* (numpy's default promotion), which is what the code did when this clause was added.
ArgTypes == <<"int", "int64", "int32", "int16", "uint8", "int8", "uint16">>
ArgTypeOf(id) == ArgTypes[((id \div 2) % Len(ArgTypes)) + 1]
FullPrecision(atype) == ~(Dev.ConvNarrowIntHalfPrecision /\ atype \in {"int16", "uint8", "int8", "uint16"})
\* frame laws of every conversion function called with a float ARRAY: the array is an input only, and a second
\* call with the same array returns the same values (a conversion has no state)
ConvFrame == {"ArgumentsUnchanged", "SecondCallSameResult"}
DbOfDecade(k)   == 10 * k
DbmOfDecade(k)  == 10 * (k + 3)
DecadeOfDb(y)   == y \div 10          \* y a multiple of 10
DecadeOfDbm(y)  == (y \div 10) - 3
ConvRec(id) ==
    LET K == Alpha                    \* decades -K..K
        k == (id % (2 * K + 1)) - K
        m == ((id \div (2 * K + 1)) % 9) + 1
    IN  [valid |-> TRUE, kind |-> "conv", id |-> id, frame |-> ConvFrame, k |-> k, m |-> m, atype |-> ArgTypeOf(id), precise |-> FullPrecision(ArgTypeOf(id)),
         dB |-> DbOfDecade(k), dBm |-> DbmOfDecade(k),
         linOfdB |-> DecadeOfDb(10 * k),            \* dB2Linear(10 k)  = 10^(this)
         linOfdBm |-> DecadeOfDbm(10 * k),          \* dBm2Linear(10 k) = 10^(this)
         y |-> 10 * k + m - 5]                      \* an arbitrary integer dB value for round trips
Conv == /\ Kind = "conv" /\ kase = None
        /\ \E id \in Lo..Hi : kase' = ConvRec(id)
IsConv == kase.kind = "conv"
ConvInverse == IsConv => /\ DecadeOfDb(kase.dB) = kase.k /\ DecadeOfDbm(kase.dBm) = kase.k
                         /\ DbOfDecade(kase.linOfdB) = 10 * kase.k
                         /\ DbmOfDecade(kase.linOfdBm) = 10 * kase.k
\* the value of a conversion does not depend on the width of an integer argument
ConvFullPrecision == kase.kind \in {"conv", "ebn0"} => kase.precise /\ kase.frame = ConvFrame
ConvOffset  == IsConv => kase.dBm - kase.dB = 30 /\ kase.linOfdB - kase.linOfdBm = 3

\* Eb/N0 = SNR / bits-per-symbol (linear).  For Eb/N0 = 10^k: SNR = b * 10^k, an exact rational.
EbRec(id) ==
    LET K == Alpha
        k == (id % (2 * K + 1)) - K
        b == ((id \div (2 * K + 1)) % 10) + 1
    IN  [valid |-> TRUE, kind |-> "ebn0", id |-> id, frame |-> ConvFrame, k |-> k, b |-> b, atype |-> ArgTypeOf(id), precise |-> FullPrecision(ArgTypeOf(id)), ebn0dB |-> 10 * k,
         snrLin |-> [m |-> b, e |-> k],
         snrdB |-> IF b = 1 THEN <<10 * k>> ELSE IF b = 10 THEN <<10 * k + 10>> ELSE <<>>,
         y |-> 10 * k + b - 5]
Eb == /\ Kind = "ebn0" /\ kase = None
      /\ \E id \in Lo..Hi : kase' = EbRec(id)
IsEb == kase.kind = "ebn0"
EbLaw == IsEb => /\ kase.b \in 1..10 /\ kase.snrLin.m = kase.b /\ kase.snrLin.e * 10 = kase.ebn0dB
                 /\ (kase.snrdB # <<>> => kase.snrdB[1] - kase.ebn0dB = IF kase.b = 10 THEN 10 ELSE 0)

(* ------------------------------------------- matrices with a known spectrum (exact) --- *)
\* first n of a LCG-driven ordering of 1..(n+2): n distinct positive integers
Weights(x, n) == Prefix(PermFrom(x, 1..(n + 2)), n)
\* weights WITH repetitions: n values from 1..max(2, n div 2) (groups of equal eigen / singular values)
RepWeights(x, n) == LET g == Max(2, n \div 2) IN TLCEval([k \in 1..n |-> 1 + Pick(LcgIter(x, k), g)])
\* indexes of S whose value is > / >= / < / <= t (as a sequence, for ProjCols)
IdxWhere(c, S, rel, t) == PermFrom(1, {k \in S : CASE rel = "gt" -> c[k] > t [] rel = "ge" -> c[k] >= t
                                                    [] rel = "lt" -> c[k] < t [] OTHER -> c[k] <= t})

EigRec(id) ==
    LET N  == ShapeOf(id)[1]
        s  == Stream(id, 2 * N + 8)
        real == Pick(s[2 * N + 1], 4) = 0
        v  == GMat(s, 0, N, 1, Alpha, real)
        nu == IntFrob(v)
    IN  IF Nnz(v) < 2 THEN [valid |-> FALSE]          \* a single non-zero entry gives a diagonal Q
        ELSE LET u == IF real THEN [perm |-> PermFrom(s[2 * N + 2], 1..N), ph |-> TLCEval([i \in 1..N |-> 2 * Pick(s[2 * N + 2 + (i % 5)], 2)])]
                      ELSE SPermOf(s[2 * N + 2], N)
                 Q   == HouseBasis(v, u)
                 \* every other case has REPEATED eigenvalues (groups of equal weights)
                 c   == IF Pick(s[2 * N + 5], 2) = 0 THEN Weights(s[2 * N + 3], N) ELSE RepWeights(s[2 * N + 3], N)
                 H   == XMul(XMul(Q, DiagMat(c)), XHerm(Q))
                 n   == 1 + Pick(s[2 * N + 4], N)
                 top == Prefix(IdxDesc(c, 1..N), n)
                 bot == Prefix(IdxAsc(c, 1..N), n)
                 tp  == c[top[n]]                                   \* the n-th largest eigenvalue (in units of nu^2)
                 tl  == c[bot[n]]                                   \* the n-th smallest
                 \* The n dominant eigenvectors span a subspace S with  lo <= S <= hi : lo = eigenspaces of the
                 \* eigenvalues strictly above the n-th largest, hi = those at or above it.  lo = hi unless the cut
                 \* falls inside a group of equal eigenvalues; then any n - dim(lo) dimensions of that group are right.
                 domLo == IdxWhere(c, 1..N, "gt", tp)   domHi == IdxWhere(c, 1..N, "ge", tp)
                 lstLo == IdxWhere(c, 1..N, "lt", tl)   lstHi == IdxWhere(c, 1..N, "le", tl)
             IN [valid |-> TRUE, kind |-> "eig", id |-> id, sc |-> ScaleOf(id), H |-> H, n |-> n, Q |-> Q, c |-> c, nu |-> nu,
                 den |-> nu * nu, top |-> top, bot |-> bot, tooMany |-> N + 1,     \* peig(H, N + 1) must raise ValueError
                 peigD |-> [t \in 1..n |-> c[top[t]] * nu * nu],
                 leigD |-> [t \in 1..n |-> c[bot[t]] * nu * nu],
                 ties |-> \E i, j \in 1..N : i # j /\ c[i] = c[j],
                 domLoIdx |-> domLo, domHiIdx |-> domHi, lstLoIdx |-> lstLo, lstHiIdx |-> lstHi, tp |-> tp, tl |-> tl,
                 domLoNum |-> ProjCols(Q, domLo), domHiNum |-> ProjCols(Q, domHi),
                 lstLoNum |-> ProjCols(Q, lstLo), lstHiNum |-> ProjCols(Q, lstHi),
                 belowNum |-> ProjCols(Q, IdxWhere(c, 1..N, "lt", tp))]
Eig == /\ Kind = "eig" /\ kase = None
       /\ \E id \in Lo..Hi : LET r == EigRec(id) IN r.valid /\ kase' = r
IsEig == kase.kind = "eig"
EigSpectrum == IsEig => LET N == MRows(kase.H) IN
                  /\ kase.H = XHerm(kase.H)
                  /\ XMul(XHerm(kase.Q), kase.Q) = IDiag(N, kase.den)                       \* orthogonal columns
                  /\ XMul(kase.H, kase.Q) = XMul(kase.Q, DiagMat([k \in 1..N |-> kase.c[k] * kase.den]))  \* H q_k = lambda_k q_k
                  /\ \A k \in 1..N : kase.c[k] > 0
EigSelectors == IsEig => LET N == MRows(kase.H)  S(q) == SeqToSet(q) IN
                  /\ \A t \in 1..(kase.n - 1) : kase.peigD[t] >= kase.peigD[t + 1] /\ kase.leigD[t] <= kase.leigD[t + 1]
                  /\ \A k \in 1..N : k \notin S(kase.top) => kase.c[k] * kase.den <= kase.peigD[kase.n]
                  /\ \A k \in 1..N : k \notin S(kase.bot) => kase.c[k] * kase.den >= kase.leigD[kase.n]
                  \* the sandwich: lo inside hi, dim lo <= n <= dim hi, everything between them is ONE group of equal values
                  /\ S(kase.domLoIdx) \subseteq S(kase.domHiIdx) /\ Len(kase.domLoIdx) <= kase.n /\ kase.n <= Len(kase.domHiIdx)
                  /\ S(kase.lstLoIdx) \subseteq S(kase.lstHiIdx) /\ Len(kase.lstLoIdx) <= kase.n /\ kase.n <= Len(kase.lstHiIdx)
                  /\ \A k \in S(kase.domHiIdx) \ S(kase.domLoIdx) : kase.c[k] = kase.tp
                  /\ \A k \in S(kase.lstHiIdx) \ S(kase.lstLoIdx) : kase.c[k] = kase.tl
                  /\ (~kase.ties => Len(kase.domHiIdx) = kase.n /\ Len(kase.lstHiIdx) = kase.n)     \* distinct spectrum: lo = hi
                  /\ XMul(kase.domHiNum, kase.domHiNum) = IScale(kase.den, kase.domHiNum)
                  /\ XMul(kase.lstHiNum, kase.lstHiNum) = IScale(kase.den, kase.lstHiNum)
                  /\ XMul(kase.domHiNum, kase.domLoNum) = IScale(kase.den, kase.domLoNum)          \* lo is inside hi
                  /\ XAdd(kase.domHiNum, kase.belowNum) = IDiag(N, kase.den)        \* eigenvalues >= t (+) eigenvalues < t = everything
                  /\ MTrace(kase.domHiNum) = Gi(Len(kase.domHiIdx) * kase.den)
                  /\ XMul(kase.H, kase.domHiNum) = XMul(kase.domHiNum, kase.H)      \* invariant subspaces
                  /\ XMul(kase.H, kase.lstLoNum) = XMul(kase.lstLoNum, kase.H)
\* homogeneity for k = 2: same eigenvectors, eigenvalues doubled
EigScaleLaw == IsEig => XMul(IScale(2, kase.H), kase.Q) = XMul(kase.Q, DiagMat([k \in 1..MRows(kase.H) |-> 2 * kase.c[k] * kase.den]))

\* The same projector through the generic formula A (A^H A)^-1 A^H (ties the two families together)
EigProjectorIsProjection == IsEig /\ MRows(kase.H) <= 4 /\ kase.nu <= 4 =>        \* (bounds keep det(Q_sel^H Q_sel) = nu^(2n) small)
                  LET p == ProjND(Cols(kase.Q, kase.domHiIdx))
                  IN  IScale(p.den, kase.domHiNum) = IScale(kase.den, p.num)

\* The call contract of the selectors on their documented domain (0 <= n <= cols, 1 <= k <= min(rows, cols),
\* n <= N): outcome of the call.  Trace_Subspace validates recorded calls on random matrices against it.
LrsvOutcome(rows, cols, n) == IF Dev.LrsvWideMatrixIndex /\ cols - n > Min(rows, cols) THEN "raise:IndexError" ELSE "ok"
PcmOutcome(rows, cols, k)  == IF Dev.PcmWideMatrixShape /\ rows < cols THEN "raise:ValueError" ELSE "ok"
EigOutcome(N, n)           == IF n > N THEN "raise:ValueError" ELSE "ok"
WhitenOutcome(rowsA, n)    == ~(Dev.WhitenEigNotOrthogonal /\ n - rowsA >= 2)     \* W^H C W = I for C = A^H A + I

SvdRec(id) ==
    LET sh == ShapeOf(id)  m == sh[1]  nc == sh[2]  r == Min(m, nc)
        s  == Stream(id, 2 * m + 2 * nc + 10)
        o  == 2 * m + 2 * nc
        real == Pick(s[o + 1], 3) = 0
        vu == GMat(s, 0, m, 1, Alpha, real)
        vw == GMat(s, 2 * m, nc, 1, Alpha, real)
        nuU == IntFrob(vu)
        nuW == IntFrob(vw)
    IN  IF Nnz(vu) < Min(2, m) \/ Nnz(vw) < Min(2, nc) THEN [valid |-> FALSE]
        ELSE LET rp(x, k) == [perm |-> PermFrom(x, 1..k), ph |-> TLCEval([i \in 1..k |-> IF real THEN 2 * Pick(LcgIter(x, i), 2) ELSE Pick(LcgIter(x, i), 4)])]
                 Qu == HouseBasis(vu, rp(s[o + 2], m))
                 Qw == HouseBasis(vw, rp(s[o + 3], nc))
                 \* every other case has REPEATED singular values
                 c0 == IF Pick(s[o + 9], 2) = 0 THEN Weights(s[o + 4], r) ELSE RepWeights(s[o + 4], r)
                 lowest == IdxAsc(c0, 1..r)[1]
                 \* optionally a rank-deficient matrix: the smallest weight becomes 0
                 c  == IF r >= 2 /\ Pick(s[o + 5], 4) = 0 THEN [k \in 1..r |-> IF k = lowest THEN 0 ELSE c0[k]] ELSE c0
                 A  == XMul(XMul(Cols(Qu, [k \in 1..r |-> k]), DiagMat(c)), XHerm(Cols(Qw, [k \in 1..r |-> k])))
                 sg == [k \in 1..nc |-> IF k <= r THEN c[k] * nuU * nuW ELSE 0]       \* singular value of right vector k
                 asc == IdxAsc(sg, 1..nc)                                              \* right vectors by increasing singular value
                 n  == Pick(s[o + 6], nc + 1)                                         \* 0..nc
                 \* The n least right singular vectors span a subspace with lo <= span(V0) <= hi: lo = vectors with a
                 \* singular value strictly below the n-th smallest one, hi = at or below it.  lo = hi unless the cut
                 \* falls inside a group of equal singular values (the null space of a wide matrix is such a group).
                 tau == IF n = 0 THEN -1 ELSE sg[asc[n]]
                 lo == IdxWhere(sg, 1..nc, "lt", tau)
                 hi == IdxWhere(sg, 1..nc, "le", tau)
                 remS == [t \in 1..(nc - n) |-> sg[asc[n + t]]]
                 rk == Cardinality({k \in 1..r : c[k] # 0})
                 desc == IdxDesc(c, 1..r)
                 \* the best rank-k approximation is unique only when the k-th and (k+1)-th singular values differ
                 cuts == {k \in 1..rk : k = r \/ c[desc[k]] > c[desc[k + 1]]}
                 kk == NthSmallest(cuts, Pick(s[o + 7], Cardinality(cuts)))
                 topk == Prefix(desc, kk)
                 Ak == XMul(XMul(Cols(Qu, topk), DiagMat([t \in 1..kk |-> c[topk[t]]])), XHerm(Cols(Qw, topk)))
                 lrsvAsIs == LrsvOutcome(m, nc, n)
                 pcmAsIs  == PcmOutcome(m, nc, kk)
             IN [valid |-> TRUE, kind |-> "svd", id |-> id, sc |-> ScaleOf(id), tau |-> tau,
                 ties |-> \E i, j \in 1..r : i # j /\ c[i] = c[j], A |-> A, n |-> n, k |-> kk, rows |-> m, cols |-> nc,
                 Qu |-> Qu, Qw |-> Qw, c |-> c, nuU |-> nuU, nuW |-> nuW, sg |-> sg,
                 den |-> nuW * nuW, loNum |-> ProjCols(Qw, lo), hiNum |-> ProjCols(Qw, hi), loIdx |-> lo, hiIdx |-> hi,
                 remS |-> remS, pcm |-> Cols(Ak, [t \in 1..kk |-> t]), Ak |-> Ak, topk |-> topk,
                 intdtype |-> real /\ Pick(s[o + 8], 2) = 0,
                 lrsvStatus |-> lrsvAsIs, pcmStatus |-> pcmAsIs,
                 lrsvRaisesAsWas |-> nc - n > r, pcmRaisesAsWas |-> m < nc]
Svd == /\ Kind = "svd" /\ kase = None
       /\ \E id \in Lo..Hi : LET r == SvdRec(id) IN r.valid /\ kase' = r
IsSvd == kase.kind = "svd"
SvdSpectrum == IsSvd => LET r == Min(kase.rows, kase.cols) IN
                  /\ XMul(XHerm(kase.Qw), kase.Qw) = IDiag(kase.cols, kase.den)
                  /\ XMul(XHerm(kase.Qu), kase.Qu) = IDiag(kase.rows, kase.nuU * kase.nuU)
                  \* A w_k = c_k nuW^2 u_k (k <= r), A w_k = 0 (k > r): so ||A w_k|| / ||w_k|| = c_k nuU nuW = sg[k]
                  /\ XMul(kase.A, kase.Qw) = [i \in 1..kase.rows |-> [k \in 1..kase.cols |->
                          IF k <= r THEN GMul(Gi(kase.c[k] * kase.den), kase.Qu[i][k]) ELSE GZero]]
                  /\ \A k \in 1..r : kase.c[k] >= 0
\* homogeneity for k = 2: same singular vectors, singular values doubled
SvdScaleLaw == IsSvd => LET r == Min(kase.rows, kase.cols) IN
                  XMul(IScale(2, kase.A), kase.Qw) = Fix([i \in 1..kase.rows |-> [k \in 1..kase.cols |->
                          IF k <= r THEN GMul(Gi(2 * kase.c[k] * kase.den), kase.Qu[i][k]) ELSE GZero]])
SvdSelectors == IsSvd =>
                  /\ Len(kase.remS) = kase.cols - kase.n                                   \* S aligned with V1
                  /\ \A t \in 1..(Len(kase.remS) - 1) : kase.remS[t] <= kase.remS[t + 1]
                  /\ Len(kase.loIdx) <= kase.n /\ kase.n <= Len(kase.hiIdx)
                  /\ SeqToSet(kase.loIdx) \subseteq SeqToSet(kase.hiIdx)
                  /\ \A k \in 1..kase.cols : k \notin SeqToSet(kase.hiIdx) =>
                          \A j \in SeqToSet(kase.hiIdx) : kase.sg[j] <= kase.sg[k]
                  /\ \A j \in SeqToSet(kase.hiIdx) \ SeqToSet(kase.loIdx) : kase.sg[j] = kase.tau   \* free choice only inside ONE group of equal values
                  /\ \A j \in SeqToSet(kase.loIdx) : kase.sg[j] < kase.tau
                  \* A_k agrees with A on its k dominant right singular vectors and kills the others
                  /\ \A j \in 1..kase.cols :
                        LET w == Cols(kase.Qw, <<j>>)
                        IN  IF j \in SeqToSet(kase.topk) THEN XMul(kase.Ak, w) = XMul(kase.A, w) ELSE MIsZero(XMul(kase.Ak, w))
                  /\ \A j \in 1..Min(kase.rows, kase.cols) : j \notin SeqToSet(kase.topk) =>
                        \A t \in SeqToSet(kase.topk) : kase.c[j] < kase.c[t]
\* the selectors are total on their documented domain (0 <= n <= cols, 1 <= k <= rank)
SelectorsTotal == IsSvd => kase.lrsvStatus = "ok" /\ kase.pcmStatus = "ok"

(* --------------------------------------------------------------- relation families --- *)
\* full-rank rows x cols matrix: the leading p x p block is L U with unit lower L and an upper
\* U with non-zero diagonal; the remaining rows / columns are arbitrary.
FullRank(s, off, m, nc, real) ==
    LET p  == Min(m, nc)
        X  == GMat(s, off, m, nc, Alpha, real)
        L  == Fix([i \in 1..p |-> [j \in 1..p |-> IF i = j THEN GOne ELSE IF i > j THEN X[i][j] ELSE GZero]])
        dg(i) == IF GIsZero(X[i][i]) THEN (IF real THEN Gi(2) ELSE G(1, 1)) ELSE X[i][i]
        U  == Fix([i \in 1..p |-> [j \in 1..p |-> IF i = j THEN dg(i) ELSE IF i < j THEN X[i][j] ELSE GZero]])
        F  == XMul(L, U)
    IN  [A |-> Fix([i \in 1..m |-> [j \in 1..nc |-> IF i <= p /\ j <= p THEN F[i][j] ELSE X[i][j]]]),
         diag2 |-> TLCEval([i \in 1..p |-> GAbs2(dg(i))[1]])]

\* every third gmd case: A = Qu[:, :p] diag(c) Qw[:, :p]^H with weights in 1..3, i.e. REPEATED singular
\* values c_k nuU nuW (the branch of the algorithm that decides on sigma_k >= sigma_bar sees equalities)
GmdKnown(id) ==
    LET sh == ShapeOf(id)  m == sh[1]  nc == sh[2]  p == Min(m, nc)
        s  == Stream(id, 2 * m + 2 * nc + p + 4)
        o  == 2 * m + 2 * nc
        real == Pick(s[o + 1], 3) = 0
        w0 == GMat(s, 0, m, 1, 1, real)
        w1 == GMat(s, 2 * m, nc, 1, 1, real)
        vu == IF Nnz(w0) < Min(2, m) THEN Fix([i \in 1..m |-> <<GOne>>]) ELSE w0
        vw == IF Nnz(w1) < Min(2, nc) THEN Fix([i \in 1..nc |-> <<GOne>>]) ELSE w1
        Qu == HouseBasis(vu, SPermOf(s[o + 2], m))
        Qw == HouseBasis(vw, SPermOf(s[o + 3], nc))
        c  == [k \in 1..p |-> 1 + Pick(s[o + 3 + k], 3)]
        js == [k \in 1..p |-> k]
    IN  [valid |-> TRUE, kind |-> "gmd", id |-> id, sc |-> ScaleOf(id), p |-> p, gm2p |-> <<>>, diag2 |-> [k \in 1..p |-> 1],
         A |-> XMul(XMul(Cols(Qu, js), DiagMat(c)), XHerm(Cols(Qw, js))),
         sv |-> [k \in 1..p |-> c[k] * IntFrob(vu) * IntFrob(vw)],
         req |-> {"Reconstructs", "UnitaryQ", "UnitaryP", "UpperTriangularR", "ConstantDiagonalGeoMean", "InputsUntouched"}]

GmdRec(id) ==
    LET sh == ShapeOf(id)  m == sh[1]  nc == sh[2]  p == Min(m, nc)
        s  == Stream(id, 2 * m * nc + 1)
        real == Pick(s[Len(s)], 3) = 0
        fr == FullRank(s, 0, m, nc, real)
        A  == fr.A
        \* prod sigma_i^2 = det(A^H A) (tall) = det(A A^H) (wide); for square A it is prod |u_ii|^2
        gm == IF m = nc THEN <<ProdInts(fr.diag2)>>
              ELSE IF p <= 3 THEN <<MDet(IF m > nc THEN XMul(XHerm(A), A) ELSE XMul(A, XHerm(A)))[1]>>
              ELSE <<>>
    IN  [valid |-> TRUE, kind |-> "gmd", id |-> id, sc |-> ScaleOf(id), A |-> A, p |-> p, gm2p |-> gm, diag2 |-> fr.diag2, sv |-> <<>>,
         req |-> {"Reconstructs", "UnitaryQ", "UnitaryP", "UpperTriangularR", "ConstantDiagonalGeoMean", "InputsUntouched"}]
Gmd == /\ Kind = "gmd" /\ kase = None
       /\ \E id \in Lo..Hi : kase' = IF id % 3 = 2 THEN GmdKnown(id) ELSE GmdRec(id)
IsGmd == kase.kind = "gmd"
\* the geometric mean is well defined: all singular values are non-zero
GmdFullRank == IsGmd => /\ \A i \in 1..kase.p : kase.diag2[i] > 0
                        /\ (kase.gm2p # <<>> => kase.gm2p[1] > 0)
                        /\ \A k \in 1..Len(kase.sv) : kase.sv[k] > 0
                        /\ (kase.sv = <<>> /\ MRows(kase.A) = MCols(kase.A) /\ kase.p <= 4 =>
                                GAbs2(MDet(kase.A)) = R(kase.gm2p[1]))

\* leading principal minors (Sylvester) of a Hermitian matrix
LeadMinor(C, k) == MDet(Fix(MBlock(C, 1, k, 1, k)))
WhitenRec(id) ==
    LET sh == ShapeOf(id)  m == sh[1]  n == sh[2]
        s  == Stream(id, 2 * m * n + 1)
        real == Pick(s[Len(s)], 3) = 0
        A  == FullRank(s, 0, m, n, real).A                \* rank(A) = min(m, n) by construction
        C  == XAdd(XMul(XHerm(A), A), IDiag(n, 1))
        \* eigenvalue 1 of C has multiplicity n - rank(A) = n - min(m, n): repeated iff n - m >= 2
        degenerate == n - m >= 2
        white == WhitenOutcome(m, n)
    IN  [valid |-> TRUE, kind |-> "whiten", id |-> id, sc |-> ScaleOf(id), C |-> C, n |-> n, rowsA |-> m,
         detC |-> IF n <= 4 THEN <<MDet(C)[1]>> ELSE <<>>, degenerate |-> degenerate, white |-> white,
         req |-> {"WhCWIsIdentity", "DetWSquaredTimesDetCIsOne"}]
Whiten == /\ Kind = "whiten" /\ kase = None
          /\ \E id \in Lo..Hi : kase' = WhitenRec(id)
IsWhiten == kase.kind = "whiten"
\* C is Hermitian positive definite.  For n <= 4 TLC checks Sylvester's criterion; in general
\* x^H C x = |A x|^2 + |x|^2 > 0 for x # 0 by construction.
WhitenInputIsHPD == IsWhiten => /\ kase.C = XHerm(kase.C) /\ IsGInt(kase.C)
                                /\ (kase.n <= 4 => \A k \in 1..kase.n : LET d == LeadMinor(kase.C, k) IN d[1] > 0 /\ d[2] = 0)
                                /\ \A i \in 1..kase.n : kase.C[i][i][1] >= 1
Whitens == IsWhiten => kase.white

EigRelRec(id) ==
    LET sh == ShapeOf(id)  m == sh[1]  N == sh[2]
        s  == Stream(id, 2 * m * N + 3)
        real == Pick(s[Len(s)], 3) = 0
        A  == FullRank(s, 0, m, N, real).A
        H  == XAdd(XMul(XHerm(A), A), IDiag(N, 1))
    IN  [valid |-> TRUE, kind |-> "eigrel", id |-> id, sc |-> ScaleOf(id), H |-> H, n |-> 1 + Pick(s[Len(s) - 1], N), tr |-> MTrace(H)[1],
         req |-> {"EigenEquation", "DominantValuesInOrder", "LeastValuesInOrder", "UnitColumns", "TraceWhenAll"}]
EigRel == /\ Kind = "eigrel" /\ kase = None
          /\ \E id \in Lo..Hi : kase' = EigRelRec(id)
IsEigRel == kase.kind = "eigrel"
EigRelInput == IsEigRel => kase.H = XHerm(kase.H) /\ kase.tr >= MRows(kase.H) /\ kase.n \in 1..MRows(kase.H)

(* ------------------------------------------------------------------------ machine --- *)
Next == Proj \/ ProjHistPick \/ ProjHistStep \/ Chord \/ ChordX \/ SmwPick \/ SmwStep \/ Conv \/ Eb \/ Eig \/ Svd \/ Gmd \/ Whiten \/ EigRel

\* ACTION_CONSTRAINT: print the case reached by this step (with all expected observables)
Emit == EmitCase(kase')
=============================================================================
