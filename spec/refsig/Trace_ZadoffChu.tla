-------------------------- MODULE Trace_ZadoffChu --------------------------
(* C18, stage T: calls RECORDED on the real pyphysim functions / classes with random arguments
   that the case families of ZadoffChu.tla do not enumerate (any odd length up to 1199, every size
   25..1200 with a random root, negative cyclic shifts, extensions up to four base lengths) are
   validated against the machine of ZadoffChu.tla.

   The recorder turns every complex element into an exact integer: a value of modulus 1 is
   logged as its phase exponent t on the grid exp(-j pi t / M) (M = N for root sequences,
   M = N D for user sequences; -1 = modulus is not 1, -2 = not on the grid), get_extended_ZF
   is run on the integer labels 0..N-1 so that its output IS the source index of every position.

   All traces are validated in ONE run: `tid` is chosen in Init, `pos` walks through the events
   of the trace, `mismatch` keeps the first event that does not conform (trace, event, field).
   Every event also becomes a case record `c` of the same shape the families produce, so all
   invariants of ZadoffChu.tla are evaluated on recorded calls as well.

   Trace file (JSON): [ [ event, ... ], ... ] with
     {op:"zc",   n, u, q, e:[..]}                   calcBaseZC(n, u, q)
     {op:"ext",  n, size, src:[..]}                 get_extended_ZF(arange(n), size)
     {op:"root", size, u, given, nzc, len, e:[..]}  RootSequence(u, size[, Nzc = given]): .Nzc, .size, seq_array()
                                                    (recorder field omit: the call was RootSequence(u, Nzc = given), size := given)
     {op:"root-args", size, given, u, out, nzc, len} constructor with size / Nzc omitted (0) or inconsistent: accepted or AttributeError
     {op:"ue",   fam, size, u, ncs, cover, normalize, nzc, norm2, t:[[..] per cover row]}      *)
EXTENDS ZadoffChu, IOUtils

CONSTANT HeavyMax    \* recorded calcBaseZC calls with prime n <= HeavyMax also get the CAZAC invariants

Traces == JsonDeserialize(IOEnv.TRACE_FILE)

VARIABLES tid, pos, mismatch
tvars == <<c, tid, pos, mismatch>>
T == Traces[tid]

TInit == /\ c = [kind |-> "init"] /\ tid \in 1..Len(Traces) /\ pos = 0 /\ mismatch = <<>>

DenOf(fam) == IF fam = "srs" THEN 8 ELSE 12
\* exponent of a user-sequence element on the grid exp(-j pi t / (N D)):
\*   exp(-j pi e / N) exp(+j 2 pi r / D) (+-1) = exp(-j pi (e D - 2 N r [+ N D]) / (N D))
UeGrid(N, D, e, r, sign) == (e * D - 2 * N * r + (IF sign < 0 THEN N * D ELSE 0)) % (2 * N * D)

\* the machine's answer for one logged call: the case record and the values to compare
Machine(ev) ==
  CASE ev.op = "zc" ->
         LET e == ZcSeqQ(ev.n, ev.u, ev.q)
         IN [case |-> [kind |-> IF ev.n <= HeavyMax /\ ev.n % 2 = 1 THEN "zc" ELSE "zc-long",
                       n |-> ev.n, u |-> ev.u, e |-> e],
             cmp |-> << <<"sequence", ev.e, e>> >>]
    [] ev.op = "ext" ->
         LET src == [i \in 1..ev.size |-> ExtSrc(ev.n, i - 1)]
         IN [case |-> [kind |-> "ext", n |-> ev.n, u |-> 1, size |-> ev.size,
                       e |-> ExtSeq(ZcSeq(ev.n, 1), ev.size)],
             cmp |-> << <<"length", Len(ev.src), ev.size>>, <<"source index", ev.src, src>> >>]
    [] ev.op = "root" ->
         \* RootSequence(u, size, Nzc = given) skips the table (given = 0: not given)
         LET nzc == IF ev.given > 0 THEN ev.given ELSE TablePick(ev.size)
             e   == ExtSeq(ZcSeq(nzc, ev.u), ev.size)
         IN [case |-> [kind |-> IF ev.given > 0 THEN "root-explicit" ELSE "root",
                       size |-> ev.size, u |-> ev.u, nzc |-> nzc,
                       idx |-> [i \in 1..ev.size |-> i - 1], e |-> e,
                       full |-> TRUE, lags |-> <<1, 1 + (ev.u % (nzc - 1))>>, req |-> {}],
             cmp |-> << <<"Nzc", ev.nzc, nzc>>, <<"size", ev.len, ev.size>>, <<"sequence", ev.e, e>> >>]
    [] ev.op = "root-args" ->
         \* the constructor's argument rule: size and / or Nzc (0 = omitted); at least one of them, and size >= Nzc
         LET ok   == (ev.size > 0 \/ ev.given > 0) /\ (ev.size = 0 \/ ev.given = 0 \/ ev.size >= ev.given)
             size == IF ev.size = 0 THEN ev.given ELSE ev.size
             nzc  == IF ev.given > 0 THEN ev.given ELSE IF ev.size > 0 THEN TablePick(ev.size) ELSE 0
         IN [case |-> [kind |-> "root-args", size |-> ev.size, given |-> ev.given, accepted |-> ok],
             cmp |-> IF ok THEN << <<"outcome", ev.out, "ok">>, <<"Nzc", ev.nzc, nzc>>, <<"size", ev.len, size>> >>
                     ELSE << <<"outcome", ev.out, "AttributeError">> >>]
    [] ev.op = "ue" ->
         LET D    == DenOf(ev.fam)
             nzc  == TablePick(ev.size)
             e    == ExtSeq(ZcSeq(nzc, ev.u), ev.size)
             ramp == Ramp(ev.ncs, D, ev.size)
             rows == IF ev.cover = <<>> THEN <<1>> ELSE ev.cover
             t    == [r \in 1..Len(rows) |-> [i \in 1..ev.size |-> UeGrid(nzc, D, e[i], ramp[i], rows[r])]]
         IN [case |-> [kind |-> "ue", fam |-> ev.fam, size |-> ev.size, u |-> ev.u, nzc |-> nzc, ncs |-> ev.ncs,
                       den |-> D, rden |-> RampDen(D), cover |-> ev.cover, normalize |-> ev.normalize,
                       norm2 |-> IF ev.normalize THEN ev.size ELSE 1, e |-> e, ramp |-> ramp],
             cmp |-> << <<"Nzc", ev.nzc, nzc>>, <<"norm", ev.norm2, IF ev.normalize THEN ev.size ELSE 1>>,
                        <<"sequence", ev.t, t>> >>]

RECURSIVE FirstBad(_, _)
FirstBad(cmp, k) == IF k > Len(cmp) THEN <<>>
                    ELSE IF cmp[k][2] # cmp[k][3] THEN <<tid, pos + 1, cmp[k][1]>>
                    ELSE FirstBad(cmp, k + 1)

\* (no LET around the primed conjuncts: TLC would re-evaluate it at every use)
TStep == /\ pos < Len(T)
         /\ c' = Machine(T[pos + 1]).case
         /\ mismatch' = IF mismatch # <<>> THEN mismatch ELSE FirstBad(Machine(T[pos + 1]).cmp, 1)
         /\ pos' = pos + 1 /\ UNCHANGED tid
TDone == pos = Len(T) /\ UNCHANGED tvars
TNext == TStep \/ TDone

Conforms == mismatch = <<>>
=============================================================================
